(* InvC01Late - owed plugin returns (overrun), fresh blocks, and what the block relation says about a block the
   monitor has not reached / has left. *)
From Coq Require Import Lia.
From Coercion.Base Require Import Plan.
From Coercion.Engine Require Import Shape Event Action ChecksRun Seq Block Final PlanSM Auto Accept AutoLemmas.
From Coercion.C01 Require Import MonC01 InvC01 InvC01Scope InvC01Block.

(* RB depends on the owed returns only through those of the block's sequences *)
Lemma RB_late_ext sh cb late late' b k :
  (forall s, owed_of late' cb s = owed_of late cb s) -> RB sh cb late b k -> RB sh cb late' b k.
Proof.
  intros E [Hs Hq Ho Hqu]. split; auto.
  - intros s q Hn. destruct (Hq s q Hn) as (mq & H1 & H2). exists mq. now rewrite E.
  - intros s Hn. rewrite E. auto.
Qed.

Lemma RB_stale sh cb late b k :
  RB sh cb late b k -> forall s, late_ok (owed_of late cb s) (nth_error (k_seqs k) s).
Proof.
  intros [_ Hq Ho _] s. destruct (nth_error (b_seqs b) s) as [q|] eqn:E.
  - destruct (Hq s q E) as (mq & -> & H2). eapply rel_seq_late_ok; eauto.
  - rewrite (Ho s E). exact I.
Qed.

(* the overrun return of an attempt the engine had timed out, sequence s of the current block *)
Lemma RB_late_end sh cb late b k s i l' :
  RB sh cb late b k -> remove_one (ASeq cb s i) late = Some l' ->
  exists mq mq', nth_error (k_seqs k) s = Some mq /\ q_end (seq_rs sh cb s) mq i OOverrun = Some mq'
                 /\ RB sh cb l' b (k_with_seq k s mq').
Proof.
  intros HB Hr. pose proof HB as [Hs Hq Ho Hqu].
  assert (Hin : In i (owed_of late cb s)) by (apply owed_of_in; eapply remove_one_in; eauto).
  destruct (nth_error (b_seqs b) s) as [q|] eqn:En; [|rewrite (Ho s En) in Hin; contradiction].
  destruct (Hq s q En) as (mq & H1 & H2). unfold rel_seq in H2.
  destruct (owed_of late cb s) as [|j [|]] eqn:Eo; try contradiction.
  destruct H2 as (k0 & -> & Habs).
  destruct (owed_single_removed _ _ _ _ _ _ Hr Eo) as [<- El'].
  exists (QFly i k0), (q_after (seq_rs sh cb s) i k0 OOverrun). split; auto. split; [simpl; now rewrite Nat.eqb_refl|].
  assert (Hoth : forall s', s' <> s -> owed_of l' cb s' = owed_of late cb s').
  { intros s' Hne. eapply owed_of_remove_other; eauto. apply owed_one_other. intro E. injection E as E. auto. }
  assert (Hlen : s < length (k_seqs k)) by (eapply nth_error_some_lt; eauto).
  split; simpl; auto.
  - intros s' x Hx. destruct (Nat.eq_dec s s') as [<-|Hne].
    + rewrite nth_upd_same by assumption. exists (q_after (seq_rs sh cb s) i k0 OOverrun). split; auto.
      rewrite El'. simpl. rewrite En in Hx. injection Hx as <-. exact Habs.
    + rewrite nth_upd_other by assumption. destruct (Hq s' x Hx) as (mq & M1 & M2). exists mq. split; auto.
      rewrite Hoth by auto. exact M2.
  - intros s' Hx. destruct (Nat.eq_dec s s') as [<-|Hne]; [congruence|]. rewrite Hoth by auto. auto.
Qed.

(* the same in a block the automaton has left but the monitor has not (no plugin event of a later block yet) *)
Lemma stale_end rs late b seqs s i l' :
  (forall s', late_ok (owed_of late b s') (nth_error seqs s')) ->
  remove_one (ASeq b s i) late = Some l' ->
  exists mq mq', nth_error seqs s = Some mq /\ q_end rs mq i OOverrun = Some mq'
                 /\ forall s', late_ok (owed_of l' b s') (nth_error (upd seqs s mq') s').
Proof.
  intros HL Hr.
  assert (Hin : In i (owed_of late b s)) by (apply owed_of_in; eapply remove_one_in; eauto).
  pose proof (HL s) as Hs. unfold late_ok in Hs.
  destruct (owed_of late b s) as [|j [|]] eqn:Eo; try contradiction.
  destruct Hs as (k0 & Hn).
  destruct (owed_single_removed _ _ _ _ _ _ Hr Eo) as [<- El'].
  exists (QFly i k0), (q_after rs i k0 OOverrun). split; auto. split; [simpl; now rewrite Nat.eqb_refl|].
  intros s'. destruct (Nat.eq_dec s s') as [<-|Hne].
  - rewrite El'. exact I.
  - rewrite nth_upd_other by assumption.
    replace (owed_of l' b s') with (owed_of late b s'); auto.
    symmetry. eapply owed_of_remove_other; eauto. apply owed_one_other. intro E. injection E as E. auto.
Qed.

(* ---- a block just entered ---- *)
Lemma RS_fresh npre ncont hpost hdef : RS 0 npre ncont hpost hdef [] [] 0 gtab0.
Proof.
  split.
  - intro g. destruct g; simpl; auto; discriminate.
  - unfold tail_ok. lia.
  - discriminate.
Qed.

Lemma RB_fresh sh cb late bs :
  block_of sh cb = Some bs -> (forall s, owed_of late cb s = []) -> RB sh cb late (b_init bs) (fresh sh cb).
Proof.
  intros Hbs Hl. split; simpl.
  - apply RS_fresh.
  - intros s q Hn. apply nth_repeat in Hn as Hq. subst q. exists (QReady 0 0). split.
    + apply nth_repeat_lt. apply nth_error_some_lt in Hn. rewrite repeat_length in Hn. unfold nseqs. now rewrite Hbs.
    + rewrite Hl. reflexivity.
  - intros s _. apply Hl.
  - intros _ s q Hn. apply nth_repeat in Hn. now subst q.
Qed.

Lemma RB_none sh cb late k :
  (forall s, owed_of late cb s = []) -> k_tail k = 0 -> k_pre k = [] -> k_cont k = [] -> RB sh cb late b_none k.
Proof.
  intros Hl E1 E2 E3. split; simpl.
  - rewrite E1, E2, E3. apply RS_fresh.
  - intros s q Hn. destruct s; discriminate.
  - intros s _. apply Hl.
  - intros _ s q Hn. destruct s; discriminate.
Qed.
