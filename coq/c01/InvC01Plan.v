(* InvC01Plan - the plan level: helpers to rebuild the relation RP, and the epsilon-moves of PlanSM.v. *)
From Coq Require Import Lia.
From Coercion.Base Require Import Plan.
From Coercion.Engine Require Import Shape Event Action ChecksRun Seq Block Final PlanSM Auto Accept AutoLemmas.
From Coercion.C01 Require Import MonC01 InvC01 InvC01Scope InvC01Block InvC01Eps InvC01Late.

Lemma has_plan sh g : has sh SPlan g = present (grp_get (sh_groups sh) g).
Proof. unfold has, group_of, scope_groups. now destruct (grp_get (sh_groups sh) g). Qed.

Lemma nacts_plan sh g rs : grp_get (sh_groups sh) g = Some rs -> nacts sh SPlan g = length rs.
Proof. intro H. unfold nacts, group_of, scope_groups. now rewrite H. Qed.

Lemma nacts_plan_absent sh g : grp_get (sh_groups sh) g = None -> nacts sh SPlan g = 0.
Proof. intro H. unfold nacts, group_of, scope_groups. now rewrite H. Qed.

Lemma view_eq sh m m' b : m_cur m' = m_cur m -> m_blk m' = m_blk m -> view sh m' b = view sh m b.
Proof. intros E1 E2. unfold view. now rewrite E1, E2. Qed.

(* only the plan's own scope changes (phase, groups, thread; the monitor's plan tail and gate lists) *)
Lemma RP_scope sh ph g th cb b late m ph' g' th' m' :
  RP sh ph g th cb b late m ->
  m_cur m' = m_cur m -> m_blk m' = m_blk m ->
  RS (pphase_code ph') (nacts sh SPlan GPre) (nacts sh SPlan GCont) (has sh SPlan GPost) (has sh SPlan GDeferred)
     (m_ppre m') (m_pcont m') (m_ptail m') g' ->
  (thr_live th' = true -> g_is_idle (t_post g') = true) ->
  (pphase_code ph' < 3 -> pphase_code ph < 3) ->
  RP sh ph' g' th' cb b late m'.
Proof.
  intros [H1 H2 H3 H4 H5 H6 H7] E1 E2 HS Ht He. split; auto.
  - now rewrite E1.
  - now rewrite (view_eq sh m m' cb E1 E2).
  - rewrite E1, E2. exact H5.
  - intro Hc. rewrite E1, E2. auto.
Qed.

(* the monitor is positioned at the automaton's current block: that block's state and the owed returns change *)
Lemma RP_block sh ph g th cb b late m b' late' m' :
  RP sh ph g th cb b late m -> 3 <= pphase_code ph ->
  m_cur m' = cb -> m_ptail m' = m_ptail m -> m_ppre m' = m_ppre m -> m_pcont m' = m_pcont m ->
  RB sh cb late' b' (m_blk m') ->
  (forall b'' s, cb < b'' -> owed_of late' b'' s = []) ->
  RP sh ph g th cb b' late' m'.
Proof.
  intros [H1 H2 H3 H4 H5 H6 H7] Hc E1 E2 E3 E4 HB Ha. split; auto.
  - now rewrite E2, E3, E4.
  - lia.
  - rewrite <- E1. rewrite view_cur. rewrite E1. exact HB.
  - lia.
  - lia.
Qed.

(* the monitor does not move; the automaton's current block and the owed returns change *)
Lemma RP_silent sh ph g th cb b late m b' late' :
  RP sh ph g th cb b late m -> 3 <= pphase_code ph ->
  RB sh cb late' b' (view sh m cb) ->
  (forall b'' s, b'' <> cb -> owed_of late' b'' s = owed_of late b'' s) ->
  RP sh ph g th cb b' late' m.
Proof.
  intros [H1 H2 H3 H4 H5 H6 H7] Hc HB Ho. split; auto.
  - intros Hlt s. rewrite Ho by lia. auto.
  - intros b'' s Hlt. rewrite Ho by lia. auto.
  - lia.
Qed.

(* the owed returns change, but not those of any sequence *)
Lemma RP_late_all sh ph g th cb b late m late' :
  (forall b' s, owed_of late' b' s = owed_of late b' s) -> RP sh ph g th cb b late m -> RP sh ph g th cb b late' m.
Proof.
  intros E [H1 H2 H3 H4 H5 H6 H7]. split; auto.
  - apply (RB_late_ext sh cb late late'); [intro s; apply E | exact H4].
  - intros Hlt s. rewrite E. auto.
  - intros b' s Hlt. rewrite E. auto.
  - intro Hc. destruct (H7 Hc) as (A1 & A2 & A3 & A4 & A5). repeat split; auto. intros b' s. rewrite E. auto.
Qed.

(* in the phases before the blocks no return of a sequence action is owed *)
Lemma RP_owed_phase sh ph g th cb b late m b' s i :
  RP sh ph g th cb b late m -> In (ASeq b' s i) late -> 3 <= pphase_code ph.
Proof.
  intros HR Hin. destruct (Nat.lt_ge_cases (pphase_code ph) 3) as [Hlt|]; auto.
  destruct (rp_early _ _ _ _ _ _ _ _ HR Hlt) as (_ & _ & _ & _ & A5).
  apply owed_of_in in Hin. rewrite A5 in Hin. contradiction.
Qed.

(* the owed returns change, but not those of the automaton's block, of the monitor's block, of later blocks *)
Lemma RP_late_some sh ph g th cb b late m late' :
  3 <= pphase_code ph ->
  (forall b' s, b' = cb \/ b' = m_cur m \/ cb < b' -> owed_of late' b' s = owed_of late b' s) ->
  RP sh ph g th cb b late m -> RP sh ph g th cb b late' m.
Proof.
  intros Hc E [H1 H2 H3 H4 H5 H6 H7]. split; auto.
  - apply (RB_late_ext sh cb late late'); [intro s; apply E; auto | exact H4].
  - intros Hlt s. rewrite E by auto. auto.
  - intros b' s Hlt. rewrite E by auto. auto.
  - lia.
Qed.

(* an owed return arrives for the block the monitor is still in, which the automaton has left *)
Lemma RP_stale_upd sh ph g th cb b late m late' seqs' :
  3 <= pphase_code ph -> m_cur m < cb ->
  (forall b' s, b' <> m_cur m -> owed_of late' b' s = owed_of late b' s) ->
  (forall s, late_ok (owed_of late' (m_cur m) s) (nth_error seqs' s)) ->
  RP sh ph g th cb b late m ->
  RP sh ph g th cb b late' (with_blk m {| k_seqs := seqs'; k_tail := k_tail (m_blk m); k_pre := k_pre (m_blk m); k_cont := k_cont (m_blk m) |}).
Proof.
  intros Hc Hlt E HL [H1 H2 H3 H4 H5 H6 H7]. split; simpl; auto.
  - match goal with |- RB _ _ _ _ ?v => assert (V : v = view sh m cb) end.
    { unfold view. simpl. destruct (Nat.eqb cb (m_cur m)) eqn:E'; [apply Nat.eqb_eq in E'; lia | reflexivity]. }
    rewrite V. apply (RB_late_ext sh cb late late'); [intro s; apply E; lia | exact H4].
  - intros b' s Hb. rewrite E by lia. auto.
  - lia.
Qed.

Lemma RP_tail0 sh ph g th cb b late m : RP sh ph g th cb b late m -> pphase_code ph = 3 -> m_ptail m = 0.
Proof. intros [[_ (T0 & T1 & T2) _] _ _ _ _ _ _] E. rewrite E in *. lia. Qed.

Lemma RP_pass sh ph g th cb b late m :
  RP sh ph g th cb b late m -> pphase_code ph = 3 -> plan_gates_ok sh m = true.
Proof.
  intros [[_ _ P] _ _ _ _ _ _] E. destruct (P E) as [P1 P2]. unfold plan_gates_ok. now rewrite P1, P2.
Qed.

(* ---- entering a block ---- *)
Lemma RB_enter sh cb late m :
  m_cur m < cb -> (forall s, owed_of late cb s = []) ->
  RB sh cb late (s_b (enter_block sh init cb)) (view sh m cb).
Proof.
  intros Hlt Hl. rewrite view_ahead by assumption. unfold enter_block. destruct (block_of sh cb) as [bs|] eqn:E; simpl.
  - now apply RB_fresh.
  - now apply RB_none.
Qed.

Lemma enter_block_b sh s cb : s_b (enter_block sh s cb) = s_b (enter_block sh init cb).
Proof. unfold enter_block. now destruct (block_of sh cb). Qed.

Lemma enter_block_fields sh s cb :
  s_ph (enter_block sh s cb) = s_ph s /\ s_g (enter_block sh s cb) = s_g s /\ s_thr (enter_block sh s cb) = s_thr s
  /\ s_cb (enter_block sh s cb) = cb /\ s_late (enter_block sh s cb) = s_late s.
Proof. unfold enter_block. destruct (block_of sh cb); simpl; auto. Qed.

Ltac penter HS := eapply (RS_enter _ _ _ _ _ _ _ _ _ _ _ HS); [simpl; lia | simpl; auto | simpl; auto | simpl; auto | simpl; auto | simpl; try discriminate].

Ltac pscope HR := eapply (RP_scope _ _ _ _ _ _ _ _ _ _ _ _ HR eq_refl eq_refl); [ | simpl; auto; try (intro; congruence) | simpl; try lia; try discriminate ].

Lemma eps_R sh s m s1 : R sh s m -> eps sh s = Some s1 -> R sh s1 m.
Proof.
  unfold R, eps, p_eps. intros HR H. pose proof HR as [HS Hthr Hcur Hblk Hst Hah Hea].
  destruct (s_ph s) eqn:Eph; simpl in HS.
  - (* PStart *)
    assert (Hpo : g_is_idle (t_post (s_g s)) = true) by (eapply RS_post_idle; eauto).
    assert (Hde : g_is_idle (t_deferred (s_g s)) = true) by (eapply RS_deferred_idle; eauto).
    case_if H. injection H as <-. simpl. pscope HR; penter HS.
  - (* PBypass *)
    assert (Hpo : g_is_idle (t_post (s_g s)) = true) by (eapply RS_post_idle; eauto).
    assert (Hde : g_is_idle (t_deferred (s_g s)) = true) by (eapply RS_deferred_idle; eauto).
    destruct (g_bypass (sh_groups sh)).
    + destruct (once_done true (t_bypass (s_g s)) (ist (s_img s) (OChecks SPlan GBypass))) as [[x [|]]|]; try discriminate;
        injection H as <-; simpl; (pscope HR; penter HS).
    + injection H as <-. simpl. pscope HR; penter HS.
  - (* PPre *)
    assert (Hpo : g_is_idle (t_post (s_g s)) = true) by (eapply RS_post_idle; eauto).
    assert (Hde : g_is_idle (t_deferred (s_g s)) = true) by (eapply RS_deferred_idle; eauto).
    destruct (once_done (present (g_pre (sh_groups sh))) (t_pre (s_g s)) (ist (s_img s) (OChecks SPlan GPre)))
      as [[x v1]|] eqn:E1; [|discriminate].
    destruct (once_done (present (g_cont (sh_groups sh))) (t_cont (s_g s)) (ist (s_img s) (OChecks SPlan GCont)))
      as [[y v2]|] eqn:E2; [|discriminate].
    destruct (once_done_spec _ _ _ _ _ E1) as (X1 & _ & _).
    destruct (once_done_spec _ _ _ _ _ E2) as (Y1 & _ & _).
    pose proof (rs_grp _ _ _ _ _ _ _ _ _ HS GPre) as Gp. pose proof (rs_grp _ _ _ _ _ _ _ _ _ HS GCont) as Gc.
    simpl in Gp, Gc.
    destruct (v1 && v2) eqn:Ev; injection H as <-.
    + (* the blocks begin *)
      apply andb_true_iff in Ev as [-> ->].
      destruct (Hea ltac:(simpl; lia)) as (C0 & Cf & Ccb & Cb & Cl).
      cbn [s_ph s_g s_thr s_cb s_b s_late with_ph].
      match goal with |- context [enter_block sh ?X 0] => destruct (enter_block_fields sh X 0) as (F1 & F2 & F3 & F4 & F5) end.
      rewrite F2, F3, F4, F5, enter_block_b.
      cbn [s_ph s_g s_thr s_cb s_b s_late with_thr with_g]. split; cbn [pphase_code].
      * penter HS. intros _. split.
        -- apply (gate_pass _ _ _ _ _ _ E1 Gp). apply (nacts_plan_absent sh GPre).
        -- apply (gate_pass _ _ _ _ _ _ E2 Gc). apply (nacts_plan_absent sh GCont).
      * auto.
      * lia.
      * rewrite <- C0, view_cur, Cf, C0. unfold enter_block. destruct (block_of sh 0) as [bs|] eqn:Eb; simpl.
        -- apply RB_fresh; auto.
        -- apply RB_none; auto.
      * lia.
      * intros b' s' _. apply Cl.
      * lia.
    + simpl. pscope HR; penter HS.
  - (* PBlocks *)
    assert (Hpo : g_is_idle (t_post (s_g s)) = true) by (eapply RS_post_idle; eauto).
    assert (Hde : g_is_idle (t_deferred (s_g s)) = true) by (eapply RS_deferred_idle; eauto).
    destruct (block_of sh (s_cb s)) as [bs|] eqn:Eb.
    + destruct (b_eps bs (s_img s) (s_cb s) (p_visible s) (s_b s)) as [[b'|[|]]|] eqn:Ee; try discriminate; injection H as <-.
      * (* the block goes on *)
        simpl. rewrite Eph. eapply RP_silent; eauto. eapply RB_eps; eauto.
      * (* failed block *)
        simpl. pscope HR; penter HS.
      * (* next block *)
        destruct (enter_block_fields sh s (S (s_cb s))) as (F1 & F2 & F3 & F4 & F5).
        rewrite F1, F2, F3, F4, F5, enter_block_b, Eph. split; auto.
        -- apply RB_enter; [lia|]. intro s0. apply Hah. lia.
        -- intros Hlt s0. destruct (Nat.eq_dec (m_cur m) (s_cb s)) as [E|E].
           ++ rewrite E, <- (view_cur sh m), E. eapply RB_stale; eauto.
           ++ apply Hst. lia.
        -- intros b' s0 Hlt. apply Hah. lia.
        -- simpl. lia.
    + injection H as <-. simpl. pscope HR; penter HS.
  - (* PPost *)
    assert (Hde : g_is_idle (t_deferred (s_g s)) = true) by (eapply RS_deferred_idle; eauto).
    destruct (thr_live (s_thr s)) eqn:Et.
    + destruct (g_settle (t_cont (s_g s)) (ist (s_img s) (OChecks SPlan GCont))) as [x|] eqn:Es; [|discriminate].
      injection H as <-. destruct (g_dead x); simpl; rewrite ?Eph.
      * pscope HR. penter HS. intros n l. eapply g_settle_gate; eauto.
      * pscope HR. simpl.
        apply (RS_keep 4 _ _ _ _ _ _ _ (s_g s) GCont x HS).
        -- intros n l. eapply g_settle_gate; eauto.
        -- intro Hx. apply g_settle_idle in Es. congruence.
    + destruct (once_done (present (g_post (sh_groups sh))) (t_post (s_g s)) (ist (s_img s) (OChecks SPlan GPost)))
        as [[x v]|] eqn:E1; [|discriminate].
      injection H as <-. simpl. pscope HR. penter HS.
      destruct (once_done_spec _ _ _ _ _ E1) as (_ & X2 & X3).
      destruct (present (g_post (sh_groups sh))) eqn:Ep.
      * now destruct (X3 eq_refl).
      * rewrite (X2 eq_refl). eapply RS_post_idle; eauto.
  - (* PDeferred *)
    assert (Hpo : g_is_idle (t_post (s_g s)) = true) by (eapply RS_post_idle; eauto).
    destruct (thr_live (s_thr s)) eqn:Et.
    + destruct (g_settle (t_cont (s_g s)) (ist (s_img s) (OChecks SPlan GCont))) as [x|] eqn:Es; [|discriminate].
      injection H as <-. simpl. rewrite ?Eph. pscope HR. simpl.
      apply (RS_keep 5 _ _ _ _ _ _ _ (s_g s) GCont x HS).
      * intros n l. eapply g_settle_gate; eauto.
      * intro Hx. apply g_settle_idle in Es. congruence.
    + destruct (once_done (present (g_deferred (sh_groups sh))) (t_deferred (s_g s)) (ist (s_img s) (OChecks SPlan GDeferred)))
        as [[x v]|] eqn:E1; [|discriminate].
      injection H as <-. simpl. pscope HR. penter HS.
      destruct (once_done_spec _ _ _ _ _ E1) as (_ & X2 & X3).
      destruct (present (g_deferred (sh_groups sh))) eqn:Ep.
      * now destruct (X3 eq_refl).
      * rewrite (X2 eq_refl). eapply RS_deferred_idle; eauto.
  - discriminate.
  - discriminate.
Qed.
