(* MonC01Proofs - every handler of the engine automaton is matched by a step of the C01 monitor that keeps the
   product relation R (InvC01.v); with eps_R (InvC01Plan.v) and the product rule of AutoLemmas.v this gives
   c01_order_and_gates: the monitor holds on every trace the automaton accepts. *)
From Coq Require Import Lia.
From Coercion.Base Require Import Plan.
From Coercion.Engine Require Import Shape Event Action ChecksRun Seq Block Final PlanSM Auto Accept AutoLemmas.
From Coercion.C01 Require Import MonC01 InvC01 InvC01Scope InvC01Block InvC01Eps InvC01Late InvC01Plan.

(* ---- the monitor's own moves ---- *)
Lemma enter_spec sh m b :
  m_ptail m = 0 -> m_cur m <= b ->
  exists m1, enter sh m b = Good m1 /\ m_cur m1 = b /\ m_blk m1 = view sh m b
             /\ m_ptail m1 = m_ptail m /\ m_ppre m1 = m_ppre m /\ m_pcont m1 = m_pcont m.
Proof.
  intros E0 Hle. unfold enter, need. rewrite E0. simpl.
  replace (m_cur m <=? b) with true by (symmetry; now apply Nat.leb_le).
  unfold view. destruct (Nat.eqb b (m_cur m)) eqn:E.
  - apply Nat.eqb_eq in E. exists m. repeat split; auto.
  - exists (at_block sh m b). repeat split; auto.
Qed.

Lemma cur_block_spec sh s b bs :
  cur_block sh s b = Some bs -> s_ph s = PBlocks /\ b = s_cb s /\ block_of sh (s_cb s) = Some bs.
Proof.
  unfold cur_block. destruct (pphase_eqb (s_ph s) PBlocks && Nat.eqb b (s_cb s)) eqn:E; [|discriminate].
  apply andb_true_iff in E as [E1 E2]. apply Nat.eqb_eq in E2. subst b. intro H. repeat split; auto.
  destruct (s_ph s); simpl in E1; congruence.
Qed.

Lemma owes_false l a : owes l a = false -> ~ In a l.
Proof.
  unfold owes. intros H Hin. assert (existsb (aref_eqb a) l = true); [|congruence].
  apply existsb_exists. exists a. split; auto. now apply aref_eqb_eq.
Qed.

(* the plan's continuous thread is live only while its post group has no open run *)
Lemma thr_keep (th : thr) t g x :
  (thr_live th = true -> g_is_idle (t_post t) = true) ->
  (g = GPost -> g_is_idle (tget t g) = false \/ g_is_idle x = true \/ thr_live th = false) ->
  thr_live th = true -> g_is_idle (t_post (tset t g x)) = true.
Proof.
  intros H Hg Hl. destruct g; simpl; auto. destruct (Hg eq_refl) as [Ho|[Ho|Ho]]; auto.
  - simpl in Ho. rewrite (H Hl) in Ho. discriminate.
  - congruence.
Qed.

Lemma note_false_pre g i l : note_pre g i false l = l.
Proof. now destruct g. Qed.
Lemma note_false_cont g i l : note_cont g i false l = l.
Proof. now destruct g. Qed.

Section Handlers.
  Variable sh : shape.
  Notation R := (R sh).

  (* ================================================================== EvStart *)
  Lemma start_R s m a s' : R s m -> h_start sh s a = Some s' -> exists m', on_start sh m a = Good m' /\ R s' m'.
  Proof.
    unfold h_start. intros HR H. destruct (owes (s_late s) a) eqn:Eo; [discriminate|].
    destruct a as [[|b] g i|b q i].
    - (* a check action of the plan *)
      unfold p_chk_start in H.
      destruct (g_start (tget (s_g s) g) i (iget (s_img s) (OAct (AChk SPlan g i)))) as [x|] eqn:Es; [|discriminate].
      injection H as <-. unfold InvC01.R in *. pose proof HR as [HS Hthr _ _ _ _ _].
      destruct (RS_plugin _ _ _ _ _ _ _ _ _ g x i false HS) as (t & Ht & HS').
      + eapply g_start_open; eauto.
      + destruct (tget (s_g s) g); simpl in Es; [discriminate|].
        destruct (nth_error acts i); [|discriminate]. destruct (a_start a _); [|discriminate].
        destruct (acts_marked acts); [|discriminate]. now injection Es as <-.
      + intros n l. eapply g_start_gate; eauto.
      + simpl. unfold plan_chk. rewrite Ht. exists (with_ptail m t). split; auto.
        eapply RP_scope with (1 := HR); [reflexivity|reflexivity|simpl|simpl|auto].
        * rewrite note_false_pre, note_false_cont in HS'. exact HS'.
        * apply thr_keep; auto. intros ->. left. eapply g_start_open; eauto.
    - (* a check action of a block *)
      destruct (cur_block sh s b) as [bs|] eqn:Ec; [|discriminate].
      apply cur_block_spec in Ec as (Eph & -> & Ebs).
      destruct (b_chk_start (s_img s) (s_cb s) (s_b s) g i) as [b'|] eqn:Es; [|discriminate]. injection H as <-.
      unfold InvC01.R in *. rewrite Eph in *.
      destruct (enter_spec sh m (s_cb s) (RP_tail0 _ _ _ _ _ _ _ _ HR eq_refl) (rp_cur _ _ _ _ _ _ _ _ HR))
        as (m1 & Hen & M1 & M2 & M3 & M4 & M5).
      destruct (RB_chk_start _ _ _ _ _ _ _ _ _ (rp_blk _ _ _ _ _ _ _ _ HR) Es) as (t & Ht & HB').
      simpl. unfold block_chk. rewrite Hen. simpl. rewrite M2, Ht.
      eexists. split; [reflexivity|]. simpl. rewrite Eph.
      eapply RP_block; eauto. exact (rp_ahead _ _ _ _ _ _ _ _ HR).
    - (* an action of a sequence *)
      destruct (cur_block sh s b) as [bs|] eqn:Ec; [|discriminate].
      apply cur_block_spec in Ec as (Eph & -> & Ebs).
      destruct (b_act_start (s_img s) (s_cb s) (s_b s) q i) as [b'|] eqn:Es; [|discriminate]. injection H as <-.
      unfold InvC01.R in *. rewrite Eph in *.
      destruct (enter_spec sh m (s_cb s) (RP_tail0 _ _ _ _ _ _ _ _ HR eq_refl) (rp_cur _ _ _ _ _ _ _ _ HR))
        as (m1 & Hen & M1 & M2 & M3 & M4 & M5).
      destruct (RB_act_start _ _ _ _ _ _ _ _ _ (rp_blk _ _ _ _ _ _ _ _ HR) Es (owes_false _ _ Eo))
        as (T0 & P1 & P2 & mq & mq' & Hn & Hq & HB').
      pose proof (RP_pass _ _ _ _ _ _ _ _ HR eq_refl) as PP.
      simpl. rewrite Hen. simpl. unfold need. rewrite M2, T0. simpl.
      assert (G1 : plan_gates_ok sh m1 = true) by (unfold plan_gates_ok in *; now rewrite M4, M5).
      assert (G2 : block_gates_ok sh m1 = true) by (unfold block_gates_ok; now rewrite M1, M2, P1, P2).
      rewrite G1, G2. simpl. rewrite Hn, Hq.
      eexists. split; [reflexivity|]. simpl. rewrite Eph.
      eapply RP_block; eauto. exact (rp_ahead _ _ _ _ _ _ _ _ HR).
  Qed.

  (* ================================================================== EvEnd, taken by a sub-automaton *)
  Lemma end_sub_R s m a o s' :
    R s m -> h_end_sub sh s a o = Some s' -> exists m', on_end sh m a o = Good m' /\ R s' m'.
  Proof.
    unfold h_end_sub. intros HR H. destruct a as [[|b] g i|b q i].
    - (* a check action of the plan *)
      unfold p_chk_end in H.
      destruct (g_end (tget (s_g s) g) i o) as [x|] eqn:Es; [|discriminate].
      injection H as <-. unfold InvC01.R in *. pose proof HR as [HS Hthr _ _ _ _ _].
      assert (Hth : thr_live (s_thr s) = true -> g_is_idle (t_post (tset (s_g s) g x)) = true).
      { apply thr_keep; auto. intros ->. left. eapply g_end_open; eauto. }
      unfold on_end. destruct (is_overrun o) eqn:Eov.
      + (* overrun: the monitor does not move *)
        exists m. split; auto. simpl.
        eapply RP_scope with (1 := HR); [reflexivity|reflexivity| |exact Hth|auto].
        eapply RS_keep; eauto.
        * intros n l Hg. destruct o; try discriminate. exact (g_end_gate n _ _ _ _ l Es Hg).
        * intros _. eapply g_end_open; eauto.
      + destruct (RS_plugin _ _ _ _ _ _ _ _ _ g x i (outcome_ok o) HS) as (t & Ht & HS').
        * eapply g_end_open; eauto.
        * eapply g_end_keeps_open; eauto.
        * intros n l. eapply g_end_gate; eauto.
        * unfold plan_chk. rewrite Ht. simpl.
          eexists. split; [reflexivity|]. simpl.
          eapply RP_scope with (1 := HR); [| | |exact Hth|auto].
          -- destruct (outcome_ok o); destruct g; reflexivity.
          -- destruct (outcome_ok o); destruct g; reflexivity.
          -- destruct (outcome_ok o); destruct g; exact HS'.
    - (* a check action of a block *)
      destruct (cur_block sh s b) as [bs|] eqn:Ec; [|discriminate].
      apply cur_block_spec in Ec as (Eph & -> & Ebs).
      destruct (b_chk_end (s_b s) g i o) as [b'|] eqn:Es; [|discriminate]. injection H as <-.
      unfold InvC01.R in *. rewrite Eph in *.
      unfold on_end. destruct (is_overrun o) eqn:Eov.
      + exists m. split; auto. simpl. rewrite Eph. destruct o; try discriminate.
        eapply RP_silent; eauto. eapply RB_chk_end_overrun; eauto. exact (rp_blk _ _ _ _ _ _ _ _ HR).
      + destruct (enter_spec sh m (s_cb s) (RP_tail0 _ _ _ _ _ _ _ _ HR eq_refl) (rp_cur _ _ _ _ _ _ _ _ HR))
          as (m1 & Hen & M1 & M2 & M3 & M4 & M5).
        destruct (RB_chk_end _ _ _ _ _ _ _ _ _ (rp_blk _ _ _ _ _ _ _ _ HR) Es) as (t & Ht & HB').
        unfold block_chk. rewrite Hen. simpl. rewrite M2, Ht. simpl.
        eexists. split; [reflexivity|]. simpl. rewrite Eph.
        eapply RP_block with (1 := HR); auto.
        * destruct (outcome_ok o); simpl; auto.
        * destruct (outcome_ok o); simpl; auto.
        * destruct (outcome_ok o); simpl; auto.
        * destruct (outcome_ok o); simpl; auto.
        * destruct (outcome_ok o); simpl; exact HB'.
        * exact (rp_ahead _ _ _ _ _ _ _ _ HR).
    - (* an action of a sequence *)
      destruct (cur_block sh s b) as [bs|] eqn:Ec; [|discriminate].
      apply cur_block_spec in Ec as (Eph & -> & Ebs).
      destruct (b_act_end (s_b s) q i o) as [b'|] eqn:Es; [|discriminate]. injection H as <-.
      unfold InvC01.R in *. rewrite Eph in *.
      destruct (RB_act_end _ _ _ _ _ _ _ _ _ (rp_blk _ _ _ _ _ _ _ _ HR) Es) as (T0 & mq & mq' & Hn & Hq & HB').
      unfold on_end. destruct (is_overrun o) eqn:Eov.
      + destruct (Nat.eqb (s_cb s) (m_cur m)) eqn:Ecur.
        * apply Nat.eqb_eq in Ecur. rewrite Ecur, view_cur in *.
          unfold seq_end. rewrite Hn, Hq. eexists. split; [reflexivity|]. simpl. rewrite Eph, Ecur.
          eapply RP_block with (1 := HR); auto.
          exact (rp_ahead _ _ _ _ _ _ _ _ HR).
        * exfalso. apply Nat.eqb_neq in Ecur. pose proof (rp_cur _ _ _ _ _ _ _ _ HR) as Hle.
          rewrite view_ahead in Hn by lia. simpl in Hn. apply nth_repeat in Hn. subst mq. discriminate.
      + destruct (enter_spec sh m (s_cb s) (RP_tail0 _ _ _ _ _ _ _ _ HR eq_refl) (rp_cur _ _ _ _ _ _ _ _ HR))
          as (m1 & Hen & M1 & M2 & M3 & M4 & M5).
        rewrite Hen. simpl. unfold need. rewrite M2, T0. simpl.
        unfold seq_end. rewrite M1, M2, Hn, Hq. eexists. split; [reflexivity|]. simpl. rewrite Eph.
        eapply RP_block with (1 := HR); auto. exact (rp_ahead _ _ _ _ _ _ _ _ HR).
  Qed.
  (* ================================================================== EvEnd _ OOverrun of an attempt the engine had timed out *)
  Lemma end_late_R s m a l' :
    R s m -> remove_one a (s_late s) = Some l' ->
    exists m', on_end sh m a OOverrun = Good m' /\ R (with_late s l') m'.
  Proof.
    intros HR Hr. unfold InvC01.R in *. simpl. unfold on_end. simpl.
    destruct a as [sc g i|b q i].
    - exists m. split; auto. apply RP_late_all with (late := s_late s); [|exact HR].
      intros b' s0. eapply owed_of_remove_other; eauto.
    - pose proof (remove_one_in _ _ _ Hr) as Hin.
      pose proof (RP_owed_phase _ _ _ _ _ _ _ _ _ _ _ HR Hin) as Hc.
      pose proof (rp_cur _ _ _ _ _ _ _ _ HR) as Hle.
      assert (Hoth : forall b' s0, b' <> b -> owed_of l' b' s0 = owed_of (s_late s) b' s0).
      { intros b' s0 Hne. eapply owed_of_remove_other; eauto. apply owed_one_other. intro E. injection E as E _. auto. }
      destruct (Nat.eqb b (m_cur m)) eqn:Eb.
      + apply Nat.eqb_eq in Eb. subst b.
        destruct (Nat.eq_dec (m_cur m) (s_cb s)) as [Ecur|Ecur].
        * (* the monitor is at the automaton's block *)
          pose proof (rp_blk _ _ _ _ _ _ _ _ HR) as HB. rewrite <- Ecur, view_cur in HB.
          destruct (RB_late_end _ _ _ _ _ _ _ _ HB Hr) as (mq & mq' & Hn & Hq & HB').
          unfold seq_end. rewrite Hn, Hq. eexists. split; [reflexivity|].
          eapply RP_block with (1 := HR); auto.
          -- simpl. rewrite <- Ecur. exact HB'.
          -- intros b'' s0 Hlt. rewrite Hoth by lia. apply (rp_ahead _ _ _ _ _ _ _ _ HR). lia.
        * (* the automaton has left the monitor's block *)
          assert (Hlt : m_cur m < s_cb s) by lia.
          destruct (stale_end (seq_rs sh (m_cur m) q) _ _ _ _ _ _ (rp_stale _ _ _ _ _ _ _ _ HR Hlt) Hr)
            as (mq & mq' & Hn & Hq & HL').
          unfold seq_end. rewrite Hn, Hq. eexists. split; [reflexivity|].
          unfold k_with_seq. apply RP_stale_upd with (late := s_late s); auto.
      + exists m. split; auto. apply Nat.eqb_neq in Eb.
        destruct (Nat.eq_dec b (s_cb s)) as [->|Ecb].
        * (* impossible: a block the monitor has not reached has no owed return *)
          exfalso. pose proof (RB_stale _ _ _ _ _ (rp_blk _ _ _ _ _ _ _ _ HR) q) as HL.
          rewrite view_ahead in HL by lia. apply owed_of_in in Hin. unfold late_ok in HL.
          destruct (owed_of (s_late s) (s_cb s) q) as [|j [|]]; try contradiction.
          destruct HL as (k0 & HL). simpl in HL. apply nth_repeat in HL. discriminate.
        * apply RP_late_some with (late := s_late s); auto.
          intros b' s0 Hb. apply Hoth. destruct Hb as [->|[->|Hb]]; auto.
          intros ->. pose proof (rp_ahead _ _ _ _ _ _ _ _ HR b q Hb) as E. apply owed_of_in in Hin. rewrite E in Hin. contradiction.
  Qed.
  (* ================================================================== EvWrite: the monitor does not move *)
  Lemma p_may_post s : p_may_start s GPost = true -> pphase_code (s_ph s) = 4 /\ thr_live (s_thr s) = false.
  Proof.
    simpl. destruct (s_ph s); simpl; try discriminate. destruct (thr_live (s_thr s)); simpl; try discriminate. auto.
  Qed.
  Lemma p_may_deferred s : p_may_start s GDeferred = true -> pphase_code (s_ph s) = 5.
  Proof. simpl. destruct (s_ph s); simpl; try discriminate. auto. Qed.

  (* a handler of plan group g that is no plugin event and opens no run *)
  Lemma plan_keep s m g x :
    R s m ->
    (forall n l, gate_rel n (tget (s_g s) g) l -> gate_rel n x l) ->
    (g_is_idle x = false -> g_is_idle (tget (s_g s) g) = false) ->
    R (with_g s (tset (s_g s) g x)) m.
  Proof.
    intros HR Hg Hi. unfold InvC01.R in *. simpl. pose proof HR as [HS Hthr _ _ _ _ _].
    eapply RP_scope with (1 := HR); [reflexivity|reflexivity| | |auto].
    - eapply RS_keep; eauto.
    - apply thr_keep; auto. intros ->. simpl in *. destruct (g_is_idle x); auto.
  Qed.

  Lemma owe_chk_R s m sc g i owed : R s m -> R (owe s (AChk sc g i) owed) m.
  Proof.
    intro HR. unfold owe. destruct owed; auto. unfold InvC01.R in *. simpl.
    apply RP_late_all with (late := s_late s); auto.
  Qed.

  Lemma write_act_R s m a stt n lastok s1 : R s m -> h_write_act sh s a stt n lastok = Some s1 -> R s1 m.
  Proof.
    intros HR H. unfold h_write_act in H.
    destruct stt; try discriminate.
    - destruct n as [|n'].
      + (* (Running, 0): mark *)
        destruct lastok; [discriminate|]. destruct a as [[|b] g i|b q i].
        * unfold p_chk_mark in H. destruct (grp_get (sh_groups sh) g) as [rs|] eqn:Eg; [|discriminate].
          destruct (g_mark rs (p_may_start s g) (ist (s_img s) (OChecks SPlan g)) (tget (s_g s) g) i) as [x|] eqn:Em; [|discriminate].
          injection H as <-. unfold InvC01.R in *. simpl. pose proof HR as [HS Hthr _ _ _ _ _].
          eapply RP_scope with (1 := HR); [reflexivity|reflexivity| | |auto].
          -- eapply RS_mark; eauto.
             ++ intros ->. symmetry. now apply nacts_plan.
             ++ intros ->. symmetry. now apply nacts_plan.
             ++ intros Hm ->. now apply p_may_post.
             ++ intros Hm ->. now apply p_may_deferred.
             ++ intros ->. rewrite has_plan, Eg. reflexivity.
             ++ intros ->. rewrite has_plan, Eg. reflexivity.
          -- apply thr_keep; auto. intros ->. destruct (g_mark_idle _ _ _ _ _ _ Em) as [Ho|Hm]; auto.
             right. right. now apply p_may_post.
        * destruct (cur_block sh s b) as [bs|] eqn:Ec; [|discriminate].
          apply cur_block_spec in Ec as (Eph & -> & Ebs).
          destruct (b_chk_mark bs (s_img s) (s_cb s) (s_b s) g i) as [b'|] eqn:Es; [|discriminate]. injection H as <-.
          unfold InvC01.R in *. simpl. rewrite Eph in *. eapply RP_silent; eauto.
          eapply RB_chk_mark; eauto. exact (rp_blk _ _ _ _ _ _ _ _ HR).
        * destruct (cur_block sh s b) as [bs|] eqn:Ec; [|discriminate].
          apply cur_block_spec in Ec as (Eph & -> & Ebs).
          destruct (b_act_mark (s_b s) q i) as [b'|] eqn:Es; [|discriminate]. injection H as <-.
          unfold InvC01.R in *. simpl. rewrite Eph in *. eapply RP_silent; eauto.
          eapply RB_act_mark; eauto. exact (rp_blk _ _ _ _ _ _ _ _ HR).
      + (* (Running, n >= 1): the record of an attempt *)
        destruct a as [[|b] g i|b q i].
        * destruct (p_chk_attempt sh s g i (S n') lastok) as [[s2 owed]|] eqn:Ea; [|discriminate]. injection H as <-.
          apply owe_chk_R. unfold p_chk_attempt in Ea.
          destruct (grp_get (sh_groups sh) g) as [rs|]; [|discriminate].
          destruct (g_attempt rs (tget (s_g s) g) i (S n') lastok) as [[x ow]|] eqn:Eg; [|discriminate].
          injection Ea as <- <-. apply plan_keep; auto.
          -- intros n l. eapply g_attempt_gate; eauto.
          -- intros _. eapply g_attempt_open; eauto.
        * destruct (cur_block sh s b) as [bs|] eqn:Ec; [|discriminate].
          apply cur_block_spec in Ec as (Eph & -> & Ebs).
          destruct (b_chk_attempt bs (s_b s) g i (S n') lastok) as [[b' owed]|] eqn:Es; [|discriminate]. injection H as <-.
          pose proof (RB_chk_attempt _ _ _ _ _ _ _ _ _ _ _ _ (rp_blk _ _ _ _ _ _ _ _ HR) Es) as HB'.
          unfold InvC01.R in *. unfold owe. rewrite Eph in *. destruct owed; simpl; rewrite Eph; eapply RP_silent; eauto.
        * destruct (cur_block sh s b) as [bs|] eqn:Ec; [|discriminate].
          apply cur_block_spec in Ec as (Eph & -> & Ebs).
          destruct (b_act_attempt bs (s_b s) q i (S n') lastok) as [[b' owed]|] eqn:Es; [|discriminate]. injection H as <-.
          pose proof (RB_act_attempt _ _ _ _ _ _ _ _ _ _ _ _ Ebs (rp_blk _ _ _ _ _ _ _ _ HR) Es) as HB'.
          unfold InvC01.R in *. unfold owe. rewrite Eph in *. destruct owed; simpl; rewrite Eph; eapply RP_silent; eauto.
          intros b'' s0 Hne. rewrite owed_of_cons, owed_one_other; auto. intro E. injection E as E _. auto.
    - (* Completed *)
      destruct a as [[|b] g i|b q i].
      + unfold p_chk_final in H. destruct (g_final (tget (s_g s) g) i Completed n lastok) as [x|] eqn:Eg; [|discriminate].
        injection H as <-. apply plan_keep; auto.
        * intros n0 l. eapply g_final_gate; eauto.
        * intros _. eapply g_final_open; eauto.
      + destruct (cur_block sh s b) as [bs|] eqn:Ec; [|discriminate].
        apply cur_block_spec in Ec as (Eph & -> & Ebs).
        destruct (b_chk_final (s_b s) g i Completed n lastok) as [b'|] eqn:Es; [|discriminate]. injection H as <-.
        unfold InvC01.R in *. simpl. rewrite Eph in *. eapply RP_silent; eauto.
        eapply RB_chk_final; eauto. exact (rp_blk _ _ _ _ _ _ _ _ HR).
      + destruct (cur_block sh s b) as [bs|] eqn:Ec; [|discriminate].
        apply cur_block_spec in Ec as (Eph & -> & Ebs).
        destruct (b_act_final bs (s_b s) q i Completed n lastok) as [b'|] eqn:Es; [|discriminate]. injection H as <-.
        unfold InvC01.R in *. simpl. rewrite Eph in *. eapply RP_silent; eauto.
        eapply RB_act_final; eauto. exact (rp_blk _ _ _ _ _ _ _ _ HR).
    - (* Failed *)
      destruct a as [[|b] g i|b q i].
      + unfold p_chk_final in H. destruct (g_final (tget (s_g s) g) i Failed n lastok) as [x|] eqn:Eg; [|discriminate].
        injection H as <-. apply plan_keep; auto.
        * intros n0 l. eapply g_final_gate; eauto.
        * intros _. eapply g_final_open; eauto.
      + destruct (cur_block sh s b) as [bs|] eqn:Ec; [|discriminate].
        apply cur_block_spec in Ec as (Eph & -> & Ebs).
        destruct (b_chk_final (s_b s) g i Failed n lastok) as [b'|] eqn:Es; [|discriminate]. injection H as <-.
        unfold InvC01.R in *. simpl. rewrite Eph in *. eapply RP_silent; eauto.
        eapply RB_chk_final; eauto. exact (rp_blk _ _ _ _ _ _ _ _ HR).
      + destruct (cur_block sh s b) as [bs|] eqn:Ec; [|discriminate].
        apply cur_block_spec in Ec as (Eph & -> & Ebs).
        destruct (b_act_final bs (s_b s) q i Failed n lastok) as [b'|] eqn:Es; [|discriminate]. injection H as <-.
        unfold InvC01.R in *. simpl. rewrite Eph in *. eapply RP_silent; eauto.
        eapply RB_act_final; eauto. exact (rp_blk _ _ _ _ _ _ _ _ HR).
  Qed.
  Lemma write_obj_R s m o stt n lastok r s1 : R s m -> h_write_obj sh s o stt n lastok r = Some s1 -> R s1 m.
  Proof.
    intros HR H. unfold h_write_obj in H. destruct o as [|[|b] g|b|b q|a].
    - (* the plan *)
      destruct (p_write sh s stt r) as [s2|] eqn:Ep; [|discriminate]. injection H as <-.
      unfold p_write in Ep. destruct (s_ph s); try discriminate; case_if Ep; injection Ep as <-; exact HR.
    - (* verdict of a plan group *)
      assert (Hv : forall st, p_chk_verdict s g st = Some s1 -> R s1 m).
      { intros st Hs. unfold p_chk_verdict, g_verdict in Hs.
        destruct (g_close (tget (s_g s) g) st) as [x|] eqn:Ec; [|discriminate]. injection Hs as <-.
        apply plan_keep; auto.
        - intros n0 l. eapply g_close_gate; eauto.
        - intro Hx. apply g_close_idle in Ec. congruence. }
      destruct stt; try discriminate; eauto.
    - (* verdict of a block group *)
      destruct stt; try discriminate;
        (destruct (cur_block sh s b) as [bs|] eqn:Ec; [|discriminate];
         apply cur_block_spec in Ec as (Eph & -> & Ebs);
         destruct (b_chk_verdict (s_b s) g _) as [b'|] eqn:Es; [|discriminate]; injection H as <-;
         unfold InvC01.R in *; simpl; rewrite Eph in *; eapply RP_silent; eauto;
         eapply RB_chk_verdict; eauto; exact (rp_blk _ _ _ _ _ _ _ _ HR)).
    - (* a block *)
      destruct (cur_block sh s b) as [bs|] eqn:Ec; [|discriminate].
      apply cur_block_spec in Ec as (Eph & -> & Ebs).
      destruct (b_write (s_b s) stt) as [b'|] eqn:Es; [|discriminate]. injection H as <-.
      unfold InvC01.R in *. simpl. rewrite Eph in *. eapply RP_silent; eauto.
      eapply RB_write; eauto. exact (rp_blk _ _ _ _ _ _ _ _ HR).
    - (* a sequence *)
      destruct (cur_block sh s b) as [bs|] eqn:Ec; [|discriminate].
      apply cur_block_spec in Ec as (Eph & -> & Ebs).
      destruct stt; try discriminate.
      + destruct (b_seq_launch bs (s_b s) q) as [b'|] eqn:Es; [|discriminate]. injection H as <-.
        unfold InvC01.R in *. simpl. rewrite Eph in *. eapply RP_silent; eauto.
        eapply RB_seq_launch; eauto. exact (rp_blk _ _ _ _ _ _ _ _ HR).
      + destruct (b_seq_terminal (s_b s) q Completed) as [b'|] eqn:Es; [|discriminate]. injection H as <-.
        unfold InvC01.R in *. simpl. rewrite Eph in *. eapply RP_silent; eauto.
        eapply RB_seq_terminal; eauto. exact (rp_blk _ _ _ _ _ _ _ _ HR).
      + destruct (b_seq_terminal (s_b s) q Failed) as [b'|] eqn:Es; [|discriminate]. injection H as <-.
        unfold InvC01.R in *. simpl. rewrite Eph in *. eapply RP_silent; eauto.
        eapply RB_seq_terminal; eauto. exact (rp_blk _ _ _ _ _ _ _ _ HR).
    - eapply write_act_R; eauto.
  Qed.

  Lemma write_R s m o stt n lastok r s' : R s m -> h_write sh s o stt n lastok r = Some s' -> R s' m.
  Proof.
    intros HR H. unfold h_write in H. destruct (negb (obj_in_shape sh o)); [discriminate|].
    assert (Hw : forall x, option_map (fun s1 => put s1 o stt n lastok) (h_write_obj sh s o stt n lastok r) = Some x -> R x m).
    { intros x Hx. destruct (h_write_obj sh s o stt n lastok r) as [s1|] eqn:E; [|discriminate].
      injection Hx as <-. exact (write_obj_R _ _ _ _ _ _ _ _ HR E). }
    destruct o; try (destruct n; [destruct lastok|]; try discriminate); eauto.
  Qed.

  (* ================================================================== the product rule's premises *)
  Lemma h_R s m e s' : R s m -> handle sh s e = Some s' -> exists m', mon_step sh m e = Some m' /\ R s' m'.
  Proof.
    intros HR H. unfold mon_step, step_d. destruct e as [a|a o|o stt n lastok r|snap|fin]; simpl in H.
    - destruct (released s); [discriminate|]. destruct (start_R _ _ _ _ HR H) as (m' & -> & HR'). eauto.
    - unfold h_end in H. destruct (h_end_sub sh s a o) as [s2|] eqn:E.
      + injection H as <-. destruct (end_sub_R _ _ _ _ _ HR E) as (m' & -> & HR'). eauto.
      + destruct o; try discriminate. destruct (remove_one a (s_late s)) as [l'|] eqn:Er; [|discriminate].
        injection H as <-. destruct (end_late_R _ _ _ _ HR Er) as (m' & -> & HR'). eauto.
    - destruct (released s); [discriminate|]. exists m. split; auto. eapply write_R; eauto.
    - exists m. split; auto. unfold h_read in H. destruct (s_fin s); [case_if H|]; injection H as <-; exact HR.
    - exists m. split; auto. unfold h_release in H. case_if H. injection H as <-.
      unfold InvC01.R in *. simpl. pose proof HR as [HS Hthr _ _ _ _ _].
      apply andb_true_iff in Heqb as [Hb _]. apply andb_true_iff in Hb as [Hb _].
      assert (Eph : s_ph s = PEnd) by (destruct (s_ph s); simpl in Hb; congruence). rewrite Eph in *.
      eapply RP_scope with (1 := HR); [reflexivity|reflexivity| |exact Hthr|simpl; lia].
      simpl in HS.
      assert (Hpo : g_is_idle (t_post (s_g s)) = true) by (eapply RS_post_idle; [exact HS | left; lia]).
      assert (Hde : g_is_idle (t_deferred (s_g s)) = true) by (eapply RS_deferred_idle; [exact HS | left; lia]).
      penter HS.
  Qed.

  Lemma stutter_R s m e : R s m -> stutter sh s e = true -> exists m', mon_step sh m e = Some m' /\ R s m'.
  Proof.
    intros HR H. destruct e; simpl in H; try discriminate. exists m. split; auto.
  Qed.

  Lemma R_init : R init (m0 sh).
  Proof.
    unfold InvC01.R. split.
    - apply RS_fresh.
    - simpl. discriminate.
    - simpl. lia.
    - rewrite view_cur. simpl. apply RB_none; auto.
    - simpl. lia.
    - reflexivity.
    - intros _. simpl. repeat split; auto.
  Qed.
End Handlers.

(* mon_run is the product rule's mrun *)
Lemma mon_run_mrun sh m tr : mon_run sh m tr = mrun mst (mon_step sh) m tr.
Proof. revert m; induction tr as [|e tr IH]; intro m; simpl; auto. destruct (mon_step sh m e); auto. Qed.

Lemma c01_run sh tr s : run sh init tr = Some s -> exists m, mon_run sh (m0 sh) tr = Some m /\ R sh s m.
Proof.
  intro H. rewrite mon_run_mrun.
  exact (product_run mst (mon_step sh) sh (R sh) (eps_R sh) (h_R sh) (stutter_R sh) tr init (m0 sh) s (R_init sh) H).
Qed.

Lemma c01_order sh tr s : shape_wf sh = true -> run sh init tr = Some s -> mon_order (sh, tr) = true.
Proof.
  intros _ H. destruct (c01_run sh tr s H) as (m & Hm & _). unfold mon_order. simpl. now rewrite Hm.
Qed.
