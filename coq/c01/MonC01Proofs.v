(* proofs about MonC01 (the product invariant is in InvC01*.v) *)
From Coercion.Base Require Import Plan.
From Coercion.Engine Require Import Shape Event Accept.
From Coercion.C01 Require Import MonC01.

Lemma mon_order_nil sh : mon_order (sh, []) = true.
Proof. reflexivity. Qed.
