(* C01 - Declared order: blocks, then actions of a sequence, each gated on success.

   The monitor mon_order (MonC01.v) is the formal statement of the property over one observed trace of plugin
   events: (i) blocks one at a time in declared order, (ii) within a sequence the actions one at a time, in index
   order, each invoked only after its predecessor's last return was ok, nothing after a failed action,
   (iii) every sequence action only after the completed all-ok run of the plan's and the block's pre group and
   of the initial run of their continuous groups, (iv) a scope's post group only after its sequences, its
   deferred group only after its post group and its sequences.

   The theorem: on EVERY trace the engine automaton (coq/engine/Auto.v: step, run, init) accepts, for every
   well-formed shape - all plans, all plugin outcomes, all interleavings the automaton admits - the monitor
   holds, at every prefix (run is prefix-closed: a rejected event ends the run).  Proved by the product invariant
   InvC01.R, kept by every epsilon-move (InvC01Plan.eps_R) and every handler (MonC01Proofs.h_R). *)
From Coercion.Base Require Import Plan.
From Coercion.Engine Require Import Shape Event Auto PlanSM Accept.
From Coercion.C01 Require Import MonC01 MonC01Proofs.

Theorem c01_order_and_gates :
  forall (sh : shape) (tr : list event) (s : st),
    shape_wf sh = true -> run sh init tr = Some s -> mon_order (sh, tr) = true.
Proof. exact c01_order. Qed.
Print Assumptions c01_order_and_gates.
