(* C01 - Declared order: blocks, then actions of a sequence, each gated on success.

   The monitor mon_order (MonC01.v) is the formal statement of the property over one observed trace of plugin
   events: (i) blocks one at a time in declared order, (ii) within a sequence the actions one at a time, in index
   order, each invoked only after its predecessor's last return was ok, nothing after a failed action,
   (iii) every sequence action only after the completed all-ok run of the plan's and the block's pre group and
   of the initial run of their continuous groups, (iv) a scope's post group only after its sequences, its
   deferred group only after its post group and its sequences.

   The theorem: on EVERY trace the engine automaton (coq/engine/Auto.v: step, run, init) accepts, for every
   well-formed shape - all plans, all plugin outcomes, all interleavings the automaton admits - the monitor
   holds, at every prefix (run is prefix-closed: a rejected event ends the run).  Proved by the product invariant
   InvC01.R, kept by every epsilon-move (InvC01Plan.eps_R) and every handler (MonC01Proofs.h_R). *)
From Coercion.Base Require Import Plan.
From Coercion.Engine Require Import Shape Event Auto PlanSM Accept.
From Coercion.C01 Require Import MonC01 MonC01Proofs MonC01Meaning.

Theorem c01_order_and_gates :
  forall (sh : shape) (tr : list event) (s : st),
    shape_wf sh = true -> run sh init tr = Some s -> mon_order (sh, tr) = true.
Proof. exact c01_order. Qed.
Print Assumptions c01_order_and_gates.

(* Two clauses restated in first-order terms over the trace (MonC01Meaning.v: what the monitor remembers is true of
   the events seen so far), so that the monitor's encoding need not be taken on trust.
   nacts sh sc g = number of actions of group g of scope sc (0 when the scope has no such group). *)
Theorem c01_gates_declarative :
  forall (sh : shape) (tr : list event) (s : st) (pre post : list event) (b q i : nat),
    shape_wf sh = true -> run sh init tr = Some s -> tr = pre ++ EvStart (ASeq b q i) :: post ->
    (forall j, j < nacts sh SPlan GPre -> In (EvEnd (AChk SPlan GPre j) OOk) pre)
    /\ (forall j, j < nacts sh SPlan GCont -> In (EvEnd (AChk SPlan GCont j) OOk) pre)
    /\ (forall j, j < nacts sh (SBlock b) GPre -> In (EvEnd (AChk (SBlock b) GPre j) OOk) pre)
    /\ (forall j, j < nacts sh (SBlock b) GCont -> In (EvEnd (AChk (SBlock b) GCont j) OOk) pre).
Proof. exact c01_gates. Qed.
Print Assumptions c01_gates_declarative.

Theorem c01_predecessor_ok_declarative :
  forall (sh : shape) (tr : list event) (s : st) (pre post : list event) (b q i : nat),
    shape_wf sh = true -> run sh init tr = Some s -> tr = pre ++ EvStart (ASeq b q (S i)) :: post ->
    In (EvEnd (ASeq b q i) OOk) pre.
Proof. exact c01_predecessor_ok. Qed.
Print Assumptions c01_predecessor_ok_declarative.
