(* C01 - placeholder while the product invariant is being proved (full statement follows in a later commit). *)
From Coercion.Base Require Import Plan.
From Coercion.Engine Require Import Shape Event Accept.
From Coercion.C01 Require Import MonC01 MonC01Proofs.

Theorem c01_empty_trace_partial : forall sh : shape, mon_order (sh, []) = true.
Proof. exact mon_order_nil. Qed.
Print Assumptions c01_empty_trace_partial.
