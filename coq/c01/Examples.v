(* Examples - non-vacuity of c01_order_and_gates and teeth of the monitor, all by vm_compute:
   (1) a REAL trace of the engine (harness profile `order`, seed 1, index 0: two blocks, continuous and pre groups,
       a retried action, an action failing with a wrong response type, later sequences finishing first) is accepted
       by the automaton (so the theorem's hypothesis is satisfiable on a non-trivial input) and the monitor holds;
   (2) the monitor is not trivially true: for every clause a small trace violating exactly that clause is rejected
       with that clause's code; deleting the returns of the plan's pre group from the real trace makes it false;
   (3) the pinned interpretations: an overrun return after the post group began is accepted, background runs of a
       continuous group interleave freely. *)
From Coercion.Base Require Import Plan.
From Coercion.Engine Require Import Shape Event Auto PlanSM Accept.
From Coercion.C01 Require Import MonC01 MonC01Proofs.

Definition real_case : case := ((Build_shape (Build_groups None (Some [2; 2]) (Some [0]) None None) [(Build_bshape (Build_groups None None (Some [0]) None (Some [0; 1])) [[2; 1; 1]; [2; 0; 1]] 2 (0)%Z); (Build_bshape (Build_groups None None None (Some [1]) None) [[1]; [0; 1; 0]] 2 (2)%Z)]), [(EvWrite OPlan Running 0 false FRUnknown); (EvWrite OPlan Running 0 false FRUnknown); (EvWrite (OChecks SPlan GCont) NotStarted 0 false FRUnknown); (EvWrite (OAct (AChk SPlan GCont 0)) Running 0 false FRUnknown); (EvStart (AChk SPlan GCont 0)); (EvEnd (AChk SPlan GCont 0) OOk); (EvWrite (OChecks SPlan GPre) NotStarted 0 false FRUnknown); (EvWrite (OAct (AChk SPlan GPre 0)) Running 0 false FRUnknown); (EvWrite (OAct (AChk SPlan GPre 1)) Running 0 false FRUnknown); (EvStart (AChk SPlan GPre 1)); (EvEnd (AChk SPlan GPre 1) OOk); (EvStart (AChk SPlan GPre 0)); (EvEnd (AChk SPlan GPre 0) OOk); (EvWrite (OAct (AChk SPlan GCont 0)) Running 1 true FRUnknown); (EvWrite (OAct (AChk SPlan GCont 0)) Completed 1 true FRUnknown); (EvWrite (OAct (AChk SPlan GCont 0)) Completed 1 true FRUnknown); (EvWrite (OChecks SPlan GCont) Completed 0 false FRUnknown); (EvWrite (OAct (AChk SPlan GPre 1)) Running 1 true FRUnknown); (EvWrite (OAct (AChk SPlan GPre 1)) Completed 1 true FRUnknown); (EvWrite (OAct (AChk SPlan GPre 1)) Completed 1 true FRUnknown); (EvWrite (OAct (AChk SPlan GPre 0)) Running 1 true FRUnknown); (EvWrite (OAct (AChk SPlan GPre 0)) Completed 1 true FRUnknown); (EvWrite (OAct (AChk SPlan GPre 0)) Completed 1 true FRUnknown); (EvWrite (OChecks SPlan GPre) Completed 0 false FRUnknown); (EvWrite OPlan Running 0 false FRUnknown); (EvWrite (OBlock 0) Running 0 false FRUnknown); (EvWrite (OBlock 0) Running 0 false FRUnknown); (EvWrite (OChecks (SBlock 0) GCont) NotStarted 0 false FRUnknown); (EvWrite (OAct (AChk (SBlock 0) GCont 0)) Running 0 false FRUnknown); (EvStart (AChk (SBlock 0) GCont 0)); (EvEnd (AChk (SBlock 0) GCont 0) OOk); (EvWrite (OAct (AChk (SBlock 0) GCont 0)) Running 1 true FRUnknown); (EvWrite (OAct (AChk (SBlock 0) GCont 0)) Completed 1 true FRUnknown); (EvWrite (OAct (AChk (SBlock 0) GCont 0)) Completed 1 true FRUnknown); (EvWrite (OChecks (SBlock 0) GCont) Completed 0 false FRUnknown); (EvWrite (OBlock 0) Running 0 false FRUnknown); (EvWrite (OBlock 0) Running 0 false FRUnknown); (EvWrite (OSeq 0 1) Running 0 false FRUnknown); (EvWrite (OAct (ASeq 0 1 0)) Running 0 false FRUnknown); (EvStart (ASeq 0 1 0)); (EvEnd (ASeq 0 1 0) OErr); (EvWrite (OAct (ASeq 0 1 0)) Running 1 false FRUnknown); (EvWrite (OSeq 0 0) Running 0 false FRUnknown); (EvWrite (OAct (ASeq 0 0 0)) Running 0 false FRUnknown); (EvStart (ASeq 0 0 0)); (EvEnd (ASeq 0 0 0) OOk); (EvStart (ASeq 0 1 0)); (EvEnd (ASeq 0 1 0) OOk); (EvWrite (OAct (ASeq 0 0 0)) Running 1 true FRUnknown); (EvWrite (OAct (ASeq 0 0 0)) Completed 1 true FRUnknown); (EvWrite (OAct (ASeq 0 0 0)) Completed 1 true FRUnknown); (EvWrite (OAct (ASeq 0 0 1)) Running 0 false FRUnknown); (EvStart (ASeq 0 0 1)); (EvEnd (ASeq 0 0 1) OOk); (EvWrite (OAct (ASeq 0 0 1)) Running 1 true FRUnknown); (EvWrite (OAct (ASeq 0 0 1)) Completed 1 true FRUnknown); (EvWrite (OAct (ASeq 0 0 1)) Completed 1 true FRUnknown); (EvWrite (OAct (ASeq 0 0 2)) Running 0 false FRUnknown); (EvStart (ASeq 0 0 2)); (EvWrite (OAct (ASeq 0 1 0)) Running 2 true FRUnknown); (EvWrite (OAct (ASeq 0 1 0)) Completed 2 true FRUnknown); (EvWrite (OAct (ASeq 0 1 0)) Completed 2 true FRUnknown); (EvWrite (OAct (ASeq 0 1 1)) Running 0 false FRUnknown); (EvStart (ASeq 0 1 1)); (EvEnd (ASeq 0 1 1) OOk); (EvWrite (OAct (ASeq 0 1 1)) Running 1 true FRUnknown); (EvWrite (OAct (ASeq 0 1 1)) Completed 1 true FRUnknown); (EvWrite (OAct (ASeq 0 1 1)) Completed 1 true FRUnknown); (EvWrite (OAct (ASeq 0 1 2)) Running 0 false FRUnknown); (EvStart (ASeq 0 1 2)); (EvWrite (OChecks (SBlock 0) GCont) Completed 0 false FRUnknown); (EvEnd (ASeq 0 1 2) OOk); (EvWrite (OAct (AChk (SBlock 0) GCont 0)) Running 0 false FRUnknown); (EvStart (AChk (SBlock 0) GCont 0)); (EvEnd (AChk (SBlock 0) GCont 0) OOk); (EvWrite (OAct (AChk (SBlock 0) GCont 0)) Running 1 true FRUnknown); (EvEnd (ASeq 0 0 2) OOk); (EvWrite (OAct (AChk (SBlock 0) GCont 0)) Completed 1 true FRUnknown); (EvWrite (OAct (AChk (SBlock 0) GCont 0)) Completed 1 true FRUnknown); (EvWrite (OChecks SPlan GCont) Completed 0 false FRUnknown); (EvWrite (OAct (AChk SPlan GCont 0)) Running 0 false FRUnknown); (EvStart (AChk SPlan GCont 0)); (EvEnd (AChk SPlan GCont 0) OOk); (EvWrite (OAct (AChk SPlan GCont 0)) Running 1 true FRUnknown); (EvWrite (OAct (AChk SPlan GCont 0)) Completed 1 true FRUnknown); (EvWrite (OAct (AChk SPlan GCont 0)) Completed 1 true FRUnknown); (EvWrite (OChecks SPlan GCont) Completed 0 false FRUnknown); (EvWrite (OAct (ASeq 0 1 2)) Running 1 true FRUnknown); (EvWrite (OAct (ASeq 0 1 2)) Completed 1 true FRUnknown); (EvWrite (OAct (ASeq 0 1 2)) Completed 1 true FRUnknown); (EvWrite (OSeq 0 1) Completed 0 false FRUnknown); (EvWrite (OChecks (SBlock 0) GCont) Completed 0 false FRUnknown); (EvWrite (OAct (ASeq 0 0 2)) Running 1 true FRUnknown); (EvWrite (OAct (ASeq 0 0 2)) Completed 1 true FRUnknown); (EvWrite (OAct (ASeq 0 0 2)) Completed 1 true FRUnknown); (EvWrite (OSeq 0 0) Completed 0 false FRUnknown); (EvWrite (OBlock 0) Running 0 false FRUnknown); (EvWrite (OChecks (SBlock 0) GDeferred) NotStarted 0 false FRUnknown); (EvWrite (OAct (AChk (SBlock 0) GDeferred 0)) Running 0 false FRUnknown); (EvWrite (OAct (AChk (SBlock 0) GDeferred 1)) Running 0 false FRUnknown); (EvStart (AChk (SBlock 0) GDeferred 1)); (EvEnd (AChk (SBlock 0) GDeferred 1) OOk); (EvStart (AChk (SBlock 0) GDeferred 0)); (EvEnd (AChk (SBlock 0) GDeferred 0) OOk); (EvWrite (OAct (AChk (SBlock 0) GDeferred 1)) Running 1 true FRUnknown); (EvWrite (OAct (AChk (SBlock 0) GDeferred 1)) Completed 1 true FRUnknown); (EvWrite (OAct (AChk (SBlock 0) GDeferred 1)) Completed 1 true FRUnknown); (EvWrite (OAct (AChk (SBlock 0) GDeferred 0)) Running 1 true FRUnknown); (EvWrite (OAct (AChk (SBlock 0) GDeferred 0)) Completed 1 true FRUnknown); (EvWrite (OAct (AChk (SBlock 0) GDeferred 0)) Completed 1 true FRUnknown); (EvWrite (OChecks (SBlock 0) GDeferred) Completed 0 false FRUnknown); (EvWrite (OBlock 0) Running 0 false FRUnknown); (EvWrite (OBlock 0) Completed 0 false FRUnknown); (EvWrite (OBlock 1) Running 0 false FRUnknown); (EvWrite (OBlock 1) Running 0 false FRUnknown); (EvWrite (OBlock 1) Running 0 false FRUnknown); (EvWrite (OBlock 1) Running 0 false FRUnknown); (EvWrite (OSeq 1 1) Running 0 false FRUnknown); (EvWrite (OAct (ASeq 1 1 0)) Running 0 false FRUnknown); (EvStart (ASeq 1 1 0)); (EvEnd (ASeq 1 1 0) OOk); (EvWrite (OAct (ASeq 1 1 0)) Running 1 true FRUnknown); (EvWrite (OAct (ASeq 1 1 0)) Completed 1 true FRUnknown); (EvWrite (OAct (ASeq 1 1 0)) Completed 1 true FRUnknown); (EvWrite (OAct (ASeq 1 1 1)) Running 0 false FRUnknown); (EvStart (ASeq 1 1 1)); (EvEnd (ASeq 1 1 1) OOk); (EvWrite (OAct (ASeq 1 1 1)) Running 1 true FRUnknown); (EvWrite (OAct (ASeq 1 1 1)) Completed 1 true FRUnknown); (EvWrite (OAct (ASeq 1 1 1)) Completed 1 true FRUnknown); (EvWrite (OAct (ASeq 1 1 2)) Running 0 false FRUnknown); (EvStart (ASeq 1 1 2)); (EvWrite (OSeq 1 0) Running 0 false FRUnknown); (EvWrite (OAct (ASeq 1 0 0)) Running 0 false FRUnknown); (EvStart (ASeq 1 0 0)); (EvEnd (ASeq 1 1 2) OWrongType); (EvWrite (OAct (ASeq 1 1 2)) Running 1 false FRUnknown); (EvWrite (OAct (ASeq 1 1 2)) Failed 1 false FRUnknown); (EvEnd (ASeq 1 0 0) OOk); (EvWrite (OAct (ASeq 1 1 2)) Failed 1 false FRUnknown); (EvWrite (OAct (ASeq 1 0 0)) Running 1 true FRUnknown); (EvWrite (OAct (ASeq 1 0 0)) Completed 1 true FRUnknown); (EvWrite (OAct (ASeq 1 0 0)) Completed 1 true FRUnknown); (EvWrite (OSeq 1 0) Completed 0 false FRUnknown); (EvWrite (OSeq 1 1) Failed 0 false FRUnknown); (EvWrite (OChecks (SBlock 1) GPost) NotStarted 0 false FRUnknown); (EvWrite (OAct (AChk (SBlock 1) GPost 0)) Running 0 false FRUnknown); (EvStart (AChk (SBlock 1) GPost 0)); (EvEnd (AChk (SBlock 1) GPost 0) OOk); (EvWrite (OAct (AChk (SBlock 1) GPost 0)) Running 1 true FRUnknown); (EvWrite (OAct (AChk (SBlock 1) GPost 0)) Completed 1 true FRUnknown); (EvWrite (OAct (AChk (SBlock 1) GPost 0)) Completed 1 true FRUnknown); (EvWrite (OChecks (SBlock 1) GPost) Completed 0 false FRUnknown); (EvWrite (OBlock 1) Running 0 false FRUnknown); (EvWrite (OBlock 1) Running 0 false FRUnknown); (EvWrite (OBlock 1) Completed 0 false FRUnknown); (EvWrite OPlan Running 0 false FRUnknown); (EvWrite OPlan Running 0 false FRUnknown); (EvWrite OPlan Completed 0 false FRUnknown); (EvWrite (OChecks SPlan GPre) Completed 0 false FRUnknown); (EvWrite (OAct (AChk SPlan GPre 0)) Completed 1 true FRUnknown); (EvWrite (OAct (AChk SPlan GPre 1)) Completed 1 true FRUnknown); (EvWrite (OChecks SPlan GCont) Completed 0 false FRUnknown); (EvWrite (OAct (AChk SPlan GCont 0)) Completed 1 true FRUnknown); (EvWrite (OBlock 0) Completed 0 false FRUnknown); (EvWrite (OChecks (SBlock 0) GCont) Completed 0 false FRUnknown); (EvWrite (OAct (AChk (SBlock 0) GCont 0)) Completed 1 true FRUnknown); (EvWrite (OSeq 0 0) Completed 0 false FRUnknown); (EvWrite (OAct (ASeq 0 0 0)) Completed 1 true FRUnknown); (EvWrite (OAct (ASeq 0 0 1)) Completed 1 true FRUnknown); (EvWrite (OAct (ASeq 0 0 2)) Completed 1 true FRUnknown); (EvWrite (OSeq 0 1) Completed 0 false FRUnknown); (EvWrite (OAct (ASeq 0 1 0)) Completed 2 true FRUnknown); (EvWrite (OAct (ASeq 0 1 1)) Completed 1 true FRUnknown); (EvWrite (OAct (ASeq 0 1 2)) Completed 1 true FRUnknown); (EvWrite (OChecks (SBlock 0) GDeferred) Completed 0 false FRUnknown); (EvWrite (OAct (AChk (SBlock 0) GDeferred 0)) Completed 1 true FRUnknown); (EvWrite (OAct (AChk (SBlock 0) GDeferred 1)) Completed 1 true FRUnknown); (EvWrite (OBlock 1) Completed 0 false FRUnknown); (EvWrite (OSeq 1 0) Completed 0 false FRUnknown); (EvWrite (OAct (ASeq 1 0 0)) Completed 1 true FRUnknown); (EvWrite (OSeq 1 1) Failed 0 false FRUnknown); (EvWrite (OAct (ASeq 1 1 0)) Completed 1 true FRUnknown); (EvWrite (OAct (ASeq 1 1 1)) Completed 1 true FRUnknown); (EvWrite (OAct (ASeq 1 1 2)) Failed 1 false FRUnknown); (EvWrite (OChecks (SBlock 1) GPost) Completed 0 false FRUnknown); (EvWrite (OAct (AChk (SBlock 1) GPost 0)) Completed 1 true FRUnknown); (EvRelease (IM [(OPlan, (OC Completed 0 false (TF false false true))); ((OChecks SPlan GPre), (OC Completed 0 false (TF false false true))); ((OAct (AChk SPlan GPre 0)), (OC Completed 1 true (TF false false true))); ((OAct (AChk SPlan GPre 1)), (OC Completed 1 true (TF false false true))); ((OChecks SPlan GCont), (OC Completed 0 false (TF false false true))); ((OAct (AChk SPlan GCont 0)), (OC Completed 1 true (TF false false true))); ((OBlock 0), (OC Completed 0 false (TF false false true))); ((OChecks (SBlock 0) GCont), (OC Completed 0 false (TF false false true))); ((OAct (AChk (SBlock 0) GCont 0)), (OC Completed 1 true (TF false false true))); ((OChecks (SBlock 0) GDeferred), (OC Completed 0 false (TF false false true))); ((OAct (AChk (SBlock 0) GDeferred 0)), (OC Completed 1 true (TF false false true))); ((OAct (AChk (SBlock 0) GDeferred 1)), (OC Completed 1 true (TF false false true))); ((OSeq 0 0), (OC Completed 0 false (TF false false true))); ((OAct (ASeq 0 0 0)), (OC Completed 1 true (TF false false true))); ((OAct (ASeq 0 0 1)), (OC Completed 1 true (TF false false true))); ((OAct (ASeq 0 0 2)), (OC Completed 1 true (TF false false true))); ((OSeq 0 1), (OC Completed 0 false (TF false false true))); ((OAct (ASeq 0 1 0)), (OC Completed 2 true (TF false false true))); ((OAct (ASeq 0 1 1)), (OC Completed 1 true (TF false false true))); ((OAct (ASeq 0 1 2)), (OC Completed 1 true (TF false false true))); ((OBlock 1), (OC Completed 0 false (TF false false true))); ((OChecks (SBlock 1) GPost), (OC Completed 0 false (TF false false true))); ((OAct (AChk (SBlock 1) GPost 0)), (OC Completed 1 true (TF false false true))); ((OSeq 1 0), (OC Completed 0 false (TF false false true))); ((OAct (ASeq 1 0 0)), (OC Completed 1 true (TF false false true))); ((OSeq 1 1), (OC Failed 0 false (TF false false true))); ((OAct (ASeq 1 1 0)), (OC Completed 1 true (TF false false true))); ((OAct (ASeq 1 1 1)), (OC Completed 1 true (TF false false true))); ((OAct (ASeq 1 1 2)), (OC Failed 1 false (TF false false true)))] FRUnknown)); (EvRead (IM [(OPlan, (OC Completed 0 false (TF false false true))); ((OChecks SPlan GPre), (OC Completed 0 false (TF false false true))); ((OAct (AChk SPlan GPre 0)), (OC Completed 1 true (TF false false true))); ((OAct (AChk SPlan GPre 1)), (OC Completed 1 true (TF false false true))); ((OChecks SPlan GCont), (OC Completed 0 false (TF false false true))); ((OAct (AChk SPlan GCont 0)), (OC Completed 1 true (TF false false true))); ((OBlock 0), (OC Completed 0 false (TF false false true))); ((OChecks (SBlock 0) GCont), (OC Completed 0 false (TF false false true))); ((OAct (AChk (SBlock 0) GCont 0)), (OC Completed 1 true (TF false false true))); ((OChecks (SBlock 0) GDeferred), (OC Completed 0 false (TF false false true))); ((OAct (AChk (SBlock 0) GDeferred 0)), (OC Completed 1 true (TF false false true))); ((OAct (AChk (SBlock 0) GDeferred 1)), (OC Completed 1 true (TF false false true))); ((OSeq 0 0), (OC Completed 0 false (TF false false true))); ((OAct (ASeq 0 0 0)), (OC Completed 1 true (TF false false true))); ((OAct (ASeq 0 0 1)), (OC Completed 1 true (TF false false true))); ((OAct (ASeq 0 0 2)), (OC Completed 1 true (TF false false true))); ((OSeq 0 1), (OC Completed 0 false (TF false false true))); ((OAct (ASeq 0 1 0)), (OC Completed 2 true (TF false false true))); ((OAct (ASeq 0 1 1)), (OC Completed 1 true (TF false false true))); ((OAct (ASeq 0 1 2)), (OC Completed 1 true (TF false false true))); ((OBlock 1), (OC Completed 0 false (TF false false true))); ((OChecks (SBlock 1) GPost), (OC Completed 0 false (TF false false true))); ((OAct (AChk (SBlock 1) GPost 0)), (OC Completed 1 true (TF false false true))); ((OSeq 1 0), (OC Completed 0 false (TF false false true))); ((OAct (ASeq 1 0 0)), (OC Completed 1 true (TF false false true))); ((OSeq 1 1), (OC Failed 0 false (TF false false true))); ((OAct (ASeq 1 1 0)), (OC Completed 1 true (TF false false true))); ((OAct (ASeq 1 1 1)), (OC Completed 1 true (TF false false true))); ((OAct (ASeq 1 1 2)), (OC Failed 1 false (TF false false true)))] FRUnknown))]).

Example real_accepted : accepts (fst real_case) (snd real_case) = true.
Proof. vm_compute. reflexivity. Qed.

Example real_monitor_holds : mon_order real_case = true /\ mon_order_diag real_case = [0].
Proof. split; vm_compute; reflexivity. Qed.

(* the theorem applies to it: the hypotheses are satisfiable *)
Example real_hypotheses : shape_wf (fst real_case) = true /\ exists s, run (fst real_case) init (snd real_case) = Some s.
Proof.
  split; [vm_compute; reflexivity|].
  destruct (run (fst real_case) init (snd real_case)) as [s|] eqn:E; [eauto|].
  exfalso. assert (H : accepts (fst real_case) (snd real_case) = true) by (vm_compute; reflexivity).
  unfold accepts in H. rewrite E in H. rewrite Bool.andb_false_r in H. discriminate.
Qed.

(* (2) deleting the returns of the plan's pre group: the sequences are no longer gated *)
Definition drop_plan_pre_ends (tr : list event) : list event :=
  filter (fun e => match e with EvEnd (AChk SPlan GPre _) _ => false | _ => true end) tr.
Example real_without_pre_returns : hd 9 (tl (tl (mon_order_diag (fst real_case, drop_plan_pre_ends (snd real_case))))) = 3.
Proof. vm_compute. reflexivity. Qed.

(* moving every plugin event of block 1 in front of those of block 0: clause (i) *)
Definition of_block (b : nat) (e : event) : bool :=
  match e with
  | EvStart (ASeq b' _ _) | EvEnd (ASeq b' _ _) _ | EvStart (AChk (SBlock b') _ _) | EvEnd (AChk (SBlock b') _ _) _ => Nat.eqb b b'
  | _ => false
  end.
Definition block1_first (tr : list event) : list event :=
  filter (fun e => negb (of_block 0 e)) tr ++ filter (of_block 0) tr.
Example real_blocks_swapped : hd 9 (tl (tl (mon_order_diag (fst real_case, block1_first (snd real_case))))) = 1.
Proof. vm_compute. reflexivity. Qed.

(* ---- small hand-written traces (plugin events only: the monitor skips everything else) ---- *)
Definition G (pre cont post def : option (list nat)) : groups := Build_groups None pre cont post def.
(* plan pre group of one action; block 0: pre [0], post [0], deferred [0], one sequence of two actions (retries 1, 0),
   block 1: one sequence of one action *)
Definition sh1 : shape :=
  {| sh_groups := G (Some [0]) None None None;
     sh_blocks := [ {| bs_groups := G (Some [0]) None (Some [0]) (Some [0]); bs_seqs := [[1; 0]]; bs_conc := 1; bs_tol := 0%Z |};
                    {| bs_groups := G None None None None; bs_seqs := [[0]]; bs_conc := 1; bs_tol := 0%Z |} ] |}.
Definition ppre := AChk SPlan GPre 0.
Definition bpre := AChk (SBlock 0) GPre 0.
Definition bpost := AChk (SBlock 0) GPost 0.
Definition bdef := AChk (SBlock 0) GDeferred 0.
Definition a0 := ASeq 0 0 0.
Definition a1 := ASeq 0 0 1.
Definition c0 := ASeq 1 0 0.
Definition ok a := [EvStart a; EvEnd a OOk].

Definition good1 : list event :=
  ok ppre ++ ok bpre ++ [EvStart a0; EvEnd a0 OErr] ++ ok a0 ++ ok a1 ++ ok bpost ++ ok bdef ++ ok c0.
Example good1_holds : mon_order_diag (sh1, good1) = [0].
Proof. vm_compute. reflexivity. Qed.

(* (ii) action 1 invoked while action 0 is in flight *)
Example bad_two_in_flight : mon_order_diag (sh1, ok ppre ++ ok bpre ++ [EvStart a0; EvStart a1]) = [1; 5; 2; 1].
Proof. vm_compute. reflexivity. Qed.
(* (ii) action 1 invoked although action 0's last return was a failure (retries left: only action 0 may be re-invoked) *)
Example bad_next_after_failure : mon_order_diag (sh1, ok ppre ++ ok bpre ++ [EvStart a0; EvEnd a0 OErr; EvStart a1]) = [1; 6; 2; 1].
Proof. vm_compute. reflexivity. Qed.
(* (ii) anything of the sequence after a permanently failed action *)
Example bad_after_permanent : mon_order_diag (sh1, ok ppre ++ ok bpre ++ [EvStart a0; EvEnd a0 OPerm; EvStart a0]) = [1; 6; 2; 1].
Proof. vm_compute. reflexivity. Qed.
(* (ii) out of index order *)
Example bad_index_order : mon_order_diag (sh1, ok ppre ++ ok bpre ++ [EvStart a1]) = [1; 4; 2; 1].
Proof. vm_compute. reflexivity. Qed.
(* (iii) the block's pre group has not passed / the plan's has not / it failed *)
Example bad_no_block_pre : mon_order_diag (sh1, ok ppre ++ [EvStart a0]) = [1; 2; 3; 1].
Proof. vm_compute. reflexivity. Qed.
Example bad_no_plan_pre : mon_order_diag (sh1, ok bpre ++ [EvStart a0]) = [1; 2; 3; 1].
Proof. vm_compute. reflexivity. Qed.
Example bad_failed_pre : mon_order_diag (sh1, ok ppre ++ [EvStart bpre; EvEnd bpre OPerm; EvStart a0]) = [1; 4; 3; 1].
Proof. vm_compute. reflexivity. Qed.
(* (iv) the post group begins while a sequence action is in flight: its (ok) return is the violation (this is E3) *)
Example bad_post_before_sequence_end :
  mon_order_diag (sh1, ok ppre ++ ok bpre ++ ok a0 ++ [EvStart a1; EvStart bpost; EvEnd bpost OOk; EvEnd a1 OOk]) = [1; 9; 4; 2].
Proof. vm_compute. reflexivity. Qed.
(* (iv) deferred before post *)
Example bad_deferred_before_post :
  mon_order_diag (sh1, ok ppre ++ ok bpre ++ ok a0 ++ ok a1 ++ ok bdef ++ [EvStart bpost]) = [1; 10; 4; 1].
Proof. vm_compute. reflexivity. Qed.
(* (iv) a sequence action after the deferred group *)
Example bad_sequence_after_deferred :
  mon_order_diag (sh1, ok ppre ++ ok bpre ++ ok a0 ++ ok bdef ++ [EvStart a1]) = [1; 8; 4; 1].
Proof. vm_compute. reflexivity. Qed.
(* (i) block 0 after block 1 *)
Example bad_block_order : mon_order_diag (sh1, ok ppre ++ ok c0 ++ [EvStart bpre]) = [1; 4; 1; 1].
Proof. vm_compute. reflexivity. Qed.
(* (i) a return (not overrun) in block 0 after block 1 began *)
Example bad_return_in_earlier_block :
  mon_order_diag (sh1, ok ppre ++ ok bpre ++ ok a0 ++ [EvStart a1] ++ ok c0 ++ [EvEnd a1 OOk]) = [1; 9; 1; 2].
Proof. vm_compute. reflexivity. Qed.

(* (3) pinned: the engine enforced the deadline of a1's only attempt, went on to the post group; the plugin returns later *)
Example overrun_return_is_exempt :
  mon_order_diag (sh1, ok ppre ++ ok bpre ++ ok a0 ++ [EvStart a1] ++ ok bpost ++ ok bdef ++ [EvEnd a1 OOverrun] ++ ok c0) = [0].
Proof. vm_compute. reflexivity. Qed.
(* ... but the sequence may not be re-invoked before that return *)
Example overrun_blocks_reinvocation :
  mon_order_diag (sh1, ok ppre ++ ok bpre ++ [EvStart a0; EvStart a0]) = [1; 5; 2; 1].
Proof. vm_compute. reflexivity. Qed.
