(* InvC01 - the product relation between the engine automaton (coq/engine) and the C01 monitor (MonC01.v):
   definitions and the basic lemmas about them.  The preservation proofs are in InvC01Scope.v (check groups of
   one scope), InvC01Block.v (one block) and MonC01Proofs.v (the plan level and the theorem). *)
From Coq Require Import Lia.
From Coercion.Base Require Import Plan.
From Coercion.Engine Require Import Shape Event Action ChecksRun Seq Block Final PlanSM Auto Accept AutoLemmas.
From Coercion.C01 Require Import MonC01.

(* ---- a sequence sub-automaton seen as the monitor sees it ---- *)
Definition abs_act (rs : list nat) (i : nat) (a : ast) : qst :=
  match a with
  | AIdle => QReady i 0
  | ARun k => QReady i k
  | AFly k => QFly i k
  | ARet k o => q_after rs i k o
  | APend true _ => q_after rs i 0 OOk
  | APend false _ => QStop
  | ADone _ _ => QStop
  end.

Definition abs_seq (rs : list nat) (q : sst) : qst :=
  match q with
  | SIdle => QReady 0 0
  | SRun i a => abs_act rs i a
  | SPend _ | SDone _ => QStop
  end.

(* the actions of sequence (b, s) whose plugin return is still owed (the engine timed the attempt out) *)
Definition owed_one (b s : nat) (a : aref) : list nat :=
  match a with
  | ASeq b' s' i => if Nat.eqb b' b && Nat.eqb s' s then [i] else []
  | AChk _ _ _ => []
  end.
Definition owed_of (late : list aref) (b s : nat) : list nat := flat_map (owed_one b s) late.

(* automaton sequence q / monitor sequence mq, given the owed returns of the sequence *)
Definition rel_seq (rs : list nat) (ow : list nat) (q : sst) (mq : qst) : Prop :=
  match ow with
  | [] => mq = abs_seq rs q
  | [i] => exists k, mq = QFly i k /\ q_after rs i k OOverrun = abs_seq rs q
  | _ => False
  end.

Definition late_ok (ow : list nat) (mq : option qst) : Prop :=
  match ow with
  | [] => True
  | [i] => exists k, mq = Some (QFly i k)
  | _ => False
  end.

(* ---- one check group / the gate lists of the monitor ---- *)
Definition a_okish (a : ast) : bool :=
  match a with ARet _ OOk | APend true _ | ADone true _ => true | _ => false end.

Definition gate_rel (n : nat) (g : gst) (l : list nat) : Prop :=
  match g with
  | GRun _ acts => length acts = n /\ forall i a, nth_error acts i = Some a -> a_okish a = true -> In i l
  | GIdle _ (Some true) => forall i, i < n -> In i l
  | GIdle _ _ => True
  end.

(* ---- the check groups of one scope (plan or block).  code = pphase_code / bphase_code of the scope's phase:
   3 = the phase in which blocks / sequences run, 4 = post, 5 = deferred ---- *)
Definition grp_inv (code npre ncont : nat) (hpost hdef : bool) (lpre lcont : list nat) (g : grp) (x : gst) : Prop :=
  match g with
  | GBypass => True
  | GPre => gate_rel npre x lpre
  | GCont => gate_rel ncont x lcont
  | GPost => g_is_idle x = false -> code = 4 /\ hpost = true
  | GDeferred => g_is_idle x = false -> code = 5 /\ hdef = true
  end.

(* does the scope have group g? *)
Definition has (sh : shape) (sc : scope) (g : grp) : bool :=
  match group_of sh sc g with Some _ => true | None => false end.

Definition tail_ok (tail code : nat) : Prop :=
  tail <= 2 /\ (1 <= tail -> 4 <= code) /\ (2 <= tail -> 5 <= code).

Record RS (code npre ncont : nat) (hpost hdef : bool) (lpre lcont : list nat) (tail : nat) (t : gtab) : Prop := {
  rs_grp : forall g, grp_inv code npre ncont hpost hdef lpre lcont g (tget t g);
  rs_tail : tail_ok tail code;
  rs_pass : code = 3 -> passed npre lpre = true /\ passed ncont lcont = true }.

(* ---- one block ---- *)
Definition view (sh : shape) (m : mst) (b : nat) : blk :=
  if Nat.eqb b (m_cur m) then m_blk m else fresh sh b.

Record RB (sh : shape) (cb : nat) (late : list aref) (b : bst) (k : blk) : Prop := {
  rb_scope : RS (bphase_code (b_ph b)) (nacts sh (SBlock cb) GPre) (nacts sh (SBlock cb) GCont)
                (has sh (SBlock cb) GPost) (has sh (SBlock cb) GDeferred)
                (k_pre k) (k_cont k) (k_tail k) (b_g b);
  rb_seqs : forall s q, nth_error (b_seqs b) s = Some q ->
            exists mq, nth_error (k_seqs k) s = Some mq /\ rel_seq (seq_rs sh cb s) (owed_of late cb s) q mq;
  rb_owed : forall s, nth_error (b_seqs b) s = None -> owed_of late cb s = [];
  rb_quiet : b_ph b <> BSeqs -> forall s q, nth_error (b_seqs b) s = Some q -> s_inflight q = false }.

(* ---- the plan ---- *)
Record RP (sh : shape) (ph : pphase) (g : gtab) (th : thr) (cb : nat) (b : bst) (late : list aref) (m : mst) : Prop := {
  rp_scope : RS (pphase_code ph) (nacts sh SPlan GPre) (nacts sh SPlan GCont) (has sh SPlan GPost) (has sh SPlan GDeferred)
                (m_ppre m) (m_pcont m) (m_ptail m) g;
  rp_thr : thr_live th = true -> g_is_idle (t_post g) = true;
  rp_cur : m_cur m <= cb;
  rp_blk : RB sh cb late b (view sh m cb);
  rp_stale : m_cur m < cb -> forall s, late_ok (owed_of late (m_cur m) s) (nth_error (k_seqs (m_blk m)) s);
  rp_ahead : forall b' s, cb < b' -> owed_of late b' s = [];
  rp_early : pphase_code ph < 3 ->
             m_cur m = 0 /\ m_blk m = fresh sh 0 /\ cb = 0 /\ b = b_none /\ forall b' s, owed_of late b' s = [] }.

Definition R (sh : shape) (s : st) (m : mst) : Prop :=
  RP sh (s_ph s) (s_g s) (s_thr s) (s_cb s) (s_b s) (s_late s) m.

(* ================================================================== basic lemmas *)

Lemma passed_spec n l : passed n l = true <-> forall i, i < n -> In i l.
Proof.
  unfold passed. rewrite forallb_forall. split.
  - intros H i Hi. specialize (H i). rewrite in_seq in H. specialize (H ltac:(lia)).
    apply existsb_exists in H as (x & Hx & E). apply Nat.eqb_eq in E. now subst.
  - intros H i Hi. apply in_seq in Hi. apply existsb_exists. exists i. split; [apply H; lia | apply Nat.eqb_refl].
Qed.

Lemma passed_cons n l i : passed n l = true -> passed n (i :: l) = true.
Proof. rewrite !passed_spec. intros H j Hj. right. auto. Qed.

Lemma gate_rel_cons n g l i : gate_rel n g l -> gate_rel n g (i :: l).
Proof.
  destruct g as [r [[|]|]|r acts]; simpl; try tauto.
  - intros H j Hj. right. auto.
  - intros [E H]. split; auto. intros j a Hn Ho. right. eauto.
Qed.

Lemma tail_ok_mono tail c c' : tail_ok tail c -> c <= c' -> tail_ok tail c'.
Proof. unfold tail_ok. intros (H0 & H1 & H2) Hc. repeat split; intros; lia. Qed.

(* ---- owed_of ---- *)
Lemma owed_of_cons a l b s : owed_of (a :: l) b s = owed_one b s a ++ owed_of l b s.
Proof. reflexivity. Qed.

Lemma owed_one_chk b s sc g i : owed_one b s (AChk sc g i) = [].
Proof. reflexivity. Qed.

Lemma owed_one_same b s i : owed_one b s (ASeq b s i) = [i].
Proof. simpl. now rewrite !Nat.eqb_refl. Qed.

Lemma owed_one_other b s b' s' i : (b', s') <> (b, s) -> owed_one b s (ASeq b' s' i) = [].
Proof.
  intro H. simpl. destruct (Nat.eqb b' b) eqn:E1; simpl; auto. destruct (Nat.eqb s' s) eqn:E2; auto.
  apply Nat.eqb_eq in E1, E2. subst. contradiction.
Qed.

Lemma owed_of_in l b s i : In (ASeq b s i) l -> In i (owed_of l b s).
Proof.
  intro H. unfold owed_of. apply in_flat_map. exists (ASeq b s i). split; auto. rewrite owed_one_same. now left.
Qed.

Lemma remove_one_in a l l' : remove_one a l = Some l' -> In a l.
Proof.
  revert l'. induction l as [|x l IH]; simpl; intros l' H; [discriminate|].
  destruct (aref_eqb x a) eqn:E.
  - apply aref_eqb_eq in E. now left.
  - destruct (remove_one a l) eqn:E1; [|discriminate]. right. eauto.
Qed.

(* removing an owed return that does not belong to sequence (b, s) *)
Lemma owed_of_remove_other a l l' b s :
  remove_one a l = Some l' -> owed_one b s a = [] -> owed_of l' b s = owed_of l b s.
Proof.
  revert l'. induction l as [|x l IH]; intros l' H Ha; simpl in H; [discriminate|].
  destruct (aref_eqb x a) eqn:E.
  - apply aref_eqb_eq in E. subst x. injection H as <-. rewrite owed_of_cons, Ha. reflexivity.
  - destruct (remove_one a l) eqn:E1; [|discriminate]. injection H as <-.
    rewrite !owed_of_cons. f_equal. eauto.
Qed.

Lemma owed_of_remove_same l l' b s i :
  remove_one (ASeq b s i) l = Some l' ->
  exists x y, owed_of l b s = x ++ i :: y /\ owed_of l' b s = x ++ y.
Proof.
  revert l'. induction l as [|a l IH]; intros l' H; simpl in H; [discriminate|].
  destruct (aref_eqb a (ASeq b s i)) eqn:E.
  - apply aref_eqb_eq in E. subst a. injection H as <-. exists [], (owed_of l b s).
    rewrite owed_of_cons, owed_one_same. split; reflexivity.
  - destruct (remove_one (ASeq b s i) l) eqn:E1; [|discriminate]. injection H as <-.
    destruct (IH _ eq_refl) as (x & y & H1 & H2). exists (owed_one b s a ++ x), y.
    rewrite !owed_of_cons, H1, H2, !app_assoc. split; reflexivity.
Qed.

(* with at most one owed return, removing it leaves none *)
Lemma owed_single_removed l l' b s i j :
  remove_one (ASeq b s i) l = Some l' -> owed_of l b s = [j] -> i = j /\ owed_of l' b s = [].
Proof.
  intros H E. destruct (owed_of_remove_same _ _ _ _ _ H) as (x & y & H1 & H2). rewrite E in H1.
  destruct x as [|x0 x]; simpl in H1.
  - injection H1 as -> <-. split; auto.
  - injection H1 as _ H1. destruct x; discriminate.
Qed.

(* ---- rel_seq ---- *)
Lemma q_after_not_fly rs i k o j k' : q_after rs i k o <> QFly j k'.
Proof.
  unfold q_after. destruct o; try discriminate.
  - destruct (S i <? length rs); discriminate.
  - destruct (S k <=? nth i rs 0); discriminate.
  - destruct (S k <=? nth i rs 0); discriminate.
Qed.

Lemma rel_seq_late_ok rs ow q mq : rel_seq rs ow q mq -> late_ok ow (Some mq).
Proof.
  destruct ow as [|i [|]]; simpl; auto. intros (k & -> & _). eauto.
Qed.

(* a sequence whose automaton state is in flight has no owed return, and the monitor is in flight too *)
Lemma rel_seq_fly rs ow i k mq : rel_seq rs ow (SRun i (AFly k)) mq -> ow = [] /\ mq = QFly i k.
Proof.
  destruct ow as [|j [|]]; simpl.
  - intros ->. split; reflexivity.
  - intros (k' & _ & H). exfalso. exact (q_after_not_fly rs j k' OOverrun i k H).
  - tauto.
Qed.

(* the view *)
Lemma view_cur sh m : view sh m (m_cur m) = m_blk m.
Proof. unfold view. now rewrite Nat.eqb_refl. Qed.

Lemma view_ahead sh m b : m_cur m < b -> view sh m b = fresh sh b.
Proof. intro H. unfold view. destruct (Nat.eqb b (m_cur m)) eqn:E; auto. apply Nat.eqb_eq in E. lia. Qed.

Lemma nth_repeat {A} (x : A) n i y : nth_error (repeat x n) i = Some y -> y = x.
Proof. revert i; induction n as [|n IH]; intros [|i]; simpl; intro H; try discriminate; [now injection H | eauto]. Qed.

Lemma nth_repeat_lt {A} (x : A) n i : i < n -> nth_error (repeat x n) i = Some x.
Proof. revert i; induction n as [|n IH]; intros [|i] H; simpl; try lia; auto. apply IH. lia. Qed.
