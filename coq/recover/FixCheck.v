(* Correspondence checker for the crash-repair model (Fix.v).  The harness (harness/cmd/fixprobe) hands over,
   for every generated image, the image before and what the real fix* function (through the verifhooks
   package) left behind, both abstracted to the terms of Fix.v, the plugin call log of the sequences fixBlock
   executed, and (for some plan images) the entry point observed on a real recovery.  No proofs here. *)
From Coercion.Base Require Import Plan.
From Coercion.Recover Require Import Fix Witness.

(* ------------------------------------------------------------------ differences, with a location *)
Definition bool_eqb (a b : bool) : bool := if a then b else negb b.

Fixpoint list_diff {A} (d : A -> A -> list nat) (i : nat) (a b : list A) : list nat :=
  match a, b with
  | [], [] => []
  | x :: a', y :: b' => match d x y with [] => list_diff d (S i) a' b' | l => i :: l end
  | _, _ => [i; 99]                                  (* lengths differ *)
  end.

Definition att_diff (x y : att) : list nat :=
  if bool_eqb (x_err x) (x_err y) && bool_eqb (x_endz x) (x_endz y) then [] else [1].

Definition hdr_diff (s1 : status) (sz1 ez1 : bool) (s2 : status) (sz2 ez2 : bool) : list nat :=
  if negb (status_eqb s1 s2) then [1] else if negb (bool_eqb sz1 sz2) then [2]
  else if negb (bool_eqb ez1 ez2) then [3] else [].

Definition act_diff (a b : act) : list nat :=
  if negb (Nat.eqb (ac_id a) (ac_id b)) then [4] else
  match hdr_diff (ac_st a) (ac_sz a) (ac_ez a) (ac_st b) (ac_sz b) (ac_ez b) with
  | [] => match list_diff att_diff 0 (ac_atts a) (ac_atts b) with [] => [] | l => 5 :: l end
  | l => l
  end.

Definition chk_diff (a b : chk) : list nat :=
  match hdr_diff (ck_st a) (ck_sz a) (ck_ez a) (ck_st b) (ck_sz b) (ck_ez b) with
  | [] => match list_diff act_diff 0 (ck_acts a) (ck_acts b) with [] => [] | l => 6 :: l end
  | l => l
  end.

Definition ochk_diff (a b : option chk) : list nat :=
  match a, b with
  | None, None => []
  | Some x, Some y => chk_diff x y
  | _, _ => [98]
  end.

Definition seq_diff (a b : seq) : list nat :=
  match hdr_diff (sq_st a) (sq_sz a) (sq_ez a) (sq_st b) (sq_sz b) (sq_ez b) with
  | [] => match list_diff act_diff 0 (sq_acts a) (sq_acts b) with [] => [] | l => 6 :: l end
  | l => l
  end.

Definition groups_diff (a1 a2 a3 a4 a5 b1 b2 b3 b4 b5 : option chk) : list nat :=
  match ochk_diff a1 b1 with [] =>
  match ochk_diff a2 b2 with [] =>
  match ochk_diff a3 b3 with [] =>
  match ochk_diff a4 b4 with [] =>
  match ochk_diff a5 b5 with [] => [] | l => 15 :: l end | l => 14 :: l end | l => 13 :: l end
  | l => 12 :: l end | l => 11 :: l end.

Definition blk_diff (a b : blk) : list nat :=
  match hdr_diff (bk_st a) (bk_sz a) (bk_ez a) (bk_st b) (bk_sz b) (bk_ez b) with
  | [] =>
    match groups_diff (bk_bypass a) (bk_pre a) (bk_cont a) (bk_post a) (bk_deferred a)
                      (bk_bypass b) (bk_pre b) (bk_cont b) (bk_post b) (bk_deferred b) with
    | [] => match list_diff seq_diff 0 (bk_seqs a) (bk_seqs b) with [] => [] | l => 7 :: l end
    | l => l
    end
  | l => l
  end.

Definition pln_diff (a b : pln) : list nat :=
  match hdr_diff (pl_st a) (pl_sz a) (pl_ez a) (pl_st b) (pl_sz b) (pl_ez b) with
  | [] =>
    match groups_diff (pl_bypass a) (pl_pre a) (pl_cont a) (pl_post a) (pl_deferred a)
                      (pl_bypass b) (pl_pre b) (pl_cont b) (pl_post b) (pl_deferred b) with
    | [] => match list_diff blk_diff 0 (pl_blocks a) (pl_blocks b) with [] => [] | l => 8 :: l end
    | l => l
    end
  | l => l
  end.

Fixpoint nats_eqb (a b : list nat) : bool :=
  match a, b with
  | [], [] => true
  | x :: a', y :: b' => Nat.eqb x y && nats_eqb a' b'
  | _, _ => false
  end.

(* ------------------------------------------------------------------ one scripted action run
   (internal/execute/sm/actions: Start, Execute with the retry loop, exec, End) for the harness plugin *)
Inductive outcome := OOk | OTransient | OPermanent.
Definition script := list (nat * (nat * list outcome)).    (* action id |-> (Retries, outcome of call 1, 2, ..) *)

Fixpoint lookup (k : nat) (sc : script) : nat * list outcome :=
  match sc with
  | [] => (0, [])
  | (k', v) :: r => if Nat.eqb k k' then v else lookup k r
  end.

Definition okatt := Build_att false false.
Definition erratt := Build_att true false.

(* exec is called until it succeeds or returns a permanent error; before each call
   `len(action.Attempts) > action.Retries` ends the loop with a permanent error and no new attempt *)
Fixpoint attempt_loop (fuel retries : nat) (outs : list outcome) (atts : list att) : list att * bool :=
  match fuel with
  | 0 => (atts, true)
  | S f =>
      if Nat.ltb retries (length atts) then (atts, true)
      else match outs with
           | [] | OOk :: _ => (atts ++ [okatt], false)
           | OPermanent :: _ => (atts ++ [erratt], true)
           | OTransient :: r => attempt_loop f retries r (atts ++ [erratt])
           end
  end.

Definition run_act_script (sc : script) (a : act) : act :=
  let (retries, outs) := lookup (ac_id a) sc in
  let (atts, err) := attempt_loop (retries + 2) retries outs (ac_atts a) in
  Build_act (ac_id a) (if err then Failed else Completed)
            (if status_eqb (ac_st a) NotStarted then false else ac_sz a) false atts.

Definition run_seq_script (sc : script) : seq -> seq := exec_seq (run_act_script sc).

(* plugin calls predicted for a resumed sequence: action k is called once per attempt it gained *)
Fixpoint calls_of (before after : list act) : list nat :=
  match before, after with
  | a :: r, a' :: r' => repeat (ac_id a) (length (ac_atts a') - length (ac_atts a)) ++ calls_of r r'
  | _, _ => []
  end.

(* ------------------------------------------------------------------ branch identification (coverage) *)
Definition fix_action_branch (a : act) : nat :=
  if negb (status_eqb (ac_st a) Running) then 0 else
  match ac_atts a with
  | [] => 1
  | _ => let r := rev (ac_atts a) in
         let dropped := negb (Nat.eqb (length (strip_open r)) (length r)) in
         match strip_open r with
         | [] => 2
         | x :: _ => (if x_err x then 5 else 3) + (if dropped then 1 else 0)
         end
  end.

Definition fix_checks_branch (c : chk) : nat := if status_eqb (ck_st c) Running then 1 else 0.

Definition fix_seq_branch (s : seq) : nat :=
  if negb (status_eqb (sq_st s) Running) then 0 else
  if Nat.ltb 0 (count_st ac_st Stopped (sq_acts s)) then 1 else
  match sq_st (fix_seq s) with
  | Stopped => 2 | Failed => 3 | NotStarted => 4 | Completed => 5 | Running => 6
  end.

Section Branch.
Variable run_seq : seq -> seq.

Definition fix_block_branch (b : blk) : nat :=
  if negb (status_eqb (bk_st b) Running) then 0 else
  if chk_is Completed (fix_checks_opt (bk_bypass b)) then 1 else
  if chk_is Failed (bk_pre b) then 2 else
  if chk_is Failed (bk_cont b) then 3 else
  if chk_is Failed (bk_post b) then 4 else
  let fb := fix_block run_seq b in
  (match bk_st (fb_blk fb) with Stopped => 5 | NotStarted => 6 | _ => 7 end)
  + (match fb_resumed fb with [] => 0 | _ => 10 end).

Definition fix_plan_branch (p : pln) : nat :=
  if negb (status_eqb (pl_st p) Running) then 0 else
  if chk_is Completed (fix_checks_opt (pl_bypass p)) then 1 else
  if checks_failed (pl_pre p) then 2 else
  if checks_failed (pl_post p) then 3 else
  let fp := fix_plan run_seq p in
  let contf := if checks_failed (pl_cont p) then 10 else 0 in
  let '(bs, _, stop) := fix_blocks run_seq 0 (pl_blocks p) in
  if stop then 4 + contf else
  if Nat.ltb 0 (count_st bk_st Failed bs) then 5 + contf else
  match pl_st (fp_pln fp) with
  | NotStarted => 6 + contf
  | Completed => 7 + contf
  | _ => 8 + contf
  end.

(* the blocks fixPlan hands to fixBlock (all of them up to and including the first Stopped result) *)
Fixpoint block_branches (bs : list blk) : list nat :=
  match bs with
  | [] => []
  | b :: r => let fb := fix_block run_seq b in
              fix_block_branch b ::
              (if status_eqb (bk_st (fb_blk fb)) Stopped then [] else block_branches r)
  end.
End Branch.

(* ------------------------------------------------------------------ property monitors
   Boolean statements of what C09/C10 need from repair, evaluated on what the IMPLEMENTATION did (before,
   after, plugin calls).  When the model and the code disagree they decide between "violation with this input"
   and "correspondence broken, no failing input". The theorems of props/Repair.v say the model satisfies them. *)
Definition forall2b {A} (f : A -> A -> bool) : list A -> list A -> bool :=
  fix go (a b : list A) : bool :=
    match a, b with
    | [], [] => true
    | x :: a', y :: b' => f x y && go a' b'
    | _, _ => false
    end.

Definition nil_nat (l : list nat) : bool := match l with [] => true | _ => false end.

(* M1: an object that is Completed / Failed / Stopped in the image keeps its whole subtree *)
Definition keep_act (a a' : act) : bool :=
  if is_terminal (ac_st a) then nil_nat (act_diff a a') else true.
(* a group that is not Running is untouched with its actions (a Running group is reset with them: no claim) *)
Definition keep_chk (c c' : chk) : bool :=
  if negb (status_eqb (ck_st c) Running) then nil_nat (chk_diff c c') else true.
Definition keep_ochk (c c' : option chk) : bool :=
  match c, c' with None, None => true | Some x, Some y => keep_chk x y | _, _ => false end.
Definition keep_seq (s s' : seq) : bool :=
  if is_terminal (sq_st s) then nil_nat (seq_diff s s') else forall2b keep_act (sq_acts s) (sq_acts s').
Definition keep_blk (b b' : blk) : bool :=
  if is_terminal (bk_st b) then nil_nat (blk_diff b b')
  else keep_ochk (bk_bypass b) (bk_bypass b') && keep_ochk (bk_pre b) (bk_pre b') && keep_ochk (bk_cont b) (bk_cont b')
       && keep_ochk (bk_post b) (bk_post b') && keep_ochk (bk_deferred b) (bk_deferred b')
       && forall2b keep_seq (bk_seqs b) (bk_seqs b').
Definition keep_pln (p p' : pln) : bool :=
  if is_terminal (pl_st p) then nil_nat (pln_diff p p')
  else keep_ochk (pl_bypass p) (pl_bypass p') && keep_ochk (pl_pre p) (pl_pre p') && keep_ochk (pl_cont p) (pl_cont p')
       && keep_ochk (pl_post p) (pl_post p') && keep_ochk (pl_deferred p) (pl_deferred p')
       && forall2b keep_blk (pl_blocks p) (pl_blocks p').

(* M2: the declarative specification of fixAction (FixSpec.fix_action_spec, as a boolean) *)
Definition last_complete (l : list att) : option att :=
  match strip_open (rev l) with x :: _ => Some x | [] => None end.
Definition spec_act (a a' : act) : bool :=
  if negb (status_eqb (ac_st a) Running) then nil_nat (act_diff a a') else
  match last_complete (ac_atts a) with
  | None => nil_nat (act_diff a' (Build_act (ac_id a) NotStarted true true []))
  | Some x =>
      status_eqb (ac_st a') (if x_err x then Failed else Completed)
      && bool_eqb (ac_sz a') (ac_sz a) && negb (ac_ez a')
      && Nat.leb (length (ac_atts a')) (length (ac_atts a))
      && nil_nat (list_diff att_diff 0 (ac_atts a') (firstn (length (ac_atts a')) (ac_atts a)))
      && match rev (ac_atts a') with y :: _ => negb (x_endz y) | [] => false end
      && forallb x_endz (skipn (length (ac_atts a')) (ac_atts a))
  end.

(* M3 (C09): no plugin call for an action whose durable image says it succeeded *)
Definition durable_success (a : act) : bool :=
  match ac_st a with
  | Completed => true
  | Running => match last_complete (ac_atts a) with Some x => negb (x_err x) | None => false end
  | _ => false
  end.
Definition seq_actions_of_blk (b : blk) : list act := flat_map sq_acts (bk_seqs b).
Definition successes (acts : list act) : list nat := map ac_id (filter durable_success acts).
Definition no_reexec (acts : list act) (called : list nat) : bool :=
  forallb (fun k => negb (existsb (Nat.eqb k) (successes acts))) called.

(* M4: a sequence inside a finished (Completed/Failed/Stopped) sequence, block or plan is never executed *)
Definition live_seq_ids (b : blk) : list nat :=
  if is_terminal (bk_st b) then [] else
  flat_map (fun s => if is_terminal (sq_st s) then [] else map ac_id (sq_acts s)) (bk_seqs b).
Definition only_live (ids called : list nat) : bool :=
  forallb (fun k => existsb (Nat.eqb k) ids) called.

Definition mon_blk (b b' : blk) (calls : list (nat * list nat)) : nat :=
  let called := flat_map snd calls in
  if negb (keep_blk b b') then 1
  else if negb (no_reexec (seq_actions_of_blk b) called) then 3
  else if negb (only_live (live_seq_ids b) called) then 4
  else 0.

Definition mon_pln (p p' : pln) (calls : list (nat * nat * list nat)) : nat :=
  let called := flat_map snd calls in
  if negb (keep_pln p p') then 1
  else if negb (no_reexec (flat_map seq_actions_of_blk (pl_blocks p)) called) then 3
  else if negb (only_live (if is_terminal (pl_st p) then [] else flat_map live_seq_ids (pl_blocks p)) called) then 4
  else 0.

(* ------------------------------------------------------------------ cases *)
Inductive case :=
| CAct (a a' : act)
| CChk (c c' : chk)
| CSeq (s s' : seq)
| CBlk (sc : script) (b b' : blk) (calls : list (nat * list nat))            (* (seq index, call log) *)
| CPln (sc : script) (p p' : pln) (calls : list (nat * nat * list nat))     (* (block, seq, call log) *)
        (e : option entry)
| CGuard (c : option chk) (skip completed failed : bool)
| CIsCompleted (t : status) (r : bool)
| CWitness (n : nat) (c : case).          (* c must be the CPln case of witness n of Witness.v *)

Definition entry_eqb (a b : entry) : bool :=
  match a, b with EStart, EStart | EEnd, EEnd | EBypass, EBypass => true | _, _ => false end.

Fixpoint calls_ok_blk (seqs1 seqs2 : list seq) (res : list nat) (calls : list (nat * list nat)) : bool :=
  match res, calls with
  | [], [] => true
  | j :: res', (j', l) :: calls' =>
      Nat.eqb j j'
      && match nth_error seqs1 j, nth_error seqs2 j with
         | Some s1, Some s2 => nats_eqb (calls_of (sq_acts s1) (sq_acts s2)) l
         | _, _ => false
         end
      && calls_ok_blk seqs1 seqs2 res' calls'
  | _, _ => false
  end.

(* result: agreement = [0; kind; branch; sub-branches...];
   disagreement = [code; monitor; location...] with code 1 = image afterwards differs, 2 = executed sequences or
   their plugin calls differ, 4 = entry point differs; monitor = 0 if every property monitor holds on what the
   implementation did, else the number of the first one that fails (1 keeps-finished, 2 fixAction spec,
   3 re-execution of a durable success, 4 execution inside a finished object);
   [7; monitor] = model and code agree but a monitor is false (FixProofs.model_keeps_finished / model_meets_action_spec
   exclude it for monitors 1 and 2) *)
Definition check_blk (sc : script) (b b' : blk) (calls : list (nat * list nat)) : list nat :=
  let run := run_seq_script sc in
  let fb := fix_block run b in
  let m := mon_blk b b' calls in
  match blk_diff (fb_blk fb) b' with
  | [] =>
      let seqs1 := map fix_seq (bk_seqs b) in
      if negb (calls_ok_blk seqs1 (map (resume_seq run) seqs1) (fb_resumed fb) calls) then [2; m] else
      if negb (Nat.eqb m 0) then [7; m] else
      [0; 4; fix_block_branch run b]
  | l => 1 :: m :: l
  end.

Fixpoint calls_ok_pln (run : seq -> seq) (bs : list blk) (res : list (nat * nat)) (calls : list (nat * nat * list nat)) : bool :=
  match res, calls with
  | [], [] => true
  | (i, j) :: res', (i', j', l) :: calls' =>
      Nat.eqb i i' && Nat.eqb j j'
      && match nth_error bs i with
         | Some b => match nth_error (map fix_seq (bk_seqs b)) j with
                     | Some s1 => nats_eqb (calls_of (sq_acts s1) (sq_acts (resume_seq run s1))) l
                     | None => false
                     end
         | None => false
         end
      && calls_ok_pln run bs res' calls'
  | _, _ => false
  end.

Definition check_pln (sc : script) (p p' : pln) (calls : list (nat * nat * list nat)) (e : option entry) : list nat :=
  let run := run_seq_script sc in
  let fp := fix_plan run p in
  let m := mon_pln p p' calls in
  match pln_diff (fp_pln fp) p' with
  | [] =>
      if negb (calls_ok_pln run (pl_blocks p) (fp_resumed fp) calls) then [2; m] else
      if negb (Nat.eqb m 0) then [7; m] else
      let br := fix_plan_branch run p in
      let subs := if Nat.leb 4 (Nat.modulo br 10) then block_branches run (pl_blocks p) else [] in
      match e with
      | Some e' => if entry_eqb (recovery_entry run p) e' then [0; 5; br] ++ subs else [4; m]
      | None => [0; 5; br] ++ subs
      end
  | l => 1 :: m :: l
  end.

Definition check_case (c : case) : list nat :=
  match c with
  | CAct a a' =>
      match act_diff (fix_action a) a' with
      | [] => if spec_act a a' then [0; 1; fix_action_branch a] else [7; 2]
      | l => 1 :: (if spec_act a a' then 0 else 2) :: l
      end
  | CChk k k' => match chk_diff (fix_checks k) k' with
                 | [] => if keep_chk k k' then [0; 2; fix_checks_branch k] else [7; 1]
                 | l => 1 :: (if keep_chk k k' then 0 else 1) :: l end
  | CSeq s s' => match seq_diff (fix_seq s) s' with
                 | [] => if keep_seq s s' then [0; 3; fix_seq_branch s] else [7; 1]
                 | l => 1 :: (if keep_seq s s' then 0 else 1) :: l end
  | CBlk sc b b' calls => check_blk sc b b' calls
  | CPln sc p p' calls e => check_pln sc p p' calls e
  | CGuard k skip compl failed =>
      if bool_eqb (skip_recovered_checks k) skip && bool_eqb (checks_completed k) compl
         && bool_eqb (checks_failed k) failed then [0; 6; 0] else [1; 0]
  | CIsCompleted t r => if bool_eqb (is_completed t) r then [0; 7; 0] else [1; 0]
  | CWitness n (CPln sc p p' calls e) =>
      match nth_error witness_images n with
      | Some w => match pln_diff w p with
                  | [] => check_pln sc p p' calls e
                  | l => 9 :: 0 :: l                      (* the harness's witness is not the lemma's witness *)
                  end
      | None => [9; 0]
      end
  | CWitness _ _ => [9; 0]
  end.

Definition case_ok (c : case) : bool :=
  match check_case c with 0 :: _ => true | _ => false end.
