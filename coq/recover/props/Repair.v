(* Crash repair: theorems about the model of recovery.go (Coercion.Recover.Fix). *)
From Coercion.Base Require Import Plan.
From Coercion.Recover Require Import Fix.

Theorem fix_action_untouched_unless_running :
  forall a : act, ac_st a <> Running -> fix_action a = a.
Proof. intros a H. unfold fix_action. destruct (ac_st a); try reflexivity. now elim H. Qed.
Print Assumptions fix_action_untouched_unless_running.
