(* Crash repair (internal/execute/sm/recovery.go): what can be stated about repair alone - the repair side of
   C09 (durably finished work is never executed again) and C10 (recovery converges).

   Model: Coercion.Recover.Fix - fix_action, fix_checks, fix_seq, fix_block, fix_plan and Recovery's switch
   (entry_of), transcribed with their oddities, on an image (statuses, attempts as (has error, End is zero),
   zero-ness of Start/End).  fixBlock executes the sequences it still finds Running: that is the oracle
   [run_seq]; the theorems that need it assume [run_contract run_seq] (FixSpec: on a sequence whose actions are all
   Completed or NotStarted, the actions are run in order, Completed ones are not touched, a NotStarted one ends
   Completed or Failed, nothing after the first failure is touched, and the sequence ends Failed / Completed
   accordingly) - which [exec_seq], the transcription of execSeq/runAction, is proved to meet.
   Tie to the code: FixCheck.v + harness/cmd/fixprobe (function equality on every run).

   All statements are for every image; there is no bound on shapes, attempts or statuses. *)
From Coercion.Base Require Import Plan.
From Coercion.Recover Require Import Fix FixSpec Witness FixCheck FixProofs FixMonitorProofs FixExamples.

(* ------------------------------------------------------------------ fixAction *)
(* Declarative specification: an action that is not Running is untouched; a Running one whose attempts are all
   incomplete (End zero) - in particular one with no attempt - is reset to NotStarted with no attempts and zero
   times; otherwise the incomplete trailing attempts are dropped and the last complete attempt decides: no error
   -> Completed, error -> Failed, End stamped, Start and the earlier attempts kept. *)
Theorem fix_action_spec :
  forall a : act,
    (ac_st a <> Running -> fix_action a = a)
    /\ (ac_st a = Running -> Forall (fun x => x_endz x = true) (ac_atts a) ->
        fix_action a = Build_act (ac_id a) NotStarted true true [])
    /\ (ac_st a = Running ->
        forall kept x dropped, ac_atts a = kept ++ x :: dropped -> x_endz x = false ->
          Forall (fun y => x_endz y = true) dropped ->
          fix_action a = Build_act (ac_id a) (if x_err x then Failed else Completed) (ac_sz a) false (kept ++ [x])).
Proof. exact fix_action_spec_all. Qed.
Print Assumptions fix_action_spec.

(* the three cases of the specification are exhaustive: it determines fix_action completely *)
Theorem fix_action_spec_exhaustive :
  forall l : list att,
    Forall (fun x => x_endz x = true) l
    \/ exists kept x dropped, l = kept ++ x :: dropped /\ x_endz x = false /\ Forall (fun y => x_endz y = true) dropped.
Proof. exact atts_cases. Qed.
Print Assumptions fix_action_spec_exhaustive.

Theorem fix_action_never_leaves_running :
  forall a : act, ac_st (fix_action a) <> Running.
Proof. exact fix_action_not_running. Qed.
Print Assumptions fix_action_never_leaves_running.

Theorem fix_action_idempotent :
  forall a : act, fix_action (fix_action a) = fix_action a.
Proof. exact fix_action_idem. Qed.
Print Assumptions fix_action_idempotent.

(* ------------------------------------------------------------------ execSeq is an instance of the contract *)
Theorem exec_seq_meets_contract :
  forall run_act : act -> act,
    (forall a, ac_st a = NotStarted -> ac_st (run_act a) = Completed \/ ac_st (run_act a) = Failed) ->
    run_contract (exec_seq run_act).
Proof. exact exec_seq_contract. Qed.
Print Assumptions exec_seq_meets_contract.

(* what fixBlock hands to execSeq is always inside the contract's domain: every action of a sequence that is
   still Running after fixSeq is Completed or NotStarted (none Running, Failed or Stopped) *)
Theorem resumed_sequence_is_resumable :
  forall s : seq, sq_st (fix_seq s) = Running ->
    sq_st (fix_seq s) = Running
    /\ Forall (fun a => ac_st a = Completed \/ ac_st a = NotStarted) (sq_acts (fix_seq s)).
Proof. exact fix_seq_resumable. Qed.
Print Assumptions resumed_sequence_is_resumable.

(* ------------------------------------------------------------------ fix_never_unfinishes (heart of C09, repair side)
   Whatever is Completed, Failed or Stopped in the image - plan, block, sequence, sequence action - is, after
   fixPlan INCLUDING the execution of the resumed sequences, the same object at the same place, with its whole
   subtree; every check group that is not Running is untouched with its actions; the shape is preserved. *)
Theorem fix_never_unfinishes :
  forall (run_seq : seq -> seq), run_contract run_seq ->
  forall p : pln,
    let p' := fp_pln (fix_plan run_seq p) in
    (is_terminal (pl_st p) = true -> p' = p)
    /\ (forall i b, get_blk p i = Some b -> is_terminal (bk_st b) = true -> get_blk p' i = Some b)
    /\ (forall i j s, get_seq p i j = Some s -> is_terminal (sq_st s) = true -> get_seq p' i j = Some s)
    /\ (forall i j k a, get_act p i j k = Some a -> is_terminal (ac_st a) = true -> get_act p' i j k = Some a)
    /\ (forall g c, pl_grp g p = Some c -> ck_st c <> Running -> pl_grp g p' = Some c)
    /\ (forall i g c, get_bgrp p i g = Some c -> ck_st c <> Running -> get_bgrp p' i g = Some c)
    /\ length (pl_blocks p') = length (pl_blocks p).
Proof. exact never_unfinishes_all. Qed.
Print Assumptions fix_never_unfinishes.

(* ------------------------------------------------------------------ fix_plan_idempotent (modulo run_seq)
   Repairing the repaired image changes nothing and executes nothing. *)
Theorem fix_plan_idempotent :
  forall (run_seq : seq -> seq), run_contract run_seq ->
  forall p : pln,
    fix_plan run_seq (fp_pln (fix_plan run_seq p)) = Build_fixp (fp_pln (fix_plan run_seq p)) [].
Proof. exact fix_plan_idem. Qed.
Print Assumptions fix_plan_idempotent.

(* ------------------------------------------------------------------ fix_no_running_action_left: what IS true
   In a block that fixBlock processed completely (fb_full: it was Running and none of the early returns was
   taken), no sequence is Running afterwards; every sequence that was Running in the image has no Running action
   left; the other sequences are untouched (so a Running action can only survive inside a sequence that was not
   itself Running in the image). *)
Theorem fix_no_running_action_left :
  forall (run_seq : seq -> seq), run_contract run_seq ->
  forall (b : blk) (j : nat) (s s' : seq),
    fb_full (fix_block run_seq b) = true ->
    nth_error (bk_seqs b) j = Some s ->
    nth_error (bk_seqs (fb_blk (fix_block run_seq b))) j = Some s' ->
    sq_st s' <> Running
    /\ (sq_st s = Running -> Forall (fun a => ac_st a <> Running) (sq_acts s'))
    /\ (sq_st s <> Running -> s' = s).
Proof. exact no_running_left_in_processed_block. Qed.
Print Assumptions fix_no_running_action_left.

(* ... and which blocks fixPlan hands to fixBlock: all of them up to the first one that comes back Stopped,
   provided the plan is Running and not cut short by its own bypass / pre / post group *)
Theorem fix_plan_processes_blocks :
  forall (run_seq : seq -> seq), run_contract run_seq ->
  forall (p : pln) (i : nat) (b : blk),
    pl_st p = Running ->
    chk_is Completed (fix_checks_opt (pl_bypass p)) = false ->
    checks_failed (pl_pre p) = false -> checks_failed (pl_post p) = false ->
    get_blk p i = Some b ->
    (forall i' b', i' < i -> get_blk p i' = Some b' -> bk_st (fb_blk (fix_block run_seq b')) <> Stopped) ->
    get_blk (fp_pln (fix_plan run_seq p)) i = Some (fb_blk (fix_block run_seq b)).
Proof. exact plan_processes_blocks. Qed.
Print Assumptions fix_plan_processes_blocks.

(* ------------------------------------------------------------------ negative results: the known findings
   "When Recovery goes straight to End nothing is left Running" is FALSE for the code as it is.
   The witnesses (Witness.v) are replayed on the implementation through the hooks on every run. *)

(* R2: crash during the run of a check group (the group is durably NotStarted - groups are never written
   Running, so fixChecks does not fire - and its action durably Running); here the deferred group of a block
   whose post group had failed.  fixPlan: plan Failed, entry End, the action stays Running, the group is never run *)
Theorem repair_R2_refuted :
  ~ (forall (run_seq : seq -> seq) (p : pln), pl_st p = Running -> recovery_entry run_seq p = EEnd ->
       no_running_check_action (fp_pln (fix_plan run_seq p)) = true).
Proof. exact R2_refuted. Qed.
Print Assumptions repair_R2_refuted.

Theorem repair_R2_witness :
  forall run_seq : seq -> seq,
    pl_st witness_R2 = Running
    /\ recovery_entry run_seq witness_R2 = EEnd
    /\ pl_st (fp_pln (fix_plan run_seq witness_R2)) = Failed
    /\ fp_resumed (fix_plan run_seq witness_R2) = []
    /\ no_running_check_action (fp_pln (fix_plan run_seq witness_R2)) = false
    /\ (exists c a, get_bgrp (fp_pln (fix_plan run_seq witness_R2)) 0 GDeferred = Some c
                    /\ ck_st c = NotStarted /\ nth_error (ck_acts c) 0 = Some a /\ ac_st a = Running).
Proof. exact witness_R2_facts. Qed.
Print Assumptions repair_R2_witness.

(* R3: a Running block with a durably Failed continuous group and a sequence in flight: fixBlock returns at
   once (block Failed, fb_full = false), the sequence and its action stay Running, plan Failed, entry End *)
Theorem repair_R3_refuted :
  ~ (forall (run_seq : seq -> seq) (p : pln), pl_st p = Running -> recovery_entry run_seq p = EEnd ->
       no_running_sequence (fp_pln (fix_plan run_seq p)) = true).
Proof. exact R3_refuted. Qed.
Print Assumptions repair_R3_refuted.

Theorem repair_R3_witness :
  forall run_seq : seq -> seq,
    pl_st witness_R3 = Running
    /\ recovery_entry run_seq witness_R3 = EEnd
    /\ pl_st (fp_pln (fix_plan run_seq witness_R3)) = Failed
    /\ fp_resumed (fix_plan run_seq witness_R3) = []
    /\ no_running_sequence (fp_pln (fix_plan run_seq witness_R3)) = false
    /\ (exists b s a, get_blk witness_R3 0 = Some b /\ bk_st b = Running /\ chk_is Failed (bk_cont b) = true
                      /\ fb_full (fix_block run_seq b) = false
                      /\ get_seq (fp_pln (fix_plan run_seq witness_R3)) 0 0 = Some s /\ sq_st s = Running
                      /\ nth_error (sq_acts s) 1 = Some a /\ ac_st a = Running).
Proof. exact witness_R3_facts. Qed.
Print Assumptions repair_R3_witness.

(* R6: the plan's continuous group is durably Failed while a block is executing: fixPlan marks the plan Failed but
   does not return, the block stays Running (nothing in it failed), Recovery goes to End: the block is abandoned
   Running, its unstarted sequence and its deferred group never run *)
Theorem repair_R6_refuted :
  ~ (forall (run_seq : seq -> seq) (p : pln), pl_st p = Running -> recovery_entry run_seq p = EEnd ->
       no_running_block (fp_pln (fix_plan run_seq p)) = true).
Proof. exact R6_refuted. Qed.
Print Assumptions repair_R6_refuted.

Theorem repair_R6_witness :
  forall run_seq : seq -> seq,
    pl_st witness_R6 = Running
    /\ checks_failed (pl_cont witness_R6) = true
    /\ recovery_entry run_seq witness_R6 = EEnd
    /\ pl_st (fp_pln (fix_plan run_seq witness_R6)) = Failed
    /\ fp_resumed (fix_plan run_seq witness_R6) = []
    /\ no_running_block (fp_pln (fix_plan run_seq witness_R6)) = false
    /\ (exists b s c, get_blk (fp_pln (fix_plan run_seq witness_R6)) 0 = Some b /\ bk_st b = Running
                      /\ nth_error (bk_seqs b) 1 = Some s /\ sq_st s = NotStarted
                      /\ bk_deferred b = Some c /\ ck_st c = NotStarted).
Proof. exact witness_R6_facts. Qed.
Print Assumptions repair_R6_witness.

(* R5 (repair side): the image a second crash leaves behind - a sequence durably Running, all its actions Completed,
   inside a block durably Completed - is not repaired (fixBlock ignores blocks that are not Running): the plan is
   Completed, entry End, with a Running sequence.  That the image IS left behind (the first recovery repairs the
   sequence only in memory) is the engine's part: the harness takes the image from a real recovery on every run. *)
Theorem repair_R5_witness :
  forall run_seq : seq -> seq,
    pl_st witness_R5 = Running
    /\ recovery_entry run_seq witness_R5 = EEnd
    /\ pl_st (fp_pln (fix_plan run_seq witness_R5)) = Completed
    /\ fp_resumed (fix_plan run_seq witness_R5) = []
    /\ no_running_sequence (fp_pln (fix_plan run_seq witness_R5)) = false
    /\ (exists b s, get_blk (fp_pln (fix_plan run_seq witness_R5)) 0 = Some b /\ bk_st b = Completed
                    /\ nth_error (bk_seqs b) 0 = Some s /\ sq_st s = Running
                    /\ Forall (fun a => ac_st a = Completed) (sq_acts s)).
Proof. exact witness_R5_facts. Qed.
Print Assumptions repair_R5_witness.

(* ------------------------------------------------------------------ non-vacuity
   The contract is met by the scripted execution the correspondence check uses (so every theorem above applies
   to it), and the hypotheses hold on the concrete image FixExamples.ex_image (a finished block, a finished
   action inside a Running sequence, a resumed sequence, a completely processed block). *)
Theorem contract_is_satisfiable :
  forall sc : script, run_contract (run_seq_script sc).
Proof. exact run_seq_script_contract. Qed.
Print Assumptions contract_is_satisfiable.

(* ------------------------------------------------------------------ the monitors of the correspondence check
   FixCheck.keep_pln (monitor 1: what is finished in the image is kept, as a boolean over before/after) and
   FixCheck.spec_act (monitor 2: fix_action_spec as a boolean) are evaluated on what the IMPLEMENTATION did; they
   hold of everything the model does, so a false monitor is a property violation of the code, never of the model *)
Theorem monitor_keeps_finished_holds_of_model :
  forall (run_seq : seq -> seq), run_contract run_seq ->
  forall p : pln, keep_pln p (fp_pln (fix_plan run_seq p)) = true.
Proof. exact model_keeps_finished. Qed.
Print Assumptions monitor_keeps_finished_holds_of_model.

Theorem monitor_action_spec_holds_of_model :
  forall a : act, spec_act a (fix_action a) = true.
Proof. exact model_meets_action_spec. Qed.
Print Assumptions monitor_action_spec_holds_of_model.
