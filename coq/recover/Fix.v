(* Crash repair: a transcription of /repo/internal/execute/sm/recovery.go
   (Recovery's switch, fixAction, resetAction, fixChecks, fixSeq, fixBlock, fixPlan, checksFailed,
   checksCompleted, skipRecoveredChecks, skipBlock, isCompleted) and of the guards the normal states of
   sm.go apply to recovered objects.  No proofs in this file.

   The functions work on an IMAGE: the plan tree restricted to what repair reads and writes -
   statuses, the attempts of every action as (has an error, End is the zero time), and the
   zero-ness of every State.Start / State.End.  Instants written by the repair (time.Now(), or a copy
   of an attempt's non-zero End) are abstracted to "not zero".  [Erase.v] maps a Coercion.Base.Plan
   plan to its image.

   fixBlock EXECUTES the sequences it still finds Running after repairing them (s.execSeq, in
   goroutines, then g.Wait).  Execution is external behaviour: it is the Section variable
   [run_seq : seq -> seq]; its contract is stated in FixSpec.v ([run_contract]) and is a premise of the
   theorems that need it.  [exec_seq] below is the transcription of execSeq/runAction over an oracle for
   ONE action run, and FixProofs.v proves that it meets the contract.

   Oddities of the code are transcribed, not repaired (see the comments marked ODD). *)
From Coercion.Base Require Import Plan.

(* ------------------------------------------------------------------ the image *)
Record att := { x_err : bool;        (* Attempt.Err != nil *)
                x_endz : bool }.     (* Attempt.End.IsZero() *)
Record act := { ac_id : nat;         (* identity only (never read by repair): the harness numbers actions *)
                ac_st : status; ac_sz : bool; ac_ez : bool;   (* State.Status, Start.IsZero(), End.IsZero() *)
                ac_atts : list att }.
Record chk := { ck_st : status; ck_sz : bool; ck_ez : bool; ck_acts : list act }.
Record seq := { sq_st : status; sq_sz : bool; sq_ez : bool; sq_acts : list act }.
Record blk := { bk_st : status; bk_sz : bool; bk_ez : bool;
                bk_bypass : option chk; bk_pre : option chk; bk_cont : option chk;
                bk_post : option chk; bk_deferred : option chk;
                bk_seqs : list seq }.
Record pln := { pl_st : status; pl_sz : bool; pl_ez : bool;
                pl_bypass : option chk; pl_pre : option chk; pl_cont : option chk;
                pl_post : option chk; pl_deferred : option chk;
                pl_blocks : list blk }.

Definition count_st {A} (st : A -> status) (t : status) (l : list A) : nat :=
  length (filter (fun x => status_eqb (st x) t) l).

(* c != nil && c.State.Status == t *)
Definition chk_is (t : status) (c : option chk) : bool :=
  match c with Some k => status_eqb (ck_st k) t | None => false end.

(* ------------------------------------------------------------------ guards (recovery.go, bottom) *)
Definition checks_failed (c : option chk) : bool := chk_is Failed c.
Definition checks_completed (c : option chk) : bool :=
  match c with None => true | Some k => status_eqb (ck_st k) Completed end.
(* ODD: both branches for a non-nil group return false: a recovered group is never skipped here *)
Definition skip_recovered_checks (c : option chk) : bool :=
  match c with None => true | Some _ => false end.
Definition is_completed (t : status) : bool :=
  match t with Completed | Failed | Stopped => true | _ => false end.
Definition skip_block (b : blk) : bool := is_completed (bk_st b).

(* ------------------------------------------------------------------ fixAction / resetAction *)
Definition reset_action (a : act) : act := Build_act (ac_id a) NotStarted true true [].

(* attempts LAST FIRST: drop the trailing attempts whose End is zero (the recursion of fixAction) *)
Fixpoint strip_open (r : list att) : list att :=
  match r with
  | x :: r' => if x_endz x then strip_open r' else r
  | [] => []
  end.

Definition fix_action (a : act) : act :=
  if negb (status_eqb (ac_st a) Running) then a else
  match strip_open (rev (ac_atts a)) with
  | [] => reset_action a                                    (* len(a.Attempts) == 0 *)
  | x :: r' =>                                              (* last attempt is complete *)
      Build_act (ac_id a) (if x_err x then Failed else Completed) (ac_sz a) false (rev (x :: r'))
  end.

(* ------------------------------------------------------------------ fixChecks *)
(* ODD (R2): acts only on a group that is Running; the engine never writes a group as Running *)
Definition fix_checks (c : chk) : chk :=
  if negb (status_eqb (ck_st c) Running) then c
  else Build_chk NotStarted true true (map reset_action (ck_acts c)).

Definition fix_checks_opt (c : option chk) : option chk := option_map fix_checks c.

(* ------------------------------------------------------------------ fixSeq *)
Definition stop_running_action (a : act) : act :=
  if status_eqb (ac_st a) Running then Build_act (ac_id a) Stopped (ac_sz a) false (ac_atts a) else a.

Definition fix_seq (s : seq) : seq :=
  if negb (status_eqb (sq_st s) Running) then s else
  if Nat.ltb 0 (count_st ac_st Stopped (sq_acts s)) then
    Build_seq Stopped (sq_sz s) false (map stop_running_action (sq_acts s))
  else
    let acts := map fix_action (sq_acts s) in
    let completed := count_st ac_st Completed acts in
    let running := count_st ac_st Running acts in
    let failed := count_st ac_st Failed acts in
    let stopped := count_st ac_st Stopped acts in
    if Nat.ltb 0 stopped then Build_seq Stopped (sq_sz s) false acts
    else if Nat.ltb 0 failed then Build_seq Failed (sq_sz s) false acts
    else if Nat.eqb completed 0 && Nat.eqb running 0 then Build_seq NotStarted true true acts
    else if Nat.eqb completed (length acts) then Build_seq Completed (sq_sz s) false acts
    else Build_seq (sq_st s) (sq_sz s) (sq_ez s) acts.

(* ------------------------------------------------------------------ fixBlock *)
Record fixb := { fb_blk : blk;
                 fb_resumed : list nat;    (* indices of the sequences executed at once *)
                 fb_full : bool }.         (* the sequence loop was reached (no early return) *)

Fixpoint running_ix (i : nat) (l : list seq) : list nat :=
  match l with
  | [] => []
  | s :: r => if status_eqb (sq_st s) Running then i :: running_ix (S i) r else running_ix (S i) r
  end.

Definition stop_running_seq (s : seq) : seq :=      (* ODD: no End stamp here *)
  if status_eqb (sq_st s) Running then Build_seq Stopped (sq_sz s) (sq_ez s) (sq_acts s) else s.

Definition blk_upd (b : blk) (t : status) (by_ pre cont post : option chk) (seqs : list seq) : blk :=
  Build_blk t (bk_sz b) (bk_ez b) by_ pre cont post (bk_deferred b) seqs.

Section WithRun.
Variable run_seq : seq -> seq.

Definition resume_seq (s : seq) : seq := if status_eqb (sq_st s) Running then run_seq s else s.

Definition fix_block (b : blk) : fixb :=
  if negb (status_eqb (bk_st b) Running) then Build_fixb b [] false else
  let by_ := fix_checks_opt (bk_bypass b) in
  if chk_is Completed by_ then
    Build_fixb (blk_upd b Completed by_ (bk_pre b) (bk_cont b) (bk_post b) (bk_seqs b)) [] false
  else if chk_is Failed (bk_pre b) then                                      (* ODD (R3): early return *)
    Build_fixb (blk_upd b Failed by_ (bk_pre b) (bk_cont b) (bk_post b) (bk_seqs b)) [] false
  else let pre := fix_checks_opt (bk_pre b) in
  if chk_is Failed (bk_cont b) then                                          (* ODD (R3) *)
    Build_fixb (blk_upd b Failed by_ pre (bk_cont b) (bk_post b) (bk_seqs b)) [] false
  else let cont := fix_checks_opt (bk_cont b) in
  if chk_is Failed (bk_post b) then                                          (* ODD (R3) *)
    Build_fixb (blk_upd b Failed by_ pre cont (bk_post b) (bk_seqs b)) [] false
  else let post := fix_checks_opt (bk_post b) in
  (* ODD: the deferred group is not looked at *)
  let seqs1 := map fix_seq (bk_seqs b) in
  let completed := count_st sq_st Completed seqs1 in      (* ODD: counted before the resumed ones finish *)
  let stopped := count_st sq_st Stopped seqs1 in
  let failed := count_st sq_st Failed seqs1
                + length (filter (fun s => status_eqb (sq_st s) Running
                                            && status_eqb (sq_st (run_seq s)) Failed) seqs1) in
  let seqs2 := map resume_seq seqs1 in
  let resumed := running_ix 0 seqs1 in
  if Nat.ltb 0 stopped then
    Build_fixb (blk_upd b Stopped by_ pre cont post (map stop_running_seq seqs2)) resumed true
  else if Nat.eqb completed 0 && Nat.eqb failed 0 then
    Build_fixb (Build_blk NotStarted true true by_ pre cont post (bk_deferred b) seqs2) resumed true
  else
    Build_fixb (blk_upd b (bk_st b) by_ pre cont post seqs2) resumed true.

(* ------------------------------------------------------------------ fixPlan *)
Record fixp := { fp_pln : pln;
                 fp_resumed : list (nat * nat) }.   (* (block, sequence) executed at once, in loop order *)

(* the loop over p.Blocks; it stops at the first block that comes back Stopped (later blocks untouched) *)
Fixpoint fix_blocks (i : nat) (bs : list blk) : list blk * list (nat * nat) * bool :=
  match bs with
  | [] => ([], [], false)
  | b :: r =>
      let fb := fix_block b in
      let res := map (fun j => (i, j)) (fb_resumed fb) in
      if status_eqb (bk_st (fb_blk fb)) Stopped then (fb_blk fb :: r, res, true)
      else let '(r', res', stop) := fix_blocks (S i) r in (fb_blk fb :: r', res ++ res', stop)
  end.

Definition pln_upd (p : pln) (t : status) (ez : bool) (by_ pre cont post def : option chk) (bs : list blk) : pln :=
  Build_pln t (pl_sz p) ez by_ pre cont post def bs.

Definition fix_plan (p : pln) : fixp :=
  if negb (status_eqb (pl_st p) Running) then Build_fixp p [] else
  let by_ := fix_checks_opt (pl_bypass p) in
  if chk_is Completed by_ then
    Build_fixp (pln_upd p Completed (pl_ez p) by_ (pl_pre p) (pl_cont p) (pl_post p) (pl_deferred p) (pl_blocks p)) []
  else if checks_failed (pl_pre p) then
    Build_fixp (pln_upd p Failed (pl_ez p) by_ (pl_pre p) (pl_cont p) (pl_post p) (pl_deferred p) (pl_blocks p)) []
  else let pre := fix_checks_opt (pl_pre p) in
  if checks_failed (pl_post p) then                         (* ODD: post is examined before cont *)
    Build_fixp (pln_upd p Failed (pl_ez p) by_ pre (pl_cont p) (pl_post p) (pl_deferred p) (pl_blocks p)) []
  else let post := fix_checks_opt (pl_post p) in
  let st1 := if checks_failed (pl_cont p) then Failed else pl_st p in   (* ODD: no return *)
  let cont := fix_checks_opt (pl_cont p) in
  let def := fix_checks_opt (pl_deferred p) in
  let '(bs, res, stop) := fix_blocks 0 (pl_blocks p) in
  if stop then Build_fixp (pln_upd p Stopped (pl_ez p) by_ pre cont post def bs) res
  else
    let completed := count_st bk_st Completed bs in
    let running := count_st bk_st Running bs in
    let failed := count_st bk_st Failed bs in
    if Nat.ltb 0 failed then Build_fixp (pln_upd p Failed false by_ pre cont post def bs) res
    else if Nat.eqb completed 0 && Nat.eqb running 0 && Nat.eqb failed 0 then   (* ODD: overrides st1 *)
      Build_fixp (Build_pln NotStarted true true by_ pre cont post def bs) res
    else if Nat.eqb completed (length bs) && checks_completed post && checks_completed def then
      Build_fixp (pln_upd p Completed false by_ pre cont post def bs) res
    else Build_fixp (pln_upd p st1 (pl_ez p) by_ pre cont post def bs) res.

(* ------------------------------------------------------------------ Recovery's switch *)
Inductive entry := EStart | EEnd | EBypass.     (* s.Start | s.End | s.PlanBypassChecks *)

Definition entry_of (p : pln) : entry :=
  match pl_st p with
  | NotStarted => EStart
  | Completed | Failed | Stopped => EEnd
  | Running => EBypass
  end.

(* Recovery is entered only for a plan read as Running (execute.runPlan) *)
Definition recovery_entry (p : pln) : entry := entry_of (fp_pln (fix_plan p)).

End WithRun.

(* ------------------------------------------------------------------ execSeq / runAction (sm.go) *)
Section Exec.
(* one action run through the actions state machine, from NotStarted (or Running) to its End state *)
Variable run_act : act -> act.

(* action.Attempts[len-1].Err != nil; with no attempt the code panics (index out of range): modelled as
   an error; unreachable from fixBlock (FixProofs.fix_seq_resumable) *)
Definition last_err (a : act) : bool :=
  match rev (ac_atts a) with x :: _ => x_err x | [] => true end.

(* runAction: (action afterwards, err != nil) *)
Definition run_action (a : act) : act * bool :=
  match ac_st a with
  | Completed => (a, false)
  | Failed => (a, last_err a)
  | Stopped => (a, true)                       (* actions.Start: "unsupported state" *)
  | _ => let a' := run_act a in (a', status_eqb (ac_st a') Failed)
  end.

Fixpoint exec_actions (l : list act) : list act * bool :=
  match l with
  | [] => ([], false)
  | a :: r =>
      let (a', err) := run_action a in
      if err then (a' :: r, true)
      else let (r', e) := exec_actions r in (a' :: r', e)
  end.

Definition exec_seq (s : seq) : seq :=
  match sq_st s with
  | Completed => s
  | Failed => s
  | _ => let (acts, err) := exec_actions (sq_acts s) in
         Build_seq (if err then Failed else Completed) false false acts
  end.
End Exec.

(* ------------------------------------------------------------------ how the normal states treat a
   recovered image (sm.go); used by the resumed-run automaton *)
Definition is_some {A} (o : option A) : bool := match o with Some _ => true | None => false end.

(* PlanBypassChecks: runs the group unless skipRecoveredChecks *)
Definition runs_plan_bypass (p : pln) : bool := negb (skip_recovered_checks (pl_bypass p)).
(* PlanPreChecks: pre and the initial continuous run are repeated whenever one of them exists *)
Definition runs_plan_pre (p : pln) : bool := is_some (pl_pre p) || is_some (pl_cont p).
(* PlanPostChecks / PlanDeferredChecks: unless isCompleted *)
Definition runs_plan_post (p : pln) : bool :=
  match pl_post p with Some k => negb (is_completed (ck_st k)) | None => false end.
Definition runs_plan_deferred (p : pln) : bool :=
  match pl_deferred p with Some k => negb (is_completed (ck_st k)) | None => false end.
(* BlockBypassChecks: unless nil or Failed *)
Definition runs_block_bypass (b : blk) : bool := is_some (bk_bypass b) && negb (chk_is Failed (bk_bypass b)).
(* BlockPreChecks (as of /repo 0c944e8): unless (no pre and no cont), or pre Completed and (no cont or cont Completed) *)
Definition runs_block_pre (b : blk) : bool :=
  negb ((negb (is_some (bk_pre b)) && negb (is_some (bk_cont b)))
        || (chk_is Completed (bk_pre b) && (negb (is_some (bk_cont b)) || chk_is Completed (bk_cont b)))).
(* ExecuteSequences skips Completed and Failed sequences (Failed ones count as failures) *)
Definition seq_skipped (s : seq) : bool := status_eqb (sq_st s) Completed || status_eqb (sq_st s) Failed.
(* BlockPostChecks / BlockDeferredChecks: unless checksCompleted (nil counts as completed) *)
Definition runs_block_post (b : blk) : bool := negb (checks_completed (bk_post b)).
Definition runs_block_deferred (b : blk) : bool := negb (checks_completed (bk_deferred b)).
