(* Specification side of the crash-repair theorems: the assumed contract of sequence execution, tree lookups,
   and the boolean "nothing is left Running" predicates the refutation lemmas are about.
   Written without reference to the fix_* functions.  No proofs here. *)
From Coercion.Base Require Import Plan.
From Coercion.Recover Require Import Fix.

(* ------------------------------------------------------------------ what fixBlock hands to execSeq *)
(* a sequence still Running after fixSeq: every action is done or untouched (FixProofs.fix_seq_resumable) *)
Definition resumable (s : seq) : Prop :=
  sq_st s = Running /\ Forall (fun a => ac_st a = Completed \/ ac_st a = NotStarted) (sq_acts s).

(* [ran l l' failed]: l' is what executing the actions l in order leaves behind.
   An action already Completed is not touched; a NotStarted one is run to Completed and the next one is taken,
   or to Failed, and then nothing after it is touched. *)
Inductive ran : list act -> list act -> bool -> Prop :=
| ran_nil  : ran [] [] false
| ran_skip : forall a l l' f, ac_st a = Completed -> ran l l' f -> ran (a :: l) (a :: l') f
| ran_ok   : forall a a' l l' f, ac_st a = NotStarted -> ac_st a' = Completed -> ran l l' f -> ran (a :: l) (a' :: l') f
| ran_fail : forall a a' l, ac_st a = NotStarted -> ac_st a' = Failed -> ran (a :: l) (a' :: l) true.

(* the contract of the oracle: terminal status, actions in order, stop at the first failure *)
Definition run_contract (run_seq : seq -> seq) : Prop :=
  forall s, resumable s ->
    exists failed, ran (sq_acts s) (sq_acts (run_seq s)) failed
                   /\ sq_st (run_seq s) = (if failed then Failed else Completed).

(* the contract of one action run (for exec_seq): a NotStarted action ends Completed or Failed *)
Definition act_contract (run_act : act -> act) : Prop :=
  forall a, ac_st a = NotStarted -> ac_st (run_act a) = Completed \/ ac_st (run_act a) = Failed.

(* ------------------------------------------------------------------ lookups *)
Definition pl_grp (g : grp) (p : pln) : option chk :=
  match g with GBypass => pl_bypass p | GPre => pl_pre p | GCont => pl_cont p | GPost => pl_post p | GDeferred => pl_deferred p end.
Definition bk_grp (g : grp) (b : blk) : option chk :=
  match g with GBypass => bk_bypass b | GPre => bk_pre b | GCont => bk_cont b | GPost => bk_post b | GDeferred => bk_deferred b end.

Definition get_blk (p : pln) (i : nat) : option blk := nth_error (pl_blocks p) i.
Definition get_seq (p : pln) (i j : nat) : option seq :=
  match get_blk p i with Some b => nth_error (bk_seqs b) j | None => None end.
Definition get_act (p : pln) (i j k : nat) : option act :=
  match get_seq p i j with Some s => nth_error (sq_acts s) k | None => None end.
Definition get_bgrp (p : pln) (i : nat) (g : grp) : option chk :=
  match get_blk p i with Some b => bk_grp g b | None => None end.

(* ------------------------------------------------------------------ "nothing left Running" *)
Definition not_running (t : status) : bool := negb (status_eqb t Running).
Definition chk_actions_quiet (c : option chk) : bool :=
  match c with Some k => forallb (fun a => not_running (ac_st a)) (ck_acts k) | None => true end.
Definition blk_check_actions_quiet (b : blk) : bool :=
  chk_actions_quiet (bk_bypass b) && chk_actions_quiet (bk_pre b) && chk_actions_quiet (bk_cont b)
  && chk_actions_quiet (bk_post b) && chk_actions_quiet (bk_deferred b).
(* no action of any check group is Running *)
Definition no_running_check_action (p : pln) : bool :=
  chk_actions_quiet (pl_bypass p) && chk_actions_quiet (pl_pre p) && chk_actions_quiet (pl_cont p)
  && chk_actions_quiet (pl_post p) && chk_actions_quiet (pl_deferred p)
  && forallb blk_check_actions_quiet (pl_blocks p).
(* no sequence and no sequence action is Running *)
Definition seq_quiet (s : seq) : bool :=
  not_running (sq_st s) && forallb (fun a => not_running (ac_st a)) (sq_acts s).
Definition no_running_sequence (p : pln) : bool :=
  forallb (fun b => forallb seq_quiet (bk_seqs b)) (pl_blocks p).

(* no block is Running *)
Definition no_running_block (p : pln) : bool := forallb (fun b => not_running (bk_st b)) (pl_blocks p).
