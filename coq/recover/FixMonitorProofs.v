(* The model satisfies the property monitors of FixCheck.v that the correspondence check evaluates on what the
   implementation did: monitor 1 (what is finished in the image is kept) and monitor 2 (fixAction's specification).
   So a monitor that is false on an observation can never be blamed on the model. *)
From Coq Require Import Lia.
From Coercion.Base Require Import Plan.
From Coercion.Recover Require Import Fix FixSpec Witness FixCheck FixProofs.

Lemma bool_eqb_refl b : bool_eqb b b = true.
Proof. destruct b; reflexivity. Qed.

Lemma list_diff_refl {A} (d : A -> A -> list nat) : (forall x, d x x = []) -> forall l i, list_diff d i l l = [].
Proof. intros H l. induction l as [|x l IH]; intro i; simpl; [reflexivity|]. now rewrite H, IH. Qed.

Lemma att_diff_refl x : att_diff x x = [].
Proof. unfold att_diff. now rewrite !bool_eqb_refl. Qed.

Lemma hdr_diff_refl t a b : hdr_diff t a b t a b = [].
Proof. unfold hdr_diff. now rewrite status_eqb_refl, !bool_eqb_refl. Qed.

Lemma act_diff_refl a : act_diff a a = [].
Proof. unfold act_diff. rewrite Nat.eqb_refl, hdr_diff_refl. simpl. now rewrite (list_diff_refl _ att_diff_refl). Qed.

Lemma chk_diff_refl c : chk_diff c c = [].
Proof. unfold chk_diff. rewrite hdr_diff_refl. now rewrite (list_diff_refl _ act_diff_refl). Qed.

Lemma ochk_diff_refl c : ochk_diff c c = [].
Proof. destruct c; simpl; [apply chk_diff_refl|reflexivity]. Qed.

Lemma seq_diff_refl s : seq_diff s s = [].
Proof. unfold seq_diff. rewrite hdr_diff_refl. now rewrite (list_diff_refl _ act_diff_refl). Qed.

Lemma groups_diff_refl a b c d e : groups_diff a b c d e a b c d e = [].
Proof. unfold groups_diff. now rewrite !ochk_diff_refl. Qed.

Lemma blk_diff_refl b : blk_diff b b = [].
Proof. unfold blk_diff. rewrite hdr_diff_refl, groups_diff_refl. now rewrite (list_diff_refl _ seq_diff_refl). Qed.

Lemma pln_diff_refl p : pln_diff p p = [].
Proof. unfold pln_diff. rewrite hdr_diff_refl, groups_diff_refl. now rewrite (list_diff_refl _ blk_diff_refl). Qed.

Lemma forall2b_nth {A} (f : A -> A -> bool) : forall l l',
  length l = length l' ->
  (forall k a a', nth_error l k = Some a -> nth_error l' k = Some a' -> f a a' = true) ->
  forall2b f l l' = true.
Proof.
  induction l as [|x l IH]; intros [|y l'] Hl H; simpl in *; try discriminate; [reflexivity|].
  rewrite (H 0 x y eq_refl eq_refl). simpl. apply IH; [congruence|].
  intros k a a' Ha Ha'. apply (H (S k)); assumption.
Qed.

Lemma forall2b_refl {A} (f : A -> A -> bool) l : (forall x, f x x = true) -> forall2b f l l = true.
Proof. intro H. induction l as [|x l IH]; simpl; [reflexivity|]. now rewrite H, IH. Qed.

Lemma forall2b_map_r {A} (f : A -> A -> bool) (g : A -> A) l :
  (forall x, f x (g x) = true) -> forall2b f l (map g l) = true.
Proof. intro H. induction l as [|x l IH]; simpl; [reflexivity|]. now rewrite H, IH. Qed.

Lemma keep_act_refl a : keep_act a a = true.
Proof. unfold keep_act. rewrite act_diff_refl. now destruct (is_terminal (ac_st a)). Qed.

Lemma keep_chk_refl c : keep_chk c c = true.
Proof. unfold keep_chk. rewrite chk_diff_refl. now destruct (negb (status_eqb (ck_st c) Running)). Qed.

Lemma keep_ochk_refl c : keep_ochk c c = true.
Proof. destruct c; simpl; [apply keep_chk_refl|reflexivity]. Qed.

Lemma keep_ochk_fix c : keep_ochk c (fix_checks_opt c) = true.
Proof.
  destruct c as [k|]; [|reflexivity]. simpl. unfold keep_chk.
  destruct (status_eqb (ck_st k) Running) eqn:E; [reflexivity|]. simpl.
  rewrite fix_checks_other by now apply status_eqb_false. now rewrite chk_diff_refl.
Qed.

Lemma keep_ochk_either c c' : c' = c \/ c' = fix_checks_opt c -> keep_ochk c c' = true.
Proof. intros [-> | ->]; [apply keep_ochk_refl|apply keep_ochk_fix]. Qed.

Lemma keep_seq_refl s : keep_seq s s = true.
Proof.
  unfold keep_seq. rewrite seq_diff_refl. destruct (is_terminal (sq_st s)); [reflexivity|].
  apply forall2b_refl, keep_act_refl.
Qed.

Lemma keep_blk_refl b : keep_blk b b = true.
Proof.
  unfold keep_blk. rewrite blk_diff_refl. destruct (is_terminal (bk_st b)); [reflexivity|].
  rewrite !keep_ochk_refl. simpl. apply forall2b_refl, keep_seq_refl.
Qed.

Section Contract.
Variable run_seq : seq -> seq.
Hypothesis Hrun : run_contract run_seq.

Lemma keep_seq_final s : keep_seq s (final_seq run_seq s) = true.
Proof.
  unfold keep_seq. destruct (is_terminal (sq_st s)) eqn:Et.
  - rewrite (final_seq_other run_seq s (is_terminal_not_running _ Et)). now rewrite seq_diff_refl.
  - apply forall2b_nth; [symmetry; now apply final_seq_length|].
    intros k a a' Ha Ha'. unfold keep_act. destruct (is_terminal (ac_st a)) eqn:Ea; [|reflexivity].
    rewrite (final_seq_keeps_act run_seq Hrun s k a Ha Ea) in Ha'. injection Ha' as <-. now rewrite act_diff_refl.
Qed.

Lemma keep_blk_fix b : keep_blk b (fb_blk (fix_block run_seq b)) = true.
Proof.
  unfold keep_blk. destruct (is_terminal (bk_st b)) eqn:Et.
  - rewrite (fix_block_other run_seq b (is_terminal_not_running _ Et)). simpl. now rewrite blk_diff_refl.
  - pose proof (keep_ochk_either _ _ (fix_block_grp run_seq b GBypass)) as G1.
    pose proof (keep_ochk_either _ _ (fix_block_grp run_seq b GPre)) as G2.
    pose proof (keep_ochk_either _ _ (fix_block_grp run_seq b GCont)) as G3.
    pose proof (keep_ochk_either _ _ (fix_block_grp run_seq b GPost)) as G4.
    pose proof (keep_ochk_either _ _ (fix_block_grp run_seq b GDeferred)) as G5.
    simpl in G1, G2, G3, G4, G5. rewrite G1, G2, G3, G4, G5. simpl.
    destruct (fix_block_seqs run_seq Hrun b) as [(_ & E & _)|(_ & _ & E & _)]; rewrite E.
    + apply forall2b_refl, keep_seq_refl.
    + apply forall2b_map_r, keep_seq_final.
Qed.

Lemma keep_blocks bs i0 : forall2b keep_blk bs (fst (fst (fix_blocks run_seq i0 bs))) = true.
Proof.
  apply forall2b_nth; [symmetry; apply fix_blocks_length|].
  intros k b b' Hb Hb'. destruct (fix_blocks_nth run_seq bs i0 k b Hb) as [E|E]; rewrite E in Hb'; injection Hb' as <-.
  - apply keep_blk_refl.
  - apply keep_blk_fix.
Qed.

(* monitor 1 holds of the model *)
Lemma model_keeps_finished p : keep_pln p (fp_pln (fix_plan run_seq p)) = true.
Proof.
  unfold keep_pln. destruct (is_terminal (pl_st p)) eqn:Et.
  - rewrite (fix_plan_other run_seq p (is_terminal_not_running _ Et)). simpl. now rewrite pln_diff_refl.
  - pose proof (keep_ochk_either _ _ (fix_plan_grp run_seq p GBypass)) as G1.
    pose proof (keep_ochk_either _ _ (fix_plan_grp run_seq p GPre)) as G2.
    pose proof (keep_ochk_either _ _ (fix_plan_grp run_seq p GCont)) as G3.
    pose proof (keep_ochk_either _ _ (fix_plan_grp run_seq p GPost)) as G4.
    pose proof (keep_ochk_either _ _ (fix_plan_grp run_seq p GDeferred)) as G5.
    simpl in G1, G2, G3, G4, G5. rewrite G1, G2, G3, G4, G5. simpl.
    destruct (fix_plan_blocks run_seq p) as [E|E]; rewrite E.
    + apply forall2b_refl, keep_blk_refl.
    + apply keep_blocks.
Qed.

Lemma model_keeps_finished_block b : keep_blk b (fb_blk (fix_block run_seq b)) = true.
Proof. apply keep_blk_fix. Qed.
End Contract.

Lemma model_keeps_finished_seq s : keep_seq s (fix_seq s) = true.
Proof.
  unfold keep_seq. destruct (is_terminal (sq_st s)) eqn:Et.
  - rewrite (fix_seq_other s (is_terminal_not_running _ Et)). now rewrite seq_diff_refl.
  - apply forall2b_nth; [symmetry; apply fix_seq_length|].
    intros k a a' Ha Ha'. unfold keep_act. destruct (is_terminal (ac_st a)) eqn:Ea; [|reflexivity].
    rewrite (fix_seq_keeps_act s k a Ha (is_terminal_not_running _ Ea)) in Ha'. injection Ha' as <-. now rewrite act_diff_refl.
Qed.

Lemma model_keeps_finished_checks c : keep_chk c (fix_checks c) = true.
Proof. apply (keep_ochk_fix (Some c)). Qed.

(* monitor 2 holds of the model *)
Lemma firstn_app_exact {A} (l r : list A) : firstn (length l) (l ++ r) = l.
Proof. induction l; simpl; [now destruct r|]. now f_equal. Qed.

Lemma skipn_app_exact {A} (l r : list A) : skipn (length l) (l ++ r) = r.
Proof. induction l; simpl; auto. Qed.

Lemma model_meets_action_spec a : spec_act a (fix_action a) = true.
Proof.
  unfold spec_act. destruct (status_eqb (ac_st a) Running) eqn:Er; simpl.
  2:{ rewrite fix_action_other by now apply status_eqb_false. now rewrite act_diff_refl. }
  apply status_eqb_eq in Er. unfold last_complete.
  destruct (atts_cases (ac_atts a)) as [Ho|(kept & x & dropped & Ha & Hx & Hd)].
  - rewrite (fix_action_reset a Er Ho). rewrite strip_open_all_open by now apply Forall_rev'. now rewrite act_diff_refl.
  - rewrite (fix_action_done a kept x dropped Er Ha Hx Hd). rewrite Ha.
    rewrite rev_app_distr. simpl. rewrite <- app_assoc. simpl.
    rewrite strip_open_app_open by now apply Forall_rev'. simpl. rewrite Hx. simpl.
    rewrite status_eqb_refl, bool_eqb_refl. simpl.
    replace (kept ++ x :: dropped) with ((kept ++ [x]) ++ dropped) by (rewrite <- app_assoc; reflexivity).
    rewrite firstn_app_exact, skipn_app_exact.
    rewrite (list_diff_refl _ att_diff_refl). rewrite rev_app_distr. simpl. rewrite Hx. simpl.
    rewrite !app_length. simpl.
    assert (El : Nat.leb (length kept + 1) (length kept + 1 + length dropped) = true) by (apply Nat.leb_le; lia).
    rewrite El. simpl. apply forallb_forall. rewrite Forall_forall in Hd. exact Hd.
Qed.
