(* The concrete images used by the refutation lemmas for the known findings R2 and R3 (FixProofs.v,
   props/Repair.v).  The harness builds the same images as Go values and replays them on the real code on every
   run; FixCheck.check_case verifies that the harness's image IS the image below.  No proofs here. *)
From Coercion.Base Require Import Plan.
From Coercion.Recover Require Import Fix.

Definition okatt_w := Build_att false false.
Definition erratt_w := Build_att true false.

(* R2: crash while the deferred group of a block ran, after the block's post group had failed.
   BlockPostChecks wrote the post group Failed and (deferred UpdateBlock) the block Failed; BlockDeferredChecks
   -> runChecksOnce stamped the deferred group's Start and wrote it (status still NotStarted: a group is only
   written Completed/Failed at the end of its run), then wrote its action Running.  Crash. *)
Definition witness_R2 : pln :=
  Build_pln Running false true None None None None None
    [Build_blk Failed false true None None None
       (Some (Build_chk Failed false false [Build_act 0 Failed false false [erratt_w]]))
       (Some (Build_chk NotStarted false true [Build_act 1 Running false true []]))
       [Build_seq Completed false false [Build_act 2 Completed false false [okatt_w]]]].

(* R3: crash after a run of the block's continuous group failed (runContChecks -> runChecksOnce wrote the group
   Failed) while a sequence was in flight: first action done, second one written Running. *)
Definition witness_R3 : pln :=
  Build_pln Running false true None None None None None
    [Build_blk Running false true None None
       (Some (Build_chk Failed false false [Build_act 0 Failed false false [erratt_w]]))
       None None
       [Build_seq Running false true
          [Build_act 1 Completed false false [okatt_w]; Build_act 2 Running false true []]]].

(* R6: crash after a run of the PLAN's continuous group failed (group written Failed) while block 0 was executing:
   its first sequence done, its second one not started, its deferred group not run.  fixPlan sets the plan Failed for
   the continuous group but does not return; fixBlock keeps the block Running (a sequence completed), no block
   failed, so the plan stays Failed: Recovery goes to End and the block is abandoned. *)
Definition witness_R6 : pln :=
  Build_pln Running false true None None
    (Some (Build_chk Failed false false [Build_act 0 Failed false false [erratt_w]])) None None
    [Build_blk Running false true None None None None
       (Some (Build_chk NotStarted true true [Build_act 1 NotStarted true true []]))
       [Build_seq Completed false false [Build_act 2 Completed false false [okatt_w]];
        Build_seq NotStarted true true [Build_act 3 NotStarted true true []]]].

(* R5: the image a SECOND crash leaves behind.  First crash: a sequence in flight whose only action is durably
   Completed; the recovery repairs the sequence to Completed in memory (fixSeq) and never writes it before the block's
   terminal write (ExecuteSequences skips a Completed sequence).  Crash right after the block was written Completed:
   the sequence is durably Running inside a finished block.  (The harness takes this image from a real recovery.) *)
Definition witness_R5 : pln :=
  Build_pln Running false true None None None None None
    [Build_blk Completed false false None None None None None
       [Build_seq Running false true [Build_act 0 Completed false false [okatt_w]]]].

Definition witness_images : list pln := [witness_R2; witness_R3; witness_R6; witness_R5].
