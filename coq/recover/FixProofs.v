(* Proofs about the crash-repair model (Fix.v) against FixSpec.v. *)
From Coq Require Import Lia.
From Coercion.Base Require Import Plan.
From Coercion.Recover Require Import Fix FixSpec Witness.

(* ------------------------------------------------------------------ small facts *)
Lemma status_eqb_refl t : status_eqb t t = true.
Proof. destruct t; reflexivity. Qed.

Lemma status_eqb_neq a b : a <> b -> status_eqb a b = false.
Proof. intro H. destruct (status_eqb a b) eqn:E; [apply status_eqb_eq in E; contradiction|reflexivity]. Qed.

Lemma status_eqb_false a b : status_eqb a b = false -> a <> b.
Proof. intros E H. subst. rewrite status_eqb_refl in E. discriminate. Qed.

Lemma count_st_zero {A} (st : A -> status) t l :
  count_st st t l = 0 -> Forall (fun x => st x <> t) l.
Proof.
  unfold count_st. induction l as [|x l IH]; simpl; intro H; [constructor|].
  destruct (status_eqb (st x) t) eqn:E; simpl in H; [discriminate|].
  constructor; [now apply status_eqb_false|auto].
Qed.

Lemma count_st_cons {A} (st : A -> status) t x l :
  count_st st t (x :: l) = (if status_eqb (st x) t then 1 else 0) + count_st st t l.
Proof. unfold count_st. simpl. destruct (status_eqb (st x) t); reflexivity. Qed.

Lemma ltb0_false n : Nat.ltb 0 n = false -> n = 0.
Proof. destruct n; simpl; [reflexivity|discriminate]. Qed.

(* ------------------------------------------------------------------ fixAction *)
Lemma strip_open_app_open r1 r2 :
  Forall (fun x => x_endz x = true) r1 -> strip_open (r1 ++ r2) = strip_open r2.
Proof. induction 1 as [|x r1 Hx _ IH]; simpl; [reflexivity|]. now rewrite Hx. Qed.

Lemma strip_open_all_open r : Forall (fun x => x_endz x = true) r -> strip_open r = [].
Proof. intro H. rewrite <- (app_nil_r r). now rewrite strip_open_app_open. Qed.

Lemma Forall_rev' {A} (P : A -> Prop) l : Forall P l -> Forall P (rev l).
Proof. intro H. apply Forall_forall. intros x Hx. apply in_rev in Hx. revert x Hx. now apply Forall_forall. Qed.

Lemma fix_action_other a : ac_st a <> Running -> fix_action a = a.
Proof. intro H. unfold fix_action. destruct (ac_st a); try reflexivity. now elim H. Qed.

Lemma fix_action_reset a :
  ac_st a = Running -> Forall (fun x => x_endz x = true) (ac_atts a) ->
  fix_action a = Build_act (ac_id a) NotStarted true true [].
Proof.
  intros Hr Ho. unfold fix_action. rewrite Hr. simpl.
  rewrite strip_open_all_open by now apply Forall_rev'. reflexivity.
Qed.

Lemma fix_action_done a kept x dropped :
  ac_st a = Running -> ac_atts a = kept ++ x :: dropped -> x_endz x = false ->
  Forall (fun y => x_endz y = true) dropped ->
  fix_action a = Build_act (ac_id a) (if x_err x then Failed else Completed) (ac_sz a) false (kept ++ [x]).
Proof.
  intros Hr Ha Hx Hd. unfold fix_action. rewrite Hr, Ha. simpl.
  rewrite rev_app_distr. simpl. rewrite <- app_assoc. simpl.
  rewrite strip_open_app_open by now apply Forall_rev'.
  simpl. rewrite Hx. simpl. rewrite rev_involutive. reflexivity.
Qed.

Lemma atts_cases (l : list att) :
  Forall (fun x => x_endz x = true) l \/
  exists kept x dropped, l = kept ++ x :: dropped /\ x_endz x = false /\ Forall (fun y => x_endz y = true) dropped.
Proof.
  induction l as [|y l IH]; [left; constructor|].
  destruct IH as [Ho|(kept & x & dropped & -> & Hx & Hd)].
  - destruct (x_endz y) eqn:E.
    + left. now constructor.
    + right. exists [], y, l. auto.
  - right. exists (y :: kept), x, dropped. auto.
Qed.

Lemma fix_action_status a :
  ac_st (fix_action a) = NotStarted \/ ac_st (fix_action a) = Completed \/ ac_st (fix_action a) = Failed
  \/ (ac_st a <> Running /\ fix_action a = a).
Proof.
  destruct (status_eqb (ac_st a) Running) eqn:E.
  - apply status_eqb_eq in E.
    destruct (atts_cases (ac_atts a)) as [Ho|(kept & x & dropped & Ha & Hx & Hd)].
    + rewrite (fix_action_reset a E Ho). auto.
    + rewrite (fix_action_done a kept x dropped E Ha Hx Hd). simpl. destruct (x_err x); auto.
  - apply status_eqb_false in E. right. right. right. split; [assumption|now apply fix_action_other].
Qed.

Lemma fix_action_not_running a : ac_st (fix_action a) <> Running.
Proof.
  destruct (fix_action_status a) as [H|[H|[H|[H1 H2]]]]; try (rewrite H; discriminate).
  now rewrite H2.
Qed.

(* fixAction never produces Stopped out of something that was not Stopped (the second `stopped > 0` of fixSeq is dead) *)
Lemma fix_action_not_stopped a : ac_st a <> Stopped -> ac_st (fix_action a) <> Stopped.
Proof.
  intro Hs. destruct (fix_action_status a) as [H|[H|[H|[H1 H2]]]]; try (rewrite H; discriminate).
  now rewrite H2.
Qed.

Lemma fix_action_idem a : fix_action (fix_action a) = fix_action a.
Proof. apply fix_action_other, fix_action_not_running. Qed.

Lemma fix_action_id a : ac_id (fix_action a) = ac_id a.
Proof.
  unfold fix_action. destruct (negb (status_eqb (ac_st a) Running)); [reflexivity|].
  destruct (strip_open (rev (ac_atts a))); reflexivity.
Qed.

(* ------------------------------------------------------------------ fixChecks *)
Lemma fix_checks_other c : ck_st c <> Running -> fix_checks c = c.
Proof. intro H. unfold fix_checks. rewrite (status_eqb_neq _ _ H). reflexivity. Qed.

Lemma fix_checks_status c :
  (ck_st c = Running /\ ck_st (fix_checks c) = NotStarted) \/ (ck_st c <> Running /\ fix_checks c = c).
Proof.
  destruct (status_eqb (ck_st c) Running) eqn:E.
  - left. apply status_eqb_eq in E. split; [assumption|]. unfold fix_checks. rewrite E. reflexivity.
  - right. apply status_eqb_false in E. split; [assumption|now apply fix_checks_other].
Qed.

Lemma fix_checks_idem c : fix_checks (fix_checks c) = fix_checks c.
Proof.
  apply fix_checks_other. destruct (fix_checks_status c) as [[_ H]|[H1 H2]].
  - rewrite H. discriminate.
  - now rewrite H2.
Qed.

Lemma fix_checks_opt_idem c : fix_checks_opt (fix_checks_opt c) = fix_checks_opt c.
Proof. destruct c; simpl; [now rewrite fix_checks_idem|reflexivity]. Qed.

Lemma fix_checks_opt_other c k : c = Some k -> ck_st k <> Running -> fix_checks_opt c = c.
Proof. intros -> H. simpl. now rewrite fix_checks_other. Qed.

(* a test for Completed / Failed gives the same answer before and after fixChecks *)
Lemma chk_is_fix t c : t <> Running -> t <> NotStarted -> chk_is t (fix_checks_opt c) = chk_is t c.
Proof.
  intros H1 H2. destruct c as [k|]; [|reflexivity]. simpl.
  destruct (fix_checks_status k) as [[Hr Hn]|[_ Hs]].
  - rewrite Hn, Hr. rewrite (status_eqb_neq NotStarted t), (status_eqb_neq Running t); auto.
  - now rewrite Hs.
Qed.

Lemma checks_completed_fix c : checks_completed (fix_checks_opt c) = checks_completed c.
Proof.
  destruct c as [k|]; [|reflexivity]. simpl.
  destruct (fix_checks_status k) as [[Hr Hn]|[_ Hs]].
  - now rewrite Hn, Hr.
  - now rewrite Hs.
Qed.

(* ------------------------------------------------------------------ fixSeq *)
Lemma fix_seq_other s : sq_st s <> Running -> fix_seq s = s.
Proof. intro H. unfold fix_seq. rewrite (status_eqb_neq _ _ H). reflexivity. Qed.

Lemma stop_running_action_other a : ac_st a <> Running -> stop_running_action a = a.
Proof. intro H. unfold stop_running_action. now rewrite (status_eqb_neq _ _ H). Qed.

Lemma stop_running_action_not_running a : ac_st (stop_running_action a) <> Running.
Proof.
  unfold stop_running_action. destruct (status_eqb (ac_st a) Running) eqn:E; simpl; [discriminate|].
  now apply status_eqb_false.
Qed.

(* the three shapes of the action list after fixSeq *)
Lemma fix_seq_acts s :
  sq_acts (fix_seq s) = sq_acts s \/ sq_acts (fix_seq s) = map stop_running_action (sq_acts s)
  \/ sq_acts (fix_seq s) = map fix_action (sq_acts s).
Proof.
  unfold fix_seq.
  destruct (negb (status_eqb (sq_st s) Running)); [now left|].
  destruct (Nat.ltb 0 (count_st ac_st Stopped (sq_acts s))); [right; now left|].
  right. right.
  repeat match goal with |- context [if ?c then _ else _] => destruct c end; reflexivity.
Qed.

Lemma is_terminal_not_running t : is_terminal t = true -> t <> Running.
Proof. destruct t; simpl; congruence. Qed.

Lemma fix_seq_keeps_act s k a :
  nth_error (sq_acts s) k = Some a -> ac_st a <> Running -> nth_error (sq_acts (fix_seq s)) k = Some a.
Proof.
  intros Hn Ht.
  destruct (fix_seq_acts s) as [E|[E|E]]; rewrite E; [assumption| |];
    rewrite nth_error_map, Hn; simpl; f_equal.
  - now apply stop_running_action_other.
  - now apply fix_action_other.
Qed.

Lemma fix_seq_length s : length (sq_acts (fix_seq s)) = length (sq_acts s).
Proof. destruct (fix_seq_acts s) as [E|[E|E]]; rewrite E; now rewrite ?map_length. Qed.

Lemma fix_seq_no_running_action s :
  sq_st s = Running -> Forall (fun a => ac_st a <> Running) (sq_acts (fix_seq s)).
Proof.
  intro Hr. unfold fix_seq. rewrite Hr. simpl.
  destruct (Nat.ltb 0 (count_st ac_st Stopped (sq_acts s))); simpl.
  - apply Forall_forall. intros a Ha. apply in_map_iff in Ha as (a0 & <- & _). apply stop_running_action_not_running.
  - assert (H : Forall (fun a => ac_st a <> Running) (map fix_action (sq_acts s))).
    { apply Forall_forall. intros a Ha. apply in_map_iff in Ha as (a0 & <- & _). apply fix_action_not_running. }
    repeat match goal with |- context [if ?c then _ else _] => destruct c end; exact H.
Qed.

Lemma fix_seq_resumable s : sq_st (fix_seq s) = Running -> resumable (fix_seq s).
Proof.
  intro H. split; [assumption|].
  destruct (status_eqb (sq_st s) Running) eqn:Er.
  2:{ apply status_eqb_false in Er. rewrite (fix_seq_other s Er) in H. contradiction. }
  apply status_eqb_eq in Er.
  pose proof (fix_seq_no_running_action s Er) as Hnr.
  revert H Hnr. unfold fix_seq. rewrite Er. simpl.
  destruct (Nat.ltb 0 (count_st ac_st Stopped (sq_acts s))) eqn:E0; simpl; [discriminate|].
  destruct (Nat.ltb 0 (count_st ac_st Stopped (map fix_action (sq_acts s)))) eqn:E1; simpl; [discriminate|].
  destruct (Nat.ltb 0 (count_st ac_st Failed (map fix_action (sq_acts s)))) eqn:E2; simpl; [discriminate|].
  destruct (Nat.eqb (count_st ac_st Completed (map fix_action (sq_acts s))) 0
            && Nat.eqb (count_st ac_st Running (map fix_action (sq_acts s))) 0); simpl; [discriminate|].
  destruct (Nat.eqb (count_st ac_st Completed (map fix_action (sq_acts s))) (length (map fix_action (sq_acts s)))); simpl;
    [discriminate|].
  intros _ Hnr.
  apply ltb0_false, count_st_zero in E1. apply ltb0_false, count_st_zero in E2.
  rewrite Forall_forall in *. intros a Ha.
  specialize (E1 a Ha). specialize (E2 a Ha). specialize (Hnr a Ha).
  destruct (ac_st a); auto; contradiction.
Qed.

Lemma fix_seq_running_form s :
  sq_st (fix_seq s) = Running ->
  let acts := map fix_action (sq_acts s) in
  sq_st s = Running
  /\ fix_seq s = Build_seq Running (sq_sz s) (sq_ez s) acts
  /\ Nat.ltb 0 (count_st ac_st Stopped acts) = false
  /\ Nat.ltb 0 (count_st ac_st Failed acts) = false
  /\ Nat.eqb (count_st ac_st Completed acts) 0 && Nat.eqb (count_st ac_st Running acts) 0 = false
  /\ Nat.eqb (count_st ac_st Completed acts) (length acts) = false.
Proof.
  intros E acts.
  destruct (status_eqb (sq_st s) Running) eqn:Er.
  2:{ apply status_eqb_false in Er. rewrite (fix_seq_other s Er) in E. contradiction. }
  apply status_eqb_eq in Er.
  revert E. unfold fix_seq. rewrite Er. simpl. fold acts.
  destruct (Nat.ltb 0 (count_st ac_st Stopped (sq_acts s))) eqn:E0; simpl; [discriminate|].
  destruct (Nat.ltb 0 (count_st ac_st Stopped acts)) eqn:E1; simpl; [discriminate|].
  destruct (Nat.ltb 0 (count_st ac_st Failed acts)) eqn:E2; simpl; [discriminate|].
  destruct (Nat.eqb (count_st ac_st Completed acts) 0 && Nat.eqb (count_st ac_st Running acts) 0) eqn:E3; simpl; [discriminate|].
  destruct (Nat.eqb (count_st ac_st Completed acts) (length acts)) eqn:E4; simpl; [discriminate|].
  intros _. repeat split; reflexivity.
Qed.

Lemma fix_seq_idem s : fix_seq (fix_seq s) = fix_seq s.
Proof.
  destruct (status_eqb (sq_st (fix_seq s)) Running) eqn:E.
  2:{ apply fix_seq_other. now apply status_eqb_false. }
  apply status_eqb_eq in E.
  destruct (fix_seq_running_form s E) as (Er & F & E1 & E2 & E3 & E4).
  rewrite F. set (acts := map fix_action (sq_acts s)) in *.
  assert (Hm : map fix_action acts = acts).
  { unfold acts. rewrite map_map. apply map_ext. intro a. apply fix_action_idem. }
  unfold fix_seq. simpl. rewrite E1. simpl. rewrite Hm, E1, E2, E3, E4. reflexivity.
Qed.

Lemma fix_seq_status s :
  sq_st s = Running \/ fix_seq s = s.
Proof.
  destruct (status_eqb (sq_st s) Running) eqn:E.
  - left. now apply status_eqb_eq.
  - right. apply fix_seq_other. now apply status_eqb_false.
Qed.

(* ------------------------------------------------------------------ the execution relation *)
Lemma ran_length l l' f : ran l l' f -> length l' = length l.
Proof. induction 1; simpl; congruence. Qed.

Lemma ran_keeps l l' f : ran l l' f ->
  forall k a, nth_error l k = Some a -> ac_st a = Completed -> nth_error l' k = Some a.
Proof.
  induction 1 as [|a l l' f Ha _ IH|a a' l l' f Ha Ha' _ IH|a a' l Ha Ha']; intros k x Hk Hx.
  - assumption.
  - destruct k; simpl in *; [assumption|eauto].
  - destruct k; simpl in *; [|eauto]. injection Hk as <-. congruence.
  - destruct k; simpl in *; [|assumption]. injection Hk as <-. congruence.
Qed.

Lemma ran_no_running l l' f : ran l l' f ->
  Forall (fun a => ac_st a <> Running) l -> Forall (fun a => ac_st a <> Running) l'.
Proof.
  induction 1 as [|a l l' f Ha _ IH|a a' l l' f Ha Ha' _ IH|a a' l Ha Ha']; intro H; inversion H; subst.
  - constructor.
  - constructor; auto.
  - constructor; [congruence|auto].
  - constructor; [congruence|assumption].
Qed.

(* untouched, or run to a terminal status *)
Lemma ran_each l l' f : ran l l' f ->
  forall k a', nth_error l' k = Some a' ->
    nth_error l k = Some a' \/ (exists a, nth_error l k = Some a /\ ac_st a = NotStarted /\ (ac_st a' = Completed \/ ac_st a' = Failed)).
Proof.
  induction 1 as [|a l l' f Ha _ IH|a a' l l' f Ha Ha' _ IH|a a' l Ha Ha']; intros k x Hk.
  - now left.
  - destruct k; simpl in *; [now left|eauto].
  - destruct k; simpl in *; [|eauto]. injection Hk as <-. right. exists a. auto.
  - destruct k; simpl in *; [|now left]. injection Hk as <-. right. exists a. auto.
Qed.

(* a successful run leaves every action Completed; a failed one stops at a Failed action *)
Lemma ran_completed l l' : ran l l' false -> Forall (fun a => ac_st a = Completed) l'.
Proof.
  remember false as f eqn:Ef. induction 1; try discriminate; constructor; auto.
Qed.

Lemma ran_failed l l' : ran l l' true ->
  exists k a', nth_error l' k = Some a' /\ ac_st a' = Failed
               /\ (forall i x, i < k -> nth_error l' i = Some x -> ac_st x = Completed)
               /\ (forall i, k < i -> nth_error l' i = nth_error l i).
Proof.
  remember true as f eqn:Ef.
  induction 1 as [|a l l' f Ha _ IH|a a' l l' f Ha Ha' _ IH|a a' l Ha Ha']; try discriminate.
  - destruct (IH Ef) as (k & x & H1 & H2 & H3 & H4). exists (S k), x. repeat split; auto.
    + intros i y Hi Hy. destruct i; simpl in Hy; [congruence|]. apply (H3 i); [lia|assumption].
    + intros i Hi. destruct i; [lia|]. simpl. apply H4. lia.
  - destruct (IH Ef) as (k & x & H1 & H2 & H3 & H4). exists (S k), x. repeat split; auto.
    + intros i y Hi Hy. destruct i; simpl in Hy; [congruence|]. apply (H3 i); [lia|assumption].
    + intros i Hi. destruct i; [lia|]. simpl. apply H4. lia.
  - exists 0, a'. repeat split; auto.
    + intros i x Hi. lia.
    + intros i Hi. destruct i; [lia|reflexivity].
Qed.

(* ------------------------------------------------------------------ fixBlock, under the contract *)
Section Contract.
Variable run_seq : seq -> seq.
Hypothesis Hrun : run_contract run_seq.

Definition final_seq (s : seq) : seq := resume_seq run_seq (fix_seq s).

Lemma run_status s : resumable s -> sq_st (run_seq s) = Completed \/ sq_st (run_seq s) = Failed.
Proof. intro H. destruct (Hrun s H) as ([|] & _ & E); rewrite E; auto. Qed.

Lemma final_seq_not_running s : sq_st (final_seq s) <> Running.
Proof.
  unfold final_seq, resume_seq.
  destruct (status_eqb (sq_st (fix_seq s)) Running) eqn:E.
  - apply status_eqb_eq in E. destruct (run_status _ (fix_seq_resumable s E)) as [H|H]; rewrite H; discriminate.
  - now apply status_eqb_false.
Qed.

Lemma final_seq_other s : sq_st s <> Running -> final_seq s = s.
Proof.
  intro H. unfold final_seq, resume_seq. rewrite (fix_seq_other s H). now rewrite (status_eqb_neq _ _ H).
Qed.

Lemma final_seq_length s : length (sq_acts (final_seq s)) = length (sq_acts s).
Proof.
  unfold final_seq, resume_seq.
  destruct (status_eqb (sq_st (fix_seq s)) Running) eqn:E; [|apply fix_seq_length].
  apply status_eqb_eq in E. destruct (Hrun _ (fix_seq_resumable s E)) as (f & Hr & _).
  rewrite (ran_length _ _ _ Hr). apply fix_seq_length.
Qed.

Lemma final_seq_keeps_act s k a :
  nth_error (sq_acts s) k = Some a -> is_terminal (ac_st a) = true ->
  nth_error (sq_acts (final_seq s)) k = Some a.
Proof.
  intros Hn Ht.
  pose proof (fix_seq_keeps_act s k a Hn (is_terminal_not_running _ Ht)) as H1.
  unfold final_seq, resume_seq.
  destruct (status_eqb (sq_st (fix_seq s)) Running) eqn:E; [|assumption].
  apply status_eqb_eq in E. pose proof (fix_seq_resumable s E) as Hres.
  destruct (Hrun _ Hres) as (f & Hr & _).
  apply (ran_keeps _ _ _ Hr k a H1).
  destruct Hres as [_ Hall]. rewrite Forall_forall in Hall.
  destruct (Hall a (nth_error_In _ _ H1)) as [H|H]; [assumption|].
  rewrite H in Ht. discriminate.
Qed.

Lemma final_seq_no_running_action s :
  sq_st s = Running -> Forall (fun a => ac_st a <> Running) (sq_acts (final_seq s)).
Proof.
  intro Hs. pose proof (fix_seq_no_running_action s Hs) as H.
  unfold final_seq, resume_seq.
  destruct (status_eqb (sq_st (fix_seq s)) Running) eqn:E; [|assumption].
  apply status_eqb_eq in E. destruct (Hrun _ (fix_seq_resumable s E)) as (f & Hr & _).
  apply (ran_no_running _ _ _ Hr H).
Qed.

Lemma stop_running_seq_other s : sq_st s <> Running -> stop_running_seq s = s.
Proof. intro H. unfold stop_running_seq. now rewrite (status_eqb_neq _ _ H). Qed.

Lemma stop_final s : stop_running_seq (final_seq s) = final_seq s.
Proof. apply stop_running_seq_other, final_seq_not_running. Qed.

Lemma map_final l : map (resume_seq run_seq) (map fix_seq l) = map final_seq l.
Proof. rewrite map_map. reflexivity. Qed.

Lemma map_stop_final l : map stop_running_seq (map final_seq l) = map final_seq l.
Proof. rewrite map_map. apply map_ext. intro s. apply stop_final. Qed.

(* the sequences of a block after fixBlock *)
Lemma fix_block_seqs b :
  (fb_full (fix_block run_seq b) = false /\ bk_seqs (fb_blk (fix_block run_seq b)) = bk_seqs b
   /\ fb_resumed (fix_block run_seq b) = [])
  \/ (fb_full (fix_block run_seq b) = true /\ bk_st b = Running
      /\ bk_seqs (fb_blk (fix_block run_seq b)) = map final_seq (bk_seqs b)
      /\ fb_resumed (fix_block run_seq b) = running_ix 0 (map fix_seq (bk_seqs b))).
Proof.
  unfold fix_block.
  destruct (status_eqb (bk_st b) Running) eqn:Er; simpl; [|left; auto].
  apply status_eqb_eq in Er.
  destruct (chk_is Completed (fix_checks_opt (bk_bypass b))); [left; auto|].
  destruct (chk_is Failed (bk_pre b)); [left; auto|].
  destruct (chk_is Failed (bk_cont b)); [left; auto|].
  destruct (chk_is Failed (bk_post b)); [left; auto|].
  right.
  repeat match goal with |- context [if ?c then _ else _] => destruct c end; simpl;
    rewrite ?map_final, ?map_stop_final; auto.
Qed.

Lemma fix_block_other b : bk_st b <> Running -> fix_block run_seq b = Build_fixb b [] false.
Proof. intro H. unfold fix_block. now rewrite (status_eqb_neq _ _ H). Qed.

(* ---- the groups of a block / plan after repair: untouched or fixChecks'ed *)
Lemma fix_block_grp b g :
  bk_grp g (fb_blk (fix_block run_seq b)) = bk_grp g b
  \/ bk_grp g (fb_blk (fix_block run_seq b)) = fix_checks_opt (bk_grp g b).
Proof.
  unfold fix_block.
  repeat match goal with |- context [if ?c then _ else _] => destruct c end; destruct g; simpl; auto.
Qed.

Lemma fix_plan_grp p g :
  pl_grp g (fp_pln (fix_plan run_seq p)) = pl_grp g p
  \/ pl_grp g (fp_pln (fix_plan run_seq p)) = fix_checks_opt (pl_grp g p).
Proof.
  unfold fix_plan. destruct (fix_blocks run_seq 0 (pl_blocks p)) as [[bs res] stop].
  repeat match goal with |- context [if ?c then _ else _] => destruct c end; destruct g; simpl; auto.
Qed.

Lemma fix_plan_blocks p :
  pl_blocks (fp_pln (fix_plan run_seq p)) = pl_blocks p
  \/ pl_blocks (fp_pln (fix_plan run_seq p)) = fst (fst (fix_blocks run_seq 0 (pl_blocks p))).
Proof.
  unfold fix_plan. destruct (fix_blocks run_seq 0 (pl_blocks p)) as [[bs res] stop].
  repeat match goal with |- context [if ?c then _ else _] => destruct c end; simpl; auto.
Qed.

Lemma fix_plan_other p : pl_st p <> Running -> fix_plan run_seq p = Build_fixp p [].
Proof. intro H. unfold fix_plan. now rewrite (status_eqb_neq _ _ H). Qed.

(* every block after the loop is untouched or the result of fixBlock *)
Lemma fix_blocks_nth bs : forall i0 i b,
  nth_error bs i = Some b ->
  nth_error (fst (fst (fix_blocks run_seq i0 bs))) i = Some b
  \/ nth_error (fst (fst (fix_blocks run_seq i0 bs))) i = Some (fb_blk (fix_block run_seq b)).
Proof.
  induction bs as [|b0 bs IH]; intros i0 i b Hn; [destruct i; discriminate|].
  simpl.
  destruct (status_eqb (bk_st (fb_blk (fix_block run_seq b0))) Stopped).
  - simpl. destruct i; simpl in *; [injection Hn as ->; now right|now left].
  - specialize (IH (S i0)). destruct (fix_blocks run_seq (S i0) bs) as [[r' res'] st] eqn:E. simpl in *.
    destruct i; simpl in *; [injection Hn as ->; now right|]. apply (IH i b Hn).
Qed.

Lemma fix_blocks_length bs : forall i0, length (fst (fst (fix_blocks run_seq i0 bs))) = length bs.
Proof.
  induction bs as [|b0 bs IH]; intro i0; [reflexivity|]. simpl.
  destruct (status_eqb (bk_st (fb_blk (fix_block run_seq b0))) Stopped); [reflexivity|].
  specialize (IH (S i0)). destruct (fix_blocks run_seq (S i0) bs) as [[r' res'] st]. simpl in *. now rewrite IH.
Qed.

(* ---- "keeps what is finished", level by level *)
Definition seq_keeps (s s' : seq) : Prop :=
  (is_terminal (sq_st s) = true -> s' = s)
  /\ (forall k a, nth_error (sq_acts s) k = Some a -> is_terminal (ac_st a) = true -> nth_error (sq_acts s') k = Some a).

Definition grp_keeps (c c' : option chk) : Prop := forall k, c = Some k -> ck_st k <> Running -> c' = Some k.

Definition blk_keeps (b b' : blk) : Prop :=
  (is_terminal (bk_st b) = true -> b' = b)
  /\ (forall g, grp_keeps (bk_grp g b) (bk_grp g b'))
  /\ (forall j s, nth_error (bk_seqs b) j = Some s -> exists s', nth_error (bk_seqs b') j = Some s' /\ seq_keeps s s').

Lemma seq_keeps_refl s : seq_keeps s s.
Proof. split; auto. Qed.

Lemma seq_keeps_final s : seq_keeps s (final_seq s).
Proof.
  split.
  - intro H. apply final_seq_other. now apply is_terminal_not_running.
  - apply final_seq_keeps_act.
Qed.

Lemma grp_keeps_refl c : grp_keeps c c.
Proof. intros k H _. assumption. Qed.

Lemma grp_keeps_fix c : grp_keeps c (fix_checks_opt c).
Proof. intros k -> H. simpl. now rewrite fix_checks_other. Qed.

Lemma blk_keeps_refl b : blk_keeps b b.
Proof.
  split; [auto|split].
  - intro g. apply grp_keeps_refl.
  - intros j s H. exists s. split; [assumption|apply seq_keeps_refl].
Qed.

Lemma blk_keeps_fix b : blk_keeps b (fb_blk (fix_block run_seq b)).
Proof.
  split; [|split].
  - intro H. rewrite fix_block_other; [reflexivity|now apply is_terminal_not_running].
  - intro g. destruct (fix_block_grp b g) as [E|E]; rewrite E; [apply grp_keeps_refl|apply grp_keeps_fix].
  - intros j s Hj.
    destruct (fix_block_seqs b) as [(_ & E & _)|(_ & _ & E & _)]; rewrite E.
    + exists s. split; [assumption|apply seq_keeps_refl].
    + exists (final_seq s). split; [|apply seq_keeps_final]. now rewrite nth_error_map, Hj.
Qed.

(* ---- fix_never_unfinishes *)
Lemma fix_plan_keeps_plan p : is_terminal (pl_st p) = true -> fp_pln (fix_plan run_seq p) = p.
Proof. intro H. rewrite fix_plan_other; [reflexivity|now apply is_terminal_not_running]. Qed.

Lemma fix_plan_keeps_blk p i b :
  get_blk p i = Some b -> exists b', get_blk (fp_pln (fix_plan run_seq p)) i = Some b' /\ blk_keeps b b'.
Proof.
  unfold get_blk. intro H.
  destruct (fix_plan_blocks p) as [E|E]; rewrite E.
  - exists b. split; [assumption|apply blk_keeps_refl].
  - destruct (fix_blocks_nth (pl_blocks p) 0 i b H) as [E'|E']; rewrite E'.
    + exists b. split; [reflexivity|apply blk_keeps_refl].
    + eexists. split; [reflexivity|apply blk_keeps_fix].
Qed.

Lemma never_unfinishes_plan_groups p g c :
  pl_grp g p = Some c -> ck_st c <> Running -> pl_grp g (fp_pln (fix_plan run_seq p)) = Some c.
Proof.
  intros H Hc. destruct (fix_plan_grp p g) as [E|E]; rewrite E; [assumption|].
  now apply (grp_keeps_fix (pl_grp g p) c).
Qed.

Lemma never_unfinishes_block p i b :
  get_blk p i = Some b -> is_terminal (bk_st b) = true -> get_blk (fp_pln (fix_plan run_seq p)) i = Some b.
Proof.
  intros H Ht. destruct (fix_plan_keeps_blk p i b H) as (b' & E & K & _). now rewrite (K Ht) in E.
Qed.

Lemma never_unfinishes_block_groups p i g c :
  get_bgrp p i g = Some c -> ck_st c <> Running -> get_bgrp (fp_pln (fix_plan run_seq p)) i g = Some c.
Proof.
  unfold get_bgrp. destruct (get_blk p i) as [b|] eqn:Hb; [|discriminate]. intros H Hc.
  destruct (fix_plan_keeps_blk p i b Hb) as (b' & E & _ & K & _). rewrite E. now apply (K g c).
Qed.

Lemma never_unfinishes_seq p i j s :
  get_seq p i j = Some s -> is_terminal (sq_st s) = true -> get_seq (fp_pln (fix_plan run_seq p)) i j = Some s.
Proof.
  unfold get_seq. destruct (get_blk p i) as [b|] eqn:Hb; [|discriminate]. intros H Ht.
  destruct (fix_plan_keeps_blk p i b Hb) as (b' & E & _ & _ & K). rewrite E.
  destruct (K j s H) as (s' & E' & Ks & _). now rewrite (Ks Ht) in E'.
Qed.

Lemma never_unfinishes_act p i j k a :
  get_act p i j k = Some a -> is_terminal (ac_st a) = true -> get_act (fp_pln (fix_plan run_seq p)) i j k = Some a.
Proof.
  unfold get_act, get_seq. destruct (get_blk p i) as [b|] eqn:Hb; [|discriminate].
  destruct (nth_error (bk_seqs b) j) as [s|] eqn:Hs; [|discriminate]. intros H Ht.
  destruct (fix_plan_keeps_blk p i b Hb) as (b' & E & _ & _ & K). rewrite E.
  destruct (K j s Hs) as (s' & E' & _ & Ka). rewrite E'. now apply Ka.
Qed.

(* the shape is preserved *)
Lemma fix_plan_nblocks p : length (pl_blocks (fp_pln (fix_plan run_seq p))) = length (pl_blocks p).
Proof. destruct (fix_plan_blocks p) as [E|E]; rewrite E; [reflexivity|apply fix_blocks_length]. Qed.

(* ---- what is left Running in a block that was processed completely *)
Lemma fix_block_full_seq b j s :
  fb_full (fix_block run_seq b) = true -> nth_error (bk_seqs b) j = Some s ->
  nth_error (bk_seqs (fb_blk (fix_block run_seq b))) j = Some (final_seq s).
Proof.
  intros Hf Hj. destruct (fix_block_seqs b) as [(E0 & _)|(_ & _ & E & _)]; [congruence|].
  now rewrite E, nth_error_map, Hj.
Qed.

Lemma no_running_left_in_processed_block b j s s' :
  fb_full (fix_block run_seq b) = true ->
  nth_error (bk_seqs b) j = Some s -> nth_error (bk_seqs (fb_blk (fix_block run_seq b))) j = Some s' ->
  sq_st s' <> Running
  /\ (sq_st s = Running -> Forall (fun a => ac_st a <> Running) (sq_acts s'))
  /\ (sq_st s <> Running -> s' = s).
Proof.
  intros Hf Hj Hj'. rewrite (fix_block_full_seq b j s Hf Hj) in Hj'. injection Hj' as <-.
  split; [apply final_seq_not_running|split].
  - apply final_seq_no_running_action.
  - apply final_seq_other.
Qed.

(* when does fixPlan hand block i to fixBlock *)
Lemma fix_blocks_processed bs : forall i0 i b,
  nth_error bs i = Some b ->
  (forall i' b', i' < i -> nth_error bs i' = Some b' -> bk_st (fb_blk (fix_block run_seq b')) <> Stopped) ->
  nth_error (fst (fst (fix_blocks run_seq i0 bs))) i = Some (fb_blk (fix_block run_seq b)).
Proof.
  induction bs as [|b0 bs IH]; intros i0 i b Hn Hp; [destruct i; discriminate|].
  simpl. destruct i as [|i]; simpl in Hn.
  - injection Hn as ->.
    destruct (status_eqb (bk_st (fb_blk (fix_block run_seq b))) Stopped); [reflexivity|].
    destruct (fix_blocks run_seq (S i0) bs) as [[r' res'] st]. reflexivity.
  - assert (H0 : bk_st (fb_blk (fix_block run_seq b0)) <> Stopped) by (apply (Hp 0 b0); [lia|reflexivity]).
    rewrite (status_eqb_neq _ _ H0).
    specialize (IH (S i0) i b Hn). destruct (fix_blocks run_seq (S i0) bs) as [[r' res'] st]. simpl in *.
    apply IH. intros i' b' Hi Hb. apply (Hp (S i') b'); [lia|assumption].
Qed.

Lemma fix_plan_reaches_blocks p :
  pl_st p = Running -> chk_is Completed (fix_checks_opt (pl_bypass p)) = false ->
  checks_failed (pl_pre p) = false -> checks_failed (pl_post p) = false ->
  pl_blocks (fp_pln (fix_plan run_seq p)) = fst (fst (fix_blocks run_seq 0 (pl_blocks p))).
Proof.
  intros Hr H1 H2 H3. unfold fix_plan. rewrite Hr, H1, H2, H3. simpl.
  destruct (fix_blocks run_seq 0 (pl_blocks p)) as [[bs res] stop].
  repeat match goal with |- context [if ?c then _ else _] => destruct c end; reflexivity.
Qed.

(* ---- counting over the sequences fixBlock resumes *)
Definition resumables (l : list seq) : Prop := Forall (fun s => sq_st s = Running -> resumable s) l.

Lemma map_fix_seq_resumables l : resumables (map fix_seq l).
Proof. apply Forall_forall. intros s Hs. apply in_map_iff in Hs as (s0 & <- & _). apply fix_seq_resumable. Qed.

Lemma count_resume_stopped l : resumables l ->
  count_st sq_st Stopped (map (resume_seq run_seq) l) = count_st sq_st Stopped l.
Proof.
  induction 1 as [|s l Hs _ IH]; [reflexivity|]. simpl map. rewrite !count_st_cons, IH. f_equal.
  unfold resume_seq. destruct (status_eqb (sq_st s) Running) eqn:E; [|reflexivity].
  apply status_eqb_eq in E. destruct (run_status s (Hs E)) as [H|H]; rewrite H, E; reflexivity.
Qed.

Lemma count_resume_failed l :
  count_st sq_st Failed (map (resume_seq run_seq) l)
  = count_st sq_st Failed l
    + length (filter (fun s => status_eqb (sq_st s) Running && status_eqb (sq_st (run_seq s)) Failed) l).
Proof.
  induction l as [|s l IH]; [reflexivity|]. simpl map. rewrite !count_st_cons, IH. simpl filter.
  unfold resume_seq. destruct (status_eqb (sq_st s) Running) eqn:E; simpl.
  - apply status_eqb_eq in E. rewrite E. simpl.
    destruct (status_eqb (sq_st (run_seq s)) Failed); simpl; lia.
  - lia.
Qed.

Lemma count_resume_completed l :
  count_st sq_st Completed l <= count_st sq_st Completed (map (resume_seq run_seq) l).
Proof.
  induction l as [|s l IH]; [reflexivity|]. simpl map. rewrite !count_st_cons.
  unfold resume_seq at 1. destruct (status_eqb (sq_st s) Running) eqn:E.
  - apply status_eqb_eq in E. rewrite E. simpl. lia.
  - lia.
Qed.

Lemma resume_none_running l : resumables l ->
  Forall (fun s => sq_st s <> Running) (map (resume_seq run_seq) l).
Proof.
  induction 1 as [|s l Hs _ IH]; constructor; [|assumption].
  unfold resume_seq. destruct (status_eqb (sq_st s) Running) eqn:E.
  - apply status_eqb_eq in E. destruct (run_status s (Hs E)) as [H|H]; rewrite H; discriminate.
  - now apply status_eqb_false.
Qed.

Definition quiet (l : list seq) : Prop := Forall (fun s => sq_st s <> Running) l.

Lemma quiet_fix_seq l : quiet l -> map fix_seq l = l.
Proof. induction 1 as [|s l' Hs _ IH]; simpl; [reflexivity|]. now rewrite (fix_seq_other s Hs), IH. Qed.

Lemma quiet_resume l : quiet l -> map (resume_seq run_seq) l = l.
Proof.
  induction 1 as [|s l' Hs _ IH]; simpl; [reflexivity|]. rewrite IH. unfold resume_seq.
  now rewrite (status_eqb_neq _ _ Hs).
Qed.

Lemma quiet_running_ix l : quiet l -> forall i, running_ix i l = [].
Proof.
  induction 1 as [|s l' Hs _ IH]; intro i; simpl; [reflexivity|].
  now rewrite (status_eqb_neq _ _ Hs).
Qed.

Lemma quiet_filter l (f : seq -> bool) : quiet l -> filter (fun s => status_eqb (sq_st s) Running && f s) l = [].
Proof.
  induction 1 as [|s l' Hs _ IH]; simpl; [reflexivity|]. now rewrite (status_eqb_neq _ _ Hs).
Qed.

(* ---- a second repair changes nothing and resumes nothing *)
Lemma fix_block_running_form b :
  bk_st (fb_blk (fix_block run_seq b)) = Running ->
  let by_ := fix_checks_opt (bk_bypass b) in
  let pre := fix_checks_opt (bk_pre b) in
  let cont := fix_checks_opt (bk_cont b) in
  let post := fix_checks_opt (bk_post b) in
  let seqs1 := map fix_seq (bk_seqs b) in
  let failed := count_st sq_st Failed seqs1
                + length (filter (fun s => status_eqb (sq_st s) Running && status_eqb (sq_st (run_seq s)) Failed) seqs1) in
  bk_st b = Running
  /\ chk_is Completed by_ = false /\ chk_is Failed (bk_pre b) = false
  /\ chk_is Failed (bk_cont b) = false /\ chk_is Failed (bk_post b) = false
  /\ Nat.ltb 0 (count_st sq_st Stopped seqs1) = false
  /\ Nat.eqb (count_st sq_st Completed seqs1) 0 && Nat.eqb failed 0 = false
  /\ fb_blk (fix_block run_seq b) = blk_upd b Running by_ pre cont post (map (resume_seq run_seq) seqs1).
Proof.
  intros E by_ pre cont post seqs1 failed.
  destruct (status_eqb (bk_st b) Running) eqn:Er.
  2:{ apply status_eqb_false in Er. rewrite (fix_block_other b Er) in E. simpl in E. contradiction. }
  apply status_eqb_eq in Er.
  revert E. unfold fix_block. rewrite Er. simpl. fold by_ pre cont post seqs1 failed.
  destruct (chk_is Completed by_); simpl; [discriminate|].
  destruct (chk_is Failed (bk_pre b)); simpl; [discriminate|].
  destruct (chk_is Failed (bk_cont b)); simpl; [discriminate|].
  destruct (chk_is Failed (bk_post b)); simpl; [discriminate|].
  destruct (Nat.ltb 0 (count_st sq_st Stopped seqs1)); simpl; [discriminate|].
  destruct (Nat.eqb (count_st sq_st Completed seqs1) 0 && Nat.eqb failed 0); simpl; [discriminate|].
  intros _. repeat split; try reflexivity; assumption.
Qed.

Lemma fix_block_idem b :
  fb_blk (fix_block run_seq (fb_blk (fix_block run_seq b))) = fb_blk (fix_block run_seq b)
  /\ fb_resumed (fix_block run_seq (fb_blk (fix_block run_seq b))) = [].
Proof.
  destruct (status_eqb (bk_st (fb_blk (fix_block run_seq b))) Running) eqn:E.
  2:{ apply status_eqb_false in E. rewrite (fix_block_other _ E). auto. }
  apply status_eqb_eq in E.
  destruct (fix_block_running_form b E) as (Er & H1 & H2 & H3 & H4 & H5 & H6 & F).
  rewrite F.
  set (by_ := fix_checks_opt (bk_bypass b)) in *. set (pre := fix_checks_opt (bk_pre b)) in *.
  set (cont := fix_checks_opt (bk_cont b)) in *. set (post := fix_checks_opt (bk_post b)) in *.
  set (seqs1 := map fix_seq (bk_seqs b)) in *.
  set (F2 := map (resume_seq run_seq) seqs1) in *.
  assert (Hq : quiet F2) by (apply resume_none_running, map_fix_seq_resumables).
  unfold fix_block. simpl.
  assert (Eb : fix_checks_opt by_ = by_) by apply fix_checks_opt_idem. rewrite Eb, H1.
  assert (Ep : chk_is Failed pre = false) by (unfold pre; rewrite chk_is_fix; [assumption|discriminate|discriminate]).
  assert (Ec : chk_is Failed cont = false) by (unfold cont; rewrite chk_is_fix; [assumption|discriminate|discriminate]).
  assert (Eo : chk_is Failed post = false) by (unfold post; rewrite chk_is_fix; [assumption|discriminate|discriminate]).
  rewrite Ep, Ec, Eo.
  assert (Ep' : fix_checks_opt pre = pre) by apply fix_checks_opt_idem.
  assert (Ec' : fix_checks_opt cont = cont) by apply fix_checks_opt_idem.
  assert (Eo' : fix_checks_opt post = post) by apply fix_checks_opt_idem.
  rewrite Ep', Ec', Eo'.
  rewrite (quiet_fix_seq F2 Hq), (quiet_resume F2 Hq), (quiet_running_ix F2 Hq), (quiet_filter F2 _ Hq).
  assert (Es : count_st sq_st Stopped F2 = count_st sq_st Stopped seqs1)
    by (apply count_resume_stopped, map_fix_seq_resumables).
  rewrite Es, H5.
  assert (Ef : count_st sq_st Failed F2 = count_st sq_st Failed seqs1
               + length (filter (fun s => status_eqb (sq_st s) Running && status_eqb (sq_st (run_seq s)) Failed) seqs1))
    by apply count_resume_failed.
  pose proof (count_resume_completed seqs1) as Hc. fold F2 in Hc.
  assert (E6 : Nat.eqb (count_st sq_st Completed F2) 0 && Nat.eqb (count_st sq_st Failed F2 + length (@nil seq)) 0 = false).
  { apply andb_false_iff in H6. apply andb_false_iff. destruct H6 as [H6|H6]; apply Nat.eqb_neq in H6.
    - left. apply Nat.eqb_neq. lia.
    - right. apply Nat.eqb_neq. simpl. lia. }
  rewrite E6. simpl. split; reflexivity.
Qed.

Lemma fix_blocks_idem bs : forall i0 bs' res,
  fix_blocks run_seq i0 bs = (bs', res, false) ->
  forall i1, fix_blocks run_seq i1 bs' = (bs', [], false).
Proof.
  induction bs as [|b bs IH]; intros i0 bs' res H i1; simpl in H.
  - injection H as <- _. reflexivity.
  - destruct (status_eqb (bk_st (fb_blk (fix_block run_seq b))) Stopped) eqn:Es; [discriminate|].
    destruct (fix_blocks run_seq (S i0) bs) as [[r' res'] st] eqn:E. injection H as <- _ ->.
    simpl. destruct (fix_block_idem b) as [I1 I2]. rewrite I1, I2, Es. simpl.
    now rewrite (IH (S i0) r' res' E (S i1)).
Qed.

Lemma fix_plan_running_form p :
  pl_st (fp_pln (fix_plan run_seq p)) = Running ->
  let by_ := fix_checks_opt (pl_bypass p) in
  let pre := fix_checks_opt (pl_pre p) in
  let cont := fix_checks_opt (pl_cont p) in
  let post := fix_checks_opt (pl_post p) in
  let def := fix_checks_opt (pl_deferred p) in
  exists bs res,
    fix_blocks run_seq 0 (pl_blocks p) = (bs, res, false)
    /\ pl_st p = Running
    /\ chk_is Completed by_ = false /\ checks_failed (pl_pre p) = false
    /\ checks_failed (pl_post p) = false /\ checks_failed (pl_cont p) = false
    /\ Nat.ltb 0 (count_st bk_st Failed bs) = false
    /\ Nat.eqb (count_st bk_st Completed bs) 0 && Nat.eqb (count_st bk_st Running bs) 0
       && Nat.eqb (count_st bk_st Failed bs) 0 = false
    /\ Nat.eqb (count_st bk_st Completed bs) (length bs) && checks_completed post && checks_completed def = false
    /\ fp_pln (fix_plan run_seq p) = pln_upd p Running (pl_ez p) by_ pre cont post def bs.
Proof.
  intros E by_ pre cont post def.
  destruct (status_eqb (pl_st p) Running) eqn:Er.
  2:{ apply status_eqb_false in Er. rewrite (fix_plan_other p Er) in E. simpl in E. contradiction. }
  apply status_eqb_eq in Er.
  revert E. unfold fix_plan. rewrite Er. simpl. fold by_ pre cont post def.
  destruct (chk_is Completed by_); simpl; [discriminate|].
  destruct (checks_failed (pl_pre p)); simpl; [discriminate|].
  destruct (checks_failed (pl_post p)); simpl; [discriminate|].
  destruct (fix_blocks run_seq 0 (pl_blocks p)) as [[bs res] stop].
  destruct stop; simpl; [discriminate|].
  destruct (Nat.ltb 0 (count_st bk_st Failed bs)) eqn:H4; simpl; [discriminate|].
  destruct (Nat.eqb (count_st bk_st Completed bs) 0 && Nat.eqb (count_st bk_st Running bs) 0
            && Nat.eqb (count_st bk_st Failed bs) 0) eqn:H5; simpl; [discriminate|].
  destruct (Nat.eqb (count_st bk_st Completed bs) (length bs) && checks_completed post && checks_completed def) eqn:H6;
    simpl; [discriminate|].
  destruct (checks_failed (pl_cont p)); simpl; [discriminate|].
  intros _. exists bs, res. repeat split; try reflexivity; assumption.
Qed.

Lemma fix_plan_idem p :
  fix_plan run_seq (fp_pln (fix_plan run_seq p)) = Build_fixp (fp_pln (fix_plan run_seq p)) [].
Proof.
  destruct (status_eqb (pl_st (fp_pln (fix_plan run_seq p))) Running) eqn:E.
  2:{ apply fix_plan_other. now apply status_eqb_false. }
  apply status_eqb_eq in E.
  destruct (fix_plan_running_form p E) as (bs & res & Eb & Er & H1 & H2 & H3 & H7 & H4 & H5 & H6 & F).
  rewrite F.
  set (by_ := fix_checks_opt (pl_bypass p)) in *. set (pre := fix_checks_opt (pl_pre p)) in *.
  set (cont := fix_checks_opt (pl_cont p)) in *. set (post := fix_checks_opt (pl_post p)) in *.
  set (def := fix_checks_opt (pl_deferred p)) in *.
  assert (Eb' : fix_checks_opt by_ = by_) by apply fix_checks_opt_idem.
  assert (Ep' : fix_checks_opt pre = pre) by apply fix_checks_opt_idem.
  assert (Ec' : fix_checks_opt cont = cont) by apply fix_checks_opt_idem.
  assert (Eo' : fix_checks_opt post = post) by apply fix_checks_opt_idem.
  assert (Ed' : fix_checks_opt def = def) by apply fix_checks_opt_idem.
  assert (F2 : checks_failed pre = false) by (unfold checks_failed, pre; rewrite chk_is_fix; [assumption|discriminate|discriminate]).
  assert (F3 : checks_failed post = false) by (unfold checks_failed, post; rewrite chk_is_fix; [assumption|discriminate|discriminate]).
  assert (F7 : checks_failed cont = false) by (unfold checks_failed, cont; rewrite chk_is_fix; [assumption|discriminate|discriminate]).
  unfold fix_plan. simpl.
  rewrite Eb', H1, F2, Ep', F3, Eo', F7, Ec', Ed'. simpl.
  rewrite (fix_blocks_idem _ _ _ _ Eb 0). simpl. rewrite H4, H5, H6. simpl. reflexivity.
Qed.

End Contract.

(* ------------------------------------------------------------------ execSeq meets the contract *)
Section ExecContract.
Variable run_act : act -> act.
Hypothesis Hact : act_contract run_act.

Lemma exec_actions_ran l :
  Forall (fun a => ac_st a = Completed \/ ac_st a = NotStarted) l ->
  ran l (fst (exec_actions run_act l)) (snd (exec_actions run_act l)).
Proof.
  induction 1 as [|a l Ha _ IH]; simpl; [constructor|].
  unfold run_action. destruct Ha as [Ha|Ha]; rewrite Ha.
  - destruct (exec_actions run_act l) as [r' e]. simpl in *. now apply ran_skip.
  - destruct (Hact a Ha) as [H|H]; rewrite H; simpl.
    + destruct (exec_actions run_act l) as [r' e]. simpl in *. now apply ran_ok.
    + now apply ran_fail.
Qed.

Lemma exec_seq_contract : run_contract (exec_seq run_act).
Proof.
  intros s [Hs Hall]. unfold exec_seq. rewrite Hs.
  pose proof (exec_actions_ran _ Hall) as H.
  destruct (exec_actions run_act (sq_acts s)) as [acts err]. simpl in *.
  exists err. split; [assumption|reflexivity].
Qed.
End ExecContract.

(* ------------------------------------------------------------------ the known findings, refuted on witnesses *)
(* R2: a check action interrupted by the crash stays Running, its group is never run again (entry End) *)
Lemma witness_R2_facts : forall run_seq,
  pl_st witness_R2 = Running
  /\ recovery_entry run_seq witness_R2 = EEnd
  /\ pl_st (fp_pln (fix_plan run_seq witness_R2)) = Failed
  /\ fp_resumed (fix_plan run_seq witness_R2) = []
  /\ no_running_check_action (fp_pln (fix_plan run_seq witness_R2)) = false
  /\ (exists c a, get_bgrp (fp_pln (fix_plan run_seq witness_R2)) 0 GDeferred = Some c
                  /\ ck_st c = NotStarted /\ nth_error (ck_acts c) 0 = Some a /\ ac_st a = Running).
Proof.
  intro run_seq. repeat split; try (vm_compute; reflexivity).
  eexists. eexists. vm_compute. repeat split; reflexivity.
Qed.

Lemma R2_refuted :
  ~ (forall run_seq p, pl_st p = Running -> recovery_entry run_seq p = EEnd ->
       no_running_check_action (fp_pln (fix_plan run_seq p)) = true).
Proof.
  intro H. specialize (H (fun s => s) witness_R2).
  destruct (witness_R2_facts (fun s => s)) as (H1 & H2 & _ & _ & H5 & _).
  rewrite (H H1 H2) in H5. discriminate.
Qed.

(* R3: a sequence in flight when a check group failed stays Running, with its action (entry End) *)
Lemma witness_R3_facts : forall run_seq,
  pl_st witness_R3 = Running
  /\ recovery_entry run_seq witness_R3 = EEnd
  /\ pl_st (fp_pln (fix_plan run_seq witness_R3)) = Failed
  /\ fp_resumed (fix_plan run_seq witness_R3) = []
  /\ no_running_sequence (fp_pln (fix_plan run_seq witness_R3)) = false
  /\ (exists b s a, get_blk witness_R3 0 = Some b /\ bk_st b = Running /\ chk_is Failed (bk_cont b) = true
                    /\ fb_full (fix_block run_seq b) = false
                    /\ get_seq (fp_pln (fix_plan run_seq witness_R3)) 0 0 = Some s /\ sq_st s = Running
                    /\ nth_error (sq_acts s) 1 = Some a /\ ac_st a = Running).
Proof.
  intro run_seq. repeat split; try (vm_compute; reflexivity).
  eexists. eexists. eexists. vm_compute. repeat split; reflexivity.
Qed.

Lemma R3_refuted :
  ~ (forall run_seq p, pl_st p = Running -> recovery_entry run_seq p = EEnd ->
       no_running_sequence (fp_pln (fix_plan run_seq p)) = true).
Proof.
  intro H. specialize (H (fun s => s) witness_R3).
  destruct (witness_R3_facts (fun s => s)) as (H1 & H2 & _ & _ & H5 & _).
  rewrite (H H1 H2) in H5. discriminate.
Qed.

(* the same early return for a Failed pre or post group *)
Definition witness_R3_pre : blk :=
  Build_blk Running false true None (Some (Build_chk Failed false false [Build_act 0 Failed false false [erratt_w]])) None None None
    [Build_seq Running false true [Build_act 1 Running false true []]].
Definition witness_R3_post : blk :=
  Build_blk Running false true None None None (Some (Build_chk Failed false false [Build_act 0 Failed false false [erratt_w]])) None
    [Build_seq Running false true [Build_act 1 Running false true []]].

Lemma R3_early_returns : forall run_seq,
  Forall (fun b => fix_block run_seq b = Build_fixb (Build_blk Failed (bk_sz b) (bk_ez b) (bk_bypass b) (bk_pre b) (bk_cont b)
                                                          (bk_post b) (bk_deferred b) (bk_seqs b)) [] false)
         [witness_R3_pre; witness_R3_post].
Proof. intro run_seq. repeat constructor. Qed.

(* R6: a durably Failed continuous group of the plan: plan Failed, entry End, the executing block stays Running with
   an unstarted sequence and a deferred group that never ran *)
Lemma witness_R6_facts : forall run_seq,
  pl_st witness_R6 = Running
  /\ checks_failed (pl_cont witness_R6) = true
  /\ recovery_entry run_seq witness_R6 = EEnd
  /\ pl_st (fp_pln (fix_plan run_seq witness_R6)) = Failed
  /\ fp_resumed (fix_plan run_seq witness_R6) = []
  /\ no_running_block (fp_pln (fix_plan run_seq witness_R6)) = false
  /\ (exists b s c, get_blk (fp_pln (fix_plan run_seq witness_R6)) 0 = Some b /\ bk_st b = Running
                    /\ nth_error (bk_seqs b) 1 = Some s /\ sq_st s = NotStarted
                    /\ bk_deferred b = Some c /\ ck_st c = NotStarted).
Proof.
  intro run_seq. repeat split; try (vm_compute; reflexivity).
  eexists. eexists. eexists. vm_compute. repeat split; reflexivity.
Qed.

Lemma R6_refuted :
  ~ (forall run_seq p, pl_st p = Running -> recovery_entry run_seq p = EEnd ->
       no_running_block (fp_pln (fix_plan run_seq p)) = true).
Proof.
  intro H. specialize (H (fun s => s) witness_R6).
  destruct (witness_R6_facts (fun s => s)) as (H1 & _ & H2 & _ & _ & H5 & _).
  rewrite (H H1 H2) in H5. discriminate.
Qed.

(* R5: a Running sequence inside a finished block is not repaired: plan Completed (entry End) with a Running sequence *)
Lemma witness_R5_facts : forall run_seq,
  pl_st witness_R5 = Running
  /\ recovery_entry run_seq witness_R5 = EEnd
  /\ pl_st (fp_pln (fix_plan run_seq witness_R5)) = Completed
  /\ fp_resumed (fix_plan run_seq witness_R5) = []
  /\ no_running_sequence (fp_pln (fix_plan run_seq witness_R5)) = false
  /\ (exists b s, get_blk (fp_pln (fix_plan run_seq witness_R5)) 0 = Some b /\ bk_st b = Completed
                  /\ nth_error (bk_seqs b) 0 = Some s /\ sq_st s = Running
                  /\ Forall (fun a => ac_st a = Completed) (sq_acts s)).
Proof.
  intro run_seq. repeat split; try (vm_compute; reflexivity).
  eexists. eexists. vm_compute. repeat split; try reflexivity. repeat constructor.
Qed.

(* ------------------------------------------------------------------ the statements of props/Repair.v, assembled *)
Lemma fix_action_spec_all :
  forall a : act,
    (ac_st a <> Running -> fix_action a = a)
    /\ (ac_st a = Running -> Forall (fun x => x_endz x = true) (ac_atts a) ->
        fix_action a = Build_act (ac_id a) NotStarted true true [])
    /\ (ac_st a = Running ->
        forall kept x dropped, ac_atts a = kept ++ x :: dropped -> x_endz x = false ->
          Forall (fun y => x_endz y = true) dropped ->
          fix_action a = Build_act (ac_id a) (if x_err x then Failed else Completed) (ac_sz a) false (kept ++ [x])).
Proof.
  intro a. split; [apply fix_action_other|split].
  - apply fix_action_reset.
  - intros Hr kept x dropped. now apply fix_action_done.
Qed.

Lemma never_unfinishes_all :
  forall (run_seq : seq -> seq), run_contract run_seq ->
  forall p : pln,
    let p' := fp_pln (fix_plan run_seq p) in
    (is_terminal (pl_st p) = true -> p' = p)
    /\ (forall i b, get_blk p i = Some b -> is_terminal (bk_st b) = true -> get_blk p' i = Some b)
    /\ (forall i j s, get_seq p i j = Some s -> is_terminal (sq_st s) = true -> get_seq p' i j = Some s)
    /\ (forall i j k a, get_act p i j k = Some a -> is_terminal (ac_st a) = true -> get_act p' i j k = Some a)
    /\ (forall g c, pl_grp g p = Some c -> ck_st c <> Running -> pl_grp g p' = Some c)
    /\ (forall i g c, get_bgrp p i g = Some c -> ck_st c <> Running -> get_bgrp p' i g = Some c)
    /\ length (pl_blocks p') = length (pl_blocks p).
Proof.
  intros run_seq Hrun p p'. unfold p'.
  split; [apply fix_plan_keeps_plan|].
  split; [apply (never_unfinishes_block run_seq Hrun)|].
  split; [apply (never_unfinishes_seq run_seq Hrun)|].
  split; [apply (never_unfinishes_act run_seq Hrun)|].
  split; [apply never_unfinishes_plan_groups|].
  split; [apply (never_unfinishes_block_groups run_seq Hrun)|].
  apply fix_plan_nblocks.
Qed.

Lemma plan_processes_blocks :
  forall (run_seq : seq -> seq), run_contract run_seq ->
  forall (p : pln) (i : nat) (b : blk),
    pl_st p = Running ->
    chk_is Completed (fix_checks_opt (pl_bypass p)) = false ->
    checks_failed (pl_pre p) = false -> checks_failed (pl_post p) = false ->
    get_blk p i = Some b ->
    (forall i' b', i' < i -> get_blk p i' = Some b' -> bk_st (fb_blk (fix_block run_seq b')) <> Stopped) ->
    get_blk (fp_pln (fix_plan run_seq p)) i = Some (fb_blk (fix_block run_seq b)).
Proof.
  intros run_seq Hrun p i b Hr H1 H2 H3 Hb Hp. unfold get_blk in *.
  rewrite (fix_plan_reaches_blocks run_seq p Hr H1 H2 H3). now apply fix_blocks_processed.
Qed.
