(* The image of a Coercion.Base.Plan plan: what crash repair reads and writes.  Nil State pointers, nil slices
   and nil elements are outside repair's domain (the code would dereference them); they are mapped to
   NotStarted / empty / skipped.  No proofs here. *)
From Coercion.Base Require Import Plan.
From Coercion.Recover Require Import Fix.

Definition zero_time (z : Z) : bool := Z.eqb z 0.

Definition hdr_of (s : option state) : status * bool * bool :=
  match s with
  | Some st => (s_status st, zero_time (s_start st), zero_time (s_end st))
  | None => (NotStarted, true, true)
  end.

Definition att_of (a : attempt) : att :=
  Build_att (match at_err a with Some _ => true | None => false end) (zero_time (at_end a)).

Definition act_of (a : action) : act :=
  let '(t, sz, ez) := hdr_of (a_state a) in
  Build_act (N.to_nat (u_ix (a_id a))) t sz ez
            (match a_attempts a with Some l => map att_of l | None => [] end).

Definition somes {A} (l : option (list (option A))) : list A :=
  match l with
  | Some xs => flat_map (fun x => match x with Some y => [y] | None => [] end) xs
  | None => []
  end.

Definition chk_of (c : checks) : chk :=
  let '(t, sz, ez) := hdr_of (c_state c) in Build_chk t sz ez (map act_of (somes (c_actions c))).

Definition seq_of (s : sequence) : seq :=
  let '(t, sz, ez) := hdr_of (q_state s) in Build_seq t sz ez (map act_of (somes (q_actions s))).

Definition blk_of (b : block) : blk :=
  let '(t, sz, ez) := hdr_of (b_state b) in
  Build_blk t sz ez (option_map chk_of (b_bypass b)) (option_map chk_of (b_pre b)) (option_map chk_of (b_cont b))
            (option_map chk_of (b_post b)) (option_map chk_of (b_deferred b)) (map seq_of (somes (b_seqs b))).

Definition image_of (p : plan) : pln :=
  let '(t, sz, ez) := hdr_of (p_state p) in
  Build_pln t sz ez (option_map chk_of (p_bypass p)) (option_map chk_of (p_pre p)) (option_map chk_of (p_cont p))
            (option_map chk_of (p_post p)) (option_map chk_of (p_deferred p)) (map blk_of (somes (p_blocks p))).
