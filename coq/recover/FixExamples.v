(* Non-vacuity: the hypotheses of the repair theorems are satisfiable on concrete, non-trivial inputs, and the
   scripted execution used by the correspondence check is an instance of the assumed contract. *)
From Coercion.Base Require Import Plan.
From Coercion.Recover Require Import Fix FixSpec Witness FixCheck FixProofs.

(* the scripted action run of the correspondence check meets the action contract, so the scripted execSeq meets
   the contract every theorem assumes *)
Lemma run_act_script_contract sc : act_contract (run_act_script sc).
Proof.
  intros a _. unfold run_act_script.
  destruct (lookup (ac_id a) sc) as [retries outs].
  destruct (attempt_loop (retries + 2) retries outs (ac_atts a)) as [atts [|]]; simpl; auto.
Qed.

Lemma run_seq_script_contract sc : run_contract (run_seq_script sc).
Proof. apply exec_seq_contract, run_act_script_contract. Qed.

Definition ok_ := Build_att false false.
Definition err_ := Build_att true false.
Definition open_ := Build_att false true.

(* fixAction: [failed; ok; open; open] -> the two open attempts are dropped, the action is Completed *)
Example ex_fix_action_done :
  fix_action (Build_act 7 Running false true [err_; ok_; open_; open_]) = Build_act 7 Completed false false [err_; ok_].
Proof. reflexivity. Qed.
Example ex_fix_action_failed :
  fix_action (Build_act 7 Running false true [ok_; err_; open_]) = Build_act 7 Failed false false [ok_; err_].
Proof. reflexivity. Qed.
Example ex_fix_action_reset :
  fix_action (Build_act 7 Running false true [open_; open_]) = Build_act 7 NotStarted true true [].
Proof. reflexivity. Qed.

(* a crash image in which fixBlock resumes a sequence: block 0 done, block 1 with one finished sequence and one
   in flight (first action done, second one with a complete successful attempt but not yet written Completed,
   third untouched); plan-level post group untouched *)
Definition ex_image : pln :=
  Build_pln Running false true None
    (Some (Build_chk Completed false false [Build_act 0 Completed false false [ok_]])) None
    (Some (Build_chk NotStarted true true [Build_act 1 NotStarted true true []])) None
    [ Build_blk Completed false false None None None None None
        [Build_seq Completed false false [Build_act 2 Completed false false [ok_]]];
      Build_blk Running false true None None None None None
        [Build_seq Completed false false [Build_act 3 Completed false false [ok_]];
         Build_seq Running false true [Build_act 4 Completed false false [ok_];
                                       Build_act 5 Running false true [ok_];
                                       Build_act 6 NotStarted true true []]] ].

(* action 6 fails permanently when it is run *)
Definition ex_script : script := [(6, (0, [OPermanent]))].
Definition ex_run := run_seq_script ex_script.

Example ex_resumes : fp_resumed (fix_plan ex_run ex_image) = [(1, 1)].
Proof. vm_compute. reflexivity. Qed.

Example ex_entry : recovery_entry ex_run ex_image = EBypass.
Proof. vm_compute. reflexivity. Qed.

(* the resumed sequence: action 5 repaired to Completed WITHOUT being run, action 6 run and Failed *)
Example ex_resumed_sequence :
  get_seq (fp_pln (fix_plan ex_run ex_image)) 1 1
  = Some (Build_seq Failed false false [Build_act 4 Completed false false [ok_];
                                        Build_act 5 Completed false false [ok_];
                                        Build_act 6 Failed false false [err_]]).
Proof. vm_compute. reflexivity. Qed.

(* hypotheses of fix_never_unfinishes are met by several objects of the example *)
Example ex_finished_block : exists b, get_blk ex_image 0 = Some b /\ is_terminal (bk_st b) = true.
Proof. eexists. split; reflexivity. Qed.
Example ex_finished_action_in_running_sequence :
  exists a, get_act ex_image 1 1 0 = Some a /\ is_terminal (ac_st a) = true.
Proof. eexists. split; reflexivity. Qed.
Example ex_finished_group : exists c, pl_grp GPre ex_image = Some c /\ ck_st c <> Running.
Proof. eexists. split; [reflexivity|discriminate]. Qed.

(* the block is processed completely, and a second repair changes nothing *)
Example ex_full : exists b, get_blk ex_image 1 = Some b /\ bk_st b = Running /\ fb_full (fix_block ex_run b) = true.
Proof. eexists. repeat split; reflexivity. Qed.
Example ex_idem :
  fix_plan ex_run (fp_pln (fix_plan ex_run ex_image)) = Build_fixp (fp_pln (fix_plan ex_run ex_image)) [].
Proof. vm_compute. reflexivity. Qed.

(* the resumed sequence is resumable and its execution is an instance of [ran] *)
Example ex_resumable : exists s, nth_error (map fix_seq [Build_seq Running false true
      [Build_act 4 Completed false false [ok_]; Build_act 5 Running false true [ok_]; Build_act 6 NotStarted true true []]]) 0 = Some s
    /\ resumable s.
Proof.
  eexists. split; [vm_compute; reflexivity|]. split; [reflexivity|].
  repeat (constructor; [simpl; auto|]). constructor.
Qed.
