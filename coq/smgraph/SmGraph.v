(* SmGraph - the state-chain graph of the engine, as EXTRACTED FROM THE GO SOURCE on every run
   (harness/cmd/smgraph -> SmGraphGen.v), and the finite-graph functions the obligations about it use.

   This file: definitions only (no proofs), so that everything still evaluates when a proof breaks.
     - [node], [edge]: the vocabulary of the generated file;
     - generic finite directed graphs over any type with a boolean equality: [succs], [reach_n],
       [reachable] (fuel = number of nodes), [remove_node], [dominates];
     - [declared_edges], [declared_methods], [declared_entries]: the HAND-WRITTEN description of the state
       chains that the engine automaton (coq/engine: PStart, PBypass, PPre, PBlocks, PPost, PDeferred, PEnd /
       BEnter, BBypass, BPre, BSeqs, BPost, BDeferred, BEnd) and the recovery / final-state / action models
       claim; [phase_of] maps the state methods of sm.States to those phases and [declared_phase_edges] is
       the automaton's phase graph.
   Proofs: SmGraphProofs.v.  Obligations about the generated graph: props/SmGraphProps.v.

   When the code's state chain changes ON PURPOSE: update [declared_edges] (and the models that cite it), then
   refresh the committed snapshot with
     .work/bin/smgraph -repo /repo -v coq/smgraph/SmGraphGen.v -json coq/smgraph/SmGraphGen.json
   (lib/props/smgraph.py never writes into coq/; it regenerates into the run's work directory). *)
From Coq Require Import List String Bool Arith.
Import ListNotations.
Local Open Scope string_scope.

(* ------------------------------------------------------------------ vocabulary of the generated file *)

(* A state of a machine is named by its Go method name. [Nil] is "req.Next == nil at the return" (the
   machine stops). [Unknown] is anything the extractor did not understand (it fails closed: no obligation
   accepts it). [Foreign m s] is a state method of ANOTHER receiver type assigned to Next. *)
Inductive node :=
| St (name : string)
| Nil
| Unknown
| Foreign (machine name : string).

(* One edge per (value that req.Next can hold, return statement) of a state method.
   e_err     : req.Err may have been assigned on the way to this return (statemachine.Run then stops
               instead of following the edge);
   e_closure : the assignment is inside a function literal (deferred or not);
   e_guards  : ids (into sm_guards) of the enclosing conditions, outermost first. *)
Record edge := mkE {
  e_mach : string;
  e_src : string;
  e_dst : node;
  e_err : bool;
  e_closure : bool;
  e_guards : list nat
}.

Definition node_eqb (a b : node) : bool :=
  match a, b with
  | St x, St y => String.eqb x y
  | Nil, Nil => true
  | Unknown, Unknown => true
  | Foreign m x, Foreign n y => String.eqb m n && String.eqb x y
  | _, _ => false
  end.

(* what an edge IS, for comparison with the declaration: machine, source state, target, may-stop-on-Err *)
Definition core := (string * string * node * bool)%type.

Definition edge_core (e : edge) : core := (e_mach e, e_src e, e_dst e, e_err e).

Definition core_eqb (a b : core) : bool :=
  match a, b with
  | (m1, s1, d1, r1), (m2, s2, d2, r2) =>
      String.eqb m1 m2 && String.eqb s1 s2 && node_eqb d1 d2 && Bool.eqb r1 r2
  end.

Definition pair_eqb (a b : string * string) : bool :=
  String.eqb (fst a) (fst b) && String.eqb (snd a) (snd b).

Definition entry_core := (string * node)%type.      (* machine entered, state it is entered at *)

Definition entry_eqb (a b : entry_core) : bool :=
  String.eqb (fst a) (fst b) && node_eqb (snd a) (snd b).

(* ------------------------------------------------------------------ generic list helpers *)

Section Lists.
  Variable A : Type.
  Variable eqb : A -> A -> bool.

  Fixpoint mem (x : A) (l : list A) : bool :=
    match l with
    | [] => false
    | y :: r => eqb x y || mem x r
    end.

  Fixpoint dedup (l : list A) : list A :=
    match l with
    | [] => []
    | x :: r => if mem x r then dedup r else x :: dedup r
    end.

  (* l ++ the elements of m that are not yet in it *)
  Fixpoint union (l m : list A) : list A :=
    match m with
    | [] => l
    | x :: r => if mem x l then union l r else union (l ++ [x]) r
    end.

  Definition subset (l m : list A) : bool := forallb (fun x => mem x m) l.
  Definition same_set (l m : list A) : bool := subset l m && subset m l.

  Fixpoint remove_one (x : A) (l : list A) : option (list A) :=
    match l with
    | [] => None
    | y :: r => if eqb x y then Some r
                else match remove_one x r with Some r' => Some (y :: r') | None => None end
    end.

  (* equality of lists up to order, multiplicities counted *)
  Fixpoint perm_b (l m : list A) : bool :=
    match l with
    | [] => match m with [] => true | _ => false end
    | x :: r => match remove_one x m with Some m' => perm_b r m' | None => false end
    end.

  (* multiset difference l - m *)
  Fixpoint msub (l m : list A) : list A :=
    match m with
    | [] => l
    | x :: r => match remove_one x l with Some l' => msub l' r | None => msub l r end
    end.
End Lists.

Arguments mem {A}.
Arguments dedup {A}.
Arguments union {A}.
Arguments subset {A}.
Arguments same_set {A}.
Arguments remove_one {A}.
Arguments perm_b {A}.
Arguments msub {A}.

(* ------------------------------------------------------------------ generic finite directed graphs *)

Section Graph.
  Variable V : Type.
  Variable eqb : V -> V -> bool.

  Definition graph := list (V * V).

  Definition succs (g : graph) (a : V) : list V :=
    map snd (filter (fun e => eqb (fst e) a) g).

  Definition nodes (g : graph) : list V := dedup eqb (map fst g ++ map snd g).

  (* one breadth step: the set plus all successors of its members *)
  Definition expand (g : graph) (front : list V) : list V :=
    union eqb front (flat_map (succs g) front).

  Fixpoint reach_n (n : nat) (g : graph) (front : list V) : list V :=
    match n with
    | 0 => front
    | S k => reach_n k g (expand g front)
    end.

  (* fuel = number of nodes of the graph; adequacy is SmGraphProofs.reach_complete *)
  Definition reach_set (g : graph) (s : V) : list V := reach_n (List.length (nodes g)) g [s].
  Definition reachable (g : graph) (s t : V) : bool := mem eqb t (reach_set g s).

  (* g without the node d: every edge touching d removed *)
  Definition remove_node (d : V) (g : graph) : graph :=
    filter (fun e => negb (eqb (fst e) d) && negb (eqb (snd e) d)) g.

  Definition remove_edge (x : V * V) (g : graph) : graph :=
    filter (fun e => negb (eqb (fst e) (fst x) && eqb (snd e) (snd x))) g.

  (* d dominates t from s: t is not reachable from s once d is taken out *)
  Definition dominates (g : graph) (s d t : V) : bool :=
    eqb s d || eqb t d || negb (reachable (remove_node d g) s t).

  (* a walk: [walk g s p t] = p lists the nodes visited after s, the last of them is t *)
  Inductive walk (g : graph) : V -> list V -> V -> Prop :=
  | walk_nil : forall s, walk g s [] s
  | walk_cons : forall s m p t, In (s, m) g -> walk g m p t -> walk g s (m :: p) t.

  (* deciding that a given list IS a walk *)
  Definition has_edge (g : graph) (a b : V) : bool :=
    existsb (fun e => eqb (fst e) a && eqb (snd e) b) g.

  Fixpoint walk_b (g : graph) (s : V) (p : list V) (t : V) : bool :=
    match p with
    | [] => eqb s t
    | m :: r => has_edge g s m && walk_b g m r t
    end.

  Definition acyclic (g : graph) : bool :=
    forallb (fun e => negb (reachable g (snd e) (fst e))) g.
End Graph.

Arguments succs {V}.
Arguments nodes {V}.
Arguments expand {V}.
Arguments reach_n {V}.
Arguments reach_set {V}.
Arguments reachable {V}.
Arguments remove_node {V}.
Arguments remove_edge {V}.
Arguments dominates {V}.
Arguments walk {V}.
Arguments acyclic {V}.
Arguments has_edge {V}.
Arguments walk_b {V}.

(* ------------------------------------------------------------------ from the generated edge list to graphs *)

Definition machine_edges (m : string) (es : list edge) : list edge :=
  filter (fun e => String.eqb (e_mach e) m) es.

(* the graph of one machine: nodes are [node]s, Nil / Unknown / Foreign are ordinary (sink) nodes *)
Definition graph_of (m : string) (es : list edge) : list (node * node) :=
  map (fun e => (St (e_src e), e_dst e)) (machine_edges m es).

Definition succ_set (m : string) (es : list edge) (s : string) : list node :=
  dedup node_eqb (succs node_eqb (graph_of m es) (St s)).

Definition has_unknown (es : list edge) : bool :=
  existsb (fun e => match e_dst e with Unknown => true | Foreign _ _ => true | _ => false end) es.

Definition has_closure (es : list edge) : bool := existsb e_closure es.

(* the states of machine m with an edge to Nil *)
Definition stops (m : string) (es : list edge) : list string :=
  dedup String.eqb (map e_src (filter (fun e => node_eqb (e_dst e) Nil) (machine_edges m es))).

(* the states of machine m that may assign req.Err (Run then stops without following Next) *)
Definition may_set_err (m : string) (es : list edge) : list string :=
  dedup String.eqb (map e_src (filter e_err (machine_edges m es))).

Definition state_names (m : string) (ms : list (string * string)) : list string :=
  map snd (filter (fun x => String.eqb (fst x) m) ms).

Definition entry_cores (l : list (string * string * node)) : list entry_core :=
  map (fun x => (snd (fst x), snd x)) l.

(* ------------------------------------------------------------------ the declaration (hand-written) *)

(* Today's state chains, re-derived from the code (DESIGN.md Appendix C plus the terminal edges and the
   Err flag, which the prototype did not record).  One line per RETURN SITE: the multiplicity of an edge is
   the number of return statements that take it, so a single re-routed return is visible even when both
   targets were already successors.  Order is irrelevant (the obligation is a Permutation). *)
Definition sites (m s : string) (t : node) (err : bool) (n : nat) : list core := repeat (m, s, t, err) n.

Definition declared_edges : list core :=
  (* sm.States: the engine.  PStart *)
     sites "States" "Start"                (St "PlanBypassChecks")     false 1
  (* PBypass: skip -> PEnd, otherwise (incl. no group / recovered) -> PPre *)
  ++ sites "States" "PlanBypassChecks"     (St "PlanPreChecks")        false 2
  ++ sites "States" "PlanBypassChecks"     (St "End")                  false 1
  (* PPre: nothing to run or all ok -> start the continuous thread; failure -> PDeferred *)
  ++ sites "States" "PlanPreChecks"        (St "PlanStartContChecks")  false 2
  ++ sites "States" "PlanPreChecks"        (St "PlanDeferredChecks")   false 1
  ++ sites "States" "PlanStartContChecks"  (St "ExecuteBlock")         false 1
  (* PBlocks i / BEnter: no block left -> PPost; finished block skipped; entrance delay cancelled -> PDeferred *)
  ++ sites "States" "ExecuteBlock"         (St "PlanPostChecks")       false 1
  ++ sites "States" "ExecuteBlock"         (St "ExecuteBlock")         false 1
  ++ sites "States" "ExecuteBlock"         (St "PlanDeferredChecks")   false 1
  ++ sites "States" "ExecuteBlock"         (St "BlockBypassChecks")    false 1
  (* BBypass *)
  ++ sites "States" "BlockBypassChecks"    (St "BlockPreChecks")       false 2
  ++ sites "States" "BlockBypassChecks"    (St "BlockEnd")             false 1
  (* BPre *)
  ++ sites "States" "BlockPreChecks"       (St "BlockStartContChecks") false 2
  ++ sites "States" "BlockPreChecks"       (St "BlockDeferredChecks")  false 1
  ++ sites "States" "BlockStartContChecks" (St "ExecuteSequences")     false 2
  (* BSeqs: continuous failure seen / tolerance exceeded (in the loop, after the loop) -> BDeferred *)
  ++ sites "States" "ExecuteSequences"     (St "BlockDeferredChecks")  false 3
  ++ sites "States" "ExecuteSequences"     (St "BlockPostChecks")      false 1
  (* BPost, BDeferred: Next is fixed before anything runs *)
  ++ sites "States" "BlockPostChecks"      (St "BlockDeferredChecks")  false 3
  ++ sites "States" "BlockDeferredChecks"  (St "BlockEnd")             false 3
  (* BEnd: drained continuous failure / block not Running / exit delay cancelled -> PDeferred; else next block *)
  ++ sites "States" "BlockEnd"             (St "PlanDeferredChecks")   false 3
  ++ sites "States" "BlockEnd"             (St "ExecuteBlock")         false 1
  (* PPost, PDeferred *)
  ++ sites "States" "PlanPostChecks"       (St "PlanDeferredChecks")   false 3
  ++ sites "States" "PlanDeferredChecks"   (St "End")                  false 3
  (* PEnd: the only state that stops the machine, and the only one that touches req.Err *)
  ++ sites "States" "End"                  Nil                         true  1
  (* crash recovery entry point *)
  ++ sites "States" "Recovery"             (St "Start")                false 1
  ++ sites "States" "Recovery"             (St "End")                  false 1
  ++ sites "States" "Recovery"             (St "PlanBypassChecks")     false 1
  (* sm.finalStates (Final.v): planChecks -> end carries Err, so Run stops there and [end] (which records
     Completed) is NOT executed on that path; blocks stops with Err on a failed / non-terminal block *)
  ++ sites "finalStates" "start"           (St "bypassChecks")         false 1
  ++ sites "finalStates" "bypassChecks"    (St "end")                  false 1
  ++ sites "finalStates" "bypassChecks"    (St "planChecks")           false 1
  ++ sites "finalStates" "planChecks"      (St "blocks")               false 2
  ++ sites "finalStates" "planChecks"      (St "end")                  true  1
  ++ sites "finalStates" "blocks"          Nil                         true  2
  ++ sites "finalStates" "blocks"          (St "end")                  false 1
  ++ sites "finalStates" "end"             Nil                         false 1
  (* actions.Runner (Action.v) *)
  ++ sites "Runner" "Start"                (St "GetPlugin")            false 2
  ++ sites "Runner" "Start"                Nil                         false 1
  ++ sites "Runner" "Start"                Nil                         true  1
  ++ sites "Runner" "GetPlugin"            (St "End")                  false 1
  ++ sites "Runner" "GetPlugin"            (St "Execute")              false 1
  ++ sites "Runner" "Execute"              (St "End")                  false 1
  ++ sites "Runner" "End"                  Nil                         true  1
  (* execute.recover (Select.v) *)
  ++ sites "recover" "start"               Nil                         true  2
  ++ sites "recover" "start"               (St "fetchPlans")           false 1
  ++ sites "recover" "fetchPlans"          Nil                         true  1
  ++ sites "recover" "fetchPlans"          (St "filterPlans")          false 1
  ++ sites "recover" "filterPlans"         (St "agedOut")              false 1
  ++ sites "recover" "agedOut"             Nil                         true  2
  ++ sites "recover" "agedOut"             (St "done")                 false 1
  ++ sites "recover" "done"                Nil                         false 1.

Definition declared_methods : list (string * string) :=
  map (pair "States")
      ["Start"; "PlanBypassChecks"; "PlanPreChecks"; "PlanStartContChecks"; "ExecuteBlock"; "BlockBypassChecks";
       "BlockPreChecks"; "BlockStartContChecks"; "ExecuteSequences"; "BlockPostChecks"; "BlockDeferredChecks";
       "BlockEnd"; "PlanPostChecks"; "PlanDeferredChecks"; "End"; "Recovery"]
  ++ map (pair "finalStates") ["start"; "bypassChecks"; "planChecks"; "blocks"; "end"]
  ++ map (pair "Runner") ["Start"; "GetPlugin"; "Execute"; "End"]
  ++ map (pair "recover") ["start"; "fetchPlans"; "filterPlans"; "agedOut"; "done"].

(* where machines are entered: execute.Plans.runPlan (Start, or Recovery for a Running plan), States.End
   (finalStates), States.runAction (Runner), Plans.recover (recover) *)
Definition declared_entries : list entry_core :=
  [ ("States", St "Start"); ("States", St "Recovery"); ("finalStates", St "start");
    ("Runner", St "Start"); ("recover", St "start") ].

(* ------------------------------------------------------------------ the engine automaton's phases *)

(* The phases are those of coq/engine (PlanSM.pphase, Block.bphase), in ONE type because the code has one
   machine: PBlocks stands for "PlanSM.PBlocks with the current block in Block.BEnter, or no block left"
   (the Go state ExecuteBlock).  Moves the code has and the dev=none automaton does not need:
   (PBlocks, PDeferred) - ExecuteBlock -> PlanDeferredChecks when the entrance delay is cancelled, which
   requires a cancelled context (Stop is not exposed, DESIGN section 11); the automaton's
   "failed block => PDeferred" is (BEnd, PDeferred) here.  PRecover is the entry of Recover/Resume.v. *)
Inductive phase :=
| PStart | PBypass | PPre | PBlocks | PPost | PDeferred | PEnd      (* PlanSM.v *)
| BBypass | BPre | BSeqs | BPost | BDeferred | BEnd                 (* Block.v; BEnter = PBlocks here *)
| PRecover.                                                          (* Resume.v entry *)

Definition phase_eqb (a b : phase) : bool :=
  match a, b with
  | PStart, PStart | PBypass, PBypass | PPre, PPre | PBlocks, PBlocks | PPost, PPost
  | PDeferred, PDeferred | PEnd, PEnd | BBypass, BBypass | BPre, BPre | BSeqs, BSeqs
  | BPost, BPost | BDeferred, BDeferred | BEnd, BEnd | PRecover, PRecover => true
  | _, _ => false
  end.

(* PlanStartContChecks / BlockStartContChecks only start the continuous thread: they belong to the end of
   PPre / BPre.  ExecuteBlock is "between blocks": PBlocks (BEnter of the next block). *)
Definition phase_of (s : string) : option phase :=
  if String.eqb s "Start" then Some PStart
  else if String.eqb s "PlanBypassChecks" then Some PBypass
  else if String.eqb s "PlanPreChecks" then Some PPre
  else if String.eqb s "PlanStartContChecks" then Some PPre
  else if String.eqb s "ExecuteBlock" then Some PBlocks
  else if String.eqb s "BlockBypassChecks" then Some BBypass
  else if String.eqb s "BlockPreChecks" then Some BPre
  else if String.eqb s "BlockStartContChecks" then Some BPre
  else if String.eqb s "ExecuteSequences" then Some BSeqs
  else if String.eqb s "BlockPostChecks" then Some BPost
  else if String.eqb s "BlockDeferredChecks" then Some BDeferred
  else if String.eqb s "BlockEnd" then Some BEnd
  else if String.eqb s "PlanPostChecks" then Some PPost
  else if String.eqb s "PlanDeferredChecks" then Some PDeferred
  else if String.eqb s "End" then Some PEnd
  else if String.eqb s "Recovery" then Some PRecover
  else None.

Definition pedge_eqb (a b : option phase * option phase) : bool :=
  match a, b with
  | (Some a1, Some a2), (Some b1, Some b2) => phase_eqb a1 b1 && phase_eqb a2 b2
  | (Some a1, None), (Some b1, None) => phase_eqb a1 b1
  | (None, Some a2), (None, Some b2) => phase_eqb a2 b2
  | (None, None), (None, None) => true
  | _, _ => false
  end.

(* image of the States graph under phase_of; [None] as a target stands for Nil / Unknown / a state without a
   phase.  Self-loops produced by collapsing PlanStartContChecks / BlockStartContChecks are dropped, the
   genuine self-loop ExecuteBlock -> ExecuteBlock (skip a finished block) is dropped with them. *)
Definition node_phase (n : node) : option phase :=
  match n with St s => phase_of s | _ => None end.

Definition phase_graph (es : list edge) : list (option phase * option phase) :=
  dedup pedge_eqb
    (filter (fun x => negb (pedge_eqb (fst x, fst x) x))
       (map (fun e => (phase_of (e_src e), node_phase (e_dst e))) (machine_edges "States" es))).

(* the phase moves the engine automaton has (epsilon-moves of PlanSM.v / Block.v, entry of Resume.v) *)
Definition declared_phase_edges : list (option phase * option phase) :=
  map (fun x => (Some (fst x), Some (snd x)))
    [ (PStart, PBypass);
      (PBypass, PPre); (PBypass, PEnd);
      (PPre, PBlocks); (PPre, PDeferred);
      (PBlocks, PPost); (PBlocks, PDeferred); (PBlocks, BBypass);
      (BBypass, BPre); (BBypass, BEnd);
      (BPre, BSeqs); (BPre, BDeferred);
      (BSeqs, BDeferred); (BSeqs, BPost);
      (BPost, BDeferred);
      (BDeferred, BEnd);
      (BEnd, PDeferred); (BEnd, PBlocks);
      (PPost, PDeferred);
      (PDeferred, PEnd);
      (PRecover, PStart); (PRecover, PEnd); (PRecover, PBypass) ]
  ++ [ (Some PEnd, None) ].

(* ------------------------------------------------------------------ readable differences (for the driver) *)

Definition show_node (n : node) : string :=
  match n with
  | St s => s
  | Nil => "nil"
  | Unknown => "UNKNOWN"
  | Foreign m s => "FOREIGN:" ++ m ++ "." ++ s
  end.

Definition show_core (c : core) : string :=
  match c with
  | (m, s, t, r) => m ++ " " ++ s ++ " " ++ show_node t ++ (if r then " err" else " -")
  end.

(* edges the source has and the declaration does not / the declaration has and the source does not
   (multiset differences: one line per surplus return site) *)
Definition edges_added (es : list edge) : list string :=
  map show_core (msub core_eqb (map edge_core es) declared_edges).
Definition edges_removed (es : list edge) : list string :=
  map show_core (msub core_eqb declared_edges (map edge_core es)).

Definition show_pair (x : string * string) : string := fst x ++ " " ++ snd x.
Definition show_entry (x : entry_core) : string := fst x ++ " " ++ show_node (snd x).

Definition methods_added (ms : list (string * string)) : list string :=
  map show_pair (msub pair_eqb ms declared_methods).
Definition methods_removed (ms : list (string * string)) : list string :=
  map show_pair (msub pair_eqb declared_methods ms).
Definition entries_added (l : list (string * string * node)) : list string :=
  map show_entry (filter (fun x => negb (mem entry_eqb x declared_entries)) (dedup entry_eqb (entry_cores l))).
Definition entries_removed (l : list (string * string * node)) : list string :=
  map show_entry (filter (fun x => negb (mem entry_eqb x (entry_cores l))) declared_entries).
