(* Proofs about the generic finite-graph functions of SmGraph.v, done ONCE for all graphs:
     reach_complete  : the fuel "number of nodes" is adequate (every walk is found);
     reach_sound     : everything found is a walk;
     dominates_sound : dominates g s d t = true -> every walk from s to t in g passes d;
     acyclic_sound, perm_b_sound, same_set_spec.
   The facts about the extracted graph (props/SmGraphProps.v) are then "boolean computed by vm_compute" +
   one of these lemmas, which is a complete proof for a finite graph. *)
From Coq Require Import List String Bool Arith Lia Permutation.
From Coercion.SmGraph Require Import SmGraph.
Import ListNotations.
Local Open Scope list_scope.

(* ------------------------------------------------------------------ boolean equalities *)

Lemma node_eqb_eq : forall a b, node_eqb a b = true <-> a = b.
Proof.
  intros a b; destruct a as [x| | |m x], b as [y| | |n y]; simpl; split; intro H;
    try discriminate; try reflexivity.
  - apply String.eqb_eq in H. now subst.
  - inversion H. apply String.eqb_refl.
  - apply andb_true_iff in H. destruct H as [H1 H2].
    apply String.eqb_eq in H1. apply String.eqb_eq in H2. now subst.
  - inversion H. now rewrite !String.eqb_refl.
Qed.

Lemma core_eqb_eq : forall a b, core_eqb a b = true <-> a = b.
Proof.
  intros [[[m1 s1] d1] r1] [[[m2 s2] d2] r2]; simpl; split; intro H.
  - repeat (apply andb_true_iff in H; destruct H as [H ?]).
    apply String.eqb_eq in H. apply String.eqb_eq in H2. apply node_eqb_eq in H1.
    apply Bool.eqb_prop in H0. now subst.
  - inversion H; subst. rewrite !String.eqb_refl.
    assert (Hn : node_eqb d2 d2 = true) by now apply node_eqb_eq.
    rewrite Hn. now destruct r2.
Qed.

Lemma pair_eqb_eq : forall a b, pair_eqb a b = true <-> a = b.
Proof.
  intros [a1 a2] [b1 b2]; unfold pair_eqb; simpl; split; intro H.
  - apply andb_true_iff in H. destruct H as [H1 H2].
    apply String.eqb_eq in H1. apply String.eqb_eq in H2. now subst.
  - inversion H. now rewrite !String.eqb_refl.
Qed.

Lemma entry_eqb_eq : forall a b, entry_eqb a b = true <-> a = b.
Proof.
  intros [a1 a2] [b1 b2]; unfold entry_eqb; simpl; split; intro H.
  - apply andb_true_iff in H. destruct H as [H1 H2].
    apply String.eqb_eq in H1. apply node_eqb_eq in H2. now subst.
  - inversion H. rewrite String.eqb_refl. now apply node_eqb_eq.
Qed.

Lemma phase_eqb_eq : forall a b, phase_eqb a b = true <-> a = b.
Proof. intros a b; destruct a, b; simpl; split; intro H; try discriminate; reflexivity. Qed.

Lemma pedge_eqb_eq : forall a b, pedge_eqb a b = true <-> a = b.
Proof.
  intros [[a1|] [a2|]] [[b1|] [b2|]]; simpl; split; intro H; try discriminate; try reflexivity.
  - apply andb_true_iff in H. destruct H as [H1 H2].
    apply phase_eqb_eq in H1. apply phase_eqb_eq in H2. now subst.
  - inversion H. apply andb_true_iff. split; now apply phase_eqb_eq.
  - apply phase_eqb_eq in H. now subst.
  - inversion H. now apply phase_eqb_eq.
  - apply phase_eqb_eq in H. now subst.
  - inversion H. now apply phase_eqb_eq.
Qed.

(* ------------------------------------------------------------------ lists *)

Section ListFacts.
  Variable A : Type.
  Variable eqb : A -> A -> bool.
  Hypothesis eqb_eq : forall a b, eqb a b = true <-> a = b.

  Lemma mem_In : forall x l, mem eqb x l = true <-> In x l.
  Proof.
    intros x l; induction l as [|y r IH]; simpl.
    - split; [discriminate | tauto].
    - rewrite orb_true_iff, IH, eqb_eq. split; intros [H|H]; auto.
  Qed.

  Lemma mem_false : forall x l, mem eqb x l = false <-> ~ In x l.
  Proof.
    intros x l. rewrite <- mem_In. destruct (mem eqb x l); split; intro H.
    - discriminate.
    - exfalso. now apply H.
    - intro; discriminate.
    - reflexivity.
  Qed.

  Lemma dedup_In : forall x l, In x (dedup eqb l) <-> In x l.
  Proof.
    intros x l; induction l as [|y r IH]; simpl; [tauto|].
    destruct (mem eqb y r) eqn:Hm.
    - rewrite IH. split; [auto|]. intros [H|H]; [subst; now apply mem_In | exact H].
    - simpl. rewrite IH. tauto.
  Qed.

  Lemma union_In : forall m l x, In x (union eqb l m) <-> In x l \/ In x m.
  Proof.
    induction m as [|y r IH]; intros l x; simpl; [tauto|].
    destruct (mem eqb y l) eqn:Hm.
    - rewrite IH. apply mem_In in Hm. split; [tauto|]. intros [H|[H|H]]; subst; auto.
    - rewrite IH, in_app_iff. simpl. tauto.
  Qed.

  Lemma subset_spec : forall l m, subset eqb l m = true <-> incl l m.
  Proof.
    intros l m. unfold subset. rewrite forallb_forall. unfold incl.
    split; intros H x Hx; [apply mem_In | apply mem_In]; auto.
  Qed.

  Lemma same_set_spec : forall l m, same_set eqb l m = true -> forall x, In x l <-> In x m.
  Proof.
    intros l m H x. unfold same_set in H. apply andb_true_iff in H. destruct H as [H1 H2].
    apply subset_spec in H1. apply subset_spec in H2. split; [apply H1 | apply H2].
  Qed.

  Lemma remove_one_perm : forall x l l', remove_one eqb x l = Some l' -> Permutation l (x :: l').
  Proof.
    intros x l; induction l as [|y r IH]; intros l' H; simpl in H; [discriminate|].
    destruct (eqb x y) eqn:He.
    - apply eqb_eq in He. inversion H; subst. apply Permutation_refl.
    - destruct (remove_one eqb x r) as [r'|] eqn:Hr; [|discriminate].
      inversion H; subst. specialize (IH r' eq_refl).
      eapply Permutation_trans; [apply perm_skip; exact IH | apply perm_swap].
  Qed.

  Lemma NoDup_app_r : forall (l l' : list A), NoDup (l ++ l') -> NoDup l'.
  Proof.
    induction l as [|x r IH]; intros l' H; simpl in H; [exact H|].
    inversion H; subst. now apply IH.
  Qed.

  Lemma perm_b_sound : forall l m, perm_b eqb l m = true -> Permutation l m.
  Proof.
    induction l as [|x r IH]; intros m H; simpl in H.
    - destruct m; [apply perm_nil | discriminate].
    - destruct (remove_one eqb x m) as [m'|] eqn:Hr; [|discriminate].
      apply remove_one_perm in Hr. apply IH in H.
      eapply Permutation_trans; [apply perm_skip; exact H | apply Permutation_sym; exact Hr].
  Qed.
End ListFacts.

(* ------------------------------------------------------------------ graphs *)

Section GraphFacts.
  Variable V : Type.
  Variable eqb : V -> V -> bool.
  Hypothesis eqb_eq : forall a b, eqb a b = true <-> a = b.

  Notation graph := (list (V * V)).

  Lemma eqb_refl' : forall a, eqb a a = true.
  Proof. intro a. now apply eqb_eq. Qed.

  Lemma eqb_false : forall a b, eqb a b = false <-> a <> b.
  Proof.
    intros a b. rewrite <- eqb_eq. destruct (eqb a b); split; intro H.
    - discriminate.
    - exfalso. now apply H.
    - intro; discriminate.
    - reflexivity.
  Qed.

  Lemma succs_In : forall (g : graph) a b, In b (succs eqb g a) <-> In (a, b) g.
  Proof.
    intros g a b. unfold succs. rewrite in_map_iff. split.
    - intros [[x y] [Hy Hf]]. simpl in Hy. subst y. apply filter_In in Hf. destruct Hf as [Hin He].
      simpl in He. apply eqb_eq in He. now subst.
    - intro H. exists (a, b). split; [reflexivity|]. apply filter_In. split; [exact H|]. simpl. apply eqb_refl'.
  Qed.

  Lemma expand_In : forall (g : graph) F x,
      In x (expand eqb g F) <-> In x F \/ exists a, In a F /\ In (a, x) g.
  Proof.
    intros g F x. unfold expand. rewrite (union_In _ eqb eqb_eq), in_flat_map.
    split; intros [H|[a [Ha Hx]]]; auto; right; exists a; (split; [exact Ha|]); now apply succs_In.
  Qed.

  Lemma reach_n_mono : forall n (g : graph) F x, In x F -> In x (reach_n eqb n g F).
  Proof.
    induction n as [|n IH]; intros g F x H; simpl; [exact H|].
    apply IH. apply expand_In. now left.
  Qed.

  (* every walk of length <= n starting in the frontier ends in reach_n *)
  Lemma reach_n_walk : forall n (g : graph) F s p t,
      walk g s p t -> List.length p <= n -> In s F -> In t (reach_n eqb n g F).
  Proof.
    induction n as [|n IH]; intros g F s p t Hw Hl Hs.
    - destruct p; [|simpl in Hl; lia]. inversion Hw; subst. exact Hs.
    - inversion Hw; subst.
      + now apply reach_n_mono.
      + simpl. simpl in Hl. apply (IH g _ m p0 t); [assumption | lia |].
        apply expand_In. right. exists s. now split.
  Qed.

  Lemma reach_n_sound : forall n (g : graph) F t,
      In t (reach_n eqb n g F) -> exists s p, In s F /\ walk g s p t.
  Proof.
    induction n as [|n IH]; intros g F t H; simpl in H.
    - exists t, []. split; [exact H | constructor].
    - apply IH in H. destruct H as [s [p [Hs Hw]]].
      apply expand_In in Hs. destruct Hs as [Hs|[a [Ha He]]].
      + now exists s, p.
      + exists a, (s :: p). split; [exact Ha | now constructor].
  Qed.

  (* a walk can be cut at any node it visits *)
  Lemma walk_suffix : forall (g : graph) a p t x,
      walk g a p t -> In x (a :: p) -> exists p1 p2, a :: p = p1 ++ x :: p2 /\ walk g x p2 t.
  Proof.
    intros g a p t x Hw. revert x. induction Hw as [s|s m p t He Hw IH]; intros x Hx.
    - destruct Hx as [Hx|[]]. subst. exists [], []. split; [reflexivity | constructor].
    - destruct Hx as [Hx|Hx].
      + subst. exists [], (m :: p). split; [reflexivity | now constructor].
      + destruct (IH x Hx) as [p1 [p2 [E W]]]. exists (s :: p1), p2. split; [|exact W].
        simpl. now rewrite E.
  Qed.

  (* ... so every walk contains a walk between the same ends that repeats no node *)
  Lemma walk_simple : forall (g : graph) s p t,
      walk g s p t -> exists p', walk g s p' t /\ NoDup (s :: p').
  Proof.
    intros g s p t Hw. induction Hw as [s|s m p t He Hw IH].
    - exists []. split; [constructor|]. constructor; [intros [] | constructor].
    - destruct IH as [p' [W ND]].
      destruct (mem eqb s (m :: p')) eqn:Hm.
      + apply (mem_In _ eqb eqb_eq) in Hm.
        destruct (walk_suffix g m p' t s W Hm) as [p1 [p2 [E W2]]].
        exists p2. split; [exact W2|]. rewrite E in ND. now apply NoDup_app_r in ND.
      + apply (mem_false _ eqb eqb_eq) in Hm.
        exists (m :: p'). split; [now constructor | now constructor].
  Qed.

  Lemma nodes_In : forall (g : graph) a b, In (a, b) g -> In a (nodes eqb g) /\ In b (nodes eqb g).
  Proof.
    intros g a b H. unfold nodes. rewrite !(dedup_In _ eqb eqb_eq), !in_app_iff. split.
    - left. apply in_map_iff. now exists (a, b).
    - right. apply in_map_iff. now exists (a, b).
  Qed.

  Lemma walk_nodes : forall (g : graph) s p t,
      walk g s p t -> p <> [] -> incl (s :: p) (nodes eqb g).
  Proof.
    intros g s p t Hw. induction Hw as [s|s m p t He Hw IH]; intro Hne; [congruence|].
    intros x [Hx|Hx].
    - subst. now apply (nodes_In g x m).
    - destruct p as [|q p].
      + destruct Hx as [Hx|[]]. subst. now apply (nodes_In g s x).
      + apply IH; [discriminate | exact Hx].
  Qed.

  (* ADEQUACY OF THE FUEL: whatever a walk reaches, [reachable] (fuel = number of nodes) finds *)
  Theorem reach_complete : forall (g : graph) s p t, walk g s p t -> reachable eqb g s t = true.
  Proof.
    intros g s p t Hw. unfold reachable, reach_set. apply (mem_In _ eqb eqb_eq).
    destruct (walk_simple g s p t Hw) as [p' [W ND]].
    apply (reach_n_walk _ g [s] s p' t W); [|now left].
    destruct p' as [|q p']; [simpl; lia|].
    assert (Hincl : incl (s :: q :: p') (nodes eqb g)) by (apply (walk_nodes g s (q :: p') t W); discriminate).
    pose proof (NoDup_incl_length ND Hincl) as Hlen. simpl in Hlen. simpl. lia.
  Qed.

  Theorem reach_sound : forall (g : graph) s t, reachable eqb g s t = true -> exists p, walk g s p t.
  Proof.
    intros g s t H. unfold reachable, reach_set in H. apply (mem_In _ eqb eqb_eq) in H.
    apply reach_n_sound in H. destruct H as [s' [p [[Hs|[]] Hw]]]. subst. now exists p.
  Qed.

  Lemma walk_end_In : forall (g : graph) s p t, walk g s p t -> In t (s :: p).
  Proof.
    intros g s p t Hw. induction Hw as [s|s m p t He Hw IH]; [now left | now right].
  Qed.

  Lemma walk_remove_node : forall (g : graph) d s p t,
      walk g s p t -> ~ In d (s :: p) -> walk (remove_node eqb d g) s p t.
  Proof.
    intros g d s p t Hw. induction Hw as [s|s m p t He Hw IH]; intro Hn; [constructor|].
    constructor.
    - unfold remove_node. apply filter_In. split; [exact He|]. simpl.
      apply andb_true_iff. split; apply negb_true_iff; apply eqb_false; intro E; subst; apply Hn; simpl; auto.
    - apply IH. intro H. apply Hn. now right.
  Qed.

  (* DOMINANCE, for all graphs: if t is unreachable from s without d, every walk from s to t passes d *)
  Theorem dominates_sound : forall (g : graph) s d t,
      dominates eqb g s d t = true -> forall p, walk g s p t -> In d (s :: p).
  Proof.
    intros g s d t H p Hw. unfold dominates in H.
    apply orb_true_iff in H. destruct H as [H|H].
    - apply orb_true_iff in H. destruct H as [H|H]; apply eqb_eq in H; subst.
      + now left.
      + now apply (walk_end_In g s p d).
    - destruct (mem eqb d (s :: p)) eqn:Hm.
      + now apply (mem_In _ eqb eqb_eq) in Hm.
      + apply (mem_false _ eqb eqb_eq) in Hm. exfalso.
        apply (walk_remove_node g d) in Hw; [|exact Hm].
        apply reach_complete in Hw. rewrite Hw in H. discriminate.
  Qed.

  Lemma walk_remove_edge : forall (g : graph) x s p t,
      walk (remove_edge eqb x g) s p t -> walk g s p t.
  Proof.
    intros g x s p t Hw. induction Hw as [s|s m p t He Hw IH]; [constructor|].
    constructor; [|exact IH]. unfold remove_edge in He. now apply filter_In in He.
  Qed.

  (* a walk that never takes the edge x is a walk of the graph without x *)
  Fixpoint uses_edge (x : V * V) (s : V) (p : list V) : bool :=
    match p with
    | [] => false
    | m :: r => (eqb s (fst x) && eqb m (snd x)) || uses_edge x m r
    end.

  Lemma walk_avoiding_edge : forall (g : graph) x s p t,
      walk g s p t -> uses_edge x s p = false -> walk (remove_edge eqb x g) s p t.
  Proof.
    intros g x s p t Hw. induction Hw as [s|s m p t He Hw IH]; intro Hu; [constructor|].
    simpl in Hu. apply orb_false_iff in Hu. destruct Hu as [Hu1 Hu2].
    constructor; [|now apply IH].
    unfold remove_edge. apply filter_In. split; [exact He|]. simpl. now rewrite Hu1.
  Qed.

  Lemma walk_b_sound : forall (g : graph) p s t, walk_b eqb g s p t = true -> walk g s p t.
  Proof.
    intros g p; induction p as [|m r IH]; intros s t H; simpl in H.
    - apply eqb_eq in H. subst. constructor.
    - apply andb_true_iff in H. destruct H as [He Hw]. constructor; [|now apply IH].
      unfold has_edge in He. apply existsb_exists in He. destruct He as [[a b] [Hin Hab]]. simpl in Hab.
      apply andb_true_iff in Hab. destruct Hab as [Ha Hb]. apply eqb_eq in Ha. apply eqb_eq in Hb. now subst.
  Qed.

  (* no cycles: a machine whose graph is acyclic runs each state at most once, so it terminates *)
  Theorem acyclic_sound : forall (g : graph),
      acyclic eqb g = true -> forall s m p, ~ walk g s (m :: p) s.
  Proof.
    intros g H s m p Hw. inversion Hw; subst.
    unfold acyclic in H. rewrite forallb_forall in H.
    match goal with He : In (s, m) g |- _ => specialize (H _ He) end. simpl in H.
    match goal with Hw' : walk g m p s |- _ => apply reach_complete in Hw' ; rewrite Hw' in H end.
    discriminate.
  Qed.
End GraphFacts.

(* ------------------------------------------------------------------ instances for [node] *)

Definition nwalk := @walk node.

Lemma node_dominates_sound : forall (g : list (node * node)) s d t,
    dominates node_eqb g s d t = true -> forall p, walk g s p t -> In d (s :: p).
Proof. exact (dominates_sound node node_eqb node_eqb_eq). Qed.

Lemma node_reach_sound : forall (g : list (node * node)) s t,
    reachable node_eqb g s t = true -> exists p, walk g s p t.
Proof. exact (reach_sound node node_eqb node_eqb_eq). Qed.

Lemma node_reach_complete : forall (g : list (node * node)) s p t,
    walk g s p t -> reachable node_eqb g s t = true.
Proof. exact (reach_complete node node_eqb node_eqb_eq). Qed.

Lemma node_walk_b_sound : forall (g : list (node * node)) p s t,
    walk_b node_eqb g s p t = true -> walk g s p t.
Proof. exact (walk_b_sound node node_eqb node_eqb_eq). Qed.

Lemma node_acyclic_sound : forall (g : list (node * node)),
    acyclic node_eqb g = true -> forall s m p, ~ walk g s (m :: p) s.
Proof. exact (acyclic_sound node node_eqb node_eqb_eq). Qed.

(* successor sets: [succ_set] lists exactly the successors *)
Lemma succ_set_spec : forall m es s t,
    In t (succ_set m es s) <-> In (St s, t) (graph_of m es).
Proof.
  intros m es s t. unfold succ_set.
  rewrite (dedup_In _ node_eqb node_eqb_eq). apply (succs_In node node_eqb node_eqb_eq).
Qed.

Lemma succ_set_is : forall m es s l,
    same_set node_eqb (succ_set m es s) l = true ->
    forall t, In (St s, t) (graph_of m es) <-> In t l.
Proof.
  intros m es s l H t. rewrite <- succ_set_spec. now apply (same_set_spec _ node_eqb node_eqb_eq).
Qed.

Lemma has_unknown_false : forall es,
    has_unknown es = false -> forall e, In e es -> e_dst e <> Unknown /\ forall m s, e_dst e <> Foreign m s.
Proof.
  intros es H e He. unfold has_unknown in H.
  assert (Hx : (match e_dst e with Unknown => true | Foreign _ _ => true | _ => false end) = false).
  { destruct (match e_dst e with Unknown => true | Foreign _ _ => true | _ => false end) eqn:Hd; [|reflexivity].
    assert (existsb (fun e => match e_dst e with Unknown => true | Foreign _ _ => true | _ => false end) es = true)
      by (apply existsb_exists; now exists e).
    congruence. }
  destruct (e_dst e); try discriminate; split; intros; discriminate.
Qed.

Lemma has_closure_false : forall es, has_closure es = false -> forall e, In e es -> e_closure e = false.
Proof.
  intros es H e He. unfold has_closure in H.
  destruct (e_closure e) eqn:Hc; [|reflexivity].
  assert (existsb e_closure es = true) by (apply existsb_exists; now exists e). congruence.
Qed.

(* [stops m es] lists exactly the states of m with an edge to Nil; [may_set_err] those with an Err edge *)
Lemma stops_spec : forall m es s,
    In s (stops m es) <-> exists e, In e es /\ e_mach e = m /\ e_src e = s /\ e_dst e = Nil.
Proof.
  intros m es s. unfold stops, machine_edges.
  rewrite (dedup_In _ String.eqb String.eqb_eq), in_map_iff. split.
  - intros [e [Hs Hf]]. apply filter_In in Hf. destruct Hf as [Hf Hn]. apply filter_In in Hf.
    destruct Hf as [Hin Hm]. apply String.eqb_eq in Hm. apply node_eqb_eq in Hn. now exists e.
  - intros [e [Hin [Hm [Hs Hn]]]]. exists e. split; [exact Hs|]. apply filter_In. split.
    + apply filter_In. split; [exact Hin | now apply String.eqb_eq].
    + now apply node_eqb_eq.
Qed.

Lemma may_set_err_spec : forall m es s,
    In s (may_set_err m es) <-> exists e, In e es /\ e_mach e = m /\ e_src e = s /\ e_err e = true.
Proof.
  intros m es s. unfold may_set_err, machine_edges.
  rewrite (dedup_In _ String.eqb String.eqb_eq), in_map_iff. split.
  - intros [e [Hs Hf]]. apply filter_In in Hf. destruct Hf as [Hf Hn]. apply filter_In in Hf.
    destruct Hf as [Hin Hm]. apply String.eqb_eq in Hm. now exists e.
  - intros [e [Hin [Hm [Hs Hn]]]]. exists e. split; [exact Hs|]. apply filter_In. split.
    + apply filter_In. split; [exact Hin | now apply String.eqb_eq].
    + exact Hn.
Qed.
