(* C15 correspondence checker and property monitors.

   A case is one vault history: mutations (with the error class the real vault returned and, for
   cosmosdb, the raw search item found afterwards), interleaved with observations of Exists, Search
   and List on the real vault, and (cosmosdb) the parsed text of buildSearchQuery.
   [check_case] replays the history on the model (Rows.v / Query.v) and on the specification store
   (Spec.v) and judges every observation twice:
     kind 2: the property monitor, which is the statement of C15 relative to the specification store,
             is false on what the implementation did  (a violation);
     kind 1: the monitor is true but the model's own answer differs from the observation
             (a broken correspondence).
   Monitors are proved sound and complete for the declarative specification in QueryProofs.v. *)
From Coercion.Base Require Import Plan.
From Coercion.Query Require Import Rows Query Spec.

(* compact notation for long id lists in cases: start, start+1, ..., start+n-1 *)
Definition nrange (start : N) (n : nat) : list N := map (fun k => (start + N.of_nat k)%N) (seq 0 n).

Definition result_eqb (a b : result) : bool :=
  N.eqb (x_id a) (x_id b) && N.eqb (x_group a) (x_group b) && N.eqb (x_name a) (x_name b)
  && N.eqb (x_descr a) (x_descr b) && Z.eqb (x_submit a) (x_submit b) && N.eqb (x_status a) (x_status b)
  && Z.eqb (x_start a) (x_start b) && Z.eqb (x_end a) (x_end b).

Definition mem_result (x : result) (l : list result) : bool := existsb (result_eqb x) l.

Fixpoint nodupb (l : list N) : bool :=
  match l with
  | [] => true
  | x :: r => negb (existsb (N.eqb x) r) && nodupb r
  end.

(* newest first *)
Fixpoint sorted_descb (l : list result) : bool :=
  match l with
  | [] => true
  | x :: r => forallb (fun y => Z.leb (x_submit y) (x_submit x)) r && sorted_descb r
  end.

(* ---- boolean meaning of a filter *)
Definition matchesb (f : filters) (kv : N * pinfo) : bool :=
  (negb (nonempty (f_ids f)) || existsb (N.eqb (fst kv)) (f_ids f)) &&
  (negb (nonempty (f_groups f)) || existsb (N.eqb (pi_group (snd kv))) (f_groups f)) &&
  (negb (nonempty (f_statuses f)) || existsb (N.eqb (pi_status (snd kv))) (f_statuses f)).

(* ---- monitors over item lists. [expected]: the plans that must be returned *)
Definition same_set (expected xs : list result) : bool :=
  nodupb (map x_id xs) && forallb (fun x => mem_result x expected) xs
  && Nat.eqb (length xs) (length expected).

Definition search_items_ok (ordered : bool) (expected xs : list result) : bool :=
  same_set expected xs && (negb ordered || sorted_descb xs).

(* [all]: every stored plan. xs must be the first [limit] of some newest-first arrangement of [all] *)
Definition list_items_ok (ordered : bool) (limit : Z) (all xs : list result) : bool :=
  nodupb (map x_id xs) && forallb (fun x => mem_result x all) xs
  && Nat.eqb (length xs) (if Z.leb limit 0 then length all else Nat.min (Z.to_nat limit) (length all))
  && (negb ordered ||
      (sorted_descb xs &&
       forallb (fun y => mem_result y xs || forallb (fun x => Z.leb (x_submit y) (x_submit x)) xs) all)).

(* [expected]: the complete answer. Under a cancelled context only a newest-first prefix of it is demanded:
   every delivered entry belongs to the answer, none twice, newest first, and nothing left out is newer than
   something delivered *)
Definition prefix_items_ok (ordered : bool) (expected xs : list result) : bool :=
  nodupb (map x_id xs) && forallb (fun x => mem_result x expected) xs
  && (negb ordered ||
      (sorted_descb xs &&
       forallb (fun y => mem_result y xs || forallb (fun x => Z.leb (x_submit y) (x_submit x)) xs) expected)).

(* ---- observations of a stream-returning call *)
Record sobs := {
  o_class : nat;               (* 0: a channel was returned; 1: the call returned an error; 2: it panicked *)
  o_items : list result;       (* Stream.Result values, in order of arrival *)
  o_err : bool;                (* a Stream.Err value arrived *)
  o_closed : bool              (* the channel was closed within the deadline *)
}.

Definition stream_clean (o : sobs) : bool := Nat.eqb (o_class o) 0 && negb (o_err o) && o_closed o.

Definition expected_search (f : filters) (sp : store) : list result :=
  map result_of (filter (matchesb f) sp).

(* Search monitor (the statement of C15 for one Search call) *)
Definition search_ok (ordered : bool) (f : filters) (sp : store) (o : sobs) : bool :=
  if validate f
  then stream_clean o && search_items_ok ordered (expected_search f sp) (o_items o)
  else Nat.eqb (o_class o) 1.

Definition list_ok (ordered : bool) (limit : Z) (sp : store) (o : sobs) : bool :=
  stream_clean o && list_items_ok ordered limit (map result_of sp) (o_items o).

(* ---- the model's answers, as observations *)
Fixpoint items_of (tr : list sev) : list result :=
  match tr with
  | SItem x :: r => x :: items_of r
  | _ => []
  end.
Fixpoint has_err (tr : list sev) : bool :=
  match tr with [] => false | SErr :: _ => true | _ :: r => has_err r end.
Definition ends_closed (tr : list sev) : bool :=
  match rev tr with SClose :: _ => true | _ => false end.

(* ---- equality of queries (cosmosdb text tie) *)
Definition col_eqb (a b : col) : bool :=
  match a, b with CId, CId | CGroup, CGroup | CStatus, CStatus | CSwarm, CSwarm => true | _, _ => false end.
Fixpoint list_eqb {A} (eqb : A -> A -> bool) (a b : list A) : bool :=
  match a, b with
  | [], [] => true
  | x :: a', y :: b' => eqb x y && list_eqb eqb a' b'
  | _, _ => false
  end.
Fixpoint cond_eqb (a b : cond) : bool :=
  match a, b with
  | CTrue, CTrue => true
  | CEq c p, CEq c' p' => col_eqb c c' && pname_eqb p p'
  | CIn c ps, CIn c' ps' => col_eqb c c' && list_eqb pname_eqb ps ps'
  | CContains p c, CContains p' c' => col_eqb c c' && pname_eqb p p'
  | CAnd x y, CAnd x' y' => cond_eqb x x' && cond_eqb y y'
  | COr x y, COr x' y' => cond_eqb x x' && cond_eqb y y'
  | _, _ => false
  end.
Definition order_eqb (a b : order) : bool :=
  match a, b with ONone, ONone | OSubmitDesc, OSubmitDesc | OSubmitAsc, OSubmitAsc => true | _, _ => false end.
Definition opt_eqb {A} (eqb : A -> A -> bool) (a b : option A) : bool :=
  match a, b with None, None => true | Some x, Some y => eqb x y | _, _ => false end.
Definition pval_eqb (a b : pval) : bool :=
  match a, b with PV x, PV y => N.eqb x y | PVs x, PVs y => list_eqb N.eqb x y | _, _ => false end.
Definition query_eqb (a b : query) : bool :=
  opt_eqb cond_eqb (q_where a) (q_where b) && order_eqb (q_order a) (q_order b)
  && opt_eqb pname_eqb (q_limit a) (q_limit b).
Definition binds_eqb (a b : binds) : bool :=
  list_eqb N.eqb (b_args a) (b_args b)
  && list_eqb (fun x y => pname_eqb (fst x) (fst y) && pval_eqb (snd x) (snd y)) (b_named a) (b_named b).

Definition row_eqb (a b : row) : bool :=
  N.eqb (r_id a) (r_id b) && N.eqb (r_group a) (r_group b) && N.eqb (r_name a) (r_name b)
  && N.eqb (r_descr a) (r_descr b) && Z.eqb (r_submit a) (r_submit b) && N.eqb (r_status a) (r_status b)
  && Z.eqb (r_start a) (r_start b) && Z.eqb (r_end a) (r_end b) && N.eqb (r_swarm a) (r_swarm b).

(* the vault's own swarm replaces the hook's (the hook builds the text with a zero reader) *)
Definition with_swarm (w : N) (b : binds) : binds :=
  {| b_args := b_args b;
     b_named := map (fun kv => if pname_eqb (fst kv) PSwarm then (PSwarm, PV w) else kv) (b_named b) |}.

(* ------------------------------------------------------------------ cases *)

Inductive step :=
| TOp (o : op) (ok : bool) (item : option row)
      (* the mutation, whether the vault returned nil, and (cosmosdb) the search item of the op's id
         found in the search partition afterwards *)
| TExists (id : N) (obs : nat)                          (* 0 false, 1 true, 2 error / panic *)
| TSearch (ordered : bool) (f : filters) (o : sobs)     (* ordered = false: through the cosmosdb fake, which ignores ORDER BY *)
| TList (ordered : bool) (limit : Z) (o : sobs)
| TQuery (f : filters) (q : query) (b : binds)          (* cosmosdb: parsed text + parameters of buildSearchQuery *)
| TListQuery (limit : Z) (q : query) (b : binds)        (* cosmosdb: parsed text + parameters List sends (hook VerifListQuery) *)
| TExistsFault (r : read_reply) (id : N) (obs : nat)    (* cosmosdb: Exists while every point read is answered r (fake: SetReadItemErr) *)
| TStreamFault (o : sobs)                               (* cosmosdb: Search / List while every query fails (fake: SetQueryItemsErr) *)
| TSearchCtx (ordered : bool) (f : filters) (o : sobs)  (* Search under a context that is cancelled / expired before or during the call *)
| TListCtx (ordered : bool) (limit : Z) (o : sobs).     (* List under such a context *)

Record case := { c_backend : backend; c_swarm : N; c_steps : list step }.

Record cstate := {
  st_sq : table;           (* sqlite model *)
  st_cs : cstore;          (* cosmosdb model *)
  st_obs : table;          (* cosmosdb: the search partition as actually written (raw items) *)
  st_sp : store            (* specification *)
}.

Definition op_id (o : op) : N :=
  match o with OCreate r => r_id r | OUpdate id _ _ _ _ => id | ODelete id => id end.

Definition find_row (id : N) (tb : table) : option row := find (has_id id) tb.

Definition obs_put (id : N) (item : option row) (tb : table) : table :=
  let rest := filter (fun r => negb (has_id id r)) tb in
  match item with Some r => rest ++ [r] | None => rest end.

Definition sobs_of (tr : option (list sev)) : sobs :=
  match tr with
  | None => {| o_class := 1; o_items := []; o_err := false; o_closed := false |}
  | Some t => {| o_class := 0; o_items := items_of t; o_err := has_err t; o_closed := ends_closed t |}
  end.

(* the model's answer judged against the observation: the observation must be acceptable when the
   model's items are taken as the expected ones *)
Definition agrees_search (ordered : bool) (m o : sobs) : bool :=
  Nat.eqb (o_class m) (o_class o) &&
  (negb (Nat.eqb (o_class m) 0) ||
   (Bool.eqb (o_err m) (o_err o) && Bool.eqb (o_closed m) (o_closed o)
    && search_items_ok ordered (o_items m) (o_items o))).

(* what: 1 op result, 2 search item after op, 3 exists, 4 search, 5 list, 6 query text, 7 query evaluation,
         8 List query text, 9 List query evaluation, 10 Exists under a read fault, 11 stream under a query fault,
         12 Search under a done context, 13 List under a done context *)
Definition fail (kind i what : nat) : list nat := [kind; i; what].

Definition step_check (be : backend) (w : N) (i : nat) (s : cstate) (t : step) : cstate * list nat :=
  match t with
  | TOp o ok item =>
      let sp' := spec_step be (st_sp s) o in
      match be with
      | Sqlite =>
          let (tb', mok) := sq_step (st_sq s) o in
          ({| st_sq := tb'; st_cs := st_cs s; st_obs := st_obs s; st_sp := sp' |},
           if Bool.eqb ok mok then [] else fail 1 i 1)
      | Cosmos =>
          let (cs', mok) := cs_step w (st_cs s) o in
          let want := find_row (op_id o) (cs_search cs') in
          ({| st_sq := st_sq s; st_cs := cs'; st_obs := obs_put (op_id o) item (st_obs s); st_sp := sp' |},
           (if Bool.eqb ok mok then [] else fail 1 i 1) ++
           (if opt_eqb row_eqb item want then []
            else (* a stored plan whose search item does not carry the vault's swarm (or the plan's
                    status / submit time) is invisible or stale to every query: a violation *)
              fail 2 i 2))
      end
  | TExists id obs =>
      let want := match get (st_sp s) id with Some _ => 1 | None => 0 end in
      let m := match be with Sqlite => sq_exists (st_sq s) id | Cosmos => cs_exists (st_cs s) id end in
      (s, if Nat.eqb obs want then (if Nat.eqb (if m then 1 else 0) obs then [] else fail 1 i 3) else fail 2 i 3)
  | TSearch ordered f o =>
      let m := sobs_of (match be with Sqlite => sq_search f (st_sq s) | Cosmos => cosmos_search w f (st_cs s) end) in
      (s, if search_ok ordered f (st_sp s) o
          then (if agrees_search ordered m o then [] else fail 1 i 4)
          else fail 2 i 4)
  | TList ordered limit o =>
      let mtr := match be with Sqlite => sq_list limit (st_sq s) | Cosmos => cosmos_list w limit (st_cs s) end in
      let all := match be with Sqlite => st_sq s | Cosmos => cs_search (st_cs s) end in
      (s, if list_ok ordered limit (st_sp s) o
          then (if stream_clean (sobs_of (Some mtr)) && list_items_ok ordered limit (map (match be with Sqlite => sq_result_of_row | Cosmos => result_of_row end) all) (o_items o)
                then [] else fail 1 i 5)
          else fail 2 i 5)
  | TQuery f q b =>
      let (mq, mb) := cs_build_search 0 f in
      (s, (if query_eqb q mq && binds_eqb b mb then [] else fail 1 i 6) ++
          (match run_query q (with_swarm w b) (st_obs s) with
           | Some rows =>
               if validate f
               then (if search_items_ok true (expected_search f (st_sp s)) (map result_of_row rows) then [] else fail 2 i 7)
               else []
           | None => fail 2 i 7
           end))
  | TExistsFault r id obs =>
      (* the property under a fault: Exists may answer "false" only when the service said 404; any other
         failed read must surface as an error, for stored and unknown ids alike *)
      let m := match cs_exists_reply r with Some true => 1 | Some false => 0 | None => 2 end in
      let decidable := match r with RStatus 404 => false | RFound => false | _ => true end in
      (s, if decidable && negb (Nat.eqb obs 2) then fail 2 i 10
          else if Nat.eqb obs m then [] else fail 1 i 10)
  | TStreamFault o =>
      let m := sobs_of (Some cosmos_stream_failed) in
      (s, if Nat.eqb (o_class o) 0 && o_err o && o_closed o && Nat.eqb (length (o_items o)) 0
          then (if agrees_search true m o then [] else fail 1 i 11)
          else fail 2 i 11)
  | TSearchCtx ordered f o =>
      (* C15 under a done context: an error, or a stream that is closed (within the harness's bound) whose
         items are a newest-first prefix of the answer; the call must not panic or hang *)
      (s, if validate f
          then (if Nat.eqb (o_class o) 1
                   || (Nat.eqb (o_class o) 0 && o_closed o && prefix_items_ok ordered (expected_search f (st_sp s)) (o_items o))
                then [] else fail 2 i 12)
          else (if Nat.eqb (o_class o) 1 then [] else fail 2 i 12))
  | TListCtx ordered limit o =>
      (s, if Nat.eqb (o_class o) 1
             || (Nat.eqb (o_class o) 0 && o_closed o
                 && prefix_items_ok ordered (map result_of (st_sp s)) (o_items o)
                 && (Z.leb limit 0 || Nat.leb (length (o_items o)) (Z.to_nat limit)))
          then [] else fail 2 i 13)
  | TListQuery limit q b =>
      let (mq, mb) := cs_list_query w limit in
      (s, (if query_eqb q mq && binds_eqb b mb then [] else fail 1 i 8) ++
          (match run_query q b (st_obs s) with
           | Some rows =>
               if list_items_ok true limit (map result_of (st_sp s)) (map result_of_row rows) then [] else fail 2 i 9
           | None => fail 2 i 9
           end))
  end.

Fixpoint steps_check (be : backend) (w : N) (i : nat) (s : cstate) (ts : list step) : list nat :=
  match ts with
  | [] => []
  | t :: r => let (s', out) := step_check be w i s t in out ++ steps_check be w (S i) s' r
  end.

Definition init_state : cstate := {| st_sq := []; st_cs := cs_empty; st_obs := []; st_sp := [] |}.

(* [0] = every observation satisfies the property and agrees with the model; otherwise triples
   kind, step index, what *)
Definition check_case (c : case) : list nat :=
  match steps_check (c_backend c) (c_swarm c) 0 init_state (c_steps c) with
  | [] => [0]
  | l => l
  end.

Definition case_ok (c : case) : bool :=
  match steps_check (c_backend c) (c_swarm c) 0 init_state (c_steps c) with [] => true | _ => false end.
