(* C15 model, part 1: what the two back ends keep for Exists / Search / List.

   sqlite   (workflow/storage/sqlite):   the `plans` table, restricted to the columns the three
            statements of reader.go read: id, group_id, name, descr, submit_time, state_status.
   cosmosdb (workflow/storage/cosmosdb): the plan partition (only "is there a plan item with this id":
            reader.Exists does ReadItem(key(id), id)) and the separate search partition "planSearch"
            whose items are searchEntry documents (schema.go) with the extra column swarm.

   Abstraction of Go data (done by the harness): a uuid is its index among the uuids of the case
   (0 = uuid.Nil), a string its index among the strings of the case, the submit time its Unix seconds
   (Z; the generator only uses whole seconds), State.Start / State.End their exact nanoseconds since the
   Unix epoch (Z, unbounded: the zero time.Time is [zero_time_ns]), a workflow.Status its integer value
   (0,100,200,300,400,...).

   Model files contain no proofs. *)
From Coq Require Export List ZArith NArith Bool.
Export ListNotations.
From Coercion.Base Require Import Plan.

Record row := {
  r_id : N; r_group : N; r_name : N; r_descr : N;
  r_submit : Z; r_status : N;
  r_start : Z; r_end : Z;  (* sqlite: the INTEGER columns state_start / state_end; cosmosdb: the instants *)
  r_swarm : N            (* cosmosdb search entries only; 0 = "" *)
}.

(* time.Time{} in nanoseconds since the Unix epoch *)
Definition zero_time_ns : Z := (-62135596800000000000)%Z.

(* Time.UnixNano: int64 arithmetic, wraps outside 1678..2262 (in particular for the zero time) *)
Definition wrap64 (z : Z) : Z := ((z + 2 ^ 63) mod 2 ^ 64 - 2 ^ 63)%Z.

Definition table := list row.

Definition status_code (s : status) : N :=
  match s with NotStarted => 0 | Running => 100 | Completed => 200 | Failed => 300 | Stopped => 400 end%N.

(* The mutations of a vault that matter here. [OUpdate id st sub] is vault.UpdatePlan(p) for a plan
   object p that agrees with the stored plan in id, group id, name and description (the engine only
   ever passes the stored plan object back) and carries State.Status = st, SubmitTime = sub,
   State.Start = start, State.End = fin. *)
Inductive op :=
| OCreate (r : row)                       (* vault.Create of a plan whose projection is r (r_swarm unused) *)
| OUpdate (id : N) (st : N) (sub : Z) (start fin : Z)
| ODelete (id : N).

Definition set_state (st : N) (start fin : Z) (r : row) : row :=
  {| r_id := r_id r; r_group := r_group r; r_name := r_name r; r_descr := r_descr r;
     r_submit := r_submit r; r_status := st; r_start := start; r_end := fin; r_swarm := r_swarm r |}.
Definition set_submit (sub : Z) (r : row) : row :=
  {| r_id := r_id r; r_group := r_group r; r_name := r_name r; r_descr := r_descr r;
     r_submit := sub; r_status := r_status r; r_start := r_start r; r_end := r_end r; r_swarm := r_swarm r |}.
Definition set_swarm (w : N) (r : row) : row :=
  {| r_id := r_id r; r_group := r_group r; r_name := r_name r; r_descr := r_descr r;
     r_submit := r_submit r; r_status := r_status r; r_start := r_start r; r_end := r_end r; r_swarm := w |}.

Definition has_id (id : N) (r : row) : bool := N.eqb (r_id r) id.

(* ------------------------------------------------------------------ sqlite *)

(* reader.Exists: SELECT COUNT( * ) FROM plans WHERE id = ?  ; count > 0 *)
Definition sq_count (tb : table) (id : N) : nat := length (filter (has_id id) tb).
Definition sq_exists (tb : table) (id : N) : bool := Nat.ltb 0 (sq_count tb id).

(* creator.Create: rejects uuid.Nil, rejects an existing id (reader.Exists), then commitPlan INSERTs
   the row; a submit time before the Unix epoch is stored as the epoch (creator_plan.go:80); the state
   times are stored as State.Start.UnixNano() / State.End.UnixNano(). *)
Definition sq_clamp (r : row) : row := if Z.ltb (r_submit r) 0 then set_submit 0 r else r.
Definition sq_cols (r : row) : row := set_state (r_status r) (wrap64 (r_start r)) (wrap64 (r_end r)) r.
Definition sq_create (r : row) (tb : table) : table * bool :=
  if N.eqb (r_id r) 0 then (tb, false)
  else if sq_exists tb (r_id r) then (tb, false)
  else (tb ++ [set_swarm 0 (sq_cols (sq_clamp r))], true).

(* planUpdater.UpdatePlan: UPDATE plans SET reason, state_status, state_start, state_end WHERE id = $id.
   submit_time is not in the SET list; zero rows affected is not an error. *)
Definition sq_update (id st : N) (start fin : Z) (tb : table) : table * bool :=
  (map (fun r => if has_id id r then set_state st (wrap64 start) (wrap64 fin) r else r) tb, true).

(* deleter.Delete: Read(id) first (an unknown id is an error since fix 12fa98d), then
   DELETE FROM plans WHERE id = $id inside a transaction. *)
Definition sq_delete (id : N) (tb : table) : table * bool :=
  if sq_exists tb id then (filter (fun r => negb (has_id id r)) tb, true) else (tb, false).

Definition sq_step (tb : table) (o : op) : table * bool :=
  match o with
  | OCreate r => sq_create r tb
  | OUpdate id st _ start fin => sq_update id st start fin tb
  | ODelete id => sq_delete id tb
  end.

Definition sq_run (ops : list op) : table := fold_left (fun tb o => fst (sq_step tb o)) ops [].

(* ------------------------------------------------------------------ cosmosdb *)

Record cstore := {
  cs_plans : list N;        (* ids of the plan items in the plan partitions *)
  cs_search : table         (* the search partition *)
}.
Definition cs_empty : cstore := {| cs_plans := []; cs_search := [] |}.

(* reader.Exists: ReadItem(key(id), id); not found -> false *)
Definition cs_exists (s : cstore) (id : N) : bool := existsb (N.eqb id) (cs_plans s).

(* creator.Create: rejects uuid.Nil and an existing id; commitPlan writes the plan batch, then one
   search entry planToSearchEntry(c.swarm, p) (no clamping of times). [w] is the vault's swarm. *)
Definition cs_create (w : N) (r : row) (s : cstore) : cstore * bool :=
  if N.eqb (r_id r) 0 then (s, false)
  else if cs_exists s (r_id r) then (s, false)
  else ({| cs_plans := cs_plans s ++ [r_id r]; cs_search := cs_search s ++ [set_swarm w r] |}, true).

(* planUpdater.UpdatePlan -> patchPlan: PatchItem on the plan item (an unknown id fails there), then
   replaceSearch: ReplaceItem of the search entry built from the plan object: status, start, end, submit time,
   the updater's swarm (since fix 83e9051; before it the entry was written with swarm "" and the plan
   vanished from every query, finding S7) and -- equal to the stored ones by the assumption on
   OUpdate -- id, group, name, descr. *)
Definition cs_update (w : N) (id st : N) (sub start fin : Z) (s : cstore) : cstore * bool :=
  if cs_exists s id then
    ({| cs_plans := cs_plans s;
        cs_search := map (fun r => if has_id id r
                                   then set_swarm w (set_submit sub (set_state st start fin r))
                                   else r) (cs_search s) |}, true)
  else (s, false).

(* deleter.Delete: Read(id) (unknown id is an error), delete the plan batch, delete the search entry. *)
Definition cs_delete (id : N) (s : cstore) : cstore * bool :=
  if cs_exists s id then
    ({| cs_plans := filter (fun x => negb (N.eqb id x)) (cs_plans s);
        cs_search := filter (fun r => negb (has_id id r)) (cs_search s) |}, true)
  else (s, false).

Definition cs_step (w : N) (s : cstore) (o : op) : cstore * bool :=
  match o with
  | OCreate r => cs_create w r s
  | OUpdate id st sub start fin => cs_update w id st sub start fin s
  | ODelete id => cs_delete id s
  end.

Definition cs_run (w : N) (ops : list op) : cstore :=
  fold_left (fun s o => fst (cs_step w s o)) ops cs_empty.
