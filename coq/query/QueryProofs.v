(* C15 proofs: the transcriptions of Rows.v / Query.v meet the specification of Spec.v. *)
From Coq Require Import Permutation Sorted Lia.
From Coercion.Base Require Import Plan.
From Coercion.Query Require Import Rows Query Spec QueryCheck.

(* ------------------------------------------------------------------ generic list facts *)

Lemma existsb_eqb_In : forall (x : N) l, existsb (N.eqb x) l = true <-> In x l.
Proof.
  intros x l. rewrite existsb_exists. split.
  - intros [y [Hy He]]. apply N.eqb_eq in He. subst. exact Hy.
  - intros H. exists x. split; [exact H | apply N.eqb_refl].
Qed.

Lemma nonempty_false : forall {A} (l : list A), nonempty l = false <-> l = [].
Proof. intros A [|a l]; simpl; split; intros H; congruence. Qed.

Lemma filter_length_existsb : forall {A} (p : A -> bool) l,
  Nat.ltb 0 (length (filter p l)) = existsb p l.
Proof.
  intros A p l. induction l as [|a l IH]; simpl; [reflexivity|].
  destruct (p a) eqn:E; simpl; [reflexivity | exact IH].
Qed.

Lemma NoDup_app_single : forall {A} (l : list A) x, NoDup l -> ~ In x l -> NoDup (l ++ [x]).
Proof.
  intros A l x ND Hx. induction l as [|a l IH]; simpl.
  - constructor; [intros [] | constructor].
  - inversion ND as [|? ? Ha ND']; subst. constructor.
    + rewrite in_app_iff. simpl. intros [H|[H|[]]]; [contradiction|]. apply Hx. left. symmetry. exact H.
    + apply IH; [exact ND' | intros H; apply Hx; right; exact H].
Qed.

(* ------------------------------------------------------------------ the abstraction of a row *)

Definition bind_of_row (r : row) : N * pinfo :=
  (r_id r, {| pi_group := r_group r; pi_name := r_name r; pi_descr := r_descr r;
              pi_submit := r_submit r; pi_status := r_status r;
              pi_start := r_start r; pi_end := r_end r |}).

Lemma result_of_bind : forall r, result_of (bind_of_row r) = result_of_row r.
Proof. intros r. reflexivity. Qed.

Lemma dom_bind : forall tb, dom (map bind_of_row tb) = map r_id tb.
Proof. intros tb. unfold dom. rewrite map_map. reflexivity. Qed.

(* ------------------------------------------------------------------ association-list facts *)

Lemma get_In_dom : forall sp id, get sp id <> None <-> In id (dom sp).
Proof.
  intros sp id. induction sp as [|[k v] sp IH]; simpl.
  - split; [congruence | intros []].
  - destruct (N.eqb k id) eqn:E.
    + apply N.eqb_eq in E. split; [intros _; left; exact E | congruence].
    + apply N.eqb_neq in E. rewrite IH. split; [intros H; right; exact H | intros [H|H]; [contradiction | exact H]].
Qed.

Lemma get_none_not_In : forall sp id, get sp id = None <-> ~ In id (dom sp).
Proof.
  intros sp id. rewrite <- get_In_dom. destruct (get sp id) as [v|]; split; intro H.
  - discriminate.
  - exfalso. apply H. discriminate.
  - intro H'. apply H'. reflexivity.
  - reflexivity.
Qed.

Lemma put_absent : forall sp id v, get sp id = None -> put id v sp = sp ++ [(id, v)].
Proof.
  intros sp id v. induction sp as [|[k x] sp IH]; simpl; intros H; [reflexivity|].
  destruct (N.eqb k id) eqn:E; [discriminate|]. rewrite IH by exact H. reflexivity.
Qed.

Lemma del_absent : forall sp id, get sp id = None -> del id sp = sp.
Proof.
  intros sp id. induction sp as [|[k x] sp IH]; simpl; intros H; [reflexivity|].
  destruct (N.eqb k id) eqn:E; [discriminate|]. rewrite IH by exact H. reflexivity.
Qed.

Lemma get_In : forall sp id v, NoDup (dom sp) -> (get sp id = Some v <-> In (id, v) sp).
Proof.
  intros sp id v. induction sp as [|[k x] sp IH]; simpl; intros ND.
  - split; [discriminate | intros []].
  - inversion ND as [|? ? Hk ND']; subst. destruct (N.eqb k id) eqn:E.
    + apply N.eqb_eq in E. subst k. split.
      * intros H. inversion H. subst. left. reflexivity.
      * intros [H|H]; [inversion H; reflexivity|]. exfalso. apply Hk. unfold dom.
        change id with (fst (id, v)). apply in_map. exact H.
    + apply N.eqb_neq in E. rewrite (IH ND'). split.
      * intros H. right. exact H.
      * intros [H|H]; [inversion H; contradiction | exact H].
Qed.

(* ------------------------------------------------------------------ table operations vs store operations *)

Lemma get_bind : forall tb id,
  get (map bind_of_row tb) id = option_map (fun r => snd (bind_of_row r)) (find (has_id id) tb).
Proof.
  intros tb id. induction tb as [|r tb IH]; simpl; [reflexivity|].
  unfold has_id at 1. destruct (N.eqb (r_id r) id); [reflexivity | exact IH].
Qed.

Lemma exists_get : forall tb id, existsb (has_id id) tb = true <-> get (map bind_of_row tb) id <> None.
Proof.
  intros tb id. rewrite get_In_dom, dom_bind, existsb_exists, in_map_iff. split.
  - intros [r [Hr He]]. exists r. unfold has_id in He. apply N.eqb_eq in He. tauto.
  - intros [r [He Hr]]. exists r. unfold has_id. subst. rewrite N.eqb_refl. tauto.
Qed.

Lemma sq_exists_existsb : forall tb id, sq_exists tb id = existsb (has_id id) tb.
Proof. intros. unfold sq_exists, sq_count. apply filter_length_existsb. Qed.

Lemma map_update_ids : forall (g : row -> row) id tb,
  (forall r, r_id (g r) = r_id r) ->
  map r_id (map (fun r => if has_id id r then g r else r) tb) = map r_id tb.
Proof.
  intros g id tb Hg. rewrite map_map. apply map_ext. intros r. destruct (has_id id r); [apply Hg | reflexivity].
Qed.

Lemma map_update_absent : forall (g : row -> row) id tb,
  ~ In id (map r_id tb) -> map (fun r => if has_id id r then g r else r) tb = tb.
Proof.
  intros g id tb. induction tb as [|r tb IH]; simpl; intros H; [reflexivity|].
  unfold has_id at 1. destruct (N.eqb (r_id r) id) eqn:E.
  - apply N.eqb_eq in E. exfalso. apply H. left. exact E.
  - rewrite IH; [reflexivity | intros H'; apply H; right; exact H'].
Qed.

(* updating in place every row with the id = rebinding the id, when ids are unique *)
Lemma map_update_put : forall (g : row -> row) (h : pinfo -> pinfo) id tb v,
  NoDup (map r_id tb) ->
  (forall r, bind_of_row (g r) = (r_id r, h (snd (bind_of_row r)))) ->
  get (map bind_of_row tb) id = Some v ->
  map bind_of_row (map (fun r => if has_id id r then g r else r) tb) = put id (h v) (map bind_of_row tb).
Proof.
  intros g h id tb v ND Hg. induction tb as [|r tb IH]; simpl; intros Hget; [discriminate|].
  inversion ND as [|? ? Hr ND']; subst. unfold has_id at 1. destruct (N.eqb (r_id r) id) eqn:E.
  - apply N.eqb_eq in E. inversion Hget as [Hv]. rewrite Hg. simpl. f_equal.
    rewrite map_update_absent; [reflexivity | rewrite <- E; exact Hr].
  - rewrite (IH ND' Hget). reflexivity.
Qed.

Lemma filter_del : forall id tb,
  map bind_of_row (filter (fun r => negb (has_id id r)) tb) = del id (map bind_of_row tb).
Proof.
  intros id tb. induction tb as [|r tb IH]; simpl; [reflexivity|].
  unfold has_id at 1. destruct (N.eqb (r_id r) id); simpl; rewrite IH; reflexivity.
Qed.

Lemma filter_ids_NoDup : forall (p : row -> bool) tb, NoDup (map r_id tb) -> NoDup (map r_id (filter p tb)).
Proof.
  intros p tb. induction tb as [|r tb IH]; simpl; intros ND; [constructor|].
  inversion ND as [|? ? Hr ND']; subst. destruct (p r); simpl.
  - constructor; [|apply IH; exact ND']. intros H. apply Hr. apply in_map_iff in H.
    destruct H as [x [Hx Hin]]. apply filter_In in Hin. apply in_map_iff. exists x. tauto.
  - apply IH. exact ND'.
Qed.

Lemma filter_ids_incl : forall (p : row -> bool) tb id, In id (map r_id (filter p tb)) -> In id (map r_id tb).
Proof.
  intros p tb id H. apply in_map_iff in H. destruct H as [x [Hx Hin]]. apply filter_In in Hin.
  apply in_map_iff. exists x. tauto.
Qed.

(* ------------------------------------------------------------------ sqlite: the table refines the store *)

(* Two layers. [sqv_*]: the table as the time codec presents it (state_start / state_end already decoded
   by fieldToState: the zero time or an instant after the epoch). It refines the store for every history.
   The table of Rows.v keeps the raw int64 columns; its decoded view [sq_view] evolves like [sqv_*] whenever
   the times written are representable (below). *)
Definition sqv_cols (r : row) : row := set_state (r_status r) (sq_time (r_start r)) (sq_time (r_end r)) r.
Definition sqv_create (r : row) (tb : table) : table * bool :=
  if N.eqb (r_id r) 0 then (tb, false)
  else if sq_exists tb (r_id r) then (tb, false)
  else (tb ++ [set_swarm 0 (sqv_cols (sq_clamp r))], true).
Definition sqv_update (id st : N) (start fin : Z) (tb : table) : table * bool :=
  (map (fun r => if has_id id r then set_state st (sq_time start) (sq_time fin) r else r) tb, true).
Definition sqv_step (tb : table) (o : op) : table * bool :=
  match o with
  | OCreate r => sqv_create r tb
  | OUpdate id st _ start fin => sqv_update id st start fin tb
  | ODelete id => sq_delete id tb
  end.
Definition sqv_run (ops : list op) : table := fold_left (fun tb o => fst (sqv_step tb o)) ops [].
Definition sqv_search (f : filters) (tb : table) : option (list sev) :=
  if validate f then
    let (q, b) := sq_build_search f in Some (produce result_of_row (run_query q b tb))
  else None.
Definition sqv_list (limit : Z) (tb : table) : list sev :=
  let (q, b) := sq_list_query limit in produce result_of_row (run_query q b tb).

Definition sq_inv (tb : table) (sp : store) : Prop :=
  map bind_of_row tb = sp /\ NoDup (map r_id tb) /\ ~ In 0%N (map r_id tb).

Lemma bind_create_sqlite : forall r,
  bind_of_row (set_swarm 0 (sqv_cols (sq_clamp r))) = (r_id r, info_of_create Sqlite r).
Proof.
  intros r. unfold sq_clamp, info_of_create, bind_of_row. destruct (Z.ltb (r_submit r) 0) eqn:E; simpl.
  - apply Z.ltb_lt in E. rewrite Z.max_l by lia. reflexivity.
  - apply Z.ltb_ge in E. rewrite Z.max_r by lia. reflexivity.
Qed.

Lemma sqv_step_inv : forall tb sp o, sq_inv tb sp -> sq_inv (fst (sqv_step tb o)) (spec_step Sqlite sp o).
Proof.
  intros tb sp o [Hm [ND H0]]. subst sp. destruct o as [r | id st sub start fin | id]; simpl.
  - (* create *)
    unfold sqv_create. destruct (N.eqb (r_id r) 0) eqn:E0; [simpl; repeat split; assumption|].
    rewrite sq_exists_existsb. destruct (existsb (has_id (r_id r)) tb) eqn:Ex; simpl.
    + apply exists_get in Ex. destruct (get (map bind_of_row tb) (r_id r)); [|congruence]. repeat split; assumption.
    + assert (Hn : get (map bind_of_row tb) (r_id r) = None).
      { destruct (get (map bind_of_row tb) (r_id r)) eqn:G; [|reflexivity].
        assert (existsb (has_id (r_id r)) tb = true) by (apply exists_get; congruence). congruence. }
      rewrite Hn. rewrite put_absent by exact Hn. repeat split.
      * rewrite map_app. simpl. rewrite bind_create_sqlite. reflexivity.
      * rewrite map_app. simpl. apply NoDup_app_single.
        -- exact ND.
        -- apply get_none_not_In in Hn. rewrite dom_bind in Hn.
           unfold sq_clamp. destruct (Z.ltb (r_submit r) 0); exact Hn.
      * rewrite map_app, in_app_iff. simpl. intros [H|[H|[]]]; [contradiction|].
        apply N.eqb_neq in E0. apply E0. unfold sq_clamp in H. destruct (Z.ltb (r_submit r) 0); simpl in H; congruence.
  - (* update *)
    destruct (get (map bind_of_row tb) id) as [v|] eqn:G.
    + repeat split.
      * apply (map_update_put (set_state st (sq_time start) (sq_time fin)) (info_update Sqlite st sub start fin)); [exact ND | reflexivity | exact G].
      * rewrite map_update_ids by reflexivity. exact ND.
      * rewrite map_update_ids by reflexivity. exact H0.
    + apply get_none_not_In in G. rewrite dom_bind in G. rewrite map_update_absent by exact G.
      repeat split; assumption.
  - (* delete *)
    unfold sq_delete. rewrite sq_exists_existsb. destruct (existsb (has_id id) tb) eqn:Ex; simpl.
    + repeat split.
      * apply filter_del.
      * apply filter_ids_NoDup. exact ND.
      * intros H. apply H0. eapply filter_ids_incl. exact H.
    + assert (Hn : get (map bind_of_row tb) id = None).
      { destruct (get (map bind_of_row tb) id) eqn:G; [|reflexivity].
        assert (existsb (has_id id) tb = true) by (apply exists_get; congruence). congruence. }
      rewrite del_absent by exact Hn. repeat split; assumption.
Qed.

Lemma fold_left_snoc : forall {A B} (f : A -> B -> A) l x a, fold_left f (l ++ [x]) a = f (fold_left f l a) x.
Proof. intros. rewrite fold_left_app. reflexivity. Qed.

Lemma sqv_run_inv : forall ops, sq_inv (sqv_run ops) (spec_run Sqlite ops).
Proof.
  intros ops. induction ops as [|o ops IH] using rev_ind.
  - repeat split; [constructor | intros []].
  - unfold sqv_run, spec_run. rewrite !fold_left_snoc. apply sqv_step_inv. exact IH.
Qed.

(* ------------------------------------------------------------------ cosmosdb: plan ids + search partition refine the store *)

Definition cs_inv (w : N) (s : cstore) (sp : store) : Prop :=
  map bind_of_row (cs_search s) = sp /\ cs_plans s = map r_id (cs_search s) /\
  NoDup (map r_id (cs_search s)) /\ ~ In 0%N (map r_id (cs_search s)) /\
  Forall (fun r => r_swarm r = w) (cs_search s).

Lemma cs_exists_existsb : forall s id,
  cs_plans s = map r_id (cs_search s) -> cs_exists s id = existsb (has_id id) (cs_search s).
Proof.
  intros s id H. unfold cs_exists. rewrite H. clear H. induction (cs_search s) as [|r tb IH]; simpl; [reflexivity|].
  unfold has_id at 1. rewrite (N.eqb_sym id). rewrite IH. reflexivity.
Qed.

Lemma filter_ids : forall id tb,
  filter (fun x => negb (N.eqb id x)) (map r_id tb) = map r_id (filter (fun r => negb (has_id id r)) tb).
Proof.
  intros id tb. induction tb as [|r tb IH]; simpl; [reflexivity|].
  unfold has_id at 1. rewrite (N.eqb_sym id). destruct (N.eqb (r_id r) id); simpl; rewrite IH; reflexivity.
Qed.

Lemma Forall_map_update : forall (P : row -> Prop) (g : row -> row) id tb,
  (forall r, P (g r)) -> Forall P tb -> Forall P (map (fun r => if has_id id r then g r else r) tb).
Proof.
  intros P g id tb Hg H. induction H as [|r tb Hr H IH]; simpl; constructor; [|exact IH].
  destruct (has_id id r); [apply Hg | exact Hr].
Qed.

Lemma Forall_filter : forall {A} (P : A -> Prop) (p : A -> bool) l, Forall P l -> Forall P (filter p l).
Proof.
  intros A P p l H. induction H as [|a l Ha H IH]; simpl; [constructor|].
  destruct (p a); [constructor; assumption | exact IH].
Qed.

Lemma cs_step_inv : forall w s sp o, cs_inv w s sp -> cs_inv w (fst (cs_step w s o)) (spec_step Cosmos sp o).
Proof.
  intros w s sp o [Hm [Hp [ND [H0 Hw]]]]. subst sp. destruct o as [r | id st sub start fin | id]; simpl.
  - (* create *)
    unfold cs_create. destruct (N.eqb (r_id r) 0) eqn:E0; [simpl; repeat split; assumption|].
    rewrite (cs_exists_existsb _ _ Hp). destruct (existsb (has_id (r_id r)) (cs_search s)) eqn:Ex; simpl.
    + apply exists_get in Ex. destruct (get (map bind_of_row (cs_search s)) (r_id r)); [|congruence].
      repeat split; assumption.
    + assert (Hn : get (map bind_of_row (cs_search s)) (r_id r) = None).
      { destruct (get (map bind_of_row (cs_search s)) (r_id r)) eqn:G; [|reflexivity].
        assert (existsb (has_id (r_id r)) (cs_search s) = true) by (apply exists_get; congruence). congruence. }
      rewrite Hn. rewrite put_absent by exact Hn. apply get_none_not_In in Hn. rewrite dom_bind in Hn.
      repeat split; cbn [cs_search cs_plans].
      * rewrite map_app. reflexivity.
      * rewrite map_app. simpl. rewrite Hp. reflexivity.
      * rewrite map_app. simpl. apply NoDup_app_single; assumption.
      * rewrite map_app, in_app_iff. simpl. intros [H|[H|[]]]; [contradiction|].
        apply N.eqb_neq in E0. congruence.
      * apply Forall_app. split; [exact Hw | constructor; [reflexivity | constructor]].
  - (* update *)
    unfold cs_update. rewrite (cs_exists_existsb _ _ Hp).
    destruct (get (map bind_of_row (cs_search s)) id) as [v|] eqn:G.
    + assert (Ex : existsb (has_id id) (cs_search s) = true) by (apply exists_get; congruence).
      rewrite Ex. simpl. repeat split; cbn [cs_search cs_plans].
      * apply (map_update_put (fun r => set_swarm w (set_submit sub (set_state st start fin r))) (info_update Cosmos st sub start fin));
          [exact ND | reflexivity | exact G].
      * rewrite map_update_ids by reflexivity. exact Hp.
      * rewrite map_update_ids by reflexivity. exact ND.
      * rewrite map_update_ids by reflexivity. exact H0.
      * apply Forall_map_update; [reflexivity | exact Hw].
    + assert (Ex : existsb (has_id id) (cs_search s) = false).
      { destruct (existsb (has_id id) (cs_search s)) eqn:Ex; [|reflexivity]. apply exists_get in Ex. congruence. }
      rewrite Ex. simpl. repeat split; assumption.
  - (* delete *)
    unfold cs_delete. rewrite (cs_exists_existsb _ _ Hp). destruct (existsb (has_id id) (cs_search s)) eqn:Ex; simpl.
    + repeat split; cbn [cs_search cs_plans].
      * apply filter_del.
      * rewrite Hp. apply filter_ids.
      * apply filter_ids_NoDup. exact ND.
      * intros H. apply H0. eapply filter_ids_incl. exact H.
      * apply Forall_filter. exact Hw.
    + assert (Hn : get (map bind_of_row (cs_search s)) id = None).
      { destruct (get (map bind_of_row (cs_search s)) id) eqn:G; [|reflexivity].
        assert (existsb (has_id id) (cs_search s) = true) by (apply exists_get; congruence). congruence. }
      rewrite del_absent by exact Hn. repeat split; assumption.
Qed.

Lemma cs_run_inv : forall w ops, cs_inv w (cs_run w ops) (spec_run Cosmos ops).
Proof.
  intros w ops. induction ops as [|o ops IH] using rev_ind.
  - repeat split; [constructor | intros [] | constructor].
  - unfold cs_run, spec_run. rewrite !fold_left_snoc. apply cs_step_inv. exact IH.
Qed.

(* ------------------------------------------------------------------ what the emitted conditions mean *)

Lemma assoc_app : forall l1 l2 p,
  assoc (l1 ++ l2) p = match assoc l1 p with Some v => Some v | None => assoc l2 p end.
Proof.
  intros l1 l2 p. induction l1 as [|[k v] l1 IH]; simpl; [reflexivity|].
  destruct (pname_eqb k p); [reflexivity | exact IH].
Qed.

Lemma assoc_status_params : forall ss i j,
  assoc (status_params i ss) (PStatus (i + j)) = option_map PV (nth_error ss j).
Proof.
  induction ss as [|s ss IH]; intros i j; simpl.
  - destruct j; reflexivity.
  - destruct j as [|j].
    + rewrite Nat.add_0_r, Nat.eqb_refl. reflexivity.
    + assert (E : Nat.eqb i (i + S j) = false) by (apply Nat.eqb_neq; lia). rewrite E.
      replace (i + S j)%nat with (S i + j)%nat by lia. apply IH.
Qed.

Lemma assoc_status_params_other : forall ss i p,
  (forall k, p <> PStatus k) -> assoc (status_params i ss) p = None.
Proof.
  induction ss as [|s ss IH]; intros i p Hp; simpl; [reflexivity|].
  destruct p; try (apply IH; exact Hp). exfalso. eapply Hp. reflexivity.
Qed.

Lemma placeholders_eval : forall b x vs s,
  (forall j v, nth_error vs j = Some v -> nth_error (b_args b) (s + j) = Some v) ->
  existsb (eq_param b x) (placeholders s (length vs)) = existsb (N.eqb x) vs.
Proof.
  intros b x vs. induction vs as [|v vs IH]; intros s H; simpl; [reflexivity|].
  unfold placeholders in *. f_equal.
  - unfold eq_param. simpl. specialize (H 0%nat v eq_refl). rewrite Nat.add_0_r in H. rewrite H. reflexivity.
  - apply IH. intros j u Hj. replace (S s + j)%nat with (s + S j)%nat by lia. apply H. exact Hj.
Qed.

Lemma nth_error_app_l : forall {A} (l1 l2 : list A) j v, nth_error l1 j = Some v -> nth_error (l1 ++ l2) j = Some v.
Proof.
  intros A l1 l2 j v H. rewrite nth_error_app1; [exact H|]. apply nth_error_Some. congruence.
Qed.

Lemma nth_error_app_r : forall {A} (l1 l2 : list A) j, nth_error (l1 ++ l2) (length l1 + j) = nth_error l2 j.
Proof.
  intros A l1 l2 j. rewrite nth_error_app2 by lia. f_equal. lia.
Qed.

Lemma in_clause_l : forall x vs post named,
  existsb (eq_param {| b_args := vs ++ post; b_named := named |} x) (placeholders 0 (length vs))
  = existsb (N.eqb x) vs.
Proof.
  intros. apply placeholders_eval. intros j v H. simpl. apply nth_error_app_l. exact H.
Qed.

Lemma in_clause_r : forall x pre vs named,
  existsb (eq_param {| b_args := pre ++ vs; b_named := named |} x) (placeholders (length pre) (length vs))
  = existsb (N.eqb x) vs.
Proof.
  intros. apply placeholders_eval. intros j v H. simpl. rewrite nth_error_app_r. exact H.
Qed.

Lemma in_clause_0 : forall x vs named,
  existsb (eq_param {| b_args := vs; b_named := named |} x) (placeholders 0 (length vs))
  = existsb (N.eqb x) vs.
Proof. intros. apply (in_clause_r x [] vs). Qed.

Definition status_eq (k : nat) : cond := CEq CStatus (PStatus k).

Lemma status_loop_eval : forall b ss i acc r,
  (0 < i)%nat ->
  (forall j s, nth_error ss j = Some s -> lookup b (PStatus (i + j)) = Some (PV s)) ->
  eval_cond b (status_loop status_eq i ss acc) r = eval_cond b acc r || existsb (N.eqb (r_status r)) ss.
Proof.
  intros b ss. induction ss as [|s ss IH]; intros i acc r Hi H; simpl.
  - rewrite orb_false_r. reflexivity.
  - destruct (Nat.eqb i 0) eqn:E; [apply Nat.eqb_eq in E; lia|].
    rewrite IH.
    + simpl. unfold eq_param. specialize (H 0%nat s eq_refl) as H0. rewrite Nat.add_0_r in H0. rewrite H0.
      simpl. rewrite orb_assoc. reflexivity.
    + lia.
    + intros j u Hj. replace (S i + j)%nat with (i + S j)%nat by lia. apply H. exact Hj.
Qed.

Lemma status_clause : forall b ss r,
  nonempty ss = true ->
  (forall j s, nth_error ss j = Some s -> lookup b (PStatus j) = Some (PV s)) ->
  eval_cond b (status_loop status_eq 0 ss CTrue) r = existsb (N.eqb (r_status r)) ss.
Proof.
  intros b ss r Hne H. destruct ss as [|s ss]; [discriminate|]. simpl.
  rewrite status_loop_eval.
  - simpl. unfold eq_param. rewrite (H 0%nat s eq_refl). reflexivity.
  - lia.
  - intros j u Hj. apply (H (S j)). exact Hj.
Qed.

Lemma lookup_status_sq : forall args ss j s,
  nth_error ss j = Some s -> lookup {| b_args := args; b_named := status_params 0 ss |} (PStatus j) = Some (PV s).
Proof.
  intros args ss j s H. simpl. change j with (0 + j)%nat. rewrite (assoc_status_params ss 0 j). rewrite H. reflexivity.
Qed.

Lemma validate_some : forall f, validate f = true ->
  nonempty (f_ids f) = true \/ nonempty (f_groups f) = true \/ nonempty (f_statuses f) = true.
Proof.
  intros [ids gs ss]. unfold validate. simpl. destruct ids; [|auto]. destruct gs; [|auto]. destruct ss; [|auto].
  simpl. discriminate.
Qed.

(* sqlite: the WHERE clause buildSearchQuery emits selects exactly the rows the filter means *)
Lemma sq_where_matches : forall f r, validate f = true ->
  exists c, q_where (fst (sq_build_search f)) = Some c /\
            eval_cond (snd (sq_build_search f)) c r = matchesb f (bind_of_row r).
Proof.
  intros f r Hv. apply validate_some in Hv. destruct f as [ids gs ss]. unfold matchesb, sq_build_search.
  cbn [f_ids f_groups f_statuses fst snd q_where bind_of_row pi_group pi_status] in *.
  fold status_eq.
  destruct (nonempty ids) eqn:Ei; destruct (nonempty gs) eqn:Eg; destruct (nonempty ss) eqn:Es;
    try (apply nonempty_false in Ei; subst ids); try (apply nonempty_false in Eg; subst gs);
    try (apply nonempty_false in Es; subst ss);
    cbn [add_clause negb orb andb app length status_params];
    try solve [exfalso; destruct Hv as [H|[H|H]]; discriminate H];
    (eexists; split; [reflexivity|]); cbn [eval_cond];
    rewrite ?in_clause_l, ?in_clause_r, ?in_clause_0;
    try (rewrite status_clause; [| assumption | apply lookup_status_sq ]);
    cbn [col_of]; rewrite ?andb_true_r; try reflexivity.
Qed.

Lemma cs_named_lookup : forall w ss rest p,
  p <> PSwarm -> (forall k, p <> PStatus k) -> (forall k, p <> PPos k) ->
  lookup {| b_args := []; b_named := (PSwarm, PV w) :: status_params 0 ss ++ rest |} p = assoc rest p.
Proof.
  intros w ss rest p H1 H2 H3. destruct p; try (exfalso; eapply H3; reflexivity); try (exfalso; eapply H2; reflexivity);
    try (exfalso; apply H1; reflexivity); simpl; rewrite assoc_app, assoc_status_params_other; try reflexivity;
    intros k; discriminate.
Qed.

Lemma cs_lookup_status : forall w ss rest j s,
  nth_error ss j = Some s ->
  lookup {| b_args := []; b_named := (PSwarm, PV w) :: status_params 0 ss ++ rest |} (PStatus j) = Some (PV s).
Proof.
  intros w ss rest j s H. simpl. rewrite assoc_app. change j with (0 + j)%nat.
  rewrite (assoc_status_params ss 0 j). rewrite H. reflexivity.
Qed.

(* cosmosdb: the WHERE clause selects exactly the rows of the vault's swarm that the filter means *)
Lemma cs_where_matches : forall w f r, validate f = true ->
  exists c, q_where (fst (cs_build_search w f)) = Some c /\
            eval_cond (snd (cs_build_search w f)) c r = N.eqb (r_swarm r) w && matchesb f (bind_of_row r).
Proof.
  intros w f r Hv. apply validate_some in Hv. destruct f as [ids gs ss]. unfold matchesb, cs_build_search.
  cbn [f_ids f_groups f_statuses fst snd q_where bind_of_row pi_group pi_status] in *.
  fold status_eq.
  destruct (nonempty ids) eqn:Ei; destruct (nonempty gs) eqn:Eg; destruct (nonempty ss) eqn:Es;
    try (apply nonempty_false in Ei; subst ids); try (apply nonempty_false in Eg; subst gs);
    try (apply nonempty_false in Es; subst ss);
    cbn [add_clause negb orb andb app length];
    try solve [exfalso; destruct Hv as [H|[H|H]]; discriminate H];
    (eexists; split; [reflexivity|]); cbn [eval_cond col_of];
    try (rewrite status_clause; [| assumption | apply cs_lookup_status ]);
    unfold in_param; rewrite ?cs_named_lookup by (try discriminate; intros; discriminate);
    cbn [assoc pname_eqb app status_params]; unfold eq_param; cbn [lookup assoc pname_eqb b_named];
    rewrite ?andb_true_r, ?andb_assoc; reflexivity.
Qed.

(* ------------------------------------------------------------------ ORDER BY submit_time DESC *)

Definition row_newer (a b : row) : Prop := (r_submit b <= r_submit a)%Z.

Lemma insert_desc_perm : forall x l, Permutation (insert_desc x l) (x :: l).
Proof.
  intros x l. induction l as [|y l IH]; simpl; [reflexivity|].
  destruct (Z.ltb (r_submit x) (r_submit y)); [|reflexivity].
  rewrite IH. apply perm_swap.
Qed.

Lemma sort_desc_perm : forall l, Permutation (sort_desc l) l.
Proof.
  intros l. induction l as [|x l IH]; simpl; [reflexivity|].
  rewrite insert_desc_perm. constructor. exact IH.
Qed.

Lemma insert_desc_sorted : forall x l, StronglySorted row_newer l -> StronglySorted row_newer (insert_desc x l).
Proof.
  intros x l H. induction H as [|y l Hl IH Hy]; simpl.
  - constructor; constructor.
  - destruct (Z.ltb (r_submit x) (r_submit y)) eqn:E.
    + apply Z.ltb_lt in E. constructor; [exact IH|].
      rewrite Forall_forall. intros z Hz.
      apply (Permutation_in _ (insert_desc_perm x l)) in Hz. destruct Hz as [Hz|Hz].
      * subst z. unfold row_newer. lia.
      * rewrite Forall_forall in Hy. apply Hy. exact Hz.
    + apply Z.ltb_ge in E. constructor; [constructor; assumption|].
      constructor; [unfold row_newer; lia|].
      rewrite Forall_forall in *. intros z Hz. specialize (Hy z Hz). unfold row_newer in *. lia.
Qed.

Lemma sort_desc_sorted : forall l, StronglySorted row_newer (sort_desc l).
Proof.
  intros l. induction l as [|x l IH]; simpl; [constructor|]. apply insert_desc_sorted. exact IH.
Qed.

Lemma newest_first_map : forall l, StronglySorted row_newer l -> newest_first (map result_of_row l).
Proof.
  intros l H. unfold newest_first. induction H as [|y l Hl IH Hy]; simpl; constructor; [exact IH|].
  rewrite Forall_forall in *. intros z Hz. apply in_map_iff in Hz. destruct Hz as [r [Hr Hin]]. subst z.
  apply Hy. exact Hin.
Qed.

Lemma firstn_In : forall {A} n (l : list A) x, In x (firstn n l) -> In x l.
Proof.
  intros A n. induction n as [|n IH]; intros l x H; simpl in H; [contradiction|].
  destruct l as [|a l]; [contradiction|]. destruct H as [H|H]; [left; exact H | right; apply IH; exact H].
Qed.

Lemma newest_first_firstn : forall n l, newest_first l -> newest_first (firstn n l).
Proof.
  unfold newest_first. intros n l H. revert n. induction H as [|y l Hl IH Hy]; intros n; destruct n; simpl; try constructor.
  - apply IH.
  - rewrite Forall_forall in *. intros z Hz. apply Hy. eapply firstn_In. exact Hz.
Qed.

(* ------------------------------------------------------------------ Search *)

Lemma matchesb_matches : forall f id v, matchesb f (id, v) = true <-> matches f id v.
Proof.
  intros f id v. unfold matchesb, matches. cbn [fst snd]. rewrite !andb_true_iff, !orb_true_iff, !negb_true_iff.
  rewrite !nonempty_false, !existsb_eqb_In. tauto.
Qed.

Lemma x_id_result_of_row : forall l, map x_id (map result_of_row l) = map r_id l.
Proof. intros l. rewrite map_map. reflexivity. Qed.

Lemma search_result_spec : forall f tb (p : row -> bool),
  NoDup (map r_id tb) ->
  (forall r, In r tb -> p r = matchesb f (bind_of_row r)) ->
  search_spec f (map bind_of_row tb) (map result_of_row (sort_desc (filter p tb))).
Proof.
  intros f tb p ND Hp. assert (NDs : NoDup (dom (map bind_of_row tb))) by (rewrite dom_bind; exact ND).
  repeat split.
  - apply newest_first_map. apply sort_desc_sorted.
  - rewrite x_id_result_of_row. eapply Permutation_NoDup.
    + apply Permutation_sym. apply Permutation_map. apply sort_desc_perm.
    + apply filter_ids_NoDup. exact ND.
  - intros Hx. apply in_map_iff in Hx. destruct Hx as [r [Hr Hin]].
    apply (Permutation_in _ (sort_desc_perm _)) in Hin. apply filter_In in Hin. destruct Hin as [Hin Hpr].
    exists (r_id r), (snd (bind_of_row r)). split; [|split].
    + apply get_In; [exact NDs|]. change (r_id r, snd (bind_of_row r)) with (bind_of_row r). apply in_map. exact Hin.
    + apply matchesb_matches. change (r_id r, snd (bind_of_row r)) with (bind_of_row r). rewrite <- Hp by exact Hin. exact Hpr.
    + subst x. reflexivity.
  - intros [id [v [Hg [Hm Hx]]]]. apply get_In in Hg; [|exact NDs]. apply in_map_iff in Hg.
    destruct Hg as [r [Hb Hin]]. apply in_map_iff. exists r. split.
    + subst x. rewrite <- Hb. reflexivity.
    + apply (Permutation_in _ (Permutation_sym (sort_desc_perm _))). apply filter_In. split; [exact Hin|].
      rewrite Hp by exact Hin. rewrite Hb. apply matchesb_matches. exact Hm.
Qed.

Lemma produce_some : forall conv rows, produce conv (Some rows) = map SItem (map conv rows) ++ [SClose].
Proof. intros conv rows. unfold produce. rewrite map_map. reflexivity. Qed.

Lemma filter_ext_in : forall {A} (p q : A -> bool) l, (forall x, In x l -> p x = q x) -> filter p l = filter q l.
Proof.
  intros A p q l H. induction l as [|a l IH]; simpl; [reflexivity|].
  rewrite (H a) by (left; reflexivity). rewrite IH; [reflexivity|]. intros x Hx. apply H. right. exact Hx.
Qed.

Lemma sqv_search_correct : forall f tb sp, sq_inv tb sp ->
  (validate f = false -> sqv_search f tb = None) /\
  (validate f = true -> exists xs, sqv_search f tb = Some (map SItem xs ++ [SClose]) /\ search_spec f sp xs).
Proof.
  intros f tb sp [Hm [ND H0]]. subst sp. unfold sqv_search. split; intros Hv; rewrite Hv; [reflexivity|].
  destruct (sq_where_matches f) with (r := {| r_id := 0; r_group := 0; r_name := 0; r_descr := 0; r_submit := 0; r_status := 0; r_start := 0; r_end := 0; r_swarm := 0 |})
    as [c [Hc _]]; [exact Hv|].
  assert (Ho : q_order (fst (sq_build_search f)) = OSubmitDesc) by reflexivity.
  assert (Hl : q_limit (fst (sq_build_search f)) = None) by reflexivity.
  destruct (sq_build_search f) as [q b] eqn:Eb. cbn [fst snd] in *.
  exists (map result_of_row (sort_desc (filter (eval_cond b c) tb))). split.
  - unfold run_query. rewrite Hc, Ho, Hl. cbn [apply_limit apply_order]. rewrite produce_some. reflexivity.
  - apply search_result_spec; [exact ND|]. intros r _.
    destruct (sq_where_matches f r Hv) as [c' [Hc' He]]. rewrite Eb in Hc', He. cbn [fst snd] in *.
    rewrite Hc in Hc'. inversion Hc'. subst c'. exact He.
Qed.

Lemma cosmos_search_correct : forall w f s sp, cs_inv w s sp ->
  (validate f = false -> cosmos_search w f s = None) /\
  (validate f = true -> exists xs, cosmos_search w f s = Some (map SItem xs ++ [SClose]) /\ search_spec f sp xs).
Proof.
  intros w f s sp [Hm [Hp [ND [H0 Hw]]]]. subst sp. unfold cosmos_search. split; intros Hv; rewrite Hv; [reflexivity|].
  destruct (cs_where_matches w f) with (r := {| r_id := 0; r_group := 0; r_name := 0; r_descr := 0; r_submit := 0; r_status := 0; r_start := 0; r_end := 0; r_swarm := 0 |})
    as [c [Hc _]]; [exact Hv|].
  assert (Ho : q_order (fst (cs_build_search w f)) = OSubmitDesc) by reflexivity.
  assert (Hl : q_limit (fst (cs_build_search w f)) = None) by reflexivity.
  destruct (cs_build_search w f) as [q b] eqn:Eb. cbn [fst snd] in *.
  exists (map result_of_row (sort_desc (filter (eval_cond b c) (cs_search s)))). split.
  - unfold run_query. rewrite Hc, Ho, Hl. cbn [apply_limit apply_order]. rewrite produce_some. reflexivity.
  - apply search_result_spec; [exact ND|]. intros r Hr.
    destruct (cs_where_matches w f r Hv) as [c' [Hc' He]]. rewrite Eb in Hc', He. cbn [fst snd] in *.
    rewrite Hc in Hc'. inversion Hc'. subst c'. rewrite He.
    rewrite Forall_forall in Hw. rewrite (Hw r Hr). rewrite N.eqb_refl. reflexivity.
Qed.

(* ------------------------------------------------------------------ List *)

Lemma filter_all : forall {A} (p : A -> bool) l, (forall x, In x l -> p x = true) -> filter p l = l.
Proof.
  intros A p l H. induction l as [|a l IH]; simpl; [reflexivity|].
  rewrite (H a) by (left; reflexivity). rewrite IH; [reflexivity|]. intros x Hx. apply H. right. exact Hx.
Qed.

Lemma results_of_store : forall tb, map result_of (map bind_of_row tb) = map result_of_row tb.
Proof. intros tb. rewrite map_map. reflexivity. Qed.

Lemma list_result_spec : forall limit tb,
  list_spec limit (map bind_of_row tb) (take limit (map result_of_row (sort_desc tb))).
Proof.
  intros limit tb. exists (map result_of_row (sort_desc tb)). repeat split.
  - rewrite results_of_store. apply Permutation_map. apply sort_desc_perm.
  - apply newest_first_map. apply sort_desc_sorted.
Qed.

Lemma sqv_list_correct : forall limit tb sp, sq_inv tb sp ->
  exists xs, sqv_list limit tb = map SItem xs ++ [SClose] /\ list_spec limit sp xs.
Proof.
  intros limit tb sp [Hm _]. subst sp. exists (take limit (map result_of_row (sort_desc tb))).
  split; [|apply list_result_spec].
  unfold sqv_list, sq_list_query, take. destruct (Z.ltb 0 limit) eqn:E.
  - apply Z.ltb_lt in E. assert (El : Z.leb limit 0 = false) by (apply Z.leb_gt; exact E). rewrite El.
    unfold run_query. cbn [q_where q_order q_limit apply_order apply_limit lookup b_named assoc pname_eqb].
    rewrite filter_all by reflexivity. rewrite produce_some. rewrite Z_N_nat. rewrite firstn_map. reflexivity.
  - apply Z.ltb_ge in E. assert (El : Z.leb limit 0 = true) by (apply Z.leb_le; exact E). rewrite El.
    unfold run_query. cbn [q_where q_order q_limit apply_order apply_limit].
    rewrite filter_all by reflexivity. rewrite produce_some. reflexivity.
Qed.

Lemma cosmos_list_correct : forall w limit s sp, cs_inv w s sp ->
  exists xs, cosmos_list w limit s = map SItem xs ++ [SClose] /\ list_spec limit sp xs.
Proof.
  intros w limit s sp [Hm [_ [_ [_ Hw]]]]. subst sp. exists (take limit (map result_of_row (sort_desc (cs_search s)))).
  split; [|apply list_result_spec].
  assert (Hf : forall b, lookup b PSwarm = Some (PV w) -> filter (eval_cond b (CEq CSwarm PSwarm)) (cs_search s) = cs_search s).
  { intros b Hb. apply filter_all. intros r Hr. simpl. unfold eq_param. rewrite Hb.
    rewrite Forall_forall in Hw. rewrite (Hw r Hr). apply N.eqb_refl. }
  unfold cosmos_list, cs_list_query, take. destruct (Z.ltb 0 limit) eqn:E.
  - apply Z.ltb_lt in E. assert (El : Z.leb limit 0 = false) by (apply Z.leb_gt; exact E). rewrite El.
    unfold run_query. cbn [q_where q_order q_limit apply_order apply_limit lookup b_named assoc pname_eqb].
    rewrite Hf by reflexivity. rewrite produce_some. rewrite Z_N_nat. rewrite firstn_map. reflexivity.
  - apply Z.ltb_ge in E. assert (El : Z.leb limit 0 = true) by (apply Z.leb_le; exact E). rewrite El.
    unfold run_query. cbn [q_where q_order q_limit apply_order apply_limit].
    rewrite Hf by reflexivity. rewrite produce_some. reflexivity.
Qed.

(* ------------------------------------------------------------------ Exists; the store's domain on the history *)

Lemma dom_put_present : forall sp k v x, get sp k = Some x -> dom (put k v sp) = dom sp.
Proof.
  intros sp k v x. induction sp as [|[k' y] sp IH]; simpl; intros H; [discriminate|].
  destruct (N.eqb k' k) eqn:E; simpl; [reflexivity|]. rewrite IH by exact H. reflexivity.
Qed.

Lemma In_dom_del : forall sp k id, In id (dom (del k sp)) <-> In id (dom sp) /\ id <> k.
Proof.
  intros sp k id. induction sp as [|[k' y] sp IH]; simpl; [tauto|].
  destruct (N.eqb k' k) eqn:E.
  - apply N.eqb_eq in E. subst k'. rewrite IH. split; [tauto|]. intros [[H|H] Hn]; [congruence | tauto].
  - apply N.eqb_neq in E. simpl. rewrite IH. split.
    + intros [H|[H Hn]]; [subst; tauto | tauto].
    + intros [[H|H] Hn]; tauto.
Qed.

Lemma spec_run_snoc : forall be ops o, spec_run be (ops ++ [o]) = spec_step be (spec_run be ops) o.
Proof. intros. unfold spec_run. apply fold_left_snoc. Qed.

Lemma spec_dom_nonzero : forall be ops, ~ In 0%N (dom (spec_run be ops)).
Proof.
  intros be ops. destruct be.
  - destruct (sqv_run_inv ops) as [Hm [_ H0]]. rewrite <- Hm, dom_bind. exact H0.
  - destruct (cs_run_inv 0 ops) as [Hm [_ [_ [H0 _]]]]. rewrite <- Hm, dom_bind. exact H0.
Qed.

Lemma snoc_split : forall {A} (ops pre post : list A) o x,
  ops ++ [o] = pre ++ x :: post ->
  (post = [] /\ pre = ops /\ x = o) \/ exists post', post = post' ++ [o] /\ ops = pre ++ x :: post'.
Proof.
  intros A ops pre post o x H. induction post as [|y post' _] using rev_ind.
  - left. apply app_inj_tail in H. destruct H; subst. auto.
  - right. exists post'.
    replace (pre ++ x :: post' ++ [y]) with ((pre ++ x :: post') ++ [y]) in H by (rewrite <- app_assoc; reflexivity).
    apply app_inj_tail in H. destruct H; subst. auto.
Qed.

Lemma cnd_snoc_keep : forall ops o id, created_not_deleted ops id -> o <> ODelete id -> created_not_deleted (ops ++ [o]) id.
Proof.
  intros ops o id [Hn [pre [r [post [He [Hr Hd]]]]]] Ho. split; [exact Hn|].
  exists pre, r, (post ++ [o]). repeat split.
  - rewrite He. rewrite <- app_assoc. reflexivity.
  - exact Hr.
  - rewrite in_app_iff. simpl. intros [H|[H|[]]]; [contradiction | congruence].
Qed.

Lemma cnd_snoc_inv : forall ops o id, created_not_deleted (ops ++ [o]) id ->
  (exists r, o = OCreate r /\ r_id r = id /\ id <> 0%N) \/ (created_not_deleted ops id /\ o <> ODelete id).
Proof.
  intros ops o id [Hn [pre [r [post [He [Hr Hd]]]]]]. apply snoc_split in He.
  destruct He as [[Hp [Hpre Hx]] | [post' [Hp Hops]]].
  - left. exists r. subst. auto.
  - right. subst post. rewrite in_app_iff in Hd. simpl in Hd. split.
    + split; [exact Hn|]. exists pre, r, post'. tauto.
    + intros H. apply Hd. right. left. exact H.
Qed.

Lemma dom_history : forall be ops id, In id (dom (spec_run be ops)) <-> created_not_deleted ops id.
Proof.
  intros be ops. induction ops as [|o ops IH] using rev_ind; intros id.
  - simpl. split; [intros [] |]. intros [_ [pre [r [post [He _]]]]]. destruct pre; discriminate.
  - rewrite spec_run_snoc. pose proof (spec_dom_nonzero be ops) as Hz. set (sp := spec_run be ops) in *.
    destruct o as [r | k st sub start fin | k]; simpl.
    + (* create *)
      destruct (N.eqb (r_id r) 0) eqn:E0.
      * apply N.eqb_eq in E0. rewrite IH. split.
        -- intros H. apply cnd_snoc_keep; [exact H | discriminate].
        -- intros H. apply cnd_snoc_inv in H. destruct H as [[r' [Hr' [Hid Hn]]] | [H _]]; [|exact H].
           inversion Hr'. subst r'. congruence.
      * apply N.eqb_neq in E0. destruct (get sp (r_id r)) as [x|] eqn:G.
        -- split.
           ++ intros H. apply cnd_snoc_keep; [apply IH; exact H | discriminate].
           ++ intros H. apply cnd_snoc_inv in H. destruct H as [[r' [Hr' [Hid Hn]]] | [H _]]; [|apply IH; exact H].
              inversion Hr'. subst r'. subst id. apply get_In_dom. congruence.
        -- rewrite put_absent by exact G. unfold dom. rewrite map_app. simpl. rewrite in_app_iff. simpl. split.
           ++ intros [H|[H|[]]].
              ** apply cnd_snoc_keep; [apply IH; exact H | discriminate].
              ** subst id. split; [exact E0|]. exists ops, r, []. repeat split. intros [].
           ++ intros H. apply cnd_snoc_inv in H. destruct H as [[r' [Hr' [Hid Hn]]] | [H _]].
              ** inversion Hr'. subst r'. right. left. exact Hid.
              ** left. apply IH. exact H.
    + (* update *)
      assert (Hd : dom (match get sp k with Some v => put k (info_update be st sub start fin v) sp | None => sp end) = dom sp).
      { destruct (get sp k) eqn:G; [eapply dom_put_present; exact G | reflexivity]. }
      rewrite Hd. rewrite IH. split.
      * intros H. apply cnd_snoc_keep; [exact H | discriminate].
      * intros H. apply cnd_snoc_inv in H. destruct H as [[r' [Hr' _]] | [H _]]; [discriminate | exact H].
    + (* delete *)
      rewrite In_dom_del. rewrite IH. split.
      * intros [H Hn]. apply cnd_snoc_keep; [exact H | congruence].
      * intros H. apply cnd_snoc_inv in H. destruct H as [[r' [Hr' _]] | [H Hn]]; [discriminate|].
        split; [exact H | congruence].
Qed.

Lemma sq_exists_correct : forall tb sp id, sq_inv tb sp -> (sq_exists tb id = true <-> In id (dom sp)).
Proof.
  intros tb sp id [Hm _]. subst sp. rewrite sq_exists_existsb, exists_get. apply get_In_dom.
Qed.

Lemma cs_exists_correct : forall w s sp id, cs_inv w s sp -> (cs_exists s id = true <-> In id (dom sp)).
Proof.
  intros w s sp id [Hm [Hp _]]. subst sp. rewrite (cs_exists_existsb _ _ Hp), exists_get. apply get_In_dom.
Qed.

(* ------------------------------------------------------------------ what recovery relies on *)

Definition running_filter : filters := {| f_ids := []; f_groups := []; f_statuses := [status_code Running] |}.

Lemma running_found_generic : forall sp xs id v,
  search_spec running_filter sp xs -> get sp id = Some v -> pi_status v = status_code Running ->
  In id (map x_id xs).
Proof.
  intros sp xs id v [_ [_ H]] Hg Hs. apply in_map_iff. exists (result_of (id, v)). split; [reflexivity|].
  apply H. exists id, v. split; [exact Hg|]. split; [|reflexivity].
  unfold matches. simpl. split; [left; reflexivity|]. split; [left; reflexivity|]. right. left. symmetry. exact Hs.
Qed.

(* ------------------------------------------------------------------ the monitors of QueryCheck.v are the specification *)

Lemma result_eqb_eq : forall a b, result_eqb a b = true <-> a = b.
Proof.
  intros [a1 a2 a3 a4 a5 a6 a7 a8] [b1 b2 b3 b4 b5 b6 b7 b8]. unfold result_eqb. simpl.
  rewrite !andb_true_iff, !N.eqb_eq, !Z.eqb_eq. split.
  - intros [[[[[[[H1 H2] H3] H4] H5] H6] H7] H8]. congruence.
  - intros H. inversion H. tauto.
Qed.

Lemma mem_result_In : forall x l, mem_result x l = true <-> In x l.
Proof.
  intros x l. unfold mem_result. rewrite existsb_exists. split.
  - intros [y [Hy He]]. apply result_eqb_eq in He. subst. exact Hy.
  - intros H. exists x. split; [exact H | apply result_eqb_eq; reflexivity].
Qed.

Lemma nodupb_NoDup : forall l, nodupb l = true <-> NoDup l.
Proof.
  intros l. induction l as [|x l IH]; simpl.
  - split; [constructor | reflexivity].
  - rewrite andb_true_iff, negb_true_iff, IH. split.
    + intros [H1 H2]. constructor; [|exact H2]. intros Hin. apply existsb_eqb_In in Hin. congruence.
    + intros H. inversion H as [|? ? Hx Hl]; subst. split; [|exact Hl].
      destruct (existsb (N.eqb x) l) eqn:E; [|reflexivity]. apply existsb_eqb_In in E. contradiction.
Qed.

Lemma sorted_descb_spec : forall l, sorted_descb l = true <-> newest_first l.
Proof.
  intros l. unfold newest_first. induction l as [|x l IH]; simpl.
  - split; [constructor | reflexivity].
  - rewrite andb_true_iff, IH, forallb_forall. split.
    + intros [H1 H2]. constructor; [exact H2|]. rewrite Forall_forall. intros y Hy. apply Z.leb_le. apply H1. exact Hy.
    + intros H. inversion H as [|? ? Hl Hx]; subst. split; [|exact Hl].
      rewrite Forall_forall in Hx. intros y Hy. apply Z.leb_le. apply Hx. exact Hy.
Qed.

Lemma NoDup_ids_results : forall xs : list result, NoDup (map x_id xs) -> NoDup xs.
Proof. intros xs. apply NoDup_map_inv. Qed.

Lemma x_id_result_of : forall sp, map x_id (map result_of sp) = dom sp.
Proof. intros sp. unfold dom. rewrite map_map. reflexivity. Qed.

Lemma filter_dom_NoDup : forall (p : N * pinfo -> bool) sp, NoDup (dom sp) -> NoDup (dom (filter p sp)).
Proof.
  intros p sp. unfold dom. induction sp as [|a sp IH]; simpl; intros ND; [constructor|].
  inversion ND as [|? ? Ha ND']; subst. destruct (p a); simpl.
  - constructor; [|apply IH; exact ND']. intros H. apply Ha. apply in_map_iff in H.
    destruct H as [x [Hx Hin]]. apply filter_In in Hin. apply in_map_iff. exists x. tauto.
  - apply IH. exact ND'.
Qed.

Lemma expected_search_In : forall f sp x, NoDup (dom sp) ->
  (In x (expected_search f sp) <-> exists id v, get sp id = Some v /\ matches f id v /\ x = result_of (id, v)).
Proof.
  intros f sp x ND. unfold expected_search. rewrite in_map_iff. split.
  - intros [[id v] [Hx Hin]]. apply filter_In in Hin. destruct Hin as [Hin Hm]. exists id, v.
    split; [apply get_In; assumption|]. split; [apply matchesb_matches; exact Hm | symmetry; exact Hx].
  - intros [id [v [Hg [Hm Hx]]]]. exists (id, v). split; [symmetry; exact Hx|]. apply filter_In.
    split; [apply get_In; assumption | apply matchesb_matches; exact Hm].
Qed.

Lemma expected_search_NoDup : forall f sp, NoDup (dom sp) -> NoDup (map x_id (expected_search f sp)).
Proof.
  intros f sp ND. unfold expected_search. rewrite x_id_result_of. apply filter_dom_NoDup. exact ND.
Qed.

(* the Search monitor accepts exactly the item lists the specification admits *)
Lemma search_monitor_exact : forall f sp xs, NoDup (dom sp) ->
  (search_items_ok true (expected_search f sp) xs = true <-> search_spec f sp xs).
Proof.
  intros f sp xs ND. unfold search_items_ok, same_set, search_spec. simpl.
  rewrite !andb_true_iff, nodupb_NoDup, sorted_descb_spec, forallb_forall, Nat.eqb_eq. split.
  - intros [[[Hn Hin] Hlen] Hs]. split; [exact Hs|]. split; [exact Hn|]. intros x.
    rewrite <- (expected_search_In f sp x ND). split.
    + intros H. apply mem_result_In. apply Hin. exact H.
    + revert x. apply NoDup_length_incl.
      * apply NoDup_ids_results. exact Hn.
      * rewrite Hlen. apply le_n.
      * intros y Hy. apply mem_result_In. apply Hin. exact Hy.
  - intros [Hs [Hn H]]. repeat split; try assumption.
    + intros x Hx. apply mem_result_In. apply (expected_search_In f sp x ND). apply H. exact Hx.
    + apply Nat.le_antisymm.
      * apply NoDup_incl_length; [apply NoDup_ids_results; exact Hn|].
        intros x Hx. apply (expected_search_In f sp x ND). apply H. exact Hx.
      * apply NoDup_incl_length; [apply NoDup_ids_results; apply expected_search_NoDup; exact ND|].
        intros x Hx. apply H. apply (expected_search_In f sp x ND). exact Hx.
Qed.

(* ---- List monitor *)

Definition row_of_result (x : result) : row :=
  {| r_id := x_id x; r_group := x_group x; r_name := x_name x; r_descr := x_descr x;
     r_submit := x_submit x; r_status := x_status x; r_start := x_start x; r_end := x_end x; r_swarm := 0 |}.

Lemma result_row_id : forall x, result_of_row (row_of_result x) = x.
Proof. intros []. reflexivity. Qed.

Definition sort_results (l : list result) : list result := map result_of_row (sort_desc (map row_of_result l)).

Lemma sort_results_perm : forall l, Permutation (sort_results l) l.
Proof.
  intros l. unfold sort_results.
  rewrite (Permutation_map result_of_row (sort_desc_perm (map row_of_result l))).
  rewrite map_map. rewrite (map_ext _ (fun x => x) result_row_id). rewrite map_id. reflexivity.
Qed.

Lemma sort_results_sorted : forall l, newest_first (sort_results l).
Proof. intros l. apply newest_first_map. apply sort_desc_sorted. Qed.

Lemma newest_first_app : forall a b, newest_first a -> newest_first b ->
  (forall x y, In x a -> In y b -> (x_submit y <= x_submit x)%Z) -> newest_first (a ++ b).
Proof.
  unfold newest_first. intros a b Ha Hb H. induction Ha as [|x a Ha IH Hx]; simpl; [exact Hb|].
  constructor.
  - apply IH. intros u v Hu Hv. apply H; [right; exact Hu | exact Hv].
  - rewrite Forall_forall in *. intros y Hy. apply in_app_iff in Hy. destruct Hy as [Hy|Hy].
    + apply Hx. exact Hy.
    + apply H; [left; reflexivity | exact Hy].
Qed.

Lemma newest_first_app_inv : forall a b, newest_first (a ++ b) ->
  forall x y, In x a -> In y b -> (x_submit y <= x_submit x)%Z.
Proof.
  unfold newest_first. intros a b. induction a as [|u a IH]; simpl; intros H x y Hx Hy; [contradiction|].
  inversion H as [|? ? Hs Hu]; subst. destruct Hx as [Hx|Hx].
  - subst x. rewrite Forall_forall in Hu. apply Hu. apply in_app_iff. right. exact Hy.
  - apply IH; assumption.
Qed.

Lemma NoDup_app_disjoint : forall {A} (a b : list A), NoDup a -> NoDup b -> (forall x, In x a -> ~ In x b) -> NoDup (a ++ b).
Proof.
  intros A a b Ha Hb H. induction Ha as [|x a Hx Ha IH]; simpl; [exact Hb|]. constructor.
  - rewrite in_app_iff. intros [Hin|Hin]; [contradiction|]. apply (H x); [left; reflexivity | exact Hin].
  - apply IH. intros y Hy. apply H. right. exact Hy.
Qed.

Lemma split_perm : forall xs all : list result, NoDup xs -> NoDup all -> incl xs all ->
  Permutation (xs ++ filter (fun y => negb (mem_result y xs)) all) all.
Proof.
  intros xs all Hx Ha Hi. apply NoDup_Permutation.
  - apply NoDup_app_disjoint; [exact Hx | apply NoDup_filter; exact Ha |].
    intros x Hin Hf. apply filter_In in Hf. destruct Hf as [_ Hf]. apply negb_true_iff in Hf.
    apply mem_result_In in Hin. congruence.
  - exact Ha.
  - intros x. rewrite in_app_iff, filter_In, negb_true_iff. split.
    + intros [H|[H _]]; [apply Hi; exact H | exact H].
    + intros H. destruct (mem_result x xs) eqn:E; [left; apply mem_result_In; exact E | right; split; [exact H | reflexivity]].
Qed.

Lemma list_monitor_sound : forall limit all xs, NoDup (map x_id all) ->
  list_items_ok true limit all xs = true ->
  exists l, Permutation l all /\ newest_first l /\ xs = take limit l.
Proof.
  intros limit all xs NDa H. unfold list_items_ok in H. simpl in H.
  rewrite !andb_true_iff in H. destruct H as [[[Hn Hin] Hlen] [Hs Hrest]].
  apply nodupb_NoDup in Hn. apply NoDup_ids_results in Hn. apply NoDup_ids_results in NDa.
  rewrite forallb_forall in Hin, Hrest. apply sorted_descb_spec in Hs. apply Nat.eqb_eq in Hlen.
  assert (Hi : incl xs all) by (intros x Hx; apply mem_result_In; apply Hin; exact Hx).
  set (rest := filter (fun y => negb (mem_result y xs)) all).
  pose proof (split_perm xs all Hn NDa Hi) as Hp. fold rest in Hp.
  assert (Hl : (length xs + length rest = length all)%nat) by (rewrite <- app_length; apply Permutation_length; exact Hp).
  exists (xs ++ sort_results rest). split; [|split].
  - rewrite sort_results_perm. exact Hp.
  - apply newest_first_app; [exact Hs | apply sort_results_sorted |].
    intros x y Hx Hy. apply (Permutation_in _ (sort_results_perm rest)) in Hy.
    unfold rest in Hy. apply filter_In in Hy. destruct Hy as [Hy Hm]. apply negb_true_iff in Hm.
    specialize (Hrest y Hy). rewrite Hm in Hrest. simpl in Hrest. rewrite forallb_forall in Hrest.
    apply Z.leb_le. apply Hrest. exact Hx.
  - assert (Hnil : length xs = length all -> xs ++ sort_results rest = xs).
    { intros He. assert (length rest = 0)%nat by lia. destruct rest; [|discriminate]. apply app_nil_r. }
    unfold take. destruct (Z.leb limit 0) eqn:El.
    + rewrite Hnil by exact Hlen. reflexivity.
    + destruct (Nat.min_spec (Z.to_nat limit) (length all)) as [[Hlt Hm]|[Hge Hm]]; rewrite Hm in Hlen.
      * rewrite <- Hlen. rewrite firstn_app, Nat.sub_diag, firstn_all. simpl. rewrite app_nil_r. reflexivity.
      * rewrite Hnil by exact Hlen. rewrite firstn_all2 by lia. reflexivity.
Qed.

Lemma NoDup_firstn : forall {A} n (l : list A), NoDup l -> NoDup (firstn n l).
Proof.
  intros A n. induction n as [|n IH]; intros l H; simpl; [constructor|].
  destruct l as [|a l]; [constructor|]. inversion H as [|? ? Ha Hl]; subst. constructor.
  - intros Hin. apply Ha. eapply firstn_In. exact Hin.
  - apply IH. exact Hl.
Qed.

Lemma list_monitor_complete : forall limit all xs l, NoDup (map x_id all) ->
  Permutation l all -> newest_first l -> xs = take limit l ->
  list_items_ok true limit all xs = true.
Proof.
  intros limit all xs l NDa Hp Hs Hx.
  assert (NDl : NoDup (map x_id l)).
  { eapply Permutation_NoDup; [apply Permutation_sym; apply Permutation_map; exact Hp | exact NDa]. }
  assert (Hsub : exists n, xs = firstn n l /\ length xs = (if Z.leb limit 0 then length all else Nat.min (Z.to_nat limit) (length all))).
  { subst xs. unfold take. rewrite <- (Permutation_length Hp). destruct (Z.leb limit 0).
    - exists (length l). rewrite firstn_all. auto.
    - exists (Z.to_nat limit). split; [reflexivity | apply firstn_length]. }
  destruct Hsub as [n [Hn Hlen]]. clear Hx. subst xs.
  unfold list_items_ok. simpl. rewrite !andb_true_iff. repeat split.
  - apply nodupb_NoDup. rewrite <- firstn_map. apply NoDup_firstn. exact NDl.
  - apply forallb_forall. intros x Hx. apply mem_result_In. apply (Permutation_in _ Hp). eapply firstn_In. exact Hx.
  - apply Nat.eqb_eq. exact Hlen.
  - apply sorted_descb_spec. apply newest_first_firstn. exact Hs.
  - apply forallb_forall. intros y Hy. apply (Permutation_in _ (Permutation_sym Hp)) in Hy.
    rewrite <- (firstn_skipn n l) in Hy. apply in_app_iff in Hy. destruct Hy as [Hy|Hy].
    + apply orb_true_iff. left. apply mem_result_In. exact Hy.
    + apply orb_true_iff. right. apply forallb_forall. intros x Hx. apply Z.leb_le.
      rewrite <- (firstn_skipn n l) in Hs. eapply newest_first_app_inv; eassumption.
Qed.

(* the List monitor accepts exactly the item lists the specification admits *)
Lemma list_monitor_exact : forall limit sp xs, NoDup (dom sp) ->
  (list_items_ok true limit (map result_of sp) xs = true <-> list_spec limit sp xs).
Proof.
  intros limit sp xs ND. assert (NDa : NoDup (map x_id (map result_of sp))) by (rewrite x_id_result_of; exact ND).
  split.
  - intros H. apply list_monitor_sound; assumption.
  - intros [l [Hp [Hs Hx]]]. eapply list_monitor_complete; eassumption.
Qed.

(* ------------------------------------------------------------------ assembly: the statements of props/C15.v *)

Lemma spec_run_NoDup : forall be ops, NoDup (dom (spec_run be ops)).
Proof.
  intros be ops. destruct be.
  - destruct (sqv_run_inv ops) as [Hm [ND _]]. rewrite <- Hm, dom_bind. exact ND.
  - destruct (cs_run_inv 0 ops) as [Hm [_ [ND _]]]. rewrite <- Hm, dom_bind. exact ND.
Qed.

Lemma search_spec_perm : forall f sp xs, NoDup (dom sp) -> search_spec f sp xs ->
  Permutation xs (map result_of (filter (matchesb f) sp)).
Proof.
  intros f sp xs ND [_ [Hn H]]. apply NoDup_Permutation.
  - apply NoDup_ids_results. exact Hn.
  - apply NoDup_ids_results. apply (expected_search_NoDup f sp ND).
  - intros x. rewrite H. symmetry. apply (expected_search_In f sp x ND).
Qed.

(* ------------------------------------------------------------------ sqlite: the raw columns and their decoded view *)

Definition sq_view (r : row) : row :=
  set_state (r_status r) (sq_time_of_col (r_start r)) (sq_time_of_col (r_end r)) r.

Lemma restore_wrap : forall t, representable t -> sq_time_of_col (wrap64 t) = sq_time t.
Proof.
  intros t [Hz | Hr].
  - subst t. vm_compute. reflexivity.
  - assert (H63 : (2 ^ 63 = 9223372036854775808)%Z) by reflexivity.
    assert (H64 : (2 ^ 64 = 18446744073709551616)%Z) by reflexivity.
    unfold wrap64. rewrite H63, H64 in *. rewrite Z.mod_small by lia.
    replace (t + 9223372036854775808 - 9223372036854775808)%Z with t by lia.
    unfold sq_time_of_col, sq_time. destruct (Z.leb t 0) eqn:E1; destruct (Z.ltb 0 t) eqn:E2; try reflexivity.
    + apply Z.leb_le in E1. apply Z.ltb_lt in E2. lia.
    + apply Z.leb_gt in E1. apply Z.ltb_ge in E2. lia.
Qed.

Lemma sq_result_view : forall r, sq_result_of_row r = result_of_row (sq_view r).
Proof. intros r. reflexivity. Qed.

Lemma existsb_view : forall id tb, existsb (has_id id) (map sq_view tb) = existsb (has_id id) tb.
Proof. intros id tb. induction tb as [|r tb IH]; simpl; [reflexivity|]. rewrite IH. reflexivity. Qed.

Lemma sq_exists_view : forall tb id, sq_exists (map sq_view tb) id = sq_exists tb id.
Proof. intros tb id. rewrite !sq_exists_existsb. apply existsb_view. Qed.

Lemma filter_map_comm : forall {A B} (f : A -> B) (p : B -> bool) l,
  filter p (map f l) = map f (filter (fun x => p (f x)) l).
Proof.
  intros A B f p l. induction l as [|a l IH]; simpl; [reflexivity|].
  destruct (p (f a)); simpl; rewrite IH; reflexivity.
Qed.

Lemma view_cols : forall r, representable (r_start r) -> representable (r_end r) ->
  sq_view (set_swarm 0 (sq_cols r)) = set_swarm 0 (sqv_cols r).
Proof.
  intros r Hs He. unfold sq_view, sq_cols, sqv_cols, set_swarm, set_state.
  cbn [r_id r_group r_name r_descr r_submit r_status r_start r_end r_swarm].
  rewrite !restore_wrap by assumption. reflexivity.
Qed.

Lemma clamp_times : forall r, r_start (sq_clamp r) = r_start r /\ r_end (sq_clamp r) = r_end r.
Proof. intros r. unfold sq_clamp. destruct (Z.ltb (r_submit r) 0); split; reflexivity. Qed.

Lemma view_create_row : forall r, representable (r_start r) -> representable (r_end r) ->
  sq_view (set_swarm 0 (sq_cols (sq_clamp r))) = set_swarm 0 (sqv_cols (sq_clamp r)).
Proof.
  intros r Hs He. destruct (clamp_times r) as [H1 H2]. apply view_cols; [rewrite H1 | rewrite H2]; assumption.
Qed.

Lemma view_step : forall tb o, op_representable o ->
  map sq_view (fst (sq_step tb o)) = fst (sqv_step (map sq_view tb) o).
Proof.
  intros tb o Ho. destruct o as [r | id st sub start fin | id]; simpl in *.
  - unfold sq_create, sqv_create. destruct (N.eqb (r_id r) 0); [reflexivity|].
    rewrite sq_exists_view. destruct (sq_exists tb (r_id r)); simpl; [reflexivity|].
    rewrite map_app. simpl. destruct Ho as [Hs He]. rewrite view_create_row by assumption. reflexivity.
  - destruct Ho as [Hs He]. rewrite !map_map. apply map_ext. intros r.
    change (has_id id (sq_view r)) with (has_id id r). destruct (has_id id r); [|reflexivity].
    unfold sq_view, set_state. cbn [r_id r_group r_name r_descr r_submit r_status r_start r_end r_swarm].
    rewrite !restore_wrap by assumption. reflexivity.
  - unfold sq_delete. rewrite sq_exists_view. destruct (sq_exists tb id); simpl; [|reflexivity].
    rewrite filter_map_comm. reflexivity.
Qed.

Lemma view_run : forall ops, Forall op_representable ops -> map sq_view (sq_run ops) = sqv_run ops.
Proof.
  intros ops. induction ops as [|o ops IH] using rev_ind; intros H; [reflexivity|].
  apply Forall_app in H. destruct H as [H1 H2]. inversion H2; subst.
  unfold sq_run, sqv_run. rewrite !fold_left_snoc. rewrite view_step by assumption.
  f_equal. f_equal. apply IH. exact H1.
Qed.

Lemma eval_view : forall b c r, eval_cond b c (sq_view r) = eval_cond b c r.
Proof.
  intros b c r. induction c as [|cl p|cl ps|p cl|x IHx y IHy|x IHx y IHy]; simpl;
    try rewrite IHx, IHy; try reflexivity; destruct cl; reflexivity.
Qed.

Lemma insert_view : forall x l, insert_desc (sq_view x) (map sq_view l) = map sq_view (insert_desc x l).
Proof.
  intros x l. induction l as [|y l IH]; simpl; [reflexivity|].
  destruct (Z.ltb (r_submit x) (r_submit y)); simpl; [rewrite IH|]; reflexivity.
Qed.

Lemma sort_view : forall l, sort_desc (map sq_view l) = map sq_view (sort_desc l).
Proof.
  intros l. induction l as [|x l IH]; simpl; [reflexivity|]. rewrite IH. apply insert_view.
Qed.

Lemma produce_view : forall q b tb, q_order q = OSubmitDesc ->
  produce result_of_row (run_query q b (map sq_view tb)) = produce (sq_result_of_row) (run_query q b tb).
Proof.
  intros q b tb Ho. unfold run_query. destruct (q_where q) as [c|]; [|reflexivity]. rewrite Ho. cbn [apply_order].
  rewrite !produce_some. f_equal. f_equal.
  rewrite filter_map_comm. rewrite (filter_ext _ _ (eval_view b c)). rewrite sort_view.
  unfold apply_limit. destruct (q_limit q) as [p|].
  - destruct (lookup b p) as [[n|vs]|]; rewrite ?firstn_map, map_map; apply map_ext; intros r; symmetry; apply sq_result_view.
  - rewrite map_map. apply map_ext. intros r. symmetry. apply sq_result_view.
Qed.

Lemma search_view : forall f tb, sq_search f tb = sqv_search f (map sq_view tb).
Proof.
  intros f tb. unfold sq_search, sqv_search. destruct (validate f); [|reflexivity].
  assert (Ho : q_order (fst (sq_build_search f)) = OSubmitDesc) by reflexivity.
  destruct (sq_build_search f) as [q b]. cbn [fst] in Ho. rewrite produce_view by exact Ho. reflexivity.
Qed.

Lemma list_view : forall limit tb, sq_list limit tb = sqv_list limit (map sq_view tb).
Proof.
  intros limit tb. unfold sq_list, sqv_list.
  assert (Ho : q_order (fst (sq_list_query limit)) = OSubmitDesc) by (unfold sq_list_query; destruct (Z.ltb 0 limit); reflexivity).
  destruct (sq_list_query limit) as [q b]. cbn [fst] in Ho. rewrite produce_view by exact Ho. reflexivity.
Qed.

(* the ids in the table do not depend on the times at all *)
Definition no_times (r : row) : row := set_state (r_status r) 0 0 r.

Lemma existsb_no_times : forall id tb, existsb (has_id id) (map no_times tb) = existsb (has_id id) tb.
Proof. intros id tb. induction tb as [|r tb IH]; simpl; [reflexivity|]. rewrite IH. reflexivity. Qed.

Lemma no_times_update : forall id st a b tb,
  map no_times (map (fun r => if has_id id r then set_state st a b r else r) tb)
  = map (fun x => if has_id id x then set_state st 0 0 x else x) (map no_times tb).
Proof.
  intros id st a b tb. rewrite !map_map. apply map_ext. intros r.
  change (has_id id (no_times r)) with (has_id id r). destruct (has_id id r); reflexivity.
Qed.

Lemma no_times_filter : forall id tb,
  map no_times (filter (fun r => negb (has_id id r)) tb) = filter (fun r => negb (has_id id r)) (map no_times tb).
Proof. intros id tb. rewrite filter_map_comm. reflexivity. Qed.

Lemma no_times_step : forall tb tb' o, map no_times tb = map no_times tb' ->
  map no_times (fst (sq_step tb o)) = map no_times (fst (sqv_step tb' o)).
Proof.
  intros tb tb' o H.
  assert (Hex : forall id, sq_exists tb id = sq_exists tb' id).
  { intros id. rewrite !sq_exists_existsb, <- (existsb_no_times id tb), <- (existsb_no_times id tb'), H. reflexivity. }
  destruct o as [r | id st sub start fin | id]; simpl.
  - unfold sq_create, sqv_create. destruct (N.eqb (r_id r) 0); [exact H|]. rewrite Hex.
    destruct (sq_exists tb' (r_id r)); simpl; [exact H|]. rewrite !map_app, H. reflexivity.
  - rewrite !no_times_update, H. reflexivity.
  - unfold sq_delete. rewrite Hex. destruct (sq_exists tb' id); simpl; [|exact H].
    rewrite !no_times_filter, H. reflexivity.
Qed.

Lemma no_times_run : forall ops, map no_times (sq_run ops) = map no_times (sqv_run ops).
Proof.
  intros ops. induction ops as [|o ops IH] using rev_ind; [reflexivity|].
  unfold sq_run, sqv_run. rewrite !fold_left_snoc. apply no_times_step. exact IH.
Qed.

Lemma sq_exists_run : forall ops id, sq_exists (sq_run ops) id = sq_exists (sqv_run ops) id.
Proof.
  intros ops id. rewrite !sq_exists_existsb, <- (existsb_no_times id (sq_run ops)), <- (existsb_no_times id (sqv_run ops)).
  rewrite no_times_run. reflexivity.
Qed.

(* ------------------------------------------------------------------ assembly: the statements of props/C15.v *)

Lemma c15_exists_sqlite : forall ops id,
  (sq_exists (sq_run ops) id = true <-> In id (dom (spec_run Sqlite ops))) /\
  (sq_exists (sq_run ops) id = true <-> created_not_deleted ops id).
Proof.
  intros ops id. rewrite sq_exists_run. pose proof (sq_exists_correct _ _ id (sqv_run_inv ops)) as H. split; [exact H|].
  rewrite H. apply dom_history.
Qed.

Lemma c15_exists_cosmos : forall w ops id,
  (cs_exists (cs_run w ops) id = true <-> In id (dom (spec_run Cosmos ops))) /\
  (cs_exists (cs_run w ops) id = true <-> created_not_deleted ops id).
Proof.
  intros w ops id. pose proof (cs_exists_correct _ _ _ id (cs_run_inv w ops)) as H. split; [exact H|].
  rewrite H. apply dom_history.
Qed.

Lemma c15_search_sqlite : forall ops f, Forall op_representable ops ->
  (validate f = false -> sq_search f (sq_run ops) = None) /\
  (validate f = true -> exists xs,
      sq_search f (sq_run ops) = Some (map SItem xs ++ [SClose]) /\
      newest_first xs /\ NoDup (map x_id xs) /\
      (forall x, In x xs <-> exists id v, get (spec_run Sqlite ops) id = Some v /\ matches f id v /\ x = result_of (id, v)) /\
      Permutation xs (map result_of (filter (matchesb f) (spec_run Sqlite ops)))).
Proof.
  intros ops f Hr. rewrite search_view, (view_run ops Hr).
  destruct (sqv_search_correct f _ _ (sqv_run_inv ops)) as [H1 H2]. split; [exact H1|].
  intros Hv. destruct (H2 Hv) as [xs [He Hs]]. exists xs. split; [exact He|].
  pose proof (search_spec_perm f _ xs (spec_run_NoDup Sqlite ops) Hs) as Hp.
  destruct Hs as [Ha [Hb Hc]]. auto.
Qed.

Lemma c15_search_cosmos : forall w ops f,
  (validate f = false -> cosmos_search w f (cs_run w ops) = None) /\
  (validate f = true -> exists xs,
      cosmos_search w f (cs_run w ops) = Some (map SItem xs ++ [SClose]) /\
      newest_first xs /\ NoDup (map x_id xs) /\
      (forall x, In x xs <-> exists id v, get (spec_run Cosmos ops) id = Some v /\ matches f id v /\ x = result_of (id, v)) /\
      Permutation xs (map result_of (filter (matchesb f) (spec_run Cosmos ops)))).
Proof.
  intros w ops f. destruct (cosmos_search_correct w f _ _ (cs_run_inv w ops)) as [H1 H2]. split; [exact H1|].
  intros Hv. destruct (H2 Hv) as [xs [He Hs]]. exists xs. split; [exact He|].
  pose proof (search_spec_perm f _ xs (spec_run_NoDup Cosmos ops) Hs) as Hp.
  destruct Hs as [Ha [Hb Hc]]. auto.
Qed.

Lemma c15_list_sqlite : forall ops limit, Forall op_representable ops -> exists xs all,
  sq_list limit (sq_run ops) = map SItem xs ++ [SClose] /\
  Permutation all (map result_of (spec_run Sqlite ops)) /\ newest_first all /\ xs = take limit all.
Proof.
  intros ops limit Hr. rewrite list_view, (view_run ops Hr).
  destruct (sqv_list_correct limit _ _ (sqv_run_inv ops)) as [xs [He [all Hs]]].
  exists xs, all. tauto.
Qed.

Lemma c15_list_cosmos : forall w ops limit, exists xs all,
  cosmos_list w limit (cs_run w ops) = map SItem xs ++ [SClose] /\
  Permutation all (map result_of (spec_run Cosmos ops)) /\ newest_first all /\ xs = take limit all.
Proof.
  intros w ops limit. destruct (cosmos_list_correct w limit _ _ (cs_run_inv w ops)) as [xs [He [all Hs]]].
  exists xs, all. tauto.
Qed.

Lemma running_found_sqlite : forall ops id v, Forall op_representable ops ->
  get (spec_run Sqlite ops) id = Some v -> pi_status v = status_code Running ->
  exists xs, sq_search {| f_ids := []; f_groups := []; f_statuses := [status_code Running] |} (sq_run ops)
             = Some (map SItem xs ++ [SClose]) /\ In id (map x_id xs).
Proof.
  intros ops id v Hr Hg Hs. rewrite search_view, (view_run ops Hr).
  destruct (sqv_search_correct running_filter _ _ (sqv_run_inv ops)) as [_ H].
  destruct (H eq_refl) as [xs [He Hsp]]. exists xs. split; [exact He|].
  eapply running_found_generic; eassumption.
Qed.

Lemma running_found_cosmos : forall w ops id v,
  get (spec_run Cosmos ops) id = Some v -> pi_status v = status_code Running ->
  exists xs, cosmos_search w {| f_ids := []; f_groups := []; f_statuses := [status_code Running] |} (cs_run w ops)
             = Some (map SItem xs ++ [SClose]) /\ In id (map x_id xs).
Proof.
  intros w ops id v Hg Hs. destruct (cosmos_search_correct w running_filter _ _ (cs_run_inv w ops)) as [_ H].
  destruct (H eq_refl) as [xs [He Hsp]]. exists xs. split; [exact He|].
  eapply running_found_generic; eassumption.
Qed.

Lemma c15_monitors : forall be ops,
  (forall f xs, search_items_ok true (expected_search f (spec_run be ops)) xs = true <->
                (newest_first xs /\ NoDup (map x_id xs) /\
                 forall x, In x xs <-> exists id v, get (spec_run be ops) id = Some v /\ matches f id v /\ x = result_of (id, v))) /\
  (forall limit xs, list_items_ok true limit (map result_of (spec_run be ops)) xs = true <->
                    exists all, Permutation all (map result_of (spec_run be ops)) /\ newest_first all /\ xs = take limit all).
Proof.
  intros be ops. split.
  - intros f xs. apply (search_monitor_exact f _ xs (spec_run_NoDup be ops)).
  - intros limit xs. apply (list_monitor_exact limit _ xs (spec_run_NoDup be ops)).
Qed.

(* ------------------------------------------------------------------ deciding representability (for examples) *)
Definition representableb (t : Z) : bool :=
  Z.eqb t zero_time_ns || (Z.leb (- 2 ^ 63) t && Z.ltb t (2 ^ 63)).
Definition op_representableb (o : op) : bool :=
  match o with
  | OCreate r => representableb (r_start r) && representableb (r_end r)
  | OUpdate _ _ _ start fin => representableb start && representableb fin
  | ODelete _ => true
  end.

Lemma representableb_sound : forall t, representableb t = true -> representable t.
Proof.
  intros t H. unfold representableb in H. apply orb_true_iff in H. destruct H as [H|H].
  - left. apply Z.eqb_eq. exact H.
  - right. apply andb_true_iff in H. destruct H as [H1 H2]. apply Z.leb_le in H1. apply Z.ltb_lt in H2. split; assumption.
Qed.

Lemma ops_representableb_sound : forall ops, forallb op_representableb ops = true -> Forall op_representable ops.
Proof.
  intros ops H. rewrite forallb_forall in H. apply Forall_forall. intros o Ho. specialize (H o Ho).
  destruct o as [r | id st sub start fin | id]; simpl in *; [| | exact I];
    apply andb_true_iff in H; destruct H as [H1 H2]; split; apply representableb_sound; assumption.
Qed.

(* ------------------------------------------------------------------ Exists under read faults *)
Lemma cs_exists_healthy : forall s id, cs_exists_reply (store_reply s id) = Some (cs_exists s id).
Proof.
  intros s id. unfold store_reply, cs_exists. destruct (existsb (N.eqb id) (cs_plans s)); reflexivity.
Qed.

Lemma cs_exists_false_only_on_404 : forall r, cs_exists_reply r = Some false -> r = RStatus 404.
Proof.
  intros [|code|]; simpl; try discriminate. destruct (Nat.eqb code 404) eqn:E; [|discriminate].
  apply Nat.eqb_eq in E. subst. reflexivity.
Qed.

Lemma cs_exists_true_only_on_found : forall r, cs_exists_reply r = Some true -> r = RFound.
Proof. intros [|code|]; simpl; try discriminate; [reflexivity|]. destruct (Nat.eqb code 404); discriminate. Qed.

(* ------------------------------------------------------------------ paging *)
Lemma consume_pages_all : forall conv pages rows, concat pages = rows ->
  consume_pages conv pages = produce conv (Some rows).
Proof.
  intros conv pages rows H. subst rows. unfold consume_pages, produce. f_equal.
  induction pages as [|p pages IH]; simpl; [reflexivity|]. rewrite map_app, IH. reflexivity.
Qed.

(* ------------------------------------------------------------------ streams under a done context *)
Lemma In_items_not_close : forall conv (rows : list row), ~ In SClose (map (fun r => SItem (conv r)) rows).
Proof. intros conv rows H. apply in_map_iff in H. destruct H as [r [H _]]. discriminate. Qed.

Lemma items_of_app_err : forall xs e tl, items_of (map SItem xs ++ repeat SErr e ++ SClose :: tl) = xs.
Proof.
  intros xs e tl. induction xs as [|x xs IH]; simpl.
  - destruct e; reflexivity.
  - rewrite IH. reflexivity.
Qed.

Lemma produce_cancelled_closed : forall conv res k e,
  exists body, produce_cancelled conv res k e = body ++ [SClose] /\ ~ In SClose body /\
               items_of (produce_cancelled conv res k e)
               = match res with Some rows => map conv (firstn k rows) | None => [] end.
Proof.
  intros conv res k e. unfold produce_cancelled.
  exists (match res with Some rows => map (fun r => SItem (conv r)) (firstn k rows) | None => [] end ++ repeat SErr e).
  split; [rewrite <- app_assoc; reflexivity|]. split.
  - rewrite in_app_iff. intros [H|H].
    + destruct res as [rows|]; [apply In_items_not_close in H; exact H | exact H].
    + apply repeat_spec in H. discriminate.
  - destruct res as [rows|].
    + rewrite <- (map_map conv SItem). apply items_of_app_err.
    + apply (items_of_app_err [] e []).
Qed.

(* ------------------------------------------------------------------ S11: an abandoned stream *)
Lemma abandoned_never_closed : forall conv rows k e taken,
  (taken + 1 < length (firstn k rows) + e)%nat ->
  ~ In SClose (emitted_when_abandoned (produce_cancelled conv (Some rows) k e) taken).
Proof.
  intros conv rows k e taken Hlen. unfold emitted_when_abandoned, produce_cancelled.
  set (items := map (fun r => SItem (conv r)) (firstn k rows)).
  assert (Hrl : removelast (items ++ repeat SErr e ++ [SClose]) = items ++ repeat SErr e).
  { rewrite app_assoc. apply removelast_last. }
  rewrite Hrl.
  assert (Hl : length (items ++ repeat SErr e) = (length (firstn k rows) + e)%nat).
  { rewrite app_length, repeat_length. unfold items. rewrite map_length. reflexivity. }
  rewrite Hl. destruct (Nat.leb (length (firstn k rows) + e) (taken + 1)) eqn:E.
  - apply Nat.leb_le in E. lia.
  - intros H. apply firstn_In in H. apply in_app_iff in H. destruct H as [H|H].
    + unfold items in H. apply In_items_not_close in H. exact H.
    + apply repeat_spec in H. discriminate.
Qed.
