(* C15 - Exists, Search and List answer exactly from stored state and terminate.

   Model side (the transcription of the code):
     Rows.v    sq_run / cs_run       the plans table / plan items + search partition after a history
               sq_exists / cs_exists  reader.Exists
     Query.v   sq_build_search / cs_build_search  buildSearchQuery (placeholder expansion, AND/OR composition,
               named parameters) as a term of the query AST; run_query its evaluation over search rows
               sq_search / cosmos_search, sq_list / cosmos_list   Validate, the statement, the producer
               goroutine with its deferred close: the stream as the list of channel events
   Specification side (Spec.v), independent of the above:
     spec_run be ops   the store as an association list id |-> (group, name, descr, submit, status, start, end)
     stored_time Sqlite t := if 0 <? t then t else zero_time_ns   (the sqlite time codec, as Read decodes it:
                             instants at or before the Unix epoch are the zero time; DESIGN section 11)
     stored_time Cosmos t := t
     representable t := t = zero_time_ns \/ -2^63 <= t < 2^63      (nanoseconds that fit Time.UnixNano's int64,
                             or the zero time); op_representable o: the State.Start / State.End an op writes are
                             representable. The sqlite theorems about result contents have this premise: the
                             columns hold UnixNano() (wrap64 in the model), which wraps outside 1678..2262.
     created_not_deleted ops id := id <> 0 /\ exists pre r post, ops = pre ++ OCreate r :: post /\ r_id r = id
                                   /\ ~ In (ODelete id) post
     matches f id v := (f_ids f = [] \/ In id (f_ids f)) /\ (f_groups f = [] \/ In (pi_group v) (f_groups f))
                       /\ (f_statuses f = [] \/ In (pi_status v) (f_statuses f))
     newest_first xs := StronglySorted (fun a b => x_submit b <= x_submit a) xs
     take limit l    := if limit <=? 0 then l else firstn (Z.to_nat limit) l

   A result (storage.ListResult) is id, group, name, descr, submit time, State.Status, State.Start, State.End.

   All theorems are for every history [ops] (any length, any plans), every filter, every limit. *)
From Coq Require Import Permutation Sorted.
From Coercion.Base Require Import Plan.
From Coercion.Query Require Import Rows Query Spec QueryCheck QueryProofs.

(* ---- Exists is true exactly for the plans created and not deleted *)
Theorem c15_exists_exact :
  (forall ops id,
     (sq_exists (sq_run ops) id = true <-> In id (dom (spec_run Sqlite ops))) /\
     (sq_exists (sq_run ops) id = true <-> created_not_deleted ops id)) /\
  (forall w ops id,
     (cs_exists (cs_run w ops) id = true <-> In id (dom (spec_run Cosmos ops))) /\
     (cs_exists (cs_run w ops) id = true <-> created_not_deleted ops id)).
Proof. exact (conj c15_exists_sqlite c15_exists_cosmos). Qed.
Print Assumptions c15_exists_exact.

(* ---- Exists under read faults (cosmosdb): with a healthy service the reply-based transcription is Exists;
        it answers "false" only when the service answered 404 and "true" only when it returned the item, so
        every other failed read (409, 410, 412, 429, 5xx, transport errors) surfaces as an error *)
Theorem c15_exists_under_faults :
  (forall s id, cs_exists_reply (store_reply s id) = Some (cs_exists s id)) /\
  (forall r, cs_exists_reply r = Some false -> r = RStatus 404) /\
  (forall r, cs_exists_reply r = Some true -> r = RFound).
Proof. exact (conj cs_exists_healthy (conj cs_exists_false_only_on_404 cs_exists_true_only_on_found)). Qed.
Print Assumptions c15_exists_under_faults.

(* ---- paging (cosmosdb): however the service cuts the query result into pages -- empty pages with more to
        come included -- the stream carries every row of every page, in order, and is then closed; so the
        Search / List theorems below, stated for the whole result, hold for every paging of it *)
Theorem c15_paging_complete : forall conv pages rows, concat pages = rows ->
  consume_pages conv pages = produce conv (Some rows).
Proof. exact consume_pages_all. Qed.
Print Assumptions c15_paging_complete.

(* ---- every stream is closed, whatever the context: when the caller's context is done before or during the
        call, after any number k of delivered rows and any number e of error elements, the event list still
        ends with exactly one close, and what was delivered is the first k entries of the complete answer *)
Theorem c15_stream_closed_any_ctx : forall conv res k e,
  exists body, produce_cancelled conv res k e = body ++ [SClose] /\ ~ In SClose body /\
               items_of (produce_cancelled conv res k e)
               = match res with Some rows => map conv (firstn k rows) | None => [] end.
Proof. exact produce_cancelled_closed. Qed.
Print Assumptions c15_stream_closed_any_ctx.

(* ---- KNOWN FINDING S11 (sqlite; listed in known_findings.json, carried by [emitted_when_abandoned]):
        c15_stream_closed_any_ctx is about a consumer that keeps receiving. If the consumer takes [taken]
        elements, cancels and stops reading, and the producer still has more than one element to send
        (rows and its two unconditional error sends), the close is never emitted. *)
Theorem c15_stream_closed_refuted_abandoned : forall conv rows k e taken,
  (taken + 1 < length (firstn k rows) + e)%nat ->
  ~ In SClose (emitted_when_abandoned (produce_cancelled conv (Some rows) k e) taken).
Proof. exact abandoned_never_closed. Qed.
Print Assumptions c15_stream_closed_refuted_abandoned.

(* ---- Search: an invalid (empty) filter is rejected without a stream; otherwise the stream carries, newest
        submission first (ties in any order), exactly the stored plans matching all given filters, each once,
        with their stored projection, and is then closed; nothing else is ever sent. *)
Theorem c15_search_exact_sqlite : forall ops f, Forall op_representable ops ->
  (validate f = false -> sq_search f (sq_run ops) = None) /\
  (validate f = true -> exists xs,
      sq_search f (sq_run ops) = Some (map SItem xs ++ [SClose]) /\
      newest_first xs /\ NoDup (map x_id xs) /\
      (forall x, In x xs <-> exists id v, get (spec_run Sqlite ops) id = Some v /\ matches f id v /\ x = result_of (id, v)) /\
      Permutation xs (map result_of (filter (matchesb f) (spec_run Sqlite ops)))).
Proof. exact c15_search_sqlite. Qed.
Print Assumptions c15_search_exact_sqlite.

Theorem c15_search_exact_cosmos : forall w ops f,
  (validate f = false -> cosmos_search w f (cs_run w ops) = None) /\
  (validate f = true -> exists xs,
      cosmos_search w f (cs_run w ops) = Some (map SItem xs ++ [SClose]) /\
      newest_first xs /\ NoDup (map x_id xs) /\
      (forall x, In x xs <-> exists id v, get (spec_run Cosmos ops) id = Some v /\ matches f id v /\ x = result_of (id, v)) /\
      Permutation xs (map result_of (filter (matchesb f) (spec_run Cosmos ops)))).
Proof. exact c15_search_cosmos. Qed.
Print Assumptions c15_search_exact_cosmos.

(* ---- List: the first [limit] (all if limit <= 0) of all stored plans in a newest-first order; then closed *)
Theorem c15_list_exact_sqlite : forall ops limit, Forall op_representable ops -> exists xs all,
  sq_list limit (sq_run ops) = map SItem xs ++ [SClose] /\
  Permutation all (map result_of (spec_run Sqlite ops)) /\ newest_first all /\ xs = take limit all.
Proof. exact c15_list_sqlite. Qed.
Print Assumptions c15_list_exact_sqlite.

Theorem c15_list_exact_cosmos : forall w ops limit, exists xs all,
  cosmos_list w limit (cs_run w ops) = map SItem xs ++ [SClose] /\
  Permutation all (map result_of (spec_run Cosmos ops)) /\ newest_first all /\ xs = take limit all.
Proof. exact c15_list_cosmos. Qed.
Print Assumptions c15_list_exact_cosmos.

(* ---- the property as one statement (DESIGN.md section 6, C15), sqlite back end *)
Theorem c15_query_exact : forall ops, Forall op_representable ops ->
  (forall id, sq_exists (sq_run ops) id = true <-> In id (dom (spec_run Sqlite ops))) /\
  (forall f, validate f = true -> exists xs,
      sq_search f (sq_run ops) = Some (map SItem xs ++ [SClose]) /\ newest_first xs /\
      Permutation xs (map result_of (filter (matchesb f) (spec_run Sqlite ops)))) /\
  (forall limit, exists xs all,
      sq_list limit (sq_run ops) = map SItem xs ++ [SClose] /\
      Permutation all (map result_of (spec_run Sqlite ops)) /\ newest_first all /\ xs = take limit all).
Proof.
  intros ops Hr. split; [|split].
  - intros id. exact (proj1 (c15_exists_sqlite ops id)).
  - intros f Hv. destruct (proj2 (c15_search_sqlite ops f Hr) Hv) as [xs [He [Hs [_ [_ Hp]]]]]. exists xs. auto.
  - intros limit. exact (c15_list_sqlite ops limit Hr).
Qed.
Print Assumptions c15_query_exact.

(* ---- what crash recovery relies on: every plan whose durable status is Running is returned by the
        status search for Running *)
Corollary running_always_found :
  (forall ops id v, Forall op_representable ops ->
     get (spec_run Sqlite ops) id = Some v -> pi_status v = status_code Running ->
     exists xs, sq_search {| f_ids := []; f_groups := []; f_statuses := [status_code Running] |} (sq_run ops)
                = Some (map SItem xs ++ [SClose]) /\ In id (map x_id xs)) /\
  (forall w ops id v,
     get (spec_run Cosmos ops) id = Some v -> pi_status v = status_code Running ->
     exists xs, cosmos_search w {| f_ids := []; f_groups := []; f_statuses := [status_code Running] |} (cs_run w ops)
                = Some (map SItem xs ++ [SClose]) /\ In id (map x_id xs)).
Proof. exact (conj running_found_sqlite running_found_cosmos). Qed.
Print Assumptions running_always_found.

(* ---- the monitors the correspondence check evaluates on what the implementation returned are the
        specification (sound and complete), so a monitor verdict on an observation is a verdict of C15 *)
Theorem c15_monitors_exact : forall be ops,
  (forall f xs, search_items_ok true (expected_search f (spec_run be ops)) xs = true <->
                (newest_first xs /\ NoDup (map x_id xs) /\
                 forall x, In x xs <-> exists id v, get (spec_run be ops) id = Some v /\ matches f id v /\ x = result_of (id, v))) /\
  (forall limit xs, list_items_ok true limit (map result_of (spec_run be ops)) xs = true <->
                    exists all, Permutation all (map result_of (spec_run be ops)) /\ newest_first all /\ xs = take limit all).
Proof. exact c15_monitors. Qed.
Print Assumptions c15_monitors_exact.

(* ------------------------------------------------------------------ examples: nothing above is vacuous *)

Definition T (sec : Z) : Z := (sec * 1000000000)%Z.    (* nanoseconds *)

Definition ex_row (id g : N) (sub : Z) (st : N) (start fin : Z) : row :=
  {| r_id := id; r_group := g; r_name := 1; r_descr := 2; r_submit := sub; r_status := st;
     r_start := start; r_end := fin; r_swarm := 0 |}.
Definition Z0 := zero_time_ns.

(* five creates (one duplicate id, one uuid.Nil), updates with distinct start / end, a delete, a re-creation;
   unset times, a time before the epoch *)
Definition ex_ops : list op :=
  [ OCreate (ex_row 1 7 30 0 Z0 Z0); OCreate (ex_row 2 7 10 0 Z0 Z0); OCreate (ex_row 3 8 30 100 (T 31) Z0);
    OCreate (ex_row 2 9 99 400 (T 1) (T 2)); OCreate (ex_row 0 9 99 400 Z0 Z0);
    OUpdate 1 100 30 (T 40) Z0; OUpdate 2 300 77 (T 41) (T 45); OCreate (ex_row 4 0 (-5) 100 (T (-3)) Z0); ODelete 3;
    OUpdate 3 100 1 (T 50) Z0;
    OCreate (ex_row 5 8 30 200 (T 32) (T 39)); ODelete 9; OCreate (ex_row 3 7 20 100 (T 60) Z0) ].

Example ex_representable : Forall op_representable ex_ops.
Proof. apply ops_representableb_sound. vm_compute. reflexivity. Qed.

Example ex_exists : map (sq_exists (sq_run ex_ops)) [0; 1; 2; 3; 4; 5; 9]%N = [false; true; true; true; true; true; false].
Proof. vm_compute. reflexivity. Qed.

Example ex_history : created_not_deleted ex_ops 3.
Proof. apply (proj2 (c15_exists_sqlite ex_ops 3)). vm_compute. reflexivity. Qed.

(* a three-way filter with multi-valued lists, an unknown id and a repeated status *)
Definition ex_filter : filters := {| f_ids := [1; 3; 4; 9]; f_groups := [7; 0]; f_statuses := [100; 100; 300] |}%N.

Example ex_filter_valid : validate ex_filter = true.
Proof. reflexivity. Qed.

(* ids with State.Start / State.End: plan 1 started at 40 s, not ended; plan 4's start before the epoch is the
   zero time in sqlite and kept by cosmosdb *)
Example ex_search :
  option_map (fun tr => (map (fun x => (x_id x, x_start x, x_end x)) (items_of tr), ends_closed tr))
             (sq_search ex_filter (sq_run ex_ops))
  = Some ([(1%N, T 40, Z0); (3%N, T 60, Z0); (4%N, Z0, Z0)], true).
Proof. vm_compute. reflexivity. Qed.

Example ex_search_cosmos :
  option_map (fun tr => (map (fun x => (x_id x, x_start x, x_end x)) (items_of tr), ends_closed tr))
             (cosmos_search 1 ex_filter (cs_run 1 ex_ops))
  = Some ([(1%N, T 40, Z0); (3%N, T 60, Z0); (4%N, T (-3), Z0)], true).
Proof. vm_compute. reflexivity. Qed.

Example ex_running :
  option_map (fun tr => map x_id (items_of tr))
    (sq_search {| f_ids := []; f_groups := []; f_statuses := [status_code Running] |} (sq_run ex_ops))
  = Some [1; 3; 4]%N.
Proof. vm_compute. reflexivity. Qed.

Example ex_empty_filter_rejected : sq_search {| f_ids := []; f_groups := []; f_statuses := [] |} (sq_run ex_ops) = None.
Proof. reflexivity. Qed.

(* plans 1 and 5 have the same submit time 30: the model lists 1 first; the monitor also accepts 5 first *)
Example ex_list : map (fun n => map x_id (items_of (sq_list n (sq_run ex_ops)))) [-1; 0; 1; 3; 9]%Z
  = [[1; 5; 3; 2; 4]; [1; 5; 3; 2; 4]; [1]; [1; 5; 3]; [1; 5; 3; 2; 4]]%N.
Proof. vm_compute. reflexivity. Qed.

Example ex_list_tie_either_way :
  let all := map result_of (spec_run Sqlite ex_ops) in
  let pick ids := map (fun i => nth i (map (sq_result_of_row) (sort_desc (sq_run ex_ops)))
                                      (result_of_row (ex_row 0 0 0 0 0 0))) ids in
  (list_items_ok true 1 all (pick [0%nat]), list_items_ok true 1 all (pick [1%nat]), list_items_ok true 1 all (pick [2%nat]),
   list_items_ok true 2 all (pick [1%nat; 0%nat]), list_items_ok true 2 all (pick [0%nat; 2%nat]))
  = (true, true, false, true, false).
Proof. vm_compute. reflexivity. Qed.

(* the defects this property had (DESIGN section 7) are refuted by the monitors on concrete observations *)
Definition ex_case (be : backend) (w : N) (ts : list step) : case := {| c_backend := be; c_swarm := w; c_steps := ts |}.

Example ex_S1_exists_always_false_is_refuted :
  check_case (ex_case Sqlite 0 [TOp (OCreate (ex_row 1 7 30 0 Z0 Z0)) true None; TExists 1 0]) = [2; 1; 3]%nat.
Proof. vm_compute. reflexivity. Qed.

Example ex_S2_anded_statuses_is_refuted :
  check_case (ex_case Sqlite 0
    [TOp (OCreate (ex_row 1 7 30 100 (T 31) Z0)) true None;
     TSearch true {| f_ids := []; f_groups := []; f_statuses := [100; 300]%N |}
             {| o_class := 0; o_items := []; o_err := false; o_closed := true |}]) = [2; 1; 4]%nat.
Proof. vm_compute. reflexivity. Qed.

Example ex_S3_never_closed_is_refuted :
  check_case (ex_case Sqlite 0
    [TOp (OCreate (ex_row 1 7 30 100 (T 31) Z0)) true None;
     TList true 0 {| o_class := 0; o_items := [result_of_row (ex_row 1 7 30 100 (T 31) Z0)]; o_err := false; o_closed := false |}])
  = [2; 1; 5]%nat.
Proof. vm_compute. reflexivity. Qed.

Example ex_S7_search_item_without_swarm_is_refuted :
  check_case (ex_case Cosmos 1
    [TOp (OCreate (ex_row 1 7 30 0 Z0 Z0)) true (Some (set_swarm 1 (ex_row 1 7 30 0 Z0 Z0)));
     TOp (OUpdate 1 100 30 (T 40) Z0) true (Some (set_swarm 0 (ex_row 1 7 30 100 (T 40) Z0)));
     TQuery {| f_ids := []; f_groups := []; f_statuses := [100]%N |}
            (fst (cs_build_search 0 {| f_ids := []; f_groups := []; f_statuses := [100]%N |}))
            (snd (cs_build_search 0 {| f_ids := []; f_groups := []; f_statuses := [100]%N |}))]) = [2; 1; 2; 2; 2; 7]%nat.
Proof. vm_compute. reflexivity. Qed.

(* seeded change C15-d: the replaced search entry carries State.Start in State.End *)
Example ex_wrong_state_end_in_search_item_is_refuted :
  check_case (ex_case Cosmos 1
    [TOp (OCreate (ex_row 1 7 30 0 Z0 Z0)) true (Some (set_swarm 1 (ex_row 1 7 30 0 Z0 Z0)));
     TOp (OUpdate 1 200 30 (T 40) (T 45)) true (Some (set_swarm 1 (ex_row 1 7 30 200 (T 40) (T 40))))]) = [2; 1; 2]%nat.
Proof. vm_compute. reflexivity. Qed.

(* finding S8 (fixed): List / Search returned 1754-08-30T22:43:41.128654848Z, the wrapped UnixNano of the zero
   time, as the Start / End of a plan that has none *)
Definition ex_S8_obs (start : Z) : case :=
  ex_case Sqlite 0
    [TOp (OCreate (ex_row 1 7 30 0 Z0 Z0)) true None;
     TList true 0 {| o_class := 0; o_err := false; o_closed := true;
                     o_items := [{| x_id := 1; x_group := 7; x_name := 1; x_descr := 2; x_submit := 30; x_status := 0;
                                    x_start := start; x_end := start |}] |}].

Example ex_S8_1754_for_an_unset_time_is_refuted :
  wrap64 zero_time_ns = (-6795364578871345152)%Z /\
  check_case (ex_S8_obs (-6795364578871345152)) = [2; 1; 5]%nat /\
  check_case (ex_S8_obs Z0) = [0]%nat.
Proof. vm_compute. repeat split; reflexivity. Qed.

(* seeded change C15-f: 410 Gone treated as not found: Exists answers false for a stored plan *)
Example ex_exists_false_on_410_is_refuted :
  check_case (ex_case Cosmos 1
    [TOp (OCreate (ex_row 1 7 30 0 Z0 Z0)) true (Some (set_swarm 1 (ex_row 1 7 30 0 Z0 Z0)));
     TExistsFault (RStatus 410) 1 0]) = [2; 1; 10]%nat /\
  check_case (ex_case Cosmos 1 [TExistsFault (RStatus 410) 1 2; TExistsFault (RStatus 404) 1 0; TExistsFault RFailed 1 2]) = [0]%nat.
Proof. vm_compute. split; reflexivity. Qed.

(* seeded change C15-g: stopping at the first empty page loses the rows of later pages *)
Example ex_paging_with_empty_pages :
  map x_id (items_of (consume_pages result_of_row
     [[ex_row 1 7 30 0 Z0 Z0]; []; [ex_row 2 7 20 100 (T 31) Z0]; []; [ex_row 3 7 10 100 (T 32) Z0]])) = [1; 2; 3]%N.
Proof. vm_compute. reflexivity. Qed.

(* finding S9 (fixed): with a context already cancelled the pool dropped the streaming job: a channel, no error,
   never closed; and the store wedged afterwards (the connection was never returned) *)
Example ex_S9_never_closed_under_cancelled_ctx_is_refuted :
  check_case (ex_case Sqlite 0
    [TOp (OCreate (ex_row 1 7 30 100 (T 31) Z0)) true None;
     TListCtx true 0 {| o_class := 0; o_items := []; o_err := false; o_closed := false |}]) = [2; 1; 13]%nat /\
  check_case (ex_case Sqlite 0
    [TOp (OCreate (ex_row 1 7 30 100 (T 31) Z0)) true None;
     TListCtx true 0 {| o_class := 0; o_items := []; o_err := true; o_closed := true |};
     TSearchCtx true {| f_ids := []; f_groups := []; f_statuses := [100]%N |} {| o_class := 1; o_items := []; o_err := false; o_closed := false |};
     TList true 0 {| o_class := 2; o_items := []; o_err := false; o_closed := false |}]) = [2; 3; 5]%nat.
Proof. vm_compute. split; reflexivity. Qed.

(* the S11 witness of the harness: 4 plans, List, one element taken, context cancelled, no more reads: the
   producer has sent rows 1 and 2, sees ctx.Done at row 3 and blocks in its first error send *)
Example ex_S11_witness :
  let rows := [ex_row 1 7 40 0 Z0 Z0; ex_row 2 7 30 0 Z0 Z0; ex_row 3 7 20 0 Z0 Z0; ex_row 4 7 10 0 Z0 Z0] in
  map (fun ev => match ev with SItem x => x_id x | SErr => 98%N | SClose => 99%N end)
      (emitted_when_abandoned (produce_cancelled sq_result_of_row (Some rows) 2 2) 1) = [1; 2]%N.
Proof. vm_compute. reflexivity. Qed.
