(* C15 specification: the store as an association list id |-> plan projection, the declarative
   meaning of filters, and what Exists / Search / List must answer. Independent of Rows.v/Query.v
   except for the vocabulary (op, filters, result). No proofs here. *)
From Coq Require Import Permutation Sorted.
From Coercion.Base Require Import Plan.
From Coercion.Query Require Import Rows Query.

(* the projection of a stored plan that C15 talks about *)
Record pinfo := { pi_group : N; pi_name : N; pi_descr : N; pi_submit : Z; pi_status : N;
                  pi_start : Z; pi_end : Z }.

Definition store := list (N * pinfo).

Fixpoint get (sp : store) (id : N) : option pinfo :=
  match sp with
  | [] => None
  | (k, v) :: r => if N.eqb k id then Some v else get r id
  end.

Definition dom (sp : store) : list N := map fst sp.

Fixpoint put (id : N) (v : pinfo) (sp : store) : store :=
  match sp with
  | [] => [(id, v)]
  | (k, x) :: r => if N.eqb k id then (k, v) :: r else (k, x) :: put id v r
  end.

Fixpoint del (id : N) (sp : store) : store :=
  match sp with
  | [] => []
  | (k, x) :: r => if N.eqb k id then del id r else (k, x) :: del id r
  end.

(* The two back ends document different behaviour for three details; the specification takes them as
   parameters: sqlite stores a submit time before the Unix epoch as the epoch, UpdatePlan does not store
   SubmitTime, and its time codec keeps instants after the Unix epoch and turns every other one into the
   zero time (DESIGN section 11, pinned for C13); cosmosdb stores all of them as given. *)
Inductive backend := Sqlite | Cosmos.

Definition sq_time (t : Z) : Z := if Z.ltb 0 t then t else zero_time_ns.
Definition stored_time (be : backend) (t : Z) : Z := match be with Sqlite => sq_time t | Cosmos => t end.

(* what sqlite can represent: the zero time, or an instant whose nanoseconds fit int64 (1678..2262) *)
Definition representable (t : Z) : Prop := t = zero_time_ns \/ (- 2 ^ 63 <= t < 2 ^ 63)%Z.
Definition op_representable (o : op) : Prop :=
  match o with
  | OCreate r => representable (r_start r) /\ representable (r_end r)
  | OUpdate _ _ _ start fin => representable start /\ representable fin
  | ODelete _ => True
  end.

Definition info_of_create (be : backend) (r : row) : pinfo :=
  {| pi_group := r_group r; pi_name := r_name r; pi_descr := r_descr r;
     pi_submit := match be with Sqlite => Z.max 0 (r_submit r) | Cosmos => r_submit r end;
     pi_status := r_status r;
     pi_start := stored_time be (r_start r); pi_end := stored_time be (r_end r) |}.

Definition info_update (be : backend) (st : N) (sub start fin : Z) (v : pinfo) : pinfo :=
  {| pi_group := pi_group v; pi_name := pi_name v; pi_descr := pi_descr v;
     pi_submit := match be with Sqlite => pi_submit v | Cosmos => sub end;
     pi_status := st; pi_start := stored_time be start; pi_end := stored_time be fin |}.

(* Create of uuid.Nil or of an existing id is rejected; Update / Delete of an unknown id change nothing *)
Definition spec_step (be : backend) (sp : store) (o : op) : store :=
  match o with
  | OCreate r => if N.eqb (r_id r) 0 then sp
                 else match get sp (r_id r) with
                      | Some _ => sp
                      | None => put (r_id r) (info_of_create be r) sp
                      end
  | OUpdate id st sub start fin =>
                         match get sp id with
                         | Some v => put id (info_update be st sub start fin v) sp
                         | None => sp
                         end
  | ODelete id => del id sp
  end.

Definition spec_run (be : backend) (ops : list op) : store := fold_left (spec_step be) ops [].

(* "created and not deleted", stated on the history alone *)
Definition created_not_deleted (ops : list op) (id : N) : Prop :=
  id <> 0%N /\ exists pre r post, ops = pre ++ OCreate r :: post /\ r_id r = id /\ ~ In (ODelete id) post.

(* what a filter means *)
Definition matches (f : filters) (id : N) (v : pinfo) : Prop :=
  (f_ids f = [] \/ In id (f_ids f)) /\
  (f_groups f = [] \/ In (pi_group v) (f_groups f)) /\
  (f_statuses f = [] \/ In (pi_status v) (f_statuses f)).

Definition result_of (kv : N * pinfo) : result :=
  {| x_id := fst kv; x_group := pi_group (snd kv); x_name := pi_name (snd kv); x_descr := pi_descr (snd kv);
     x_submit := pi_submit (snd kv); x_status := pi_status (snd kv);
     x_start := pi_start (snd kv); x_end := pi_end (snd kv) |}.

(* newest submission first; equal submit times in any order *)
Definition newest_first (xs : list result) : Prop :=
  StronglySorted (fun a b => (x_submit b <= x_submit a)%Z) xs.

(* Search: exactly the matching plans, newest first *)
Definition search_spec (f : filters) (sp : store) (xs : list result) : Prop :=
  newest_first xs /\
  NoDup (map x_id xs) /\
  forall x, In x xs <-> exists id v, get sp id = Some v /\ matches f id v /\ x = result_of (id, v).

(* List: the first [limit] (all if limit <= 0) of all plans, newest first (ties broken somehow) *)
Definition take (limit : Z) (l : list result) : list result :=
  if Z.leb limit 0 then l else firstn (Z.to_nat limit) l.

Definition list_spec (limit : Z) (sp : store) (xs : list result) : Prop :=
  exists all, Permutation all (map result_of sp) /\ newest_first all /\ xs = take limit all.

(* a stream: the items, then the channel is closed, and nothing else *)
Definition closed_stream (tr : list sev) (xs : list result) : Prop := tr = map SItem xs ++ [SClose].
