(* C15 model, part 2: the filter language both back ends emit, its evaluation over search rows, and
   the transcription of Exists / Search / buildSearchQuery / List of
     workflow/storage/sqlite/reader.go, reader_stmts.go (replaceWithIDs)
     workflow/storage/cosmosdb/reader.go
     workflow/storage/storage.go (Filters.Validate).
   The SQL / Cosmos engines themselves are trusted to implement [run_query] (DESIGN section 9). *)
From Coercion.Base Require Import Plan.
From Coercion.Query Require Import Rows.

(* ------------------------------------------------------------------ the query AST *)

Inductive col := CId | CGroup | CStatus | CSwarm.

(* parameter names. sqlite: "?" placeholders are numbered by position in the final text (PPos k is
   the k-th "?", 0-based, bound to Args[k]); "$status<i>" and "$limit" are named. cosmosdb: "@ids",
   "@group_ids", "@status<i>", "@swarm", "@limit". *)
Inductive pname := PPos (k : nat) | PStatus (i : nat) | PIds | PGroups | PSwarm | PLimit.

Inductive pval := PV (v : N) | PVs (vs : list N).

(* six constructors *)
Inductive cond :=
| CTrue                                   (* no WHERE clause *)
| CEq (c : col) (p : pname)               (* c = $p *)
| CIn (c : col) (ps : list pname)         (* c IN (?,?,...)            -- sqlite, after replaceWithIDs *)
| CContains (p : pname) (c : col)         (* ARRAY_CONTAINS(@p, c)     -- cosmosdb *)
| CAnd (a b : cond)
| COr (a b : cond).

Inductive order := ONone | OSubmitDesc | OSubmitAsc.

Record query := {
  q_where : option cond;      (* None: the text has "WHERE" followed by no condition (a syntax error) *)
  q_order : order;
  q_limit : option pname      (* LIMIT $p *)
}.

Record binds := {
  b_args : list N;                    (* ExecOptions.Args: positional *)
  b_named : list (pname * pval)       (* ExecOptions.Named / azcosmos.QueryParameter list *)
}.

Definition pname_eqb (a b : pname) : bool :=
  match a, b with
  | PPos x, PPos y => Nat.eqb x y
  | PStatus x, PStatus y => Nat.eqb x y
  | PIds, PIds | PGroups, PGroups | PSwarm, PSwarm | PLimit, PLimit => true
  | _, _ => false
  end.

Fixpoint assoc (l : list (pname * pval)) (p : pname) : option pval :=
  match l with
  | [] => None
  | (k, v) :: r => if pname_eqb k p then Some v else assoc r p
  end.

Definition lookup (b : binds) (p : pname) : option pval :=
  match p with
  | PPos k => option_map PV (nth_error (b_args b) k)
  | _ => assoc (b_named b) p
  end.

Definition col_of (c : col) (r : row) : N :=
  match c with CId => r_id r | CGroup => r_group r | CStatus => r_status r | CSwarm => r_swarm r end.

(* an unbound parameter is NULL: every comparison with it is false *)
Definition eq_param (b : binds) (x : N) (p : pname) : bool :=
  match lookup b p with Some (PV v) => N.eqb x v | _ => false end.
Definition in_param (b : binds) (x : N) (p : pname) : bool :=
  match lookup b p with Some (PVs vs) => existsb (N.eqb x) vs | _ => false end.

Fixpoint eval_cond (b : binds) (c : cond) (r : row) : bool :=
  match c with
  | CTrue => true
  | CEq cl p => eq_param b (col_of cl r) p
  | CIn cl ps => existsb (eq_param b (col_of cl r)) ps
  | CContains p cl => in_param b (col_of cl r) p
  | CAnd x y => eval_cond b x r && eval_cond b y r
  | COr x y => eval_cond b x r || eval_cond b y r
  end.

(* ORDER BY submit_time: a stable insertion sort (what the engines do with ties is unspecified; the
   theorems only claim "a sorted permutation", and the correspondence compares up to ties). *)
Fixpoint insert_desc (x : row) (l : list row) : list row :=
  match l with
  | [] => [x]
  | y :: l' => if Z.ltb (r_submit x) (r_submit y) then y :: insert_desc x l' else x :: l
  end.
Definition sort_desc (l : list row) : list row := fold_right insert_desc [] l.

Fixpoint insert_asc (x : row) (l : list row) : list row :=
  match l with
  | [] => [x]
  | y :: l' => if Z.ltb (r_submit y) (r_submit x) then y :: insert_asc x l' else x :: l
  end.
Definition sort_asc (l : list row) : list row := fold_right insert_asc [] l.

Definition apply_order (o : order) (l : list row) : list row :=
  match o with ONone => l | OSubmitDesc => sort_desc l | OSubmitAsc => sort_asc l end.

Definition apply_limit (b : binds) (lim : option pname) (l : list row) : list row :=
  match lim with
  | None => l
  | Some p => match lookup b p with
              | Some (PV n) => firstn (N.to_nat n) l
              | _ => l
              end
  end.

(* None = the statement fails (syntax error) *)
Definition run_query (q : query) (b : binds) (tb : table) : option (list row) :=
  match q_where q with
  | None => None
  | Some c => Some (apply_limit b (q_limit q) (apply_order (q_order q) (filter (eval_cond b c) tb)))
  end.

(* ------------------------------------------------------------------ filters, results, streams *)

(* storage.Filters *)
Record filters := { f_ids : list N; f_groups : list N; f_statuses : list N }.

(* Filters.Validate: at least one filter *)
Definition validate (f : filters) : bool :=
  negb (Nat.eqb (length (f_ids f) + length (f_groups f) + length (f_statuses f)) 0).

(* storage.ListResult (State as status, start, end) *)
Record result := { x_id : N; x_group : N; x_name : N; x_descr : N; x_submit : Z; x_status : N;
                   x_start : Z; x_end : Z }.

(* cosmosdb listResultsFunc: the searchEntry document as it is *)
Definition result_of_row (r : row) : result :=
  {| x_id := r_id r; x_group := r_group r; x_name := r_name r; x_descr := r_descr r;
     x_submit := r_submit r; x_status := r_status r; x_start := r_start r; x_end := r_end r |}.

(* sqlite: how an INTEGER time column becomes a time.Time in listResultsFunc: fieldToState / timeFromField,
   the codec Read uses (since fix of finding S8; before it time.Unix(0, column) returned the wrapped
   UnixNano of an unset Start / End as 1754-08-30T22:43:41.128654848Z): 0 and every instant before the
   Unix epoch are the zero time. *)
Definition sq_time_of_col (c : Z) : Z := if Z.leb c 0 then zero_time_ns else c.

(* sqlite listResultsFunc *)
Definition sq_result_of_row (r : row) : result :=
  {| x_id := r_id r; x_group := r_group r; x_name := r_name r; x_descr := r_descr r;
     x_submit := r_submit r; x_status := r_status r;
     x_start := sq_time_of_col (r_start r); x_end := sq_time_of_col (r_end r) |}.

(* what the producer goroutine does with the channel, in order *)
Inductive sev := SItem (x : result) | SErr | SClose.

(* the goroutine submitted to context.Pool: `defer close(results)`; one send per row; if the statement
   failed, one Stream{Err: err} *)
Definition produce (conv : row -> result) (res : option (list row)) : list sev :=
  match res with
  | Some rows => map (fun r => SItem (conv r)) rows ++ [SClose]
  | None => [SErr; SClose]
  end.

(* The same goroutine when the caller's context is done at some point. The job is submitted to the pool with
   context.WithoutCancel(ctx) (since the fix of finding S9: before it the pool dropped the job when ctx was
   already done, nothing was sent, the channel was never closed and sqlite never returned the connection),
   so it always runs: it delivers the first k rows (k = 0 when the statement is interrupted at once), then
   e error elements (the per-row select on ctx.Done sends one, the failed statement another), and the
   deferred close runs whatever happened. k and e are the schedule's choice. *)
Definition produce_cancelled (conv : row -> result) (res : option (list row)) (k e : nat) : list sev :=
  match res with
  | Some rows => map (fun r => SItem (conv r)) (firstn k rows)
  | None => []
  end ++ repeat SErr e ++ [SClose].

(* Known finding S11 (sqlite, DESIGN section 4): the channel has one slot and the producer's error sends are
   unconditional (`results <- Stream{Err}`), so what the producer gets to do depends on the consumer. A
   consumer that takes [taken] elements and then stops reading lets the producer complete taken + 1 sends
   (the last one stays in the slot); the next send blocks for ever, and with it the deferred close and the
   return of the connection. [tr] is the event list the producer wants to emit (sends, then SClose). *)
Definition emitted_when_abandoned (tr : list sev) (taken : nat) : list sev :=
  let sends := removelast tr in
  if Nat.leb (length sends) (taken + 1) then tr else firstn (taken + 1) sends.

(* ------------------------------------------------------------------ cosmosdb Exists and the point read *)

(* what ReadItem(key(id), id) answered: the item, an HTTP error status (an azcore.ResponseError), or an error
   that is not an HTTP response *)
Inductive read_reply := RFound | RStatus (code : nat) | RFailed.

(* reader.Exists: nil error -> (true, nil); isNotFound (status 404, and only 404) -> (false, nil);
   anything else -> an error. None = an error is returned. *)
Definition cs_exists_reply (r : read_reply) : option bool :=
  match r with
  | RFound => Some true
  | RStatus code => if Nat.eqb code 404 then Some false else None
  | RFailed => None
  end.

(* what the service answers when it is healthy *)
Definition store_reply (s : cstore) (id : N) : read_reply :=
  if existsb (N.eqb id) (cs_plans s) then RFound else RStatus 404.

(* Search / List when the query itself fails (pager.NextPage returns an error): one Stream{Err}, then close *)
Definition cosmos_stream_failed : list sev := produce result_of_row None.

(* cosmosdb Search / List: `for pager.More() { res := pager.NextPage(ctx); for item in res.Items { send } }`.
   The service hands the result of the query out in pages, some of which may be empty although more follow;
   the loop ends when there is no continuation, never because a page was empty. *)
Definition consume_pages (conv : row -> result) (pages : list (list row)) : list sev :=
  flat_map (fun page => map (fun r => SItem (conv r)) page) pages ++ [SClose].

(* ------------------------------------------------------------------ sqlite: buildSearchQuery *)

Definition nonempty {A} (l : list A) : bool := match l with [] => false | _ => true end.

(* replaceWithIDs: "(?,?,...,?)" with one "?" per id; they are the [start]-th .. "?" of the text *)
Definition placeholders (start n : nat) : list pname := map PPos (seq start n).

(* the ByStatus loop: i = 0 opens "(state_status = $status0", later ones add " OR state_status = $status<i>" *)
Fixpoint status_loop (eq : nat -> cond) (i : nat) (ss : list N) (acc : cond) : cond :=
  match ss with
  | [] => acc
  | _ :: rest => status_loop eq (S i) rest (if Nat.eqb i 0 then eq i else COr acc (eq i))
  end.

Fixpoint status_params (i : nat) (ss : list N) : list (pname * pval) :=
  match ss with
  | [] => []
  | s :: rest => (PStatus i, PV s) :: status_params (S i) rest
  end.

(* the string builder: each clause is preceded by " AND" when numFilters > 0 *)
Definition add_clause (acc : option cond) (c : cond) : option cond :=
  match acc with None => Some c | Some a => Some (CAnd a c) end.

Definition sq_build_search (f : filters) : query * binds :=
  let w0 : option cond := None in
  let n_ids := length (f_ids f) in
  let w1 := if nonempty (f_ids f) then add_clause w0 (CIn CId (placeholders 0 n_ids)) else w0 in
  let w2 := if nonempty (f_groups f)
            then add_clause w1 (CIn CGroup (placeholders (if nonempty (f_ids f) then n_ids else 0) (length (f_groups f))))
            else w1 in
  let w3 := if nonempty (f_statuses f)
            then add_clause w2 (status_loop (fun i => CEq CStatus (PStatus i)) 0 (f_statuses f) CTrue)
            else w2 in
  let args := (if nonempty (f_ids f) then f_ids f else []) ++ (if nonempty (f_groups f) then f_groups f else []) in
  ({| q_where := w3; q_order := OSubmitDesc; q_limit := None |},
   {| b_args := args; b_named := status_params 0 (f_statuses f) |}).

(* reader.Search: Validate, else (nil, error); otherwise the stream *)
Definition sq_search (f : filters) (tb : table) : option (list sev) :=
  if validate f then
    let (q, b) := sq_build_search f in Some (produce sq_result_of_row (run_query q b tb))
  else None.

(* reader.List: "... FROM plans ORDER BY submit_time DESC" + " LIMIT $limit;" iff limit > 0 *)
Definition sq_list_query (limit : Z) : query * binds :=
  if Z.ltb 0 limit
  then ({| q_where := Some CTrue; q_order := OSubmitDesc; q_limit := Some PLimit |},
        {| b_args := []; b_named := [(PLimit, PV (Z.to_N limit))] |})
  else ({| q_where := Some CTrue; q_order := OSubmitDesc; q_limit := None |},
        {| b_args := []; b_named := [] |}).

Definition sq_list (limit : Z) (tb : table) : list sev :=
  let (q, b) := sq_list_query limit in produce sq_result_of_row (run_query q b tb).

(* ------------------------------------------------------------------ cosmosdb: buildSearchQuery *)

(* searchPlans ends in "WHERE c.swarm=@swarm"; every filter adds " AND ..."; several statuses are
   parenthesised (the AST is the same as for one). Parameters: @swarm, @status<i>..., then @ids, @group_ids. *)
Definition cs_build_search (w : N) (f : filters) : query * binds :=
  let w0 : option cond := Some (CEq CSwarm PSwarm) in
  let w1 := if nonempty (f_ids f) then add_clause w0 (CContains PIds CId) else w0 in
  let w2 := if nonempty (f_groups f) then add_clause w1 (CContains PGroups CGroup) else w1 in
  let w3 := if nonempty (f_statuses f)
            then add_clause w2 (status_loop (fun i => CEq CStatus (PStatus i)) 0 (f_statuses f) CTrue)
            else w2 in
  let named := [(PSwarm, PV w)] ++ status_params 0 (f_statuses f)
               ++ (if nonempty (f_ids f) then [(PIds, PVs (f_ids f))] else [])
               ++ (if nonempty (f_groups f) then [(PGroups, PVs (f_groups f))] else []) in
  ({| q_where := w3; q_order := OSubmitDesc; q_limit := None |},
   {| b_args := []; b_named := named |}).

Definition cosmos_search (w : N) (f : filters) (s : cstore) : option (list sev) :=
  if validate f then
    let (q, b) := cs_build_search w f in Some (produce result_of_row (run_query q b (cs_search s)))
  else None.

(* reader.List: listPlans + " OFFSET 0 LIMIT @limit" iff limit > 0 *)
Definition cs_list_query (w : N) (limit : Z) : query * binds :=
  if Z.ltb 0 limit
  then ({| q_where := Some (CEq CSwarm PSwarm); q_order := OSubmitDesc; q_limit := Some PLimit |},
        {| b_args := []; b_named := [(PSwarm, PV w); (PLimit, PV (Z.to_N limit))] |})
  else ({| q_where := Some (CEq CSwarm PSwarm); q_order := OSubmitDesc; q_limit := None |},
        {| b_args := []; b_named := [(PSwarm, PV w)] |}).

Definition cosmos_list (w : N) (limit : Z) (s : cstore) : list sev :=
  let (q, b) := cs_list_query w limit in produce result_of_row (run_query q b (cs_search s)).
