(* The boolean property the correspondence check evaluates on real observations (AttemptsCheck.prop_run) and the
   model comparison hold on everything the model itself produces, for every retries and script: the checker's
   monitor is not stricter than the theorems, and check_run answers [0] on the model's own observation. *)
From Coq Require Import List Arith Bool Lia.
From Coercion.Base Require Import Plan.
From Coercion.Attempts Require Import ActionRun ActionAuto ActionRunProofs ActionAutoProofs AttemptsCheck.
Import ListNotations.

Definition obs_of_world (l : list outcome) (w : world) : run_obs :=
  {| ro_script := l; ro_calls := w_calls w; ro_ctx := w_ctx w; ro_attempts := map proj_att (w_attempts w);
     ro_status := w_status w; ro_trace := w_trace w; ro_stuck := false |}.

Lemma none_final_spec s : forall k, (forall i, i < k -> is_final (s i) = false) -> none_final s k = true.
Proof.
  induction k as [|k IH]; intros H; cbn; [reflexivity|].
  rewrite IH by (intros i Hi; apply H; lia). rewrite H by lia. reflexivity.
Qed.

Lemma atts_demanded_spec s : forall l i,
  map recorded l = map (fun j => (rec_resp j (s j), rec_err j (s j))) (seq i (length l)) ->
  Forall (fun a => 1 <= ar_start a /\ ar_start a <= ar_end a) l ->
  atts_demanded s i (map proj_att l) = true.
Proof.
  induction l as [|a l IH]; intros i Hm Ht; cbn [map atts_demanded]; [reflexivity|].
  cbn in Hm. inversion Hm as [[R1 R2 R3]]. inversion Ht as [|? ? (T1 & T2) Ht']; subst.
  rewrite (IH (S i) R3 Ht'). rewrite andb_true_r.
  unfold att_demanded, proj_att.
  rewrite (proj2 (Nat.leb_le _ _) T1), (proj2 (Nat.leb_le _ _) T2). cbn [andb].
  rewrite R1, R2. destruct (s i) as [|[] []]; cbn; rewrite ?Nat.eqb_refl; reflexivity.
Qed.

Lemma ctx_demanded_spec s : forall k i,
  ctx_demanded s i (map (fun j => overruns (s j)) (seq i k)) = true.
Proof.
  induction k as [|k IH]; intros i; cbn; [reflexivity|].
  rewrite eqb_reflx, IH. reflexivity.
Qed.

Lemma last_att_ok_proj l : last_att_ok (map proj_att l) = last_ok l.
Proof.
  unfold last_att_ok, last_ok. rewrite <- map_rev. destruct (rev l) as [|a r]; cbn; reflexivity.
Qed.

Lemma status_eqb_refl x : status_eqb x x = true.
Proof. destruct x; reflexivity. Qed.

Theorem model_satisfies_prop retries script l :
  prop_run retries script (obs_of_world l (run_action retries script)) = true.
Proof.
  destruct (run_action_spec retries script) as (w & e & _ & (HI & (H1 & H2 & H3 & H4) & He & _) & _ & Hrun).
  pose proof (final_status retries script) as (F1 & _ & _). cbn zeta in F1.
  rewrite Hrun in *. unfold prop_run, obs_of_world.
  cbn [ro_calls ro_attempts ro_ctx ro_status w_calls w_attempts w_ctx w_status finish] in *.
  destruct HI as [Hl Hr Hc Ht Hk Hn Hs].
  rewrite (proj2 (Nat.leb_le _ _) H1), (proj2 (Nat.leb_le _ _) H2). cbn [andb].
  rewrite none_final_spec by (intros i Hi; apply H3; lia). cbn [andb].
  assert (Hstop : is_final (script (pred (w_calls w))) || (w_calls w =? S retries) = true).
  { destruct H4 as [H4|H4]; [rewrite H4; reflexivity|]. rewrite H4, Nat.eqb_refl. apply orb_true_r. }
  rewrite Hstop. cbn [andb].
  rewrite !map_length, Hl, Nat.eqb_refl. cbn [andb].
  rewrite atts_demanded_spec.
  2:{ rewrite Hl. exact Hr. }
  2:{ eapply Forall_impl; [|exact Ht]. cbn. intros a (A & B & C). lia. }
  cbn [andb]. rewrite Hc, map_length, seq_length, Nat.eqb_refl. cbn [andb].
  rewrite ctx_demanded_spec. cbn [andb].
  rewrite last_att_ok_proj. rewrite F1. apply status_eqb_refl.
Qed.

Lemma list_eqb_refl {A} (f : A -> A -> bool) (Hf : forall x, f x x = true) : forall l, list_eqb f l l = true.
Proof. induction l as [|x l IH]; cbn; [reflexivity|]. rewrite Hf, IH. reflexivity. Qed.

Lemma att_eqb_refl a : att_eqb a a = true.
Proof.
  destruct a as [[rs er] t]. cbn.
  assert (R : resp_eqb rs rs = true) by (destruct rs; cbn; rewrite ?Nat.eqb_refl; reflexivity).
  assert (E : err_eqb er er = true) by (destruct er; cbn; rewrite ?Nat.eqb_refl, ?eqb_reflx; reflexivity).
  rewrite R, E, eqb_reflx. reflexivity.
Qed.

(* the whole per-run check answers "fine" on the model's own observation, for every input *)
Theorem check_run_on_model retries l dflt :
  check_run retries dflt (obs_of_world l (run_action retries (script_of l dflt))) = [0].
Proof.
  unfold check_run. cbn [ro_script obs_of_world].
  set (s := script_of l dflt). set (w := run_action retries s).
  assert (Hd : run_differs retries s (obs_of_world l w) = 0).
  { unfold run_differs, obs_of_world. cbn [ro_calls ro_ctx ro_attempts ro_status]. fold w.
    rewrite Nat.eqb_refl. cbn [negb].
    rewrite (list_eqb_refl eqb eqb_reflx). cbn [negb].
    rewrite (list_eqb_refl att_eqb att_eqb_refl). cbn [negb].
    rewrite status_eqb_refl. reflexivity. }
  fold (obs_of_world l w). rewrite Hd. cbn [Nat.eqb negb].
  cbn [ro_trace obs_of_world].
  rewrite (accepted_monitor_ok retries (w_trace w) (model_trace_accepted retries s)). cbn [negb].
  rewrite (model_trace_accepted retries s : accepted retries (w_trace w) = true). cbn [negb].
  fold (obs_of_world l w). unfold w. rewrite model_satisfies_prop. reflexivity.
Qed.
