(* Proofs about the functional model of one action run (ActionRun.v). *)
From Coq Require Import List Arith Bool Lia.
From Coercion.Base Require Import Plan.
From Coercion.Attempts Require Import ActionRun ActionAuto.
Import ListNotations.

(* ---- one try of exec, in closed form ----------------------------------------------------------------------- *)
Definition ret_of (o : outcome) : exec_ret :=
  match o with
  | OOverrun => XRetryable
  | ORet PBad _ => XPermanent
  | ORet _ PNoErr => XNil
  | ORet _ PTrans => XRetryable
  | ORet _ PPerm => XPermanent
  end.

(* what exec stores for invocation k with outcome o: a wrong-typed response is never stored (and the plugin's
   error is replaced by the engine's permanent type error); otherwise the pair as returned *)
Definition rec_resp (k : nat) (o : outcome) : resp_obs :=
  match o with ORet PGood _ => RGood k | _ => RNone end.

Definition rec_err (k : nat) (o : outcome) : err_obs :=
  match o with
  | OOverrun => EEngine false
  | ORet PBad _ => EEngine true
  | ORet _ PNoErr => ENone
  | ORet _ PTrans => EPlug k false
  | ORet _ PPerm => EPlug k true
  end.

Definition step_events (o : outcome) (n : nat) : list aevent :=
  if overruns o then [AStart; AWAtt n false; AEnd o] else [AStart; AEnd o; AWAtt n (is_ok o)].

Definition step_world (s : nat -> outcome) (w : world) : world :=
  let k := w_calls w in
  let o := s k in
  {| w_status := w_status w;
     w_attempts := w_attempts w ++
       [{| ar_resp := rec_resp k o; ar_err := rec_err k o; ar_start := w_clock w; ar_end := S (w_clock w) |}];
     w_clock := S (S (w_clock w));
     w_calls := S k;
     w_ctx := w_ctx w ++ [overruns o];
     w_trace := w_trace w ++ step_events o (S (length (w_attempts w))) |}.

Lemma exec_guard r s w :
  r < length (w_attempts w) -> exec r s w = (w, XPermanent).
Proof.
  intros H. unfold exec. destruct (r <? length (w_attempts w)) eqn:E; [reflexivity|].
  apply Nat.ltb_ge in E. lia.
Qed.

Lemma exec_call r s w :
  length (w_attempts w) <= r -> exec r s w = (step_world s w, ret_of (s (w_calls w))).
Proof.
  intros H. unfold exec. destruct (r <? length (w_attempts w)) eqn:E.
  - apply Nat.ltb_lt in E. lia.
  - unfold step_world, step_events.
    destruct (s (w_calls w)) as [|[] []]; cbn; rewrite app_length; cbn; rewrite Nat.add_1_r; reflexivity.
Qed.

(* invocations = AStart events of the trace *)
Definition is_start (e : aevent) : bool := match e with AStart => true | _ => false end.
Definition count_starts (tr : list aevent) : nat := length (filter is_start tr).

Lemma count_starts_app a b : count_starts (a ++ b) = count_starts a + count_starts b.
Proof. unfold count_starts. rewrite filter_app, app_length. reflexivity. Qed.

Lemma count_starts_step s w : count_starts (w_trace (step_world s w)) = S (count_starts (w_trace w)).
Proof.
  unfold step_world. cbn [w_trace]. rewrite count_starts_app. unfold step_events.
  destruct (overruns (s (w_calls w))); cbn; lia.
Qed.

(* ---- the invariant of a run --------------------------------------------------------------------------------- *)
Definition recorded (a : attempt_rec) : resp_obs * err_obs := (ar_resp a, ar_err a).

Record Inv (s : nat -> outcome) (w : world) : Prop := {
  inv_len : length (w_attempts w) = w_calls w;
  inv_rec : map recorded (w_attempts w) = map (fun i => (rec_resp i (s i), rec_err i (s i))) (seq 0 (w_calls w));
  inv_ctx : w_ctx w = map (fun i => overruns (s i)) (seq 0 (w_calls w));
  inv_time : Forall (fun a => 1 <= ar_start a /\ ar_start a < ar_end a /\ ar_end a < w_clock w) (w_attempts w);
  inv_clock : 1 <= w_clock w;
  inv_starts : count_starts (w_trace w) = w_calls w;
  inv_sorted : forall i j a b, i < j -> nth_error (w_attempts w) i = Some a -> nth_error (w_attempts w) j = Some b ->
                               ar_end a < ar_start b
}.

Lemma inv_start s : Inv s (start world0).
Proof.
  constructor; cbn; try reflexivity; try constructor; try lia.
  intros i j a b _ H. destruct i; discriminate.
Qed.

Lemma inv_step s w : Inv s w -> Inv s (step_world s w).
Proof.
  intros [Hl Hr Hc Ht Hk Hn Hs]. constructor; unfold step_world; cbn [w_status w_attempts w_clock w_calls w_ctx w_trace].
  - rewrite app_length. cbn. lia.
  - rewrite map_app, Hr, seq_S, map_app. reflexivity.
  - rewrite Hc, seq_S, map_app. reflexivity.
  - apply Forall_app. split.
    + eapply Forall_impl; [|exact Ht]. cbn. intros a (A & B & C). lia.
    + constructor; [cbn; lia|constructor].
  - lia.
  - pose proof (count_starts_step s w) as Hcs. unfold step_world in Hcs. cbn [w_trace] in Hcs.
    rewrite Hcs, Hn. reflexivity.
  - intros i j a b Hij Ha Hb.
    assert (Hj : j < length (w_attempts w ++ [{| ar_resp := rec_resp (w_calls w) (s (w_calls w));
                      ar_err := rec_err (w_calls w) (s (w_calls w)); ar_start := w_clock w; ar_end := S (w_clock w) |}]))
      by (apply nth_error_Some; congruence).
    rewrite app_length in Hj. cbn in Hj.
    assert (Hi : i < length (w_attempts w)) by lia.
    rewrite nth_error_app1 in Ha by exact Hi.
    destruct (Nat.lt_ge_cases j (length (w_attempts w))) as [Hjl|Hjl].
    + rewrite nth_error_app1 in Hb by exact Hjl. exact (Hs i j a b Hij Ha Hb).
    + assert (j = length (w_attempts w)) by lia. subst j.
      rewrite nth_error_app2 in Hb by lia. rewrite Nat.sub_diag in Hb. cbn in Hb. inversion Hb; subst b. cbn.
      rewrite Forall_forall in Ht. apply nth_error_In in Ha. apply Ht in Ha. lia.
Qed.

(* the stop rule: every invocation but the last returned a retryable outcome; the run stopped because the last
   one was final or because the retries are used up *)
Definition Stopped_ok (r : nat) (s : nat -> outcome) (w : world) : Prop :=
  1 <= w_calls w /\ w_calls w <= S r /\
  (forall i, S i < w_calls w -> is_final (s i) = false) /\
  (is_final (s (pred (w_calls w))) = true \/ w_calls w = S r).

Lemma ret_of_nil o : ret_of o = XNil <-> is_ok o = true.
Proof. destruct o as [|[] []]; cbn; split; congruence. Qed.

Lemma ret_of_perm o : ret_of o = XPermanent -> is_final o = true.
Proof. destruct o as [|[] []]; cbn; congruence. Qed.

Lemma ret_of_retry o : ret_of o = XRetryable -> is_final o = false.
Proof. destruct o as [|[] []]; cbn; congruence. Qed.

Lemma is_ok_final o : is_ok o = true -> is_final o = true.
Proof. destruct o as [|[] []]; cbn; congruence. Qed.

Lemma is_ok_ret o : is_ok o = (match ret_of o with XNil => true | _ => false end).
Proof. destruct o as [|[] []]; reflexivity. Qed.

(* what the loop is entered with *)
Definition LoopPre (r : nat) (s : nat -> outcome) (w : world) (e : exec_ret) : Prop :=
  Inv s w /\ 1 <= w_calls w /\ w_calls w <= S r /\
  (forall i, S i < w_calls w -> is_final (s i) = false) /\
  e = ret_of (s (pred (w_calls w))) /\ e <> XNil.

Definition Post (r : nat) (s : nat -> outcome) (st : status) (w : world) (e : exec_ret) : Prop :=
  Inv s w /\ Stopped_ok r s w /\ (e = XNil <-> is_ok (s (pred (w_calls w))) = true) /\ w_status w = st.

Lemma retry_loop_spec r s : forall fuel w e,
  LoopPre r s w e -> S (S r) <= fuel + pred (w_calls w) ->
  exists w' e', retry_loop fuel r s w e = Some (w', e') /\ Post r s (w_status w) w' e'.
Proof.
  induction fuel as [|f IH]; intros w e (HI & H1 & Hr & Hnf & He & Hne) Hfuel.
  - lia.
  - cbn [retry_loop]. destruct e eqn:Ee.
    + congruence.
    + (* the last outcome was permanent *)
      exists w, XPermanent. split; [reflexivity|].
      split; [exact HI|]. split; [|split; [|reflexivity]].
      * repeat split; try assumption. left. apply ret_of_perm. congruence.
      * split; [congruence|]. intros Hok. apply ret_of_nil in Hok. congruence.
    + (* retryable: the loop sleeps and calls exec again *)
      assert (Hlast : is_final (s (pred (w_calls w))) = false) by (apply ret_of_retry; congruence).
      destruct (Nat.eq_dec (w_calls w) (S r)) as [Hex|Hex].
      * (* retries used up: exec refuses with the bare ErrPermanent *)
        rewrite exec_guard by (rewrite (inv_len _ _ HI); lia).
        destruct f as [|f']; [lia|]. cbn [retry_loop].
        exists w, XPermanent. split; [reflexivity|].
        split; [exact HI|]. split; [|split; [|reflexivity]].
        -- repeat split; try assumption. right. exact Hex.
        -- split; [congruence|]. intros Hok. apply is_ok_final in Hok. congruence.
      * rewrite exec_call by (rewrite (inv_len _ _ HI); lia).
        assert (HI' : Inv s (step_world s w)) by (apply inv_step; exact HI).
        assert (Hnf' : forall i, S i < w_calls (step_world s w) -> is_final (s i) = false).
        { cbn. intros i Hi. destruct (Nat.eq_dec (S i) (w_calls w)) as [E|E].
          - replace i with (pred (w_calls w)) by lia. exact Hlast.
          - apply Hnf. lia. }
        destruct (ret_of (s (w_calls w))) eqn:Er.
        -- exists (step_world s w), XNil. split; [reflexivity|].
           split; [exact HI'|]. split; [|split; [|reflexivity]].
           ++ split; [cbn; lia|]. split; [cbn; lia|]. split; [exact Hnf'|].
              left. cbn. apply is_ok_final. apply ret_of_nil. exact Er.
           ++ cbn. split; [intros _; apply ret_of_nil; exact Er|reflexivity].
        -- destruct (IH (step_world s w) XPermanent) as (w' & e' & Hrun & Hpost).
           ++ split; [exact HI'|]. cbn. split; [lia|]. split; [lia|]. split; [exact Hnf'|].
              split; [symmetry; exact Er|congruence].
           ++ cbn. lia.
           ++ exists w', e'. split; [exact Hrun|exact Hpost].
        -- destruct (IH (step_world s w) XRetryable) as (w' & e' & Hrun & Hpost).
           ++ split; [exact HI'|]. cbn. split; [lia|]. split; [lia|]. split; [exact Hnf'|].
              split; [symmetry; exact Er|congruence].
           ++ cbn. lia.
           ++ exists w', e'. split; [exact Hrun|exact Hpost].
Qed.

Lemma retry_spec r s w :
  Inv s w -> w_calls w = 0 ->
  exists w' e', retry (r + 2) r s w = Some (w', e') /\ Post r s (w_status w) w' e'.
Proof.
  intros HI H0. unfold retry.
  rewrite exec_call by (rewrite (inv_len _ _ HI); lia).
  assert (HI' : Inv s (step_world s w)) by (apply inv_step; exact HI).
  assert (Hnf' : forall i, S i < w_calls (step_world s w) -> is_final (s i) = false) by (cbn; intros; lia).
  destruct (ret_of (s (w_calls w))) eqn:Er.
  - exists (step_world s w), XNil. split; [reflexivity|].
    split; [exact HI'|]. split; [|split; [|reflexivity]].
    + split; [cbn; lia|]. split; [cbn; lia|]. split; [exact Hnf'|].
      left. cbn. apply is_ok_final. apply ret_of_nil. exact Er.
    + cbn. split; [intros _; apply ret_of_nil; exact Er|reflexivity].
  - destruct (retry_loop_spec r s (r + 2) (step_world s w) XPermanent) as (w' & e' & Hrun & Hpost).
    + split; [exact HI'|]. cbn. split; [lia|]. split; [lia|]. split; [exact Hnf'|].
      split; [symmetry; exact Er|congruence].
    + cbn. lia.
    + exists w', e'. split; [exact Hrun|exact Hpost].
  - destruct (retry_loop_spec r s (r + 2) (step_world s w) XRetryable) as (w' & e' & Hrun & Hpost).
    + split; [exact HI'|]. cbn. split; [lia|]. split; [lia|]. split; [exact Hnf'|].
      split; [symmetry; exact Er|congruence].
    + cbn. lia.
    + exists w', e'. split; [exact Hrun|exact Hpost].
Qed.

(* the fuel is enough: run_action_opt never answers None *)
Lemma run_action_spec r s :
  exists w e, retry (r + 2) r s (start world0) = Some (w, e) /\ Post r s Running w e /\
              run_action_opt r s = Some (finish w e) /\ run_action r s = finish w e.
Proof.
  destruct (retry_spec r s (start world0) (inv_start s) eq_refl) as (w & e & Hrun & Hpost).
  exists w, e. split; [exact Hrun|]. split; [exact Hpost|].
  unfold run_action, run_action_opt. rewrite Hrun. split; reflexivity.
Qed.

Lemma run_action_opt_some r s : run_action_opt r s = Some (run_action r s).
Proof. destruct (run_action_spec r s) as (w & e & _ & _ & H1 & H2). rewrite H1, H2. reflexivity. Qed.

(* ---- consequences ------------------------------------------------------------------------------------------- *)
Lemma calls_bounded r s : w_calls (run_action r s) <= S r.
Proof.
  destruct (run_action_spec r s) as (w & e & _ & (_ & (H1 & H2 & _) & _) & _ & ->). cbn. exact H2.
Qed.

Lemma calls_positive r s : 1 <= w_calls (run_action r s).
Proof.
  destruct (run_action_spec r s) as (w & e & _ & (_ & (H1 & H2 & _) & _) & _ & ->). cbn. exact H1.
Qed.

Lemma stops_after_final r s i :
  i < w_calls (run_action r s) -> is_final (s i) = true -> w_calls (run_action r s) = S i.
Proof.
  destruct (run_action_spec r s) as (w & e & _ & (_ & (H1 & H2 & H3 & _) & _) & _ & ->). cbn.
  intros Hi Hf. destruct (Nat.eq_dec (S i) (w_calls w)) as [E|E]; [lia|].
  rewrite H3 in Hf by lia. discriminate.
Qed.

Lemma gives_up_only_when_exhausted r s :
  w_calls (run_action r s) < S r -> is_final (s (pred (w_calls (run_action r s)))) = true.
Proof.
  destruct (run_action_spec r s) as (w & e & _ & (_ & (H1 & H2 & H3 & H4) & _) & _ & ->). cbn.
  intros Hlt. destruct H4 as [H4|H4]; [exact H4|lia].
Qed.

Lemma nth_error_map_seq {A} (f : nat -> A) n i : i < n -> nth_error (map f (seq 0 n)) i = Some (f i).
Proof.
  intros H. rewrite nth_error_map. rewrite nth_error_nth' with (d := 0) by (rewrite seq_length; exact H).
  rewrite seq_nth by exact H. reflexivity.
Qed.

Lemma all_recorded r s :
  let w := run_action r s in
  length (w_attempts w) = w_calls w /\ length (w_ctx w) = w_calls w /\
  forall i, i < w_calls w ->
    exists a, nth_error (w_attempts w) i = Some a /\
              ar_resp a = rec_resp i (s i) /\ ar_err a = rec_err i (s i) /\
              1 <= ar_start a /\ ar_start a <= ar_end a /\
              nth_error (w_ctx w) i = Some (overruns (s i)).
Proof.
  destruct (run_action_spec r s) as (w & e & _ & (HI & _ & _) & _ & ->). cbn.
  destruct HI as [Hl Hr Hc Ht Hk Hn Hs].
  split; [exact Hl|]. split; [rewrite Hc, map_length, seq_length; reflexivity|].
  intros i Hi.
  destruct (nth_error (w_attempts w) i) as [a|] eqn:Ea.
  2:{ apply nth_error_None in Ea. lia. }
  exists a. split; [reflexivity|].
  assert (Hm : nth_error (map recorded (w_attempts w)) i = Some (recorded a)) by (rewrite nth_error_map, Ea; reflexivity).
  rewrite Hr, nth_error_map_seq in Hm by exact Hi. inversion Hm as [[R1 R2]].
  split; [reflexivity|]. split; [reflexivity|].
  rewrite Forall_forall in Ht. pose proof (Ht a (nth_error_In _ _ Ea)) as (A & B & C).
  split; [lia|]. split; [lia|].
  rewrite Hc. exact (nth_error_map_seq (fun i => overruns (s i)) _ _ Hi).
Qed.

Lemma attempts_in_time_order r s i j a b :
  i < j -> nth_error (w_attempts (run_action r s)) i = Some a -> nth_error (w_attempts (run_action r s)) j = Some b ->
  ar_end a < ar_start b.
Proof.
  destruct (run_action_spec r s) as (w & e & _ & (HI & _ & _) & _ & ->). cbn. apply (inv_sorted _ _ HI).
Qed.

Lemma last_ok_spec s w :
  Inv s w -> 1 <= w_calls w -> last_ok (w_attempts w) = is_ok (s (pred (w_calls w))).
Proof.
  intros [Hl Hr Hc Ht Hk Hs] H1. unfold last_ok.
  destruct (w_calls w) as [|k] eqn:Ek; [lia|]. cbn [pred].
  assert (Hm : map recorded (rev (w_attempts w)) =
               rev (map (fun i => (rec_resp i (s i), rec_err i (s i))) (seq 0 (S k)))) by (rewrite map_rev, Hr; reflexivity).
  rewrite seq_S, map_app, rev_app_distr in Hm. cbn in Hm.
  destruct (rev (w_attempts w)) as [|a l]; [discriminate|].
  cbn in Hm. inversion Hm as [[R1 R2 R3]]. rewrite R2. destruct (s k) as [|[] []]; reflexivity.
Qed.

Lemma final_status r s :
  let w := run_action r s in
  w_status w = (if last_ok (w_attempts w) then Completed else Failed) /\
  (w_status w = Completed <-> is_ok (s (pred (w_calls w))) = true) /\
  ((forall i, i <= r -> is_final (s i) = false) -> w_status w = Failed /\ length (w_attempts w) = S r).
Proof.
  destruct (run_action_spec r s) as (w & e & _ & (HI & (H1 & H2 & H3 & H4) & He & _) & _ & ->). cbn.
  rewrite (last_ok_spec s w HI H1).
  assert (Hst : (match e with XNil => true | _ => false end) = is_ok (s (pred (w_calls w)))).
  { destruct He as [He1 He2]. destruct (is_ok (s (pred (w_calls w)))) eqn:Eo.
    - rewrite (He2 eq_refl). reflexivity.
    - destruct e; try reflexivity. specialize (He1 eq_refl). discriminate. }
  rewrite Hst. split; [reflexivity|]. split.
  - destruct (is_ok (s (pred (w_calls w)))); cbn; split; congruence.
  - intros Hall. destruct H4 as [H4|H4].
    + rewrite Hall in H4 by lia. discriminate.
    + split.
      * assert (Hf := Hall (pred (w_calls w)) ltac:(lia)).
        destruct (is_ok (s (pred (w_calls w)))) eqn:Eo; [|reflexivity].
        apply is_ok_final in Eo. congruence.
      * rewrite (inv_len _ _ HI). exact H4.
Qed.

(* ---- the model's trace is accepted by the automaton ----------------------------------------------------------- *)
Lemma run_steps_app {S E} (step : S -> E -> option S) s tr1 tr2 :
  run_steps step s (tr1 ++ tr2) = match run_steps step s tr1 with Some s' => run_steps step s' tr2 | None => None end.
Proof.
  revert s. induction tr1 as [|e tr1 IH]; intros s; cbn; [reflexivity|].
  destruct (step s e); [apply IH|reflexivity].
Qed.

(* automaton state that corresponds to a world in which every outcome so far was retryable or the last one *)
Definition ast_of (r : nat) (s : nat -> outcome) (w : world) : ast :=
  match w_calls w with
  | 0 => {| a_ph := ARun 0; a_img := IRun; a_late := 0 |}
  | S k => {| a_ph := after_ret r k (s k); a_img := IAtt (S k) (is_ok (s k)); a_late := 0 |}
  end.

Lemma auto_step r s w :
  length (w_attempts w) = w_calls w -> w_calls w <= r ->
  (forall k, w_calls w = S k -> is_final (s k) = false) ->
  arun r (w_trace w) = Some (ast_of r s w) ->
  arun r (w_trace (step_world s w)) = Some (ast_of r s (step_world s w)).
Proof.
  intros Hl Hr Hnf Hrun. unfold arun in *. cbn [w_trace step_world].
  rewrite run_steps_app, Hrun. unfold ast_of at 2. cbn [w_calls step_world].
  rewrite Hl.
  assert (Hst : exists img, ast_of r s w = {| a_ph := ARun (w_calls w); a_img := img; a_late := 0 |} /\
                            img_shows (w_calls w) img = true).
  { unfold ast_of. destruct (w_calls w) as [|k] eqn:Ek.
    - eexists. split; [reflexivity|reflexivity].
    - specialize (Hnf k eq_refl). eexists. split.
      + unfold after_ret. rewrite Hnf. destruct (S k <=? r) eqn:E; [reflexivity|apply Nat.leb_gt in E; lia].
      + cbn. apply Nat.eqb_refl. }
  destruct Hst as (img & -> & Himg).
  assert (Hle : (w_calls w <=? r) = true) by (apply Nat.leb_le; exact Hr).
  unfold step_events.
  destruct (s (w_calls w)) as [|[] []] eqn:Eo; cbn; rewrite ?Hle, ?Himg; cbn; rewrite ?Nat.eqb_refl; cbn; reflexivity.
Qed.

Lemma trace_inv_loop r s : forall fuel w e w' e',
  LoopPre r s w e -> arun r (w_trace w) = Some (ast_of r s w) ->
  retry_loop fuel r s w e = Some (w', e') ->
  arun r (w_trace w') = Some (ast_of r s w').
Proof.
  induction fuel as [|f IH]; intros w e w' e' (HI & H1 & Hr & Hnf & He & Hne) Hrun Hloop.
  - discriminate.
  - cbn [retry_loop] in Hloop. destruct e eqn:Ee.
    + congruence.
    + inversion Hloop; subst. exact Hrun.
    + assert (Hlast : is_final (s (pred (w_calls w))) = false) by (apply ret_of_retry; congruence).
      destruct (Nat.eq_dec (w_calls w) (S r)) as [Hex|Hex].
      * rewrite exec_guard in Hloop by (rewrite (inv_len _ _ HI); lia).
        destruct f as [|f']; [discriminate|]. cbn [retry_loop] in Hloop. inversion Hloop; subst. exact Hrun.
      * rewrite exec_call in Hloop by (rewrite (inv_len _ _ HI); lia).
        assert (HI' : Inv s (step_world s w)) by (apply inv_step; exact HI).
        assert (Hrun' : arun r (w_trace (step_world s w)) = Some (ast_of r s (step_world s w))).
        { apply auto_step; [exact (inv_len _ _ HI)|lia| |exact Hrun].
          intros k Hk. rewrite Hk in Hlast. exact Hlast. }
        assert (Hnf' : forall i, S i < w_calls (step_world s w) -> is_final (s i) = false).
        { cbn. intros i Hi. destruct (Nat.eq_dec (S i) (w_calls w)) as [E|E].
          - replace i with (pred (w_calls w)) by lia. exact Hlast.
          - apply Hnf. lia. }
        destruct (ret_of (s (w_calls w))) eqn:Er.
        -- inversion Hloop; subst. exact Hrun'.
        -- eapply IH; [|exact Hrun'|exact Hloop].
           split; [exact HI'|]. cbn. split; [lia|]. split; [lia|]. split; [exact Hnf'|].
           split; [symmetry; exact Er|congruence].
        -- eapply IH; [|exact Hrun'|exact Hloop].
           split; [exact HI'|]. cbn. split; [lia|]. split; [lia|]. split; [exact Hnf'|].
           split; [symmetry; exact Er|congruence].
Qed.

Lemma model_trace_accepted r s : accepted r (w_trace (run_action r s)) = true.
Proof.
  destruct (run_action_spec r s) as (w & e & Hrun & (HI & (H1 & H2 & H3 & H4) & He & _) & _ & ->).
  assert (Hw : arun r (w_trace w) = Some (ast_of r s w)).
  { unfold retry in Hrun.
    rewrite exec_call in Hrun by (cbn; lia).
    assert (H0 : arun r (w_trace (step_world s (start world0))) = Some (ast_of r s (step_world s (start world0)))).
    { apply auto_step; cbn; try reflexivity; try lia. }
    destruct (ret_of (s (w_calls (start world0)))) eqn:Er.
    - inversion Hrun; subst. exact H0.
    - eapply trace_inv_loop; [|exact H0|exact Hrun].
      split; [apply inv_step, inv_start|]. cbn. split; [lia|]. split; [lia|]. split; [intros; lia|].
      split; [symmetry; exact Er|congruence].
    - eapply trace_inv_loop; [|exact H0|exact Hrun].
      split; [apply inv_step, inv_start|]. cbn. split; [lia|]. split; [lia|]. split; [intros; lia|].
      split; [symmetry; exact Er|congruence]. }
  unfold accepted, arun in *. cbn [w_trace finish]. rewrite run_steps_app, Hw.
  unfold ast_of. destruct (w_calls w) as [|k] eqn:Ek; [lia|]. cbn [pred] in *.
  rewrite (inv_len _ _ HI), Ek.
  assert (Hph : after_ret r k (s k) = APend (match e with XNil => true | _ => false end) (S k)).
  { destruct He as [He1 He2]. unfold after_ret. destruct (is_final (s k)) eqn:Ef.
    - destruct (is_ok (s k)) eqn:Eo.
      + rewrite (He2 eq_refl). reflexivity.
      + destruct e; try reflexivity. specialize (He1 eq_refl). discriminate.
    - destruct H4 as [H4|H4]; [discriminate|].
      destruct (S k <=? r) eqn:E; [apply Nat.leb_le in E; lia|].
      destruct e; try reflexivity. specialize (He1 eq_refl). apply is_ok_final in He1. congruence. }
  cbn. rewrite Hph. cbn. rewrite eqb_reflx, Nat.eqb_refl. cbn.
  unfold astep, handle, stutter. cbn. rewrite eqb_reflx, Nat.eqb_refl. cbn. reflexivity.
Qed.

Lemma model_trace_starts r s : count_starts (w_trace (run_action r s)) = w_calls (run_action r s).
Proof.
  destruct (run_action_spec r s) as (w & e & _ & (HI & _ & _) & _ & ->). cbn [w_trace finish w_calls].
  rewrite count_starts_app, (inv_starts _ _ HI). cbn. lia.
Qed.
