(* C05 - one ACTION RUN, functional model.

   Transcription of the control flow of
     internal/execute/sm/actions/actions.go   Runner.Start / GetPlugin / Execute / exec / run / End
     github.com/Azure/retry/exponential       Backoff.Retry  (what gostdlib/base/retry/exponential aliases)
     internal/execute/sm/sm.go                runAction (final UpdateAction), runActionsParallel (the
                                              Running write of a check action)
   for an action that is NotStarted (sequence action) or was just marked Running by its check group
   (check action), whose plugin is registered, whose plan context is not cancelled while it runs, and whose
   plugin's retry policy sets no MaxAttempts (the harness policy: 100 us initial, factor 1.1).

   The plugin is scripted: [script k] is what its k-th invocation (k = 0, 1, ...) of this run does.  Execute
   returns a PAIR (response, *plugins.Error); every combination is an outcome:

     ORet rs er  returns in time;  rs : PNil (nil response) | PGood (a value of the declared response type,
                 tagged k) | PBad (a value of any other Go type);  er : PNoErr (nil) | PTrans (a non-permanent
                 error, tagged k) | PPerm (a permanent error, tagged k)
     OOverrun    is still running when the action's Timeout expires; it honours ctx.Done() and returns
                 (an error, tagged k) only afterwards

   The five classical outcomes are notations: OOk = ORet PGood PNoErr, OErr = ORet PNil PTrans,
   OPerm = ORet PNil PPerm, OWrongType = ORet PBad PNoErr.

   No proofs in this file.  *)
From Coq Require Import List Arith Bool.
From Coercion.Base Require Import Plan.
Import ListNotations.

Inductive presp := PNil | PGood | PBad.
Inductive perr := PNoErr | PTrans | PPerm.
Inductive outcome := OOverrun | ORet (rs : presp) (er : perr).

Notation OOk := (ORet PGood PNoErr).
Notation OErr := (ORet PNil PTrans).
Notation OPerm := (ORet PNil PPerm).
Notation OWrongType := (ORet PBad PNoErr).

Definition presp_eqb (a b : presp) : bool :=
  match a, b with PNil, PNil | PGood, PGood | PBad, PBad => true | _, _ => false end.
Definition perr_eqb (a b : perr) : bool :=
  match a, b with PNoErr, PNoErr | PTrans, PTrans | PPerm, PPerm => true | _, _ => false end.

Definition outcome_eqb (a b : outcome) : bool :=
  match a, b with
  | OOverrun, OOverrun => true
  | ORet r e, ORet r' e' => presp_eqb r r' && perr_eqb e e'
  | _, _ => false
  end.

(* an outcome after which the action must not be invoked again: a wrong-typed response (whatever the error),
   otherwise no error (success) or a permanent error *)
Definition is_final (o : outcome) : bool :=
  match o with
  | OOverrun => false
  | ORet PBad _ => true
  | ORet _ PNoErr => true
  | ORet _ PPerm => true
  | ORet _ PTrans => false
  end.

(* the invocation succeeded: no error and the response, if any, has the declared type *)
Definition is_ok (o : outcome) : bool :=
  match o with ORet PNil PNoErr | ORet PGood PNoErr => true | _ => false end.

(* ---- observable events of one action (shared with ActionAuto.v) ---------------------------------------
   Writes are logged by a vault wrapper AFTER UpdateAction returned; AStart / AEnd by the plugin on entry and
   just before it returns; all under one lock, so the order of the log is a happens-before witness. *)
Inductive aevent :=
| AWRun                              (* durable write: Running, no attempts *)
| AStart                             (* plugin Execute entered *)
| AEnd (o : outcome)                 (* plugin Execute about to return *)
| AWAtt (n : nat) (lastok : bool)    (* durable write: Running, n >= 1 attempts, last attempt has no error *)
| AWDone (ok : bool) (n : nat)       (* durable write: Completed (ok) / Failed, n attempts *)
| AWIdle                             (* durable write of the untouched action: NotStarted, no attempts *)
| AWBad.                             (* any other write (NotStarted with attempts, Stopped, ...) *)

(* ---- what the engine records, projected ----------------------------------------------------------------
   resp:  RNone = nil; RGood k = a value of the declared response type, the one invocation k returned;
          RBad = a value of any other Go type.
   err:   ENone = nil; EPlug k perm = the *plugins.Error invocation k returned (harness plugins put k into
          Code); EEngine perm = an error made by the engine itself (Code 0): the timeout error (perm = false)
          or the response-type error (perm = true). *)
Inductive resp_obs := RNone | RGood (tag : nat) | RBad.
Inductive err_obs := ENone | EPlug (tag : nat) (perm : bool) | EEngine (perm : bool).

Record attempt_rec := { ar_resp : resp_obs; ar_err : err_obs; ar_start : nat; ar_end : nat }.

Definition err_none (e : err_obs) : bool := match e with ENone => true | _ => false end.
Definition err_perm (e : err_obs) : bool :=
  match e with ENone => false | EPlug _ p => p | EEngine p => p end.

(* ---- the plugin ----------------------------------------------------------------------------------------- *)
Record plug_ret := { pr_resp : resp_obs; pr_err : err_obs }.

Definition plugin_execute (k : nat) (o : outcome) : plug_ret :=
  match o with
  | OOverrun => {| pr_resp := RNone; pr_err := EPlug k false |}   (* returned after the deadline *)
  | ORet rs er =>
      {| pr_resp := match rs with PNil => RNone | PGood => RGood k | PBad => RBad end;
         pr_err := match er with PNoErr => ENone | PTrans => EPlug k false | PPerm => EPlug k true end |}
  end.

Definition overruns (o : outcome) : bool := match o with OOverrun => true | _ => false end.

(* run(): select { case <-ctx.Done(): (an answer that already arrived wins: non-blocking receive of ch) else timeout
                   case resp := <-ch: resp }
   An outcome ORet answers before the deadline, OOverrun only after the engine has given up: per outcome the
   result is the same with or without the non-blocking receive (fix 45aa3d6, finding T1). *)
Inductive run_ret := RunTimeout | RunResp (r : plug_ret).

Definition run (k : nat) (o : outcome) : run_ret :=
  if overruns o then RunTimeout else RunResp (plugin_execute k o).

(* isType(attempt.Resp, plugin.Response()) *)
Definition is_type (r : resp_obs) : bool := match r with RBad => false | _ => true end.
Definition resp_nil (r : resp_obs) : bool := match r with RNone => true | _ => false end.

(* ---- the action in memory, the clock, the observations --------------------------------------------------- *)
Record world := {
  w_status : status;
  w_attempts : list attempt_rec;       (* action.Attempts *)
  w_clock : nat;                       (* r.now(): returns the clock and advances it; starts at 1 (0 = zero time) *)
  w_calls : nat;                       (* plugin invocations so far *)
  w_ctx : list bool;                   (* per invocation: the plugin saw its context cancelled *)
  w_trace : list aevent                (* observable events so far *)
}.

(* what exec returns, as far as Backoff.Retry looks at it *)
Inductive exec_ret :=
| XNil                                 (* nil *)
| XPermanent                           (* errors.Is(err, ErrPermanent): bare ErrPermanent, or errPermanent(attempt.Err) *)
| XRetryable.                          (* attempt.Err, not permanent *)

Definition last_ok (l : list attempt_rec) : bool :=
  match rev l with [] => false | a :: _ => err_none (ar_err a) end.

(* exec: one try.
     if len(action.Attempts) > action.Retries { return exponential.ErrPermanent }
     defer UpdateAction(action)                      -- runs second
     attempt := &Attempt{Start: now()}
     defer append(action.Attempts, attempt)          -- runs first
     plugResp := run(ctxWithTimeout, plugin, req);  attempt.End = now()
     if plugResp.timeout { attempt.Err = timeout error (not permanent); return attempt.Err }
     attempt.Resp, attempt.Err = plugResp.Resp, plugResp.Err
     if attempt.Resp != nil && !isType(attempt.Resp, plugin.Response()) {
         attempt.Err = type error (permanent); attempt.Resp = nil }
     if attempt.Err == nil { return nil }
     if attempt.Err.Permanent { return errPermanent(attempt.Err) }
     return attempt.Err                                                                              *)
Definition exec (retries : nat) (script : nat -> outcome) (w : world) : world * exec_ret :=
  if retries <? length (w_attempts w) then (w, XPermanent)
  else
    let k := w_calls w in
    let o := script k in
    let t0 := w_clock w in
    let t1 := S t0 in
    let '(resp, err) :=
      match run k o with
      | RunTimeout => (RNone, EEngine false)
      | RunResp pr =>
          if negb (resp_nil (pr_resp pr)) && negb (is_type (pr_resp pr))
          then (RNone, EEngine true)
          else (pr_resp pr, pr_err pr)
      end in
    let att := {| ar_resp := resp; ar_err := err; ar_start := t0; ar_end := t1 |} in
    let atts := w_attempts w ++ [att] in
    let wr := AWAtt (length atts) (err_none err) in
    (* the engine does not wait for an overrunning plugin: its End is logged after the attempt write *)
    let evs := if overruns o then [AStart; wr; AEnd o] else [AStart; AEnd o; wr] in
    ({| w_status := w_status w; w_attempts := atts; w_clock := S t1; w_calls := S k;
        w_ctx := w_ctx w ++ [overruns o]; w_trace := w_trace w ++ evs |},
     if err_none err then XNil else if err_perm err then XPermanent else XRetryable).

(* Backoff.Retry:
     err := op(); if err == nil { return nil }
     for { if errors.Is(err, ErrPermanent) { return err }
           (MaxAttempts = 0: no limit here)   (context not done)   sleep(interval)
           err = op(); if err == nil { return nil } }
   [fuel] bounds the iterations of the for loop; retry_fuel_enough (ActionRunProofs.v) shows retries + 2
   suffice, so None is never returned by run_action. *)
Fixpoint retry_loop (fuel retries : nat) (script : nat -> outcome) (w : world) (err : exec_ret)
  : option (world * exec_ret) :=
  match fuel with
  | 0 => None
  | S f =>
      match err with
      | XPermanent => Some (w, XPermanent)
      | _ =>
          let (w', e) := exec retries script w in
          match e with
          | XNil => Some (w', XNil)
          | _ => retry_loop f retries script w' e
          end
      end
  end.

Definition retry (fuel retries : nat) (script : nat -> outcome) (w : world) : option (world * exec_ret) :=
  let (w1, e) := exec retries script w in
  match e with
  | XNil => Some (w1, XNil)
  | _ => retry_loop fuel retries script w1 e
  end.

(* the action as the engine finds it: NotStarted, no attempts *)
Definition world0 : world :=
  {| w_status := NotStarted; w_attempts := []; w_clock := 1; w_calls := 0; w_ctx := []; w_trace := [] |}.

(* Runner.Start (sequence action) / runActionsParallel (check action; Runner.Start then finds the action
   Running and writes nothing): status Running, start time, one durable write. *)
Definition start (w : world) : world :=
  {| w_status := Running; w_attempts := w_attempts w; w_clock := S (w_clock w); w_calls := w_calls w;
     w_ctx := w_ctx w; w_trace := w_trace w ++ [AWRun] |}.

(* Runner.End: Completed unless Data.err != nil; end time; durable write.  runAction's deferred
   UpdateAction then writes the same value once more. *)
Definition finish (w : world) (e : exec_ret) : world :=
  let ok := match e with XNil => true | _ => false end in
  let ev := AWDone ok (length (w_attempts w)) in
  {| w_status := if ok then Completed else Failed; w_attempts := w_attempts w; w_clock := S (w_clock w);
     w_calls := w_calls w; w_ctx := w_ctx w; w_trace := w_trace w ++ [ev; ev] |}.

Definition run_action_opt (retries : nat) (script : nat -> outcome) : option world :=
  match retry (retries + 2) retries script (start world0) with
  | Some (w, e) => Some (finish w e)
  | None => None
  end.

(* total version (the None branch is unreachable: run_action_opt_some) *)
Definition run_action (retries : nat) (script : nat -> outcome) : world :=
  match run_action_opt retries script with Some w => w | None => world0 end.

(* scripts given as a finite list with a default *)
Definition script_of (l : list outcome) (dflt : outcome) : nat -> outcome := fun k => nth k l dflt.
