(* The C05 statements in the form props/C05.v exposes them (derived from ActionRunProofs / ActionAutoProofs). *)
From Coq Require Import List Arith Bool Lia.
From Coercion.Base Require Import Plan.
From Coercion.Attempts Require Import ActionRun ActionAuto ActionRunProofs ActionAutoProofs.
Import ListNotations.

(* the outcomes after which the action must not be invoked again, spelled out: a wrong-typed response whatever
   the error; otherwise no error (success) or a permanent error *)
Definition final_outcome (o : outcome) : Prop :=
  match o with
  | ORet PBad _ => True
  | ORet _ PNoErr => True
  | ORet _ PPerm => True
  | ORet _ PTrans | OOverrun => False
  end.

Definition retryable_outcome (o : outcome) : Prop :=
  match o with
  | OOverrun | ORet PNil PTrans | ORet PGood PTrans => True
  | _ => False
  end.

Lemma is_final_iff o : is_final o = true <-> final_outcome o.
Proof. destruct o as [|[] []]; cbn; split; intros H; try reflexivity; try discriminate; try exact I; contradiction. Qed.

Lemma not_final_iff o : is_final o = false <-> retryable_outcome o.
Proof. destruct o as [|[] []]; cbn; split; intros H; try reflexivity; try discriminate; try exact I; contradiction. Qed.

Lemma thm_calls_bounded retries script :
  1 <= w_calls (run_action retries script) /\ w_calls (run_action retries script) <= retries + 1.
Proof. split; [apply calls_positive|rewrite Nat.add_1_r; apply calls_bounded]. Qed.

Lemma thm_stops retries script i :
  i < w_calls (run_action retries script) ->
  match script i with
  | ORet PBad _ => True            (* a wrong-typed response, whatever the error *)
  | ORet _ PNoErr => True          (* success: no error, type ok (or nil response) *)
  | ORet _ PPerm => True           (* a permanent error *)
  | ORet _ PTrans | OOverrun => False
  end ->
  w_calls (run_action retries script) = i + 1.
Proof. intros Hi Hf. rewrite Nat.add_1_r. apply stops_after_final; [exact Hi|apply is_final_iff; exact Hf]. Qed.

Lemma thm_retries_used retries script :
  w_calls (run_action retries script) < retries + 1 ->
  match script (w_calls (run_action retries script) - 1) with
  | ORet PBad _ => True
  | ORet _ PNoErr => True
  | ORet _ PPerm => True
  | ORet _ PTrans | OOverrun => False
  end.
Proof.
  intros H. apply is_final_iff. rewrite Nat.sub_1_r. apply gives_up_only_when_exhausted. lia.
Qed.

Lemma thm_all_recorded retries script :
  let w := run_action retries script in
  length (w_attempts w) = w_calls w /\ length (w_ctx w) = w_calls w /\
  forall i, i < w_calls w ->
    exists a, nth_error (w_attempts w) i = Some a /\
      match script i with
      | OOverrun => ar_resp a = RNone /\ ar_err a = EEngine false
      | ORet PBad _ => ar_resp a = RNone /\ ar_err a = EEngine true
      | ORet rs er =>
          ar_resp a = match rs with PGood => RGood i | _ => RNone end /\
          ar_err a = match er with PNoErr => ENone | PTrans => EPlug i false | PPerm => EPlug i true end
      end /\
      1 <= ar_start a /\ ar_start a <= ar_end a /\
      nth_error (w_ctx w) i = Some (match script i with OOverrun => true | _ => false end).
Proof.
  destruct (all_recorded retries script) as (H1 & H2 & H3). cbn zeta. split; [exact H1|]. split; [exact H2|].
  intros i Hi. destruct (H3 i Hi) as (a & Ha & Hr & He & Hs & Ht & Hc).
  exists a. split; [exact Ha|]. split.
  - rewrite Hr, He. destruct (script i) as [|[] []]; cbn; split; reflexivity.
  - split; [exact Hs|]. split; [exact Ht|]. rewrite Hc. destruct (script i); reflexivity.
Qed.

Lemma rec_err_none i o : rec_err i o = ENone <-> is_ok o = true.
Proof. destruct o as [|[] []]; cbn; split; congruence. Qed.

Lemma thm_final_status retries script :
  let w := run_action retries script in
  (w_status w = Completed \/ w_status w = Failed) /\
  (forall a, nth_error (w_attempts w) (w_calls w - 1) = Some a -> (w_status w = Completed <-> ar_err a = ENone)) /\
  ((forall i, i <= retries ->
      match script i with OOverrun | ORet PNil PTrans | ORet PGood PTrans => True | _ => False end) ->
     w_status w = Failed /\ w_calls w = retries + 1 /\ length (w_attempts w) = retries + 1).
Proof.
  destruct (final_status retries script) as (H1 & H2 & H3).
  destruct (all_recorded retries script) as (L1 & _ & L3).
  pose proof (calls_positive retries script) as Hp. cbn zeta in *.
  split; [|split].
  - rewrite H1. destruct (last_ok _); auto.
  - intros a Ha. rewrite Nat.sub_1_r in Ha.
    destruct (L3 (pred (w_calls (run_action retries script))) ltac:(lia)) as (a' & Ha' & _ & He & _).
    rewrite Ha in Ha'. inversion Ha'; subst a'. rewrite H2, He. symmetry. apply rec_err_none.
  - intros Hall. destruct H3 as (F1 & F2).
    + intros i Hi. apply not_final_iff. apply Hall. exact Hi.
    + split; [exact F1|]. rewrite <- L1. rewrite Nat.add_1_r. split; exact F2.
Qed.

Lemma thm_auto_refines retries tr s :
  arun retries tr = Some s ->
  exists m, mrun retries tr = Some m /\ m_starts m <= retries + 1 /\ m_starts m = count_starts tr.
Proof.
  intros H. destruct (auto_refines_monitor retries tr s H) as (m & Hm & _ & Hb).
  exists m. split; [exact Hm|]. split; [lia|]. apply mrun_starts in Hm. cbn in Hm. exact Hm.
Qed.

Lemma thm_auto_trace retries tr s :
  arun retries tr = Some s ->
  count_starts tr <= retries + 1 /\
  (forall tr1 o tr2, tr = tr1 ++ AEnd o :: tr2 -> final_outcome o -> count_starts tr2 = 0) /\
  (forall tr1 tr2, tr = tr1 ++ AStart :: tr2 ->
     In AWRun tr1 /\ (count_starts tr1 = 0 \/ exists ok, In (AWAtt (count_starts tr1) ok) tr1) /\ count_starts tr1 <= retries) /\
  (forall tr1 v n tr2, tr = tr1 ++ AWDone v n :: tr2 -> n = count_starts tr1 /\ count_starts tr2 = 0).
Proof.
  intros H. split; [|split; [|split]].
  - rewrite Nat.add_1_r. eapply starts_bounded; exact H.
  - intros tr1 o tr2 -> Hf. eapply no_start_after_final; [exact H|apply is_final_iff; exact Hf].
  - intros tr1 tr2 ->. eapply start_preceded_by_writes; exact H.
  - intros tr1 v n tr2 ->. eapply terminal_write_counts; exact H.
Qed.

Lemma thm_model_trace retries script :
  accepted retries (w_trace (run_action retries script)) = true /\
  count_starts (w_trace (run_action retries script)) = w_calls (run_action retries script).
Proof. split; [apply model_trace_accepted|apply model_trace_starts]. Qed.

(* ---- examples (non-vacuity) ------------------------------------------------------------------------------------- *)
Definition ex_script := script_of [OErr; OOverrun; OOk] OErr.

Example ex_run_2 :
  let w := run_action 2 ex_script in
  w_calls w = 3 /\ w_status w = Completed /\ w_ctx w = [false; true; false] /\
  map (fun a => (ar_resp a, ar_err a)) (w_attempts w) =
    [(RNone, EPlug 0 false); (RNone, EEngine false); (RGood 2, ENone)].
Proof. vm_compute. repeat split. Qed.

(* the same script with one retry: the retries are used up after the overrun; Failed with retries+1 attempts *)
Example ex_run_1 :
  let w := run_action 1 ex_script in
  w_calls w = 2 /\ w_status w = Failed /\ length (w_attempts w) = 2 /\
  w_trace w = [AWRun; AStart; AEnd OErr; AWAtt 1 false; AStart; AWAtt 2 false; AEnd OOverrun; AWDone false 2; AWDone false 2].
Proof. vm_compute. repeat split. Qed.

Example ex_wrong_type :
  let w := run_action 4 (script_of [OWrongType] OOk) in
  w_calls w = 1 /\ w_status w = Failed /\
  map (fun a => (ar_resp a, ar_err a)) (w_attempts w) = [(RNone, EEngine true)].
Proof. vm_compute. repeat split. Qed.

(* the pairs: a wrong-typed response WITH a transient error fails the action permanently, the response is not
   stored and the plugin's error is replaced; a well-typed response with a transient error is stored with the
   error and retried; a nil response without error is a success *)
Example ex_pairs :
  let w := run_action 3 (script_of [ORet PGood PTrans; ORet PBad PTrans; OOk] OOk) in
  w_calls w = 2 /\ w_status w = Failed /\
  map (fun a => (ar_resp a, ar_err a)) (w_attempts w) = [(RGood 0, EPlug 0 false); (RNone, EEngine true)].
Proof. vm_compute. repeat split. Qed.

Example ex_nil_ok :
  let w := run_action 3 (script_of [ORet PNil PNoErr] OErr) in
  w_calls w = 1 /\ w_status w = Completed /\ map (fun a => (ar_resp a, ar_err a)) (w_attempts w) = [(RNone, ENone)].
Proof. vm_compute. repeat split. Qed.

(* the trace of DESIGN Appendix B is accepted for retries = 2 *)
Example ex_appendix_b :
  accepted 2 [AWRun; AStart; AEnd OErr; AWAtt 1 false; AStart; AEnd OOk; AWAtt 2 true; AWDone true 2] = true.
Proof. vm_compute. reflexivity. Qed.

(* an overrun whose plugin returns after the next invocation has started and even after the terminal write *)
Example ex_late_end :
  accepted 1 [AWRun; AStart; AWAtt 1 false; AStart; AEnd OOk; AWAtt 2 true; AWDone true 2; AEnd OOverrun; AWDone true 2] = true.
Proof. vm_compute. reflexivity. Qed.

(* the automaton rejects: one invocation too many; an invocation before the previous attempt is durable; an
   invocation after a permanent error; a terminal write that skipped the attempt write; an attempt recorded as ok
   while the plugin is still running *)
Example ex_rejects :
  arun 0 [AWRun; AStart; AEnd OErr; AWAtt 1 false; AStart] = None /\
  arun 2 [AWRun; AStart; AEnd OErr; AStart] = None /\
  arun 2 [AWRun; AStart; AEnd OPerm; AWAtt 1 false; AStart] = None /\
  arun 2 [AWRun; AStart; AEnd OOk; AWDone true 1] = None /\
  arun 2 [AWRun; AStart; AWAtt 1 true] = None /\
  arun 2 [AStart] = None.
Proof. vm_compute. repeat split. Qed.
