(* Proofs about the observable automaton of one action run: every accepted trace satisfies the monitor
   (product invariant, DESIGN.md Appendix B), with trace-level corollaries. *)
From Coq Require Import List Arith Bool Lia.
From Coercion.Attempts Require Import ActionRun ActionAuto ActionRunProofs.
Import ListNotations.

Lemma wimg_eqb_eq a b : wimg_eqb a b = true <-> a = b.
Proof.
  destruct a, b; cbn; split; intros H; try discriminate; try reflexivity.
  - apply andb_true_iff in H as [H1 H2]. apply Nat.eqb_eq in H1. apply eqb_prop in H2. congruence.
  - inversion H; subst. rewrite Nat.eqb_refl, eqb_reflx. reflexivity.
  - apply andb_true_iff in H as [H1 H2]. apply Nat.eqb_eq in H2. apply eqb_prop in H1. congruence.
  - inversion H; subst. rewrite Nat.eqb_refl, eqb_reflx. reflexivity.
Qed.

Lemma wimg_eqb_refl a : wimg_eqb a a = true.
Proof. apply wimg_eqb_eq. reflexivity. Qed.

Lemma wimg_eqb_neq a b : a <> b -> wimg_eqb a b = false.
Proof. intros H. destruct (wimg_eqb a b) eqn:E; [|reflexivity]. apply wimg_eqb_eq in E. contradiction. Qed.

Lemma shows_not_att k img ok : img_shows k img = true -> wimg_eqb img (IAtt (S k) ok) = false.
Proof.
  intros H. apply wimg_eqb_neq. intros ->. unfold img_shows in H. apply Nat.eqb_eq in H. lia.
Qed.

Lemma shows_not_done k img v n : img_shows k img = true -> wimg_eqb img (IDone v n) = false.
Proof. intros H. apply wimg_eqb_neq. intros ->. cbn in H. discriminate. Qed.

Lemma shows_not_idle k img : img_shows k img = true -> wimg_eqb img IIdle = false.
Proof. intros H. apply wimg_eqb_neq. intros ->. cbn in H. discriminate. Qed.

(* ---- the product relation: one clause per phase ----------------------------------------------------------------- *)
Definition R (r : nat) (s : ast) (m : mst) : Prop :=
  a_late s = m_orphans m /\ a_img s = m_last m /\
  match a_ph s with
  | AIdle =>
      m_starts m = 0 /\ m_durable m = 0 /\ m_running m = false /\ m_final m = false /\ m_fly m = false /\
      m_done m = false /\ a_img s = IIdle
  | ARun k =>
      m_starts m = k /\ m_durable m = k /\ m_running m = true /\ m_final m = false /\ m_fly m = false /\
      m_done m = false /\ k <= r /\ img_shows k (a_img s) = true
  | AFly k =>
      m_starts m = S k /\ m_durable m = k /\ m_running m = true /\ m_final m = false /\ m_fly m = true /\
      m_done m = false /\ k <= r /\ img_shows k (a_img s) = true
  | ARet k o =>
      m_starts m = S k /\ m_durable m = k /\ m_running m = true /\ m_final m = is_final o /\ m_fly m = false /\
      m_lastok m = is_ok o /\ m_done m = false /\ k <= r /\ img_shows k (a_img s) = true
  | APend v n =>
      m_starts m = n /\ m_durable m = n /\ m_running m = true /\ m_fly m = false /\ m_lastok m = v /\
      m_done m = false /\ 1 <= n /\ n <= S r /\ a_img s = IAtt n v
  | ADone v n =>
      m_starts m = n /\ m_durable m = n /\ m_fly m = false /\ m_done m = true /\ 1 <= n /\ n <= S r /\
      a_img s = IDone v n
  end.

Lemma R_init r : R r ainit m0.
Proof. cbn. repeat split; reflexivity. Qed.

Ltac leb_true H := rewrite (proj2 (Nat.leb_le _ _) H).

(* after_ret, related to the monitor *)
Lemma R_after_ret r k o late :
  k <= r ->
  forall (fin : bool), (fin = is_final o) ->
  R r {| a_ph := after_ret r k o; a_img := IAtt (S k) (is_ok o); a_late := late |}
      {| m_starts := S k; m_durable := S k; m_running := true; m_final := fin; m_fly := false;
         m_lastok := is_ok o; m_orphans := late; m_done := false; m_last := IAtt (S k) (is_ok o) |}.
Proof.
  intros Hk fin ->. unfold R. cbn [a_late a_img a_ph m_orphans m_last].
  split; [reflexivity|]. split; [reflexivity|].
  unfold after_ret. destruct (is_final o) eqn:Ef; cbn [a_ph].
  - repeat split; lia.
  - assert (Hok : is_ok o = false).
    { destruct (is_ok o) eqn:Eo; [|reflexivity]. apply is_ok_final in Eo. congruence. }
    rewrite Hok. destruct (S k <=? r) eqn:E; cbn [a_ph].
    + apply Nat.leb_le in E. repeat split; try lia. apply Nat.eqb_refl.
    + apply Nat.leb_gt in E. repeat split; lia.
Qed.

Lemma product_step r s m e s' :
  R r s m -> astep r s e = Some s' -> exists m', mstep r m e = Some m' /\ R r s' m'.
Proof.
  destruct s as [ph img late]. destruct m as [st du ru fi fl lo orp dn la].
  unfold R. cbn [a_ph a_img a_late m_starts m_durable m_running m_final m_fly m_lastok m_orphans m_done m_last].
  intros (Hlate & Himg & Hph) Hstep. subst orp la.
  unfold astep in Hstep. cbn [a_late a_ph a_img] in Hstep.
  destruct e as [| |o|n ok|v n| |].
  - (* AWRun *)
    unfold handle, stutter in Hstep. cbn [a_ph a_img a_late img_of] in Hstep.
    destruct ph as [|k|k|k o|v n|v n]; cbn in Hstep.
    + inversion Hstep; subst s'. destruct Hph as (-> & -> & -> & -> & -> & -> & ->).
      eexists. split; [cbn; reflexivity|]. cbn. repeat split; lia.
    + destruct Hph as (-> & -> & -> & -> & -> & -> & Hk & Hs).
      destruct img; cbn in Hstep; try discriminate. inversion Hstep; subst s'.
      eexists. split; [cbn; reflexivity|]. cbn. repeat split; assumption.
    + destruct Hph as (-> & -> & -> & -> & -> & -> & Hk & Hs).
      destruct img; cbn in Hstep; try discriminate. inversion Hstep; subst s'.
      eexists. split; [cbn; reflexivity|]. cbn. repeat split; assumption.
    + destruct Hph as (-> & -> & -> & -> & -> & -> & -> & Hk & Hs).
      destruct img; cbn in Hstep; try discriminate. inversion Hstep; subst s'.
      eexists. split; [cbn; reflexivity|]. cbn. repeat split; assumption.
    + destruct Hph as (-> & -> & -> & -> & -> & -> & H1 & H2 & ->). cbn in Hstep. discriminate.
    + destruct Hph as (-> & -> & -> & -> & H1 & H2 & ->). cbn in Hstep. discriminate.
  - (* AStart *)
    unfold handle, stutter in Hstep. cbn [a_ph a_img a_late img_of] in Hstep.
    destruct ph as [|k|k|k o|v n|v n]; try discriminate.
    destruct Hph as (-> & -> & -> & -> & -> & -> & Hk & Hs).
    rewrite Hs in Hstep. rewrite (proj2 (Nat.leb_le _ _) Hk) in Hstep. cbn in Hstep. inversion Hstep; subst s'.
    eexists. split.
    + cbn. leb_true Hk. rewrite Nat.eqb_refl. cbn. reflexivity.
    + cbn. repeat split; assumption.
  - (* AEnd *)
    assert (Hnolate : match o, late with OOverrun, S _ => False | _, _ => True end ->
                      handle r {| a_ph := ph; a_img := img; a_late := late |} (AEnd o) = Some s' ).
    { intros Hn. destruct o; try (destruct late; [|contradiction]);
        (destruct (handle r _ (AEnd _)) eqn:Eh; [exact Hstep|cbn in Hstep; discriminate]). }
    destruct o; try (destruct late as [|l]);
      try (specialize (Hnolate I); unfold handle in Hnolate; cbn [a_ph a_img a_late] in Hnolate;
           destruct ph as [|k|k|k o'|v n|v n]; try discriminate;
           inversion Hnolate; subst s';
           destruct Hph as (-> & -> & -> & -> & -> & -> & Hk & Hs);
           eexists; split; [cbn; reflexivity|cbn; repeat split; assumption]).
    (* an orphan returns late *)
    clear Hnolate. inversion Hstep; subst s'.
    eexists. split; [cbn; reflexivity|]. cbn. split; [reflexivity|]. split; [reflexivity|]. exact Hph.
  - (* AWAtt *)
    unfold handle, stutter in Hstep. cbn [a_ph a_img a_late img_of] in Hstep.
    destruct ph as [|k|k|k o|v n'|v n'].
    + destruct Hph as (-> & -> & -> & -> & -> & -> & ->). cbn in Hstep. discriminate.
    + (* ARun: only a stutter *)
      destruct (wimg_eqb (IAtt n ok) img) eqn:E; [|discriminate]. inversion Hstep; subst s'.
      apply wimg_eqb_eq in E. subst img.
      eexists. split; [cbn; rewrite Nat.eqb_refl, eqb_reflx; cbn; reflexivity|].
      cbn. split; [reflexivity|]. split; [reflexivity|]. exact Hph.
    + (* AFly: the engine abandons the invocation, or a stutter *)
      destruct Hph as (-> & -> & -> & -> & -> & -> & Hk & Hs).
      destruct ok.
      * destruct (wimg_eqb (IAtt n true) img) eqn:E; [|discriminate]. inversion Hstep; subst s'.
        apply wimg_eqb_eq in E. subst img.
        eexists. split; [cbn; rewrite Nat.eqb_refl; cbn; reflexivity|].
        cbn. repeat split; assumption.
      * destruct (n =? S k) eqn:En.
        -- apply Nat.eqb_eq in En. subst n. inversion Hstep; subst s'.
           eexists. split.
           ++ cbn [mstep m_last m_durable m_starts m_done m_fly m_lastok m_orphans m_running m_final].
              rewrite (shows_not_att k img false Hs). rewrite Nat.eqb_refl. cbn. reflexivity.
           ++ apply (R_after_ret r k OOverrun (S late) Hk false). reflexivity.
        -- destruct (wimg_eqb (IAtt n false) img) eqn:E; [|discriminate]. inversion Hstep; subst s'.
           apply wimg_eqb_eq in E. subst img.
           eexists. split; [cbn; rewrite Nat.eqb_refl; cbn; reflexivity|].
           cbn. repeat split; assumption.
    + (* ARet: the attempt becomes durable, or a stutter *)
      destruct Hph as (-> & -> & -> & -> & -> & -> & -> & Hk & Hs).
      destruct ((n =? S k) && eqb ok (is_ok o)) eqn:En.
      * apply andb_true_iff in En as [En Eo]. apply Nat.eqb_eq in En. apply eqb_prop in Eo. subst n ok.
        inversion Hstep; subst s'.
        eexists. split.
        -- cbn [mstep m_last m_durable m_starts m_done m_fly m_lastok m_orphans m_running m_final].
           rewrite (shows_not_att k img _ Hs). rewrite Nat.eqb_refl, eqb_reflx. cbn. reflexivity.
        -- apply (R_after_ret r k o late Hk). reflexivity.
      * destruct (wimg_eqb (IAtt n ok) img) eqn:E; [|discriminate]. inversion Hstep; subst s'.
        apply wimg_eqb_eq in E. subst img.
        eexists. split; [cbn; rewrite Nat.eqb_refl, eqb_reflx; cbn; reflexivity|].
        cbn. repeat split; assumption.
    + (* APend: stutter *)
      destruct Hph as (-> & -> & -> & -> & -> & -> & H1 & H2 & ->).
      destruct (wimg_eqb (IAtt n ok) (IAtt n' v)) eqn:E; [|discriminate]. inversion Hstep; subst s'.
      apply wimg_eqb_eq in E. inversion E; subst n ok.
      eexists. split; [cbn; rewrite Nat.eqb_refl, eqb_reflx; cbn; reflexivity|].
      cbn. repeat split; assumption.
    + destruct Hph as (-> & -> & -> & -> & H1 & H2 & ->). cbn in Hstep. discriminate.
  - (* AWDone *)
    unfold handle, stutter in Hstep. cbn [a_ph a_img a_late img_of] in Hstep.
    destruct ph as [|k|k|k o|v' n'|v' n'].
    + destruct Hph as (-> & -> & -> & -> & -> & -> & ->). cbn in Hstep. discriminate.
    + destruct Hph as (-> & -> & -> & -> & -> & -> & Hk & Hs).
      rewrite wimg_eqb_neq in Hstep; [discriminate|]. intros <-. cbn in Hs. discriminate.
    + destruct Hph as (-> & -> & -> & -> & -> & -> & Hk & Hs).
      rewrite wimg_eqb_neq in Hstep; [discriminate|]. intros <-. cbn in Hs. discriminate.
    + destruct Hph as (-> & -> & -> & -> & -> & -> & -> & Hk & Hs).
      rewrite wimg_eqb_neq in Hstep; [discriminate|]. intros <-. cbn in Hs. discriminate.
    + destruct Hph as (-> & -> & -> & -> & -> & -> & H1 & H2 & ->).
      destruct (eqb v' v && (n' =? n)) eqn:En.
      * apply andb_true_iff in En as [Ev En]. apply Nat.eqb_eq in En. apply eqb_prop in Ev. subst n v.
        inversion Hstep; subst s'. destruct n' as [|p]; [lia|].
        eexists. split.
        -- cbn. rewrite Nat.eqb_refl, eqb_reflx. cbn. reflexivity.
        -- cbn. repeat split; assumption.
      * cbn in Hstep. discriminate.
    + destruct Hph as (-> & -> & -> & -> & H1 & H2 & ->).
      destruct (wimg_eqb (IDone v n) (IDone v' n')) eqn:E; [|discriminate]. inversion Hstep; subst s'.
      apply wimg_eqb_eq in E. inversion E; subst v n.
      eexists. split; [cbn; rewrite Nat.eqb_refl, eqb_reflx; cbn; reflexivity|].
      cbn. repeat split; assumption.
  - (* AWIdle *)
    unfold handle, stutter in Hstep. cbn [a_ph a_img a_late img_of] in Hstep.
    assert (Hi : img = IIdle /\ s' = {| a_ph := ph; a_img := img; a_late := late |}).
    { destruct ph; cbn in Hstep; destruct img; cbn in Hstep; try discriminate; inversion Hstep; split; reflexivity. }
    destruct Hi as (-> & ->).
    eexists. split; [cbn; reflexivity|]. cbn. split; [reflexivity|]. split; [reflexivity|]. exact Hph.
  - (* AWBad *)
    unfold handle, stutter in Hstep. cbn in Hstep. destruct ph; discriminate.
Qed.

(* generic: a product invariant lifts from steps to runs *)
Lemma product_run {S M E} (stepA : S -> E -> option S) (stepM : M -> E -> option M) (Rel : S -> M -> Prop) :
  (forall s m e s', Rel s m -> stepA s e = Some s' -> exists m', stepM m e = Some m' /\ Rel s' m') ->
  forall tr s m s', Rel s m -> run_steps stepA s tr = Some s' ->
                    exists m', run_steps stepM m tr = Some m' /\ Rel s' m'.
Proof.
  intros Hstep. induction tr as [|e tr IH]; intros s m s' HR Hrun; cbn in *.
  - inversion Hrun; subst. exists m. split; [reflexivity|exact HR].
  - destruct (stepA s e) as [s1|] eqn:Es; [|discriminate].
    destruct (Hstep _ _ _ _ HR Es) as (m1 & Hm & HR1). rewrite Hm. eapply IH; eassumption.
Qed.

Lemma R_starts_bound r s m : R r s m -> m_starts m <= S r.
Proof.
  destruct s as [ph img late]. unfold R. cbn [a_ph]. intros (_ & _ & H).
  destruct ph; decompose [and] H; lia.
Qed.

Theorem auto_refines_monitor r tr s :
  arun r tr = Some s -> exists m, mrun r tr = Some m /\ R r s m /\ m_starts m <= S r.
Proof.
  intros H. destruct (product_run (astep r) (mstep r) (R r) (product_step r) tr ainit m0 s (R_init r) H) as (m & Hm & HR).
  exists m. split; [exact Hm|]. split; [exact HR|]. eapply R_starts_bound; exact HR.
Qed.

Lemma accepted_monitor_ok r tr : accepted r tr = true -> monitor_ok r tr = true.
Proof.
  unfold accepted, monitor_ok. destruct (arun r tr) as [s|] eqn:E; [|discriminate]. intros _.
  destruct (auto_refines_monitor r tr s E) as (m & -> & _ & Hb). apply Nat.leb_le. exact Hb.
Qed.

(* ---- what the monitor's acceptance means on the trace itself ---------------------------------------------------- *)
Lemma mstep_starts r m e m' :
  mstep r m e = Some m' -> m_starts m' = m_starts m + (if is_start e then 1 else 0).
Proof.
  destruct e as [| |o|n ok|v n| |]; cbn [mstep is_start]; intros H.
  - destruct (negb (m_running m) && wimg_eqb (m_last m) IIdle); [inversion H; cbn; lia|].
    destruct (wimg_eqb (m_last m) IRun); inversion H; lia.
  - destruct (_ && _); inversion H; cbn; lia.
  - destruct o; try (destruct (m_fly m); inversion H; cbn; lia).
    destruct (m_orphans m); [destruct (m_fly m); inversion H; cbn; lia|inversion H; cbn; lia].
  - destruct (wimg_eqb (m_last m) (IAtt n ok)); [inversion H; lia|].
    destruct (_ && _); inversion H; cbn; lia.
  - destruct (wimg_eqb (m_last m) (IDone v n)); [inversion H; lia|].
    destruct (_ && _); inversion H; cbn; lia.
  - destruct (wimg_eqb (m_last m) IIdle); inversion H; lia.
  - discriminate.
Qed.

Lemma mrun_starts r : forall tr m m',
  run_steps (mstep r) m tr = Some m' -> m_starts m' = m_starts m + count_starts tr.
Proof.
  induction tr as [|e tr IH]; intros m m' H; cbn in H.
  - inversion H; subst. unfold count_starts. cbn. lia.
  - destruct (mstep r m e) as [m1|] eqn:E; [|discriminate].
    apply IH in H. apply mstep_starts in E. rewrite H, E.
    unfold count_starts. cbn [filter]. destruct (is_start e); cbn; lia.
Qed.

(* once an invocation has returned a final outcome, no AStart is accepted any more *)
Lemma mstep_final_sticky r m e m' :
  m_final m = true -> m_fly m = false -> mstep r m e = Some m' ->
  m_final m' = true /\ m_fly m' = false /\ is_start e = false.
Proof.
  intros Hf Hfly. destruct e as [| |o|n ok|v n| |]; cbn [mstep is_start]; intros H.
  - destruct (negb (m_running m) && wimg_eqb (m_last m) IIdle); [inversion H; cbn; auto|].
    destruct (wimg_eqb (m_last m) IRun); inversion H; subst; auto.
  - rewrite Hf in H. rewrite andb_false_r in H. cbn in H. discriminate.
  - rewrite Hfly in H.
    destruct o; try discriminate. destruct (m_orphans m); [discriminate|]. inversion H; cbn; auto.
  - destruct (wimg_eqb (m_last m) (IAtt n ok)); [inversion H; subst; auto|].
    destruct (_ && _); inversion H; cbn; auto.
  - destruct (wimg_eqb (m_last m) (IDone v n)); [inversion H; subst; auto|].
    destruct (_ && _); inversion H; cbn; auto.
  - destruct (wimg_eqb (m_last m) IIdle); inversion H; subst; auto.
  - discriminate.
Qed.

Lemma mrun_final_sticky r : forall tr m m',
  m_final m = true -> m_fly m = false -> run_steps (mstep r) m tr = Some m' -> count_starts tr = 0.
Proof.
  induction tr as [|e tr IH]; intros m m' Hf Hfly H; cbn in H.
  - reflexivity.
  - destruct (mstep r m e) as [m1|] eqn:E; [|discriminate].
    destruct (mstep_final_sticky r m e m1 Hf Hfly E) as (Hf1 & Hfly1 & He).
    unfold count_starts. cbn [filter]. rewrite He. exact (IH m1 m' Hf1 Hfly1 H).
Qed.

(* a final outcome returned by an invocation that was in flight (not an orphan's late End) *)
Lemma mstep_end_final r m o m' :
  is_final o = true -> mstep r m (AEnd o) = Some m' -> m_final m' = true /\ m_fly m' = false.
Proof.
  intros Hf. cbn [mstep]. destruct o; cbn in Hf; try discriminate;
    (destruct (m_fly m); intros H; inversion H; cbn; auto).
Qed.

Theorem no_start_after_final r tr1 o tr2 s :
  arun r (tr1 ++ AEnd o :: tr2) = Some s -> is_final o = true -> count_starts tr2 = 0.
Proof.
  intros Hrun Hf. destruct (auto_refines_monitor r _ s Hrun) as (m & Hm & _ & _).
  unfold mrun in Hm. rewrite run_steps_app in Hm.
  destruct (run_steps (mstep r) m0 tr1) as [m1|]; [|discriminate]. cbn [run_steps] in Hm.
  destruct (mstep r m1 (AEnd o)) as [m2|] eqn:E; [|discriminate].
  destruct (mstep_end_final r m1 o m2 Hf E) as (H1 & H2).
  exact (mrun_final_sticky r tr2 m2 m H1 H2 Hm).
Qed.

Theorem starts_bounded r tr s : arun r tr = Some s -> count_starts tr <= S r.
Proof.
  intros Hrun. destruct (auto_refines_monitor r tr s Hrun) as (m & Hm & _ & Hb).
  apply mrun_starts in Hm. cbn in Hm. lia.
Qed.

(* ---- trace-level reading of the remaining monitor clauses ---------------------------------------------------------- *)

(* the event that leaves a given durable image *)
Definition write_of (i : wimg) : aevent :=
  match i with IIdle => AWIdle | IRun => AWRun | IAtt n ok => AWAtt n ok | IDone v n => AWDone v n end.

Lemma astep_img r s e s' :
  astep r s e = Some s' -> a_img s' = a_img s \/ e = write_of (a_img s').
Proof.
  unfold astep. destruct s as [ph img late]. cbn [a_late a_ph a_img].
  intros H.
  assert (Hh : forall s1, handle r {| a_ph := ph; a_img := img; a_late := late |} e = Some s1 ->
                          a_img s1 = img \/ e = write_of (a_img s1)).
  { intros s1 Hs1. unfold handle in Hs1. cbn [a_ph a_img a_late] in Hs1.
    destruct ph as [|k|k|k o|v n|v n]; destruct e as [| |o'|n' ok|v' n'| |]; try discriminate.
    - inversion Hs1; subst. right. reflexivity.
    - destruct (_ && _); inversion Hs1; subst. left. reflexivity.
    - inversion Hs1; subst. left. reflexivity.
    - destruct ok; [discriminate|]. destruct (n' =? S k); inversion Hs1; subst. right. reflexivity.
    - destruct (_ && _); inversion Hs1; subst. right. reflexivity.
    - destruct (eqb v v' && (n =? n')) eqn:E; inversion Hs1; subst.
      apply andb_true_iff in E as [E1 E2]. apply eqb_prop in E1. apply Nat.eqb_eq in E2. subst. right. reflexivity. }
  assert (Hrest : match handle r {| a_ph := ph; a_img := img; a_late := late |} e with
                  | Some s1 => Some s1
                  | None => if stutter {| a_ph := ph; a_img := img; a_late := late |} e
                            then Some {| a_ph := ph; a_img := img; a_late := late |} else None
                  end = Some s' -> a_img s' = img \/ e = write_of (a_img s')).
  { destruct (handle r _ e) as [s1|] eqn:Eh.
    - intros E. inversion E; subst. apply Hh. reflexivity.
    - destruct (stutter _ e); intros E; inversion E; subst. left. reflexivity. }
  destruct e as [| |o| | | |]; try exact (Hrest H).
  destruct o; try exact (Hrest H).
  destruct late; [exact (Hrest H)|]. inversion H; subst. left. reflexivity.
Qed.

Lemma run_img r : forall tr s s',
  run_steps (astep r) s tr = Some s' -> a_img s' = a_img s \/ In (write_of (a_img s')) tr.
Proof.
  induction tr as [|e tr IH]; intros s s' H; cbn in H.
  - inversion H; subst. left. reflexivity.
  - destruct (astep r s e) as [s1|] eqn:E; [|discriminate].
    destruct (IH _ _ H) as [H1|H1]; [|right; right; exact H1].
    destruct (astep_img _ _ _ _ E) as [H2|H2].
    + left. congruence.
    + right. left. rewrite H1. rewrite H2; reflexivity.
Qed.

Lemma astep_idle r s e s' :
  a_ph s = AIdle -> astep r s e = Some s' -> a_ph s' = AIdle \/ e = AWRun.
Proof.
  destruct s as [ph img late]. cbn [a_ph]. intros -> H. unfold astep, handle, stutter in H. cbn [a_ph a_img a_late] in H.
  destruct e as [| |o|n ok|v n| |]; try (right; reflexivity);
    try (destruct o; try destruct late);
    try (destruct (match img_of _ with Some i => wimg_eqb i img | None => false end); inversion H; subst; left; reflexivity);
    try (cbn in H; discriminate); try (inversion H; subst; left; reflexivity).
Qed.

Lemma run_left_idle r : forall tr s s',
  run_steps (astep r) s tr = Some s' -> a_ph s = AIdle -> a_ph s' <> AIdle -> In AWRun tr.
Proof.
  induction tr as [|e tr IH]; intros s s' H Hi Hn; cbn in H.
  - inversion H; subst. contradiction.
  - destruct (astep r s e) as [s1|] eqn:E; [|discriminate].
    destruct (astep_idle _ _ _ _ Hi E) as [H1|H1].
    + right. eapply IH; eassumption.
    + left. exact H1.
Qed.

(* each Start is preceded by the durable Running write and by the write of the previous attempt: if k
   invocations started before it, the last durable write shows exactly k attempts *)
Theorem start_preceded_by_writes r tr1 tr2 s :
  arun r (tr1 ++ AStart :: tr2) = Some s ->
  In AWRun tr1 /\
  (count_starts tr1 = 0 \/ exists ok, In (AWAtt (count_starts tr1) ok) tr1) /\
  count_starts tr1 <= r.
Proof.
  unfold arun. rewrite run_steps_app. intros H.
  destruct (run_steps (astep r) ainit tr1) as [s0|] eqn:E0; [|discriminate].
  cbn [run_steps] in H. destruct (astep r s0 AStart) as [s1|] eqn:E1; [|discriminate].
  destruct (auto_refines_monitor r tr1 s0 E0) as (m & Hm & HR & _).
  apply mrun_starts in Hm. cbn in Hm.
  unfold astep, handle, stutter in E1. cbn [img_of] in E1.
  destruct s0 as [ph img late]. cbn [a_ph a_img a_late] in *.
  destruct ph as [|k|k|k o|v n|v n]; try (destruct late; discriminate).
  assert (Hguard : (k <=? r) && img_shows k img = true).
  { destruct ((k <=? r) && img_shows k img); [reflexivity|destruct late; discriminate]. }
  apply andb_true_iff in Hguard as [Hk Hs]. apply Nat.leb_le in Hk.
  destruct HR as (_ & _ & Hst & _). cbn [a_ph] in Hst.
  assert (Hcount : count_starts tr1 = k) by lia.
  split; [|split; [|lia]].
  - eapply run_left_idle; [exact E0|reflexivity|discriminate].
  - destruct (run_img r tr1 ainit _ E0) as [Hi|Hi]; cbn [a_img ainit] in Hi.
    + subst img. cbn in Hs. discriminate.
    + destruct img as [| |n ok|v n]; cbn in Hs; try discriminate.
      * apply Nat.eqb_eq in Hs. left. lia.
      * apply Nat.eqb_eq in Hs. subst n. right. exists ok. rewrite Hcount. exact Hi.
Qed.

Lemma R_done_starts r s m v n : R r s m -> a_img s = IDone v n -> m_starts m = n /\ a_ph s = ADone v n.
Proof.
  destruct s as [ph img late]. unfold R. cbn [a_ph a_img]. intros (_ & _ & H) ->.
  destruct ph as [|k|k|k o|v' n'|v' n'].
  - decompose [and] H. discriminate.
  - decompose [and] H. cbn in *. discriminate.
  - decompose [and] H. cbn in *. discriminate.
  - decompose [and] H. cbn in *. discriminate.
  - decompose [and] H. discriminate.
  - destruct H as (H1 & _ & _ & _ & _ & _ & H7). inversion H7; subst. split; reflexivity.
Qed.

Lemma run_stays_done r v n : forall tr s s',
  run_steps (astep r) s tr = Some s' -> a_ph s = ADone v n -> a_ph s' = ADone v n.
Proof.
  induction tr as [|e tr IH]; intros s s' H Hph; cbn in H.
  - inversion H; subst. exact Hph.
  - destruct (astep r s e) as [s2|] eqn:E2; [|discriminate].
    apply (IH s2 s' H).
    unfold astep, handle, stutter in E2. destruct s as [ph img late]. cbn [a_ph a_img a_late] in *. subst ph.
    destruct e as [| |o|n' ok|v' n'| |];
      try (destruct o; try destruct late);
      try (destruct (match img_of _ with Some i => wimg_eqb i img | None => false end); inversion E2; subst; reflexivity);
      try (cbn in E2; discriminate); try (inversion E2; subst; reflexivity).
Qed.

(* the terminal write carries n = the number of invocations, and nothing is invoked after it *)
Theorem terminal_write_counts r tr1 v n tr2 s :
  arun r (tr1 ++ AWDone v n :: tr2) = Some s ->
  n = count_starts tr1 /\ count_starts tr2 = 0.
Proof.
  intros H. pose proof H as H'. unfold arun in H. rewrite run_steps_app in H.
  destruct (run_steps (astep r) ainit tr1) as [s0|] eqn:E0; [|discriminate].
  cbn [run_steps] in H. destruct (astep r s0 (AWDone v n)) as [s1|] eqn:E1; [|discriminate].
  assert (Hpre : arun r (tr1 ++ [AWDone v n]) = Some s1).
  { unfold arun. rewrite run_steps_app, E0. cbn [run_steps]. rewrite E1. reflexivity. }
  destruct (auto_refines_monitor r _ s1 Hpre) as (m1 & Hm1 & HR1 & _).
  assert (Himg : a_img s1 = IDone v n).
  { destruct (astep_img _ _ _ _ E1) as [Hi|Hi].
    - (* a stutter: the image already was IDone v n *)
      unfold astep, handle, stutter in E1. cbn [img_of] in E1.
      destruct s0 as [ph img late]. cbn [a_ph a_img a_late] in *.
      destruct ph as [|k|k|k o|v' n'|v' n'];
        try (destruct (wimg_eqb (IDone v n) img) eqn:Ew; [|discriminate];
             apply wimg_eqb_eq in Ew; inversion E1; subst; reflexivity).
      destruct (eqb v' v && (n' =? n)) eqn:Eq.
      + inversion E1; subst. apply andb_true_iff in Eq as [Q1 Q2]. apply eqb_prop in Q1. apply Nat.eqb_eq in Q2. subst. reflexivity.
      + destruct (wimg_eqb (IDone v n) img) eqn:Ew; [|discriminate].
        apply wimg_eqb_eq in Ew. inversion E1; subst. reflexivity.
    - destruct (a_img s1); cbn in Hi; try discriminate. inversion Hi; subst. reflexivity. }
  destruct (R_done_starts r s1 m1 v n HR1 Himg) as (Hst & Hph).
  pose proof Hm1 as Hm1c.
  apply mrun_starts in Hm1. cbn in Hm1. rewrite count_starts_app in Hm1. cbn in Hm1.
  split; [unfold count_starts in *; cbn in *; lia|].
  (* the automaton stays in ADone v n, where the monitor has counted exactly n invocations *)
  destruct (auto_refines_monitor r _ s H') as (m' & Hm' & HR' & _).
  assert (Hph_s : a_ph s = ADone v n) by exact (run_stays_done r v n tr2 s1 s H Hph).
  destruct s as [ph img late]. cbn [a_ph] in Hph_s. subst ph.
  destruct HR' as (_ & _ & HR'). cbn [a_ph] in HR'. destruct HR' as (Hs' & _).
  apply mrun_starts in Hm'. rewrite count_starts_app in Hm'.
  unfold count_starts in *. cbn in *. lia.
Qed.
