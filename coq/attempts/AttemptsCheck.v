(* Correspondence check for C05.  The harness hands over, per plan, one [acase] per action: its retries, its
   script (the outcomes the plugin actually delivered, completed by the planned ones), and for every run of
   the action (a sequence action runs at most once; an action of a continuous check group once per run of
   the group) what the real engine did:
     calls      plugin invocations attributed to the action by (plan nonce, action path) inside the request
     ctx        per invocation: ctx.Err() != nil when the plugin returned
     attempts   action.Attempts as handed to the last UpdateAction of the run (projected, ActionRun.v)
     status     action.State.Status at that write
     trace      the events of the run, in log order
   and the attempts / status read back from storage after Wait (last run).  No proofs in this file. *)
From Coq Require Import List Arith Bool.
From Coercion.Base Require Import Plan.
From Coercion.Attempts Require Import ActionRun ActionAuto.
Import ListNotations.

(* a recorded attempt as observed: response, error, "Start and End non-zero and Start <= End" *)
Definition att_obs := (resp_obs * err_obs * bool)%type.

Record run_obs := {
  ro_script : list outcome;                        (* outcomes delivered in this run, then the planned rest *)
  ro_calls : nat;
  ro_ctx : list bool;
  ro_attempts : list att_obs;
  ro_status : status;
  ro_trace : list aevent;
  ro_stuck : bool                                  (* the plan hung and this run saw no event for over a second *)
}.

Record acase := {
  ac_retries : nat;
  ac_script : list outcome;
  ac_dflt : outcome;
  ac_partial : bool;                               (* the plan hung: only prefix checks apply *)
  ac_runs : list run_obs;                          (* [] = the action never started *)
  ac_idle_trace : list aevent;                     (* events of an action that never started *)
  ac_back : list att_obs * status                  (* read back from storage after Wait *)
}.

Definition case := list acase.

Definition resp_eqb (a b : resp_obs) : bool :=
  match a, b with
  | RNone, RNone | RBad, RBad => true
  | RGood x, RGood y => x =? y
  | _, _ => false
  end.

Definition err_eqb (a b : err_obs) : bool :=
  match a, b with
  | ENone, ENone => true
  | EPlug x p, EPlug y q => (x =? y) && eqb p q
  | EEngine p, EEngine q => eqb p q
  | _, _ => false
  end.

Definition att_eqb (a b : att_obs) : bool :=
  let '(r1, e1, t1) := a in let '(r2, e2, t2) := b in
  resp_eqb r1 r2 && err_eqb e1 e2 && eqb t1 t2.

Fixpoint list_eqb {A} (eqb : A -> A -> bool) (a b : list A) : bool :=
  match a, b with
  | [], [] => true
  | x :: a', y :: b' => eqb x y && list_eqb eqb a' b'
  | _, _ => false
  end.

(* projection of the model's attempt to what is observed of the real one *)
Definition proj_att (a : attempt_rec) : att_obs :=
  (ar_resp a, ar_err a, (1 <=? ar_start a) && (ar_start a <=? ar_end a)).

(* ---- the property, evaluated directly on an observation (independent of run_action) -------------------
   prop_run r script o: the invocations are at most r+1; none follows an invocation whose outcome was final;
   there are as many attempts as invocations and the i-th attempt carries what the i-th outcome demands;
   the plugin saw its context cancelled exactly in the overrun invocations; Completed iff the last attempt
   has no error, else Failed; and if the run stopped before r+1 invocations the last outcome was final. *)
Definition att_demanded (i : nat) (o : outcome) (a : att_obs) : bool :=
  let '(rs, er, t) := a in
  t && match o with
       | OOverrun => resp_eqb rs RNone && err_eqb er (EEngine false)
       | ORet PBad _ => resp_eqb rs RNone && err_eqb er (EEngine true)        (* never stored; type error *)
       | ORet prs per =>
           resp_eqb rs (match prs with PGood => RGood i | _ => RNone end)
           && err_eqb er (match per with PNoErr => ENone | PTrans => EPlug i false | PPerm => EPlug i true end)
       end.

Fixpoint atts_demanded (script : nat -> outcome) (i : nat) (l : list att_obs) : bool :=
  match l with
  | [] => true
  | a :: l' => att_demanded i (script i) a && atts_demanded script (S i) l'
  end.

Fixpoint ctx_demanded (script : nat -> outcome) (i : nat) (l : list bool) : bool :=
  match l with
  | [] => true
  | b :: l' => eqb b (overruns (script i)) && ctx_demanded script (S i) l'
  end.

(* no final outcome among the first n invocations *)
Fixpoint none_final (script : nat -> outcome) (n : nat) : bool :=
  match n with
  | 0 => true
  | S n' => none_final script n' && negb (is_final (script n'))
  end.

Definition last_att_ok (l : list att_obs) : bool :=
  match rev l with
  | (_, e, _) :: _ => err_none e
  | [] => false
  end.

Definition prop_run (r : nat) (script : nat -> outcome) (o : run_obs) : bool :=
  let n := ro_calls o in
  (1 <=? n) && (n <=? S r)
  && none_final script (pred n)
  && (is_final (script (pred n)) || (n =? S r))
  && (length (ro_attempts o) =? n) && atts_demanded script 0 (ro_attempts o)
  && (length (ro_ctx o) =? n) && ctx_demanded script 0 (ro_ctx o)
  && status_eqb (ro_status o) (if last_att_ok (ro_attempts o) then Completed else Failed).

(* ---- comparison with the model ---------------------------------------------------------------------------- *)
Definition model_obs (w : world) : nat * list bool * list att_obs * status :=
  (w_calls w, w_ctx w, map proj_att (w_attempts w), w_status w).

(* 0 = agrees; otherwise which component differs first *)
Definition run_differs (r : nat) (script : nat -> outcome) (o : run_obs) : nat :=
  let w := run_action r script in
  if negb (ro_calls o =? w_calls w) then 1
  else if negb (list_eqb eqb (ro_ctx o) (w_ctx w)) then 2
  else if negb (list_eqb att_eqb (ro_attempts o) (map proj_att (w_attempts w))) then 3
  else if negb (status_eqb (ro_status o) (w_status w)) then 4
  else 0.

(* verdict codes (first element of check_case's answer):
     0  fine
     1..4  run differs from run_action (calls / ctx flags / attempts / status)           [then: action, run]
     6  the monitor of Appendix B rejects the run's trace (the property is false on it)   [action, run, event index]
     5  the monitor passes but ActionAuto does not accept the run's trace                [action, run, event index]
     7  the property evaluated on the observation itself is false                        [action, run]
     8  the value read back from storage differs from the last write of the last run     [action]
    10  the plan hung and this run is stuck inside the action run (no event for over a second, run not closed) [action, run]
     9  an action that never started has attempts, a status other than NotStarted, or events other than
        NotStarted writes                                                                [action]            *)
Definition check_run (r : nat) (dflt : outcome) (o : run_obs) : list nat :=
  let script := script_of (ro_script o) dflt in
  let d := run_differs r script o in
  if negb (d =? 0) then [d]
  else if negb (monitor_ok r (ro_trace o)) then [6; mon_first_rejected r m0 0 (ro_trace o)]
  else if negb (accepted r (ro_trace o)) then [5; first_rejected r ainit 0 (ro_trace o)]
  else if negb (prop_run r script o) then [7]
  else [0].

(* a plan that hung: every run's trace must still be a prefix of an accepted trace, the monitor must not
   have rejected anything, and the invocation bound must hold *)
Definition check_run_partial (r : nat) (o : run_obs) : list nat :=
  if negb (monitor_ok r (ro_trace o)) then [6; mon_first_rejected r m0 0 (ro_trace o)]
  else match arun r (ro_trace o) with
       | None => [5; first_rejected r ainit 0 (ro_trace o)]
       | Some st =>
           if negb (ro_calls o <=? S r) then [1]
           else if ro_stuck o && negb (afinal st) then [10]
           else [0]
       end.

Fixpoint check_runs (partial : bool) (r : nat) (dflt : outcome) (j : nat) (l : list run_obs) : list nat :=
  match l with
  | [] => [0]
  | o :: l' =>
      match (if partial then check_run_partial r o else check_run r dflt o) with
      | 0 :: _ => check_runs partial r dflt (S j) l'
      | c :: rest => c :: j :: rest
      | [] => [0]
      end
  end.

Definition back_ok (c : acase) : bool :=
  let '(atts, st) := ac_back c in
  match rev (ac_runs c) with
  | [] => match atts with [] => status_eqb st NotStarted | _ => false end
  | o :: _ => list_eqb att_eqb atts (ro_attempts o) && status_eqb st (ro_status o)
  end.

Definition check_acase (c : acase) : list nat :=
  match check_runs (ac_partial c) (ac_retries c) (ac_dflt c) 0 (ac_runs c) with
  | 0 :: _ =>
      if ac_partial c then [0]
      else if negb (back_ok c) then (match ac_runs c with [] => [9] | _ => [8] end)
      else match ac_runs c with
           | [] => if accepted (ac_retries c) (ac_idle_trace c) then [0] else [9]
           | _ => [0]
           end
  | bad => bad
  end.

Fixpoint check_acases (i : nat) (l : list acase) : list nat :=
  match l with
  | [] => [0]
  | c :: l' =>
      match check_acase c with
      | 0 :: _ => check_acases (S i) l'
      | code :: rest => code :: i :: rest
      | [] => [0]
      end
  end.

Definition check_case (c : case) : list nat := check_acases 0 c.
Definition case_ok (c : case) : bool := match check_case c with 0 :: _ => true | _ => false end.
