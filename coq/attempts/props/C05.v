(* C05 - Attempts: at most Retries+1 calls, stop on success/permanent, all recorded.

   "An action's plugin is invoked at most Retries+1 times and never again after an attempt succeeds or returns a
   permanent error; every invocation is recorded as exactly one attempt, in order, carrying the plugin's response
   or error and start<=end times. An attempt that overruns the action's timeout is recorded as a (retryable)
   timeout failure with the plugin's context cancelled, and a response whose type differs from the plugin's
   declared response type fails the action permanently without storing the response."

   Two layers, both for ONE ACTION RUN (a sequence action, or a check action in one run of its group):

   (1) Coercion.Attempts.ActionRun.run_action retries script: a deterministic transcription of
       actions.Runner.Start / Execute / exec / run / End and of Backoff.Retry (Azure/retry), with
       script k = what the plugin's k-th invocation does: OOverrun, or ORet rs er = it returns the PAIR
       (response, error) with rs : PNil | PGood | PBad (nil / declared type / any other type) and
       er : PNoErr | PTrans | PPerm - all 10 combinations (OOk, OErr, OPerm, OWrongType are notations for
       ORet PGood PNoErr, ORet PNil PTrans, ORet PNil PPerm, ORet PBad PNoErr).
       w_calls = plugin invocations, w_ctx = per invocation "the plugin saw its context cancelled",
       w_attempts = action.Attempts (RGood k / EPlug k p = the response / error invocation k returned;
       EEngine false = the engine's timeout error, EEngine true = the engine's response-type error),
       w_status = final status, w_trace = observable events.
   (2) Coercion.Attempts.ActionAuto.astep: the observable automaton over AWRun | AStart | AEnd o | AWAtt n lastok |
       AWDone ok n, and the independent monitor mstep of DESIGN Appendix B.

   The theorems quantify over every retries : nat and every script : nat -> outcome / every trace. The tie to
   /repo is the correspondence check of lib/props/c05.py (AttemptsCheck.v). *)
From Coq Require Import List Arith Bool.
From Coercion.Base Require Import Plan.
From Coercion.Attempts Require Import ActionRun ActionAuto ActionRunProofs ActionAutoProofs ActionTheorems
  AttemptsCheck AttemptsCheckProofs.
Import ListNotations.

(* the fuel of the retry loop (retries + 2) always suffices: the total run_action is the real result *)
Theorem c05_fuel_suffices :
  forall (retries : nat) (script : nat -> outcome),
    run_action_opt retries script = Some (run_action retries script).
Proof. exact run_action_opt_some. Qed.
Print Assumptions c05_fuel_suffices.

(* at most Retries+1 invocations (and at least one) *)
Theorem c05_calls_bounded :
  forall (retries : nat) (script : nat -> outcome),
    1 <= w_calls (run_action retries script) /\ w_calls (run_action retries script) <= retries + 1.
Proof. exact thm_calls_bounded. Qed.
Print Assumptions c05_calls_bounded.

(* no invocation after an attempt that succeeded (no error and the response nil or of the declared type), returned a
   permanent error, or returned a wrong-typed response (whatever the error): such an invocation is the last one *)
Theorem c05_stops :
  forall (retries : nat) (script : nat -> outcome) (i : nat),
    i < w_calls (run_action retries script) ->
    match script i with
    | ORet PBad _ => True            (* a wrong-typed response, whatever the error *)
    | ORet _ PNoErr => True          (* success *)
    | ORet _ PPerm => True           (* a permanent error *)
    | ORet _ PTrans | OOverrun => False
    end ->
    w_calls (run_action retries script) = i + 1.
Proof. exact thm_stops. Qed.
Print Assumptions c05_stops.

(* ... and the engine does not give up early: fewer than Retries+1 invocations only after such an outcome *)
Theorem c05_retries_used :
  forall (retries : nat) (script : nat -> outcome),
    w_calls (run_action retries script) < retries + 1 ->
    match script (w_calls (run_action retries script) - 1) with
    | ORet PBad _ => True
    | ORet _ PNoErr => True
    | ORet _ PPerm => True
    | ORet _ PTrans | OOverrun => False
    end.
Proof. exact thm_retries_used. Qed.
Print Assumptions c05_retries_used.

(* every invocation is recorded as exactly one attempt, in order: as many attempts as invocations, and the i-th
   attempt carries what the i-th invocation returned:
     - OOverrun: the engine's non-permanent timeout error, no response; the plugin saw its context cancelled (and
       only then);
     - a wrong-typed response (ORet PBad _), WHATEVER error came with it: the engine's permanent type error and NO
       response - the junk is never stored, the plugin's error is replaced;
     - otherwise the pair as returned: the response iff one was returned (also next to an error), the plugin's own
       error (tag i, its permanence) iff one was returned;
   and start <= end *)
Theorem c05_all_recorded :
  forall (retries : nat) (script : nat -> outcome),
    let w := run_action retries script in
    length (w_attempts w) = w_calls w /\ length (w_ctx w) = w_calls w /\
    forall i, i < w_calls w ->
      exists a, nth_error (w_attempts w) i = Some a /\
        match script i with
        | OOverrun => ar_resp a = RNone /\ ar_err a = EEngine false
        | ORet PBad _ => ar_resp a = RNone /\ ar_err a = EEngine true
        | ORet rs er =>
            ar_resp a = match rs with PGood => RGood i | _ => RNone end /\
            ar_err a = match er with PNoErr => ENone | PTrans => EPlug i false | PPerm => EPlug i true end
        end /\
        1 <= ar_start a /\ ar_start a <= ar_end a /\
        nth_error (w_ctx w) i = Some (match script i with OOverrun => true | _ => false end).
Proof. exact thm_all_recorded. Qed.
Print Assumptions c05_all_recorded.

(* ... in order also by the clock: an earlier attempt ended before a later one started *)
Theorem c05_attempts_in_time_order :
  forall (retries : nat) (script : nat -> outcome) (i j : nat) (a b : attempt_rec),
    i < j ->
    nth_error (w_attempts (run_action retries script)) i = Some a ->
    nth_error (w_attempts (run_action retries script)) j = Some b ->
    ar_end a < ar_start b.
Proof. exact attempts_in_time_order. Qed.
Print Assumptions c05_attempts_in_time_order.

(* Completed iff the last attempt has no error, Failed otherwise; retries exhausted (every outcome up to
   invocation `retries` retryable) => Failed with exactly retries+1 invocations and attempts *)
Theorem c05_final_status :
  forall (retries : nat) (script : nat -> outcome),
    let w := run_action retries script in
    (w_status w = Completed \/ w_status w = Failed) /\
    (forall a, nth_error (w_attempts w) (w_calls w - 1) = Some a -> (w_status w = Completed <-> ar_err a = ENone)) /\
    ((forall i, i <= retries ->
        match script i with OOverrun | ORet PNil PTrans | ORet PGood PTrans => True | _ => False end) ->
       w_status w = Failed /\ w_calls w = retries + 1 /\ length (w_attempts w) = retries + 1).
Proof. exact thm_final_status. Qed.
Print Assumptions c05_final_status.

(* every trace the observable automaton accepts satisfies the monitor of Appendix B (mstep: a Start needs fewer
   than retries+1 starts so far, no final outcome returned yet, the Running write and the previous attempt
   durable, nothing in flight; every attempt write is exactly the next one and tells what the invocation
   returned; the terminal write carries n = starts = durable attempts and the last verdict) *)
Theorem c05_auto_refines :
  forall (retries : nat) (tr : list aevent) (s : ast),
    arun retries tr = Some s ->
    exists m, mrun retries tr = Some m /\ m_starts m <= retries + 1 /\ m_starts m = count_starts tr.
Proof. exact thm_auto_refines. Qed.
Print Assumptions c05_auto_refines.

(* the same, read off the trace itself: at most retries+1 Starts; no Start after an End with a final outcome;
   each Start is preceded by the Running write and - when k invocations started before it - by the durable write
   of attempt k, with k <= retries; a terminal write carries n = the number of Starts before it, and no Start
   follows it *)
Theorem c05_auto_trace :
  forall (retries : nat) (tr : list aevent) (s : ast),
    arun retries tr = Some s ->
    count_starts tr <= retries + 1 /\
    (forall tr1 o tr2, tr = tr1 ++ AEnd o :: tr2 ->
       match o with ORet PBad _ | ORet _ PNoErr | ORet _ PPerm => True | ORet _ PTrans | OOverrun => False end ->
       count_starts tr2 = 0) /\
    (forall tr1 tr2, tr = tr1 ++ AStart :: tr2 ->
       In AWRun tr1 /\ (count_starts tr1 = 0 \/ exists ok, In (AWAtt (count_starts tr1) ok) tr1) /\
       count_starts tr1 <= retries) /\
    (forall tr1 v n tr2, tr = tr1 ++ AWDone v n :: tr2 -> n = count_starts tr1 /\ count_starts tr2 = 0).
Proof. exact thm_auto_trace. Qed.
Print Assumptions c05_auto_trace.

(* non-vacuity, for every input: the functional model's own trace is accepted by the automaton (complete run, no
   plugin left in flight), and its Starts are exactly the model's invocations *)
Theorem c05_model_trace_accepted :
  forall (retries : nat) (script : nat -> outcome),
    accepted retries (w_trace (run_action retries script)) = true /\
    count_starts (w_trace (run_action retries script)) = w_calls (run_action retries script).
Proof. exact thm_model_trace. Qed.
Print Assumptions c05_model_trace_accepted.

(* the checker is not stricter than the theorems: the boolean statement of C05 that the correspondence check
   evaluates on every real observation (AttemptsCheck.prop_run: 1 <= calls <= retries+1, no final outcome before
   the last invocation, last outcome final or retries used up, one attempt per invocation carrying what the
   outcome demands, context cancelled exactly in the overruns, status from the last attempt) is true on the model's
   own result for every input, and the whole per-run check (model comparison, monitor, automaton, property)
   answers "fine" on it *)
Theorem c05_checker_holds_on_model :
  forall (retries : nat) (l : list outcome) (dflt : outcome),
    prop_run retries (script_of l dflt) (obs_of_world l (run_action retries (script_of l dflt))) = true /\
    check_run retries dflt (obs_of_world l (run_action retries (script_of l dflt))) = [0].
Proof. intros. split; [apply model_satisfies_prop|apply check_run_on_model]. Qed.
Print Assumptions c05_checker_holds_on_model.

(* concrete instances (vm_compute): ActionTheorems.ex_run_2 (err, overrun, ok with retries 2: Completed, 3 attempts,
   context cancelled in the second invocation only), ex_run_1 (same script, retries 1: Failed after retries+1),
   ex_wrong_type, ex_pairs (wrong type + transient error: permanent, not stored; good response + transient error:
   stored with the error, retried), ex_nil_ok, ex_appendix_b, ex_late_end (accepted traces), ex_rejects (six traces the automaton refuses). *)
Check ex_run_2.
Check ex_run_1.
Check ex_wrong_type.
Check ex_pairs.
Check ex_nil_ok.
Check ex_appendix_b.
Check ex_late_end.
Check ex_rejects.
