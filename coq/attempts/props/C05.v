(* C05 - preliminary (correspondence first); the property theorems replace this file. *)
From Coercion.Base Require Import Plan.
From Coercion.Attempts Require Import ActionRun ActionAuto AttemptsCheck.

Theorem c05_placeholder_example :
  accepted 2 (w_trace (run_action 2 (script_of [OErr; OOverrun; OOk] OErr))) = true.
Proof. vm_compute. reflexivity. Qed.
Print Assumptions c05_placeholder_example.
