(* C05 - one ACTION RUN, observable small-step automaton (DESIGN.md section 6 "Action.v", Appendix A/B) and the
   independent monitor of Appendix B.  No proofs in this file.

     AIdle -> ARun k -> AFly k -> ARet k o -> (ARun (k+1) | APend v (k+1)) -> ADone v n

   Events update the phase and the durable image (= the last write).  A write that no rule takes and that
   equals the durable image is a stutter, accepted in every state with no effect (the engine writes the
   terminal value of an action up to three times: Runner.End, runAction's deferred write, End's
   writeEverything).  For OOverrun the engine does not wait for the plugin: the attempt write (lastok = false)
   may come while the plugin is still in flight; the invocation is then an orphan whose AEnd OOverrun is
   accepted late, in any state (a_late counts the orphans). *)
From Coq Require Import List Arith Bool.
From Coercion.Attempts Require Import ActionRun.
Import ListNotations.

Inductive aphase :=
| AIdle
| ARun (k : nat)                 (* k attempts durable; the next invocation may start *)
| AFly (k : nat)                 (* invocation k in flight *)
| ARet (k : nat) (o : outcome)   (* invocation k returned o; its attempt is not durable yet *)
| APend (v : bool) (n : nat)     (* verdict known, n attempts durable, terminal write pending *)
| ADone (v : bool) (n : nat).

(* the durable image of the action = its last write *)
Inductive wimg := IIdle | IRun | IAtt (n : nat) (ok : bool) | IDone (v : bool) (n : nat).

Definition wimg_eqb (a b : wimg) : bool :=
  match a, b with
  | IIdle, IIdle | IRun, IRun => true
  | IAtt n o, IAtt n' o' => (n =? n') && eqb o o'
  | IDone v n, IDone v' n' => eqb v v' && (n =? n')
  | _, _ => false
  end.

(* the image a write event leaves (None: not a write, or a write nothing accepts) *)
Definition img_of (e : aevent) : option wimg :=
  match e with
  | AWIdle => Some IIdle
  | AWRun => Some IRun
  | AWAtt n ok => Some (IAtt n ok)
  | AWDone v n => Some (IDone v n)
  | AStart | AEnd _ | AWBad => None
  end.

Record ast := { a_ph : aphase; a_img : wimg; a_late : nat }.

Definition ainit : ast := {| a_ph := AIdle; a_img := IIdle; a_late := 0 |}.

(* the durable image shows (Running, k attempts) *)
Definition img_shows (k : nat) (i : wimg) : bool :=
  match i with
  | IRun => k =? 0
  | IAtt n _ => n =? k
  | _ => false
  end.

(* where invocation k's result leads once it is durable: a final outcome (success; permanent error; wrong-typed
   response, whatever the error) closes the run with the verdict is_ok; a retryable one (transient error,
   overrun) retries while k+1 <= retries, else the run is closed as failed *)
Definition after_ret (r k : nat) (o : outcome) : aphase :=
  if is_final o then APend (is_ok o) (S k)
  else if S k <=? r then ARun (S k) else APend false (S k).

Definition handle (r : nat) (s : ast) (e : aevent) : option ast :=
  match a_ph s, e with
  | AIdle, AWRun => Some {| a_ph := ARun 0; a_img := IRun; a_late := a_late s |}
  | ARun k, AStart =>
      if (k <=? r) && img_shows k (a_img s)
      then Some {| a_ph := AFly k; a_img := a_img s; a_late := a_late s |} else None
  | AFly k, AEnd o => Some {| a_ph := ARet k o; a_img := a_img s; a_late := a_late s |}
  | AFly k, AWAtt n false =>
      (* the engine timed the invocation out and recorded it; the plugin is still running *)
      if n =? S k
      then Some {| a_ph := after_ret r k OOverrun; a_img := IAtt n false; a_late := S (a_late s) |} else None
  | ARet k o, AWAtt n ok =>
      if (n =? S k) && eqb ok (is_ok o)
      then Some {| a_ph := after_ret r k o; a_img := IAtt n ok; a_late := a_late s |} else None
  | APend v n, AWDone v' n' =>
      if eqb v v' && (n =? n')
      then Some {| a_ph := ADone v n; a_img := IDone v n; a_late := a_late s |} else None
  | _, _ => None
  end.

Definition stutter (s : ast) (e : aevent) : bool :=
  match img_of e with Some i => wimg_eqb i (a_img s) | None => false end.

(* an orphan's late End first (choosing it whenever possible loses no trace: see ActionAuto notes in
   DESIGN), then the handlers, then the stutter rule *)
Definition astep (r : nat) (s : ast) (e : aevent) : option ast :=
  match e, a_late s with
  | AEnd OOverrun, S l => Some {| a_ph := a_ph s; a_img := a_img s; a_late := l |}
  | _, _ =>
      match handle r s e with
      | Some s' => Some s'
      | None => if stutter s e then Some s else None
      end
  end.

(* generic run of a partial step function *)
Fixpoint run_steps {S E : Type} (step : S -> E -> option S) (s : S) (tr : list E) : option S :=
  match tr with
  | [] => Some s
  | e :: tr' => match step s e with Some s' => run_steps step s' tr' | None => None end
  end.

Definition arun (r : nat) (tr : list aevent) : option ast := run_steps (astep r) ainit tr.

(* a complete observation: the action never ran, or its run is closed; no plugin left in flight *)
Definition afinal (s : ast) : bool :=
  match a_ph s with AIdle | ADone _ _ => a_late s =? 0 | _ => false end.

Definition accepted (r : nat) (tr : list aevent) : bool :=
  match arun r tr with Some s => afinal s | None => false end.

(* index of the first event that is not enabled (length tr = all enabled) *)
Fixpoint first_rejected (r : nat) (s : ast) (i : nat) (tr : list aevent) : nat :=
  match tr with
  | [] => i
  | e :: tr' => match astep r s e with Some s' => first_rejected r s' (S i) tr' | None => i end
  end.

(* ---- the monitor: C05 (and the single-action part of C08a) for one run, as a fold with its own counters ----
   AStart requires: fewer than retries+1 starts so far, no final outcome returned yet, Running durable, the
   previous result durable (durable attempts = starts), nothing in flight, not closed.
   Each attempt write is exactly the next one (n = durable+1 = starts) and says what the invocation returned
   (an invocation still in flight can only be recorded as failed: it becomes an orphan).
   The terminal write carries n = starts = durable and the verdict of the last attempt. *)
Record mst := {
  m_starts : nat;            (* plugin invocations so far *)
  m_durable : nat;           (* attempts durably recorded *)
  m_running : bool;          (* the Running write happened *)
  m_final : bool;            (* an invocation returned OOk / OPerm / OWrongType *)
  m_fly : bool;              (* an invocation is in flight (not yet returned, not yet abandoned) *)
  m_lastok : bool;           (* the last returned / recorded invocation was OOk *)
  m_orphans : nat;           (* abandoned (timed out) invocations that have not returned yet *)
  m_done : bool;             (* terminal write seen *)
  m_last : wimg              (* last write *)
}.

Definition m0 : mst :=
  {| m_starts := 0; m_durable := 0; m_running := false; m_final := false; m_fly := false; m_lastok := false;
     m_orphans := 0; m_done := false; m_last := IIdle |}.

Definition mstep (r : nat) (m : mst) (e : aevent) : option mst :=
  match e with
  | AStart =>
      if (m_starts m <=? r) && negb (m_final m) && m_running m && (m_durable m =? m_starts m)
         && negb (m_fly m) && negb (m_done m)
      then Some {| m_starts := S (m_starts m); m_durable := m_durable m; m_running := true; m_final := false;
                   m_fly := true; m_lastok := false; m_orphans := m_orphans m; m_done := false;
                   m_last := m_last m |}
      else None
  | AEnd o =>
      match o, m_orphans m with
      | OOverrun, S l =>
          Some {| m_starts := m_starts m; m_durable := m_durable m; m_running := m_running m;
                  m_final := m_final m; m_fly := m_fly m; m_lastok := m_lastok m; m_orphans := l;
                  m_done := m_done m; m_last := m_last m |}
      | _, _ =>
          if m_fly m
          then Some {| m_starts := m_starts m; m_durable := m_durable m; m_running := m_running m;
                       m_final := is_final o; m_fly := false; m_lastok := is_ok o; m_orphans := m_orphans m;
                       m_done := m_done m; m_last := m_last m |}
          else None
      end
  | AWRun =>
      if negb (m_running m) && wimg_eqb (m_last m) IIdle
      then Some {| m_starts := m_starts m; m_durable := m_durable m; m_running := true; m_final := m_final m;
                   m_fly := m_fly m; m_lastok := m_lastok m; m_orphans := m_orphans m; m_done := m_done m;
                   m_last := IRun |}
      else if wimg_eqb (m_last m) IRun then Some m else None
  | AWAtt n ok =>
      if wimg_eqb (m_last m) (IAtt n ok) then Some m
      else if (n =? S (m_durable m)) && (n =? m_starts m) && negb (m_done m)
              && (if m_fly m then negb ok else eqb ok (m_lastok m))
      then Some {| m_starts := m_starts m; m_durable := n; m_running := m_running m; m_final := m_final m;
                   m_fly := false; m_lastok := ok;
                   m_orphans := if m_fly m then S (m_orphans m) else m_orphans m;
                   m_done := false; m_last := IAtt n ok |}
      else None
  | AWDone v n =>
      if wimg_eqb (m_last m) (IDone v n) then Some m
      else if negb (m_done m) && negb (m_fly m) && (1 <=? n) && (n =? m_starts m) && (n =? m_durable m)
              && eqb v (m_lastok m)
      then Some {| m_starts := m_starts m; m_durable := m_durable m; m_running := m_running m;
                   m_final := m_final m; m_fly := false; m_lastok := m_lastok m; m_orphans := m_orphans m;
                   m_done := true; m_last := IDone v n |}
      else None
  | AWIdle => if wimg_eqb (m_last m) IIdle then Some m else None
  | AWBad => None
  end.

Definition mrun (r : nat) (tr : list aevent) : option mst := run_steps (mstep r) m0 tr.

Definition monitor_ok (r : nat) (tr : list aevent) : bool :=
  match mrun r tr with Some m => m_starts m <=? S r | None => false end.

Fixpoint mon_first_rejected (r : nat) (m : mst) (i : nat) (tr : list aevent) : nat :=
  match tr with
  | [] => i
  | e :: tr' => match mstep r m e with Some m' => mon_first_rejected r m' (S i) tr' | None => i end
  end.
