"""Shared machinery of the /verif checks (DESIGN.md section 2).

A check is `./check Cnn [--tier quick|thorough] [--replay file]`.  It
  1. greps the Coq development for forbidden vernacular,
  2. builds coq/base and the property's Coq project with a full .vo build (make, flock-protected),
  3. re-checks the property file coq/<proj>/props/Cnn.v with coqc and records `Print Assumptions`,
  4. rebuilds the Go harness binary from /repo's working tree (-tags verif),
  5. runs the harness, writes the cases as Coq terms into shards, evaluates the model on them with
     vm_compute inside coqc (one `corr_ok` lemma per shard),
  6. classifies, prints KNOWN-FINDING / VIOLATION lines, writes evidence/<id>.json.
"""
import ast
import concurrent.futures
import fcntl
import glob
import hashlib
import json
import os
import re
import shutil
import subprocess
import sys
import time

ROOT = os.path.dirname(os.path.dirname(os.path.dirname(os.path.abspath(__file__))))
COQ = os.path.join(ROOT, "coq")
HARNESS = os.path.join(ROOT, "harness")
REPO = os.environ.get("VERIF_REPO", "/repo")
NCPU = os.cpu_count() or 4

GOENV = dict(os.environ, GOFLAGS="-mod=mod", GOPROXY="off", GOSUMDB="off", GOTOOLCHAIN="local",
             CGO_ENABLED=os.environ.get("CGO_ENABLED", "1"))
GO = "go1.26"

TRUSTED_BASE_COMMON = [
    "Coq 8.16.1 kernel incl. the vm_compute reduction machine (no native_compute)",
    "no axioms declared; Print Assumptions output of every property theorem is recorded in this file",
    "Go harness (generators, string/uuid/value abstraction, event log, term printer), Python driver",
    "model is hand-written; tie to /repo is the correspondence check of this run (sampled, not exhaustive)",
]

FORBIDDEN = re.compile(
    r"\b(Admitted|admit|Axiom|Axioms|Parameter|Parameters|Conjecture|Conjectures|Admit Obligations)\b"
    r"|Unset\s+Guard|Unset\s+Positivity|Unset\s+Universe|bypass_check|type-in-type|impredicative-set|native_compute")


def sh(cmd, cwd=None, env=None, timeout=None, stdin=None):
    """Run a command, return (rc, stdout+stderr)."""
    try:
        p = subprocess.run(cmd, cwd=cwd, env=env, timeout=timeout, input=stdin,
                           stdout=subprocess.PIPE, stderr=subprocess.STDOUT, text=True,
                           shell=isinstance(cmd, str))
        return p.returncode, p.stdout
    except subprocess.TimeoutExpired as e:
        out = e.stdout or ""
        if isinstance(out, bytes):
            out = out.decode("utf-8", "replace")
        return 124, out + "\n[timeout after %ss]" % timeout


def strip_comments(src):
    """Remove (nested) Coq comments and string literals."""
    out, depth, i, n, instr = [], 0, 0, len(src), False
    while i < n:
        c = src[i]
        if instr:
            if c == '"':
                instr = False
            i += 1
            continue
        if src.startswith("(*", i):
            depth += 1
            i += 2
            continue
        if depth and src.startswith("*)", i):
            depth -= 1
            i += 2
            continue
        if depth == 0:
            if c == '"':
                instr = True
            else:
                out.append(c)
        elif c == "\n":
            out.append(c)
        i += 1
    return "".join(out)


def forbidden_scan(paths=None):
    """Return a list of 'file:line: text' for forbidden vernacular in the Coq sources."""
    bad = []
    files = []
    for root in (paths or [COQ]):
        if os.path.isfile(root):
            files.append(root)
        for d, _, fs in os.walk(root):
            files += [os.path.join(d, f) for f in fs if f.endswith(".v")]
    for f in sorted(set(files)):
        try:
            src = strip_comments(open(f).read())
        except OSError:
            continue
        stack = []
        for ln, line in enumerate(src.split("\n"), 1):
            m = re.match(r"\s*(Section|Module)\b", line)
            if m and ":=" not in line:
                stack.append(m.group(1))
            if re.match(r"\s*End\b", line) and stack:
                stack.pop()
            if FORBIDDEN.search(line):
                bad.append("%s:%d: %s" % (os.path.relpath(f, ROOT), ln, line.strip()))
            if "Section" not in stack and re.match(r"\s*(Variable|Variables|Hypothesis|Hypotheses|Context)\b", line):
                bad.append("%s:%d: %s (outside a section)" % (os.path.relpath(f, ROOT), ln, line.strip()))
    return bad


# ------------------------------------------------------------------ Coq projects

def project_dir(proj):
    return os.path.join(COQ, proj)


def project_flags(proj):
    """-R flags of a project, read from its _CoqProject.head."""
    flags = []
    head = os.path.join(project_dir(proj), "_CoqProject.head")
    for line in open(head):
        t = line.split()
        if len(t) == 3 and t[0] in ("-R", "-Q"):
            flags += [t[0], os.path.normpath(os.path.join(project_dir(proj), t[1])), t[2]]
    return flags


def project_deps(proj):
    deps = []
    head = os.path.join(project_dir(proj), "_CoqProject.head")
    for line in open(head):
        t = line.split()
        if len(t) == 3 and t[0] in ("-R", "-Q") and t[1] != ".":
            deps.append(os.path.basename(os.path.normpath(os.path.join(project_dir(proj), t[1]))))
    return deps


def coq_build_one(proj, jobs=NCPU, timeout=3000):
    """Full .vo build of one project (coq_makefile + make), serialised by a lock file."""
    d = project_dir(proj)
    vs = sorted(os.path.relpath(f, d) for f in glob.glob(os.path.join(d, "**", "*.v"), recursive=True)
                if "/.work/" not in f and "/scratch/" not in f)
    with open(os.path.join(d, ".lock"), "w") as lk:
        fcntl.flock(lk, fcntl.LOCK_EX)
        body = open(os.path.join(d, "_CoqProject.head")).read().rstrip("\n") + "\n" + "\n".join(vs) + "\n"
        cp = os.path.join(d, "_CoqProject")
        if not os.path.exists(cp) or open(cp).read() != body:
            open(cp, "w").write(body)
        mk = os.path.join(d, "Makefile")
        if not os.path.exists(mk) or os.path.getmtime(mk) < os.path.getmtime(cp):
            rc, out = sh(["coq_makefile", "-f", "_CoqProject", "-o", "Makefile"], cwd=d)
            if rc != 0:
                return False, out
        rc, out = sh(["make", "-j%d" % jobs], cwd=d, timeout=timeout)
        return rc == 0, out


def coq_build(projs):
    """Build projects and (first) the projects they depend on. Returns (ok, log, failing)."""
    order = []

    def visit(p):
        for q in project_deps(p):
            visit(q)
        if p not in order:
            order.append(p)
    for p in projs:
        visit(p)
    logs = []
    for p in order:
        ok, out = coq_build_one(p)
        logs.append("== make %s ==\n%s" % (p, out[-6000:]))
        if not ok:
            m = re.search(r'File "([^"]+)", line (\d+)', out)
            where = "%s/%s:%s" % (p, m.group(1), m.group(2)) if m else p
            return False, "\n".join(logs), where
    return True, "\n".join(logs), None


def props_check(proj, pid, workroot=None):
    """Re-check coq/<proj>/props/<pid>.v with coqc; return dict(ok, theorems, assumptions, log)."""
    d = project_dir(proj)
    f = os.path.join(d, "props", pid + ".v")
    src = strip_comments(open(f).read())
    theorems = re.findall(r"^\s*(?:Theorem|Lemma|Corollary)\s+([A-Za-z0-9_']+)", src, re.M)
    work = os.path.join(workroot or os.path.join(ROOT, ".work", "%s.%d" % (pid, os.getpid())), "props")
    os.makedirs(work, exist_ok=True)
    shutil.copy(f, os.path.join(work, pid + "_recheck.v"))
    rc, out = sh(["coqc"] + project_flags(proj) + [pid + "_recheck.v"], cwd=work, timeout=900)
    closed = out.count("Closed under the global context")
    axioms = []
    if "Axioms:" in out:
        for blk in out.split("Axioms:")[1:]:
            for line in blk.split("\n")[1:]:
                m = re.match(r"^([A-Za-z0-9_.']+)\s*:", line)
                if m:
                    axioms.append(m.group(1))
                elif line.strip() == "" or line.startswith("Closed"):
                    break
    return dict(ok=(rc == 0), theorems=theorems, closed=closed, axioms=sorted(set(axioms)),
                log=out[-4000:], file=os.path.relpath(f, ROOT))


def project_logical(proj):
    """Logical name the project's own directory is bound to (the `-R . Name` line)."""
    head = os.path.join(project_dir(proj), "_CoqProject.head")
    for line in open(head):
        t = line.split()
        if len(t) == 3 and t[0] in ("-R", "-Q") and t[1] == ".":
            return t[2]
    return None


def coqchk_props(proj, pid, timeout=3000):
    """Thorough tier: re-check the compiled property file and everything it depends on with the
    independent checker coqchk, and report the axioms it lists. Returns dict(ok, axioms, log)."""
    logical = project_logical(proj)
    if logical is None:
        return dict(ok=False, axioms=[], log="no `-R . <name>` line in _CoqProject.head")
    lib = "%s.props.%s" % (logical, pid)
    with open(os.path.join(project_dir(proj), ".lock"), "w") as lk:
        fcntl.flock(lk, fcntl.LOCK_SH)
        rc, out = sh(["coqchk", "-silent", "-o"] + project_flags(proj) + [lib], cwd=project_dir(proj), timeout=timeout)
    axioms = []
    m = re.search(r"\* Axioms:(.*?)\n\s*\n\* Constants", out, re.S)
    if m and "<none>" not in m.group(1):
        axioms = [a.strip() for a in m.group(1).strip().split("\n") if a.strip()]
    unsafe = [l.strip() for l in out.split("\n") if l.strip().startswith("* ") and "<none>" not in l
              and ("type-in-type" in l or "unsafe" in l or "positivity" in l)]
    return dict(ok=(rc == 0 and not unsafe), axioms=axioms, log=out[-2500:], library=lib)


# ------------------------------------------------------------------ Go harness

def build_harness(cmd, tags="verif"):
    """Rebuild harness/cmd/<cmd> against the repository's working tree (/repo, or $VERIF_REPO for
    experiments on a scratch worktree). Returns (path|None, log)."""
    key = "" if REPO == "/repo" else "-" + hashlib.sha1(REPO.encode()).hexdigest()[:8]
    bind = os.path.join(ROOT, ".work", "bin" + key)
    os.makedirs(bind, exist_ok=True)
    out_bin = os.path.join(bind, cmd)
    extra = []
    if key:
        mod = open(os.path.join(HARNESS, "go.mod")).read().replace("=> /repo", "=> " + REPO)
        mf = os.path.join(bind, "go.mod")
        open(mf, "w").write(mod)
        shutil.copy(os.path.join(HARNESS, "go.sum"), os.path.join(bind, "go.sum"))
        extra = ["-modfile=" + mf]
    with open(os.path.join(bind, ".lock-" + cmd), "w") as lk:
        fcntl.flock(lk, fcntl.LOCK_EX)
        rc, out = sh([GO, "build"] + extra + ["-tags", tags, "-o", out_bin, "./cmd/" + cmd], cwd=HARNESS, env=GOENV, timeout=1500)
    if rc != 0:
        return None, out
    return out_bin, out


def read_jsonl(path):
    cases = []
    with open(path) as f:
        for line in f:
            line = line.strip()
            if line:
                cases.append(json.loads(line))
    return cases


# ------------------------------------------------------------------ evaluating the model on cases

def parse_report(out, name="report"):
    """Parse `name = [[..]; ..] : type` printed by Coq into nested Python lists."""
    m = re.search(r"\b%s\s*=\s*(.*?)\n\s*:\s" % re.escape(name), out, re.S)
    if not m:
        return None
    txt = re.sub(r"%[A-Za-z]+", "", m.group(1))
    txt = txt.replace(";", ",").replace("\n", " ")
    txt = re.sub(r"\btrue\b", "True", txt)
    txt = re.sub(r"\bfalse\b", "False", txt)
    try:
        return ast.literal_eval(txt.strip())
    except Exception:
        return None


def run_shard(args):
    (work, k, flags, header, case_type, check_fn, ok_fn, terms, timeout) = args
    name = "cases_%d" % k
    path = os.path.join(work, name + ".v")
    with open(path, "w") as f:
        f.write(header + "\n")
        f.write("Definition cases : list (%s) := [\n" % case_type)
        f.write(";\n".join(terms))
        f.write("\n].\n")
        f.write("Definition report := Eval vm_compute in map %s cases.\nPrint report.\n" % check_fn)
        f.write("Lemma corr_ok : forallb %s cases = true.\nProof. vm_compute. reflexivity. Qed.\n" % ok_fn)
    t0 = time.time()
    rc, out = sh(["coqc"] + flags + [name + ".v"], cwd=work, timeout=timeout)
    rep = parse_report(out)
    return dict(shard=k, rc=rc, report=rep, out=out[-3000:], wall=time.time() - t0, n=len(terms), file=path)


def eval_cases(work, proj, header, case_type, check_fn, ok_fn, terms, shards=NCPU, timeout=1200):
    """Evaluate check_fn on every case term inside Coq. Returns (results per case | None, shard infos).
    A case whose shard produced no report gets result None."""
    os.makedirs(work, exist_ok=True)
    flags = project_flags(proj)
    n = len(terms)
    if n == 0:
        return [], []
    shards = max(1, min(shards, n))
    chunks = [[] for _ in range(shards)]
    index = [[] for _ in range(shards)]
    for i, t in enumerate(terms):
        chunks[i % shards].append(t)
        index[i % shards].append(i)
    jobs = [(work, k, flags, header, case_type, check_fn, ok_fn, chunks[k], timeout) for k in range(shards)]
    results = [None] * n
    infos = []
    with concurrent.futures.ThreadPoolExecutor(max_workers=NCPU) as ex:
        for info in ex.map(run_shard, jobs):
            infos.append(info)
            rep = info["report"]
            if rep is not None and len(rep) == info["n"]:
                for j, i in enumerate(index[info["shard"]]):
                    results[i] = rep[j]
    return results, infos


# ------------------------------------------------------------------ findings, evidence, verdicts

def load_findings():
    p = os.path.join(ROOT, "known_findings.json")
    if not os.path.exists(p):
        return []
    return json.load(open(p)).get("findings", [])


class Ctx:
    def __init__(self, pid, tier, seed, replay=None):
        self.pid, self.tier, self.seed, self.replay = pid, tier, seed, replay
        self.check_pid = pid       # the property this run was started for (drivers may swap self.pid temporarily)
        self.t0 = time.time()
        # one scratch directory per run (two runs of the same check, e.g. a seeded-change run next to a plain one,
        # must not wipe each other's files)
        self.work = os.path.join(ROOT, ".work", "%s.%d" % (pid, os.getpid()))
        shutil.rmtree(self.work, ignore_errors=True)
        os.makedirs(self.work, exist_ok=True)
        self.violations = []
        self.known_printed = set()
        self.findings = [f for f in load_findings() if f.get("property") == pid]
        self.obligations = []      # (name, discharged?)
        self.assumptions = []
        self.notes = []
        self.env = dict(GOENV, VERIF_SEED=str(seed), VERIF_TIER=tier)

    # --- output lines
    def say(self, *a):
        print(*a, flush=True)

    def known(self, fid, what):
        """Report a listed, unfixed finding (once per run)."""
        if fid in self.known_printed:
            return
        self.known_printed.add(fid)
        owner = next((f.get("property") for f in load_findings() if f.get("id") == fid), self.pid)
        if owner == self.check_pid:
            self.say("KNOWN-FINDING: property=%s %s %s" % (owner, fid, what))
        else:
            # a finding listed for another property that this check's shared machinery also runs into
            self.say("NOTE: known finding %s of property %s also shows in this run: %s" % (fid, owner, what))

    def finding_status(self, fid):
        for f in self.findings:
            if f.get("id") == fid:
                return f.get("status")
        return None

    def violation(self, replay_obj, nofail=False, tag=None):
        # replays of runs against another tree ($VERIF_REPO: seeded changes, the pre-fix tree) live in their own directory,
        # so that they can never be mistaken for (or overwrite) replays of a run against /repo itself
        rdir = "replays" if REPO == "/repo" else "replays/tree-" + hashlib.sha1(REPO.encode()).hexdigest()[:8]
        os.makedirs(os.path.join(ROOT, rdir), exist_ok=True)
        n = len(self.violations) + 1
        rel = "%s/%s-%s%d.json" % (rdir, self.pid, (tag + "-") if tag else "", n)
        replay_obj = dict(replay_obj, property=self.pid, seed=self.seed, tier=self.tier, repo=REPO,
                          no_failing_input_found=bool(nofail))
        with open(os.path.join(ROOT, rel), "w") as f:
            json.dump(replay_obj, f, indent=1, default=str)
        self.violations.append(rel)
        self.say("VIOLATION property=%s replay=%s%s" % (self.pid, rel, " no-failing-input-found" if nofail else ""))

    def oblige(self, name, ok):
        self.obligations.append((name, bool(ok)))

    # --- standard steps
    def static_and_proofs(self, proj, extra_projects=()):
        """Steps 1-3. Returns True if the proof side is intact."""
        bad = forbidden_scan()
        self.oblige("no forbidden vernacular (Admitted/admit/Axiom/Parameter/...) in coq/", not bad)
        if bad:
            self.violation(dict(kind="forbidden-vernacular", lines=bad[:20],
                                broken="development contains declarations the proof discipline forbids"), nofail=True)
            return False
        ok, log, where = coq_build([proj] + list(extra_projects))
        self.oblige("full .vo build of coq/%s (make)" % proj, ok)
        if not ok:
            self.violation(dict(kind="coq-build-failed", broken="first failing file: %s" % where, log=log[-3000:]), nofail=True)
            return False
        pc = props_check(proj, self.pid, self.work)
        self.assumptions = dict(closed_under_global_context=pc["closed"], axioms=pc["axioms"], file=pc["file"])
        for t in pc["theorems"]:
            self.oblige("theorem %s (%s)" % (t, pc["file"]), pc["ok"])
        self.props = pc
        if not pc["ok"] or not pc["theorems"]:
            self.violation(dict(kind="property-theorem-does-not-check", broken=pc["file"], log=pc["log"]), nofail=True)
            return False
        if self.tier == "thorough" and not os.environ.get("VERIF_NO_COQCHK"):
            ck = coqchk_props(proj, self.pid)
            self.oblige("coqchk -silent -o %s (independent re-check of the compiled theorems and their dependencies)" % ck.get("library"), ck["ok"])
            self.assumptions["coqchk_axioms"] = ck["axioms"]
            if not ck["ok"]:
                self.violation(dict(kind="coqchk-failed", broken="coqchk %s" % ck.get("library"), log=ck["log"]), nofail=True)
                return False
        return True

    def harness(self, cmd, args, out_name="cases.jsonl", timeout=1800):
        """Steps 4-5a. Returns list of cases or None (after reporting)."""
        binp, log = build_harness(cmd)
        if binp is None:
            self.oblige("harness builds against /repo", False)
            self.violation(dict(kind="harness-build-failed", broken="go build ./cmd/%s against /repo" % cmd, log=log[-3000:]), nofail=True)
            return None
        out = os.path.join(self.work, out_name)
        rc, o = sh([binp] + list(args) + ["-out", out], cwd=self.work, env=self.env, timeout=timeout)
        self.harness_log = o[-3000:]
        if rc != 0:
            self.oblige("harness run completes", False)
            self.violation(dict(kind="harness-run-failed", rc=rc, broken="harness %s exited %d" % (cmd, rc), log=o[-3000:]), nofail=True)
            return None
        return read_jsonl(out)

    def evidence(self, coverage, assumptions=None, level="proof"):
        obligations = len(self.obligations)
        discharged = sum(1 for _, ok in self.obligations if ok)
        cov = dict(coverage)
        cov.setdefault("obligations", obligations)
        cov.setdefault("discharged", discharged)
        cov.setdefault("obligation_list", [dict(name=n, discharged=ok) for n, ok in self.obligations])
        cov.setdefault("checker_cmd", "coq_makefile -f _CoqProject -o Makefile && make (full .vo build) ; coqc props/%s.v ; coqc cases_<k>.v (Lemma corr_ok by vm_compute)" % self.pid)
        cov.setdefault("trusted_base", TRUSTED_BASE_COMMON)
        cov.setdefault("print_assumptions", self.assumptions)
        ev = dict(property_id=self.pid, tier=self.tier, seed=int(self.seed), level=level, coverage=cov,
                  assumptions=assumptions or [], wall_s=round(time.time() - self.t0, 2),
                  violations=len(self.violations))
        # evidence/<id>.json always describes a run against /repo itself; runs against another tree ($VERIF_REPO: seeded
        # changes, the pre-fix tree) leave it alone and write under .work/ instead.
        evdir = os.path.join(ROOT, "evidence") if REPO == "/repo" else os.path.join(ROOT, ".work", "evidence-other-tree")
        ev["repo"] = REPO
        os.makedirs(evdir, exist_ok=True)
        with open(os.path.join(evdir, self.pid + ".json"), "w") as f:
            json.dump(ev, f, indent=1, default=str)

    def cleanup(self):
        if not os.environ.get("VERIF_KEEP"):
            shutil.rmtree(self.work, ignore_errors=True)
            for d in glob.glob(os.path.join(ROOT, ".work", "*.%d" % os.getpid())):
                shutil.rmtree(d, ignore_errors=True)

    def exit_code(self):
        return 1 if self.violations else 0


def evidence_path(pid):
    """Where the evidence of this run lives (evidence/<id>.json only for runs against /repo itself)."""
    d = os.path.join(ROOT, "evidence") if REPO == "/repo" else os.path.join(ROOT, ".work", "evidence-other-tree")
    return os.path.join(d, pid + ".json")


def distinct_nontrivial(cases):
    return len({c.get("hash") for c in cases if c.get("nontrivial")})


def histogram(values):
    h = {}
    for v in values:
        k = json.dumps(v) if isinstance(v, (list, dict)) else str(v)
        h[k] = h.get(k, 0) + 1
    return dict(sorted(h.items(), key=lambda kv: (-kv[1], kv[0]))[:40])
