"""C16 - Submit admits exactly the well-formed plans; rejects leave no trace.

Theorem side: coq/validate/props/C16.v.
Correspondence: valid generated plans and mutants of them go through the real workflow.Validate,
Workstream.Submit (sqlite vault, row counts around the call), Workstream.Plan (the stored plan) and
Workstream.Start in child processes; the Coq checker (coq/validate/ValidateCheck.v) runs the model and
the declarative specification on the same plan and reports the first disagreement.
"""
from vf import framework as fw

HEADER = """From Coercion.Base Require Import Plan.
From Coercion.Validate Require Import Validate WF ValidateCheck."""

# verdict codes of ValidateCheck.verdict: (text, is it a violation of the property itself?)
CODES = {
    1: ("workflow.Validate panicked instead of returning an error", True),
    2: ("workflow.Validate's verdict differs from the model's validate", False),
    3: ("workflow.Validate's verdict differs from the declarative WF predicate", True),
    4: ("Workstream.Submit panicked instead of returning an error", True),
    5: ("Submit's verdict differs from the model's submit", False),
    6: ("Submit's verdict differs from the declarative WF predicate (accepted iff well formed)", True),
    7: ("a rejected Submit changed the store (row counts differ / a plan is readable)", True),
    8: ("an accepted Submit did not store exactly the plan's objects (row counts, or the plan cannot be read back)", True),
    9: ("the stored plan's definition is not the normal form of the submitted one", True),
    10: ("the stored plan is not pristine (some object not NotStarted / non-zero times / attempts / reason)", True),
    11: ("the stored plan's ids are not pairwise distinct, non-nil, version 7, fresh, or the returned id is not the plan's", True),
    12: ("the stored plan has no submit time (or one outside the Submit call)", True),
    13: ("the stored plan's definition differs from what the model of Submit stores", False),
    14: ("Start's verdict differs from the model's validate_start on the stored plan", False),
    15: ("Start accepted a plan whose check group uses a non-check plugin", True),
    16: ("Workstream.Start panicked", True),
    17: ("the process died or hung while Validate / Submit / Start worked on this plan (no observation came back)", True),
}


def run(ctx):
    ctx.static_and_proofs("validate")
    nseq, nsecond, nconc = (1000, 60, 400) if ctx.tier == "quick" else (24000, 600, 4000)
    nresub = 114 if ctx.tier == "quick" else 1140
    args = ["-n", str(nseq), "-second", str(nsecond), "-conc", str(nconc), "-resub", str(nresub)]
    if ctx.replay:
        # ./check C16 --replay replays/C16-k.json : re-run exactly that case (same seed, same index; a second-use case
        # with its group of 20, a concurrent case with its whole batch)
        import json
        rp = json.load(open(ctx.replay))
        ctx.env["VERIF_SEED"] = str(rp.get("seed", ctx.seed))
        inp = rp["input"]
        args = ["-n", str(inp.get("nseq", nseq)), "-second", str(inp.get("nsecond", nsecond)), "-conc", str(inp.get("nconc", nconc)),
                "-resub", str(inp.get("nresub", nresub)), "-only", str(inp["index"])]
    cases = ctx.harness("c16", args, timeout=3000)
    if cases is None:
        ctx.evidence(dict(evaluations=0, distinct_nontrivial=0, rule="harness did not run", samples=[]))
        return
    batch_notes = [c for c in cases if c.get("kind") == "batch"]
    large = [c for c in cases if c.get("kind") == "large"]
    cases = [c for c in cases if c.get("kind") not in ("batch", "large")]
    # large plans (6 000 - 20 000 objects): judged by the harness's own monitor (ids pairwise distinct, non-nil, v7, never
    # seen before, plan accepted and readable) - this is the premise of c16_submit checked on the real id source
    ctx.oblige("large plans submitted and judged (%d)" % len(large), bool(large) or bool(ctx.replay))
    for c in large:
        if not c["dist"]["ok"]:
            ctx.violation(dict(kind="c16-large-plan-ids", why="a well-formed plan of %d objects: %s" % (c["dist"]["objects"], c.get("note", "")),
                               case=c["id"], input=c["input"], observed=c["observed"],
                               replay_cmd="VERIF_SEED=%s ./check C16 --tier %s   (or: .work/bin/c16 -n 0 -second 0 -conc 400 -out -)" % (ctx.seed, ctx.tier)))
    for b in batch_notes:
        ctx.violation(dict(kind="c16-concurrent-batch", why=b.get("note", ""), case=b.get("id"),
                           replay_cmd="VERIF_SEED=%s ./check C16 --tier %s" % (ctx.seed, ctx.tier)))
    terms = [c["coq"] for c in cases]
    # evaluated in batches so that no coqc process holds more than ~200 plans
    results, infos = [], []
    batch = 16 * 200
    for b0 in range(0, len(terms), batch):
        import os
        r, inf = fw.eval_cases(os.path.join(ctx.work, "batch%d" % (b0 // batch)), "validate", HEADER, "case", "check_case",
                               "case_ok", terms[b0:b0 + batch], timeout=2400)
        for i in inf:
            i["shard"] = "%d.%d" % (b0 // batch, i["shard"])
        results += r
        infos += inf
    for info in infos:
        ctx.oblige("corr_ok shard %s (%d cases): forallb case_ok cases = true" % (info["shard"], info["n"]), info["rc"] == 0)
    bad = []
    for c, r in zip(cases, results):
        if r is None:
            bad.append((c, 0, "model evaluation produced no result for this case", False))
        elif r[0] != 0:
            text, viol = CODES.get(r[0], ("unknown verdict code %d" % r[0], False))
            bad.append((c, r[0], text, viol))
    # V1 / V2 are fixed findings: if they come back they are ordinary violations (known_findings.json)
    if bad:
        # property violations first, smallest plan first; one replay per distinct verdict code
        bad.sort(key=lambda x: (not x[3], len(x[0]["dist"]["mutations"]), x[0]["dist"]["objects"]))
        seen = set()
        for c, codev, text, viol in bad:
            if codev in seen:
                continue
            seen.add(codev)
            n_same = sum(1 for b in bad if b[1] == codev)
            if c["dist"].get("family") == "concurrent":
                text += " [this call overlapped with the same calls on other plans from 7 more goroutines in the same process]"
            elif c["dist"].get("family") == "resubmit":
                text += " [this is the Submit of a plan object that had been rejected as malformed (%s) and was then corrected in place]" % ", ".join(c["dist"].get("pre") or [])
            elif c["dist"].get("family") == "second-use":
                text += " [this Submit followed other Submits of the same plan (same names / key values) on the same Workstream]"
            obj = dict(kind="c16-verdict-%d" % codev, why=text, case=c["id"], family=c["dist"].get("family"), input=c["input"], mutations=c["dist"]["mutations"],
                       failing_by_family=fw.histogram(b[0]["dist"].get("family") for b in bad if b[1] == codev),
                       observed=c["observed"], case_coq=c["coq"][:30000], failing_cases_with_this_verdict=n_same,
                       failing_case_ids=[b[0]["id"] for b in bad if b[1] == codev][:40],
                       replay_cmd="VERIF_SEED=%s ./check C16 --tier %s   (single case: .work/bin/c16 -only %d -out -)"
                                  % (ctx.seed, ctx.tier, c["input"]["index"]))
            if viol:
                ctx.violation(obj)
            else:
                # model and code disagree but no property monitor failed on any case with this code
                obj["broken"] = "corr_ok (ValidateCheck.case_ok): " + text
                ctx.violation(obj, nofail=True)
    muts = [m for c in cases for m in (c["dist"]["mutations"] or ["(none: valid plan)"])]
    acc = sum(1 for c in cases if c["dist"]["submit"] == 1)
    rej = sum(1 for c in cases if c["dist"]["submit"] == 0)
    started = [c["dist"]["start"] for c in cases if c["dist"]["start"] != 3]
    ctx.evidence(dict(
        evaluations=len(cases),
        distinct_nontrivial=fw.distinct_nontrivial(cases),
        rule="case = one plan from harness/plangen (1-3 blocks x 1-3 sequences x 1-3 actions, check groups with p in {.15,.3,.5,.8}, "
             "keys with p in {.1,.4,.8}); every 5th is left valid, the others get 1-3 mutations (5:3:2) out of %d kinds "
             "(the first kind cycles through all kinds, the rest uniform; each at a uniformly chosen applicable object); "
             "then a second-use family (groups of 20 Submits of one and the same plan - names, plugin names, key values re-used, or fresh v7 keys "
             "in the second half - alternately malformed and well formed, on the same Workstream), then a concurrent batch (bigger plans, "
             "every 3rd valid, workflow.Validate from 8 goroutines at once, then Workstream.Submit from 8 goroutines at once on one Workstream; "
             "rows judged per plan id / plan name / request nonce, and the tables must grow by exactly the accepted plans' objects); "
             "a reject-correct-resubmit family: every mutation kind (and 'the same action twice in a sequence') is applied to a valid plan object, "
             "Submit must reject it (once, or twice for two different reasons), the very same object is corrected in place (exported fields put "
             "back) and submitted again - that last Submit is the case, judged like any other (accepted iff WF, stored = normal form, ...); "
             "with the concurrent batch, three large valid plans (1 x 100 x 200 = 20 106 objects on its own; 60 x 10 x 10 and 1 x 40 x 150 while the "
             "batch's Submits run) go through Submit on a second Workstream (in-memory vault) and are judged on the Go side only: ids pairwise "
             "distinct, non-nil, v7, never seen before in the process, plan accepted and read back with the same ids; "
             "half of the sequential valid plans have their stored form altered through the vault (Update*: state / attempts / reason; Create: id version, "
             "submit time zero / 31 min / 29 min old, non-check plugin) before Start is called; "
             "distinct = distinct (plan term, verdicts) by hash; non-trivial = at least one mutation applied or more than 3 objects"
             % len(set(muts) - {"(none: valid plan)"}),
        samples=[dict(id=c["id"], input=c["input"], dist=c["dist"], observed=c["observed"]) for c in cases[:4]],
        traces_validated_against_impl=len(cases),
        large_plans=[dict(id=c["id"], objects=c["dist"]["objects"], during=c["dist"]["during"], ok=c["dist"]["ok"],
                          submit_ms=c["observed"]["submit_ms"]) for c in large],
        submit_accepted=acc, submit_rejected=rej, submit_panicked=sum(1 for c in cases if c["dist"]["submit"] == 2),
        accept_ratio=round(acc / max(1, acc + rej), 3),
        validate_accepted=sum(1 for c in cases if c["dist"]["validate"] == 1),
        start_called=len(started), start_refused=sum(1 for s in started if s == 0),
        distribution=dict(mutation_kinds=histogram_all(muts),
                          mutations_applied=fw.histogram(len(c["dist"]["mutations"]) for c in cases),
                          resubmit=histogram_all("after %s -> submit=%d" % ("+".join(c["dist"].get("pre") or ["(not rejected)"]) if c["dist"]["submit"] != 3 else "(first Submit not rejected: skipped)", c["dist"]["submit"])
                                                 for c in cases if c["dist"].get("family") == "resubmit"),
                          family=fw.histogram("%s submit=%d" % (c["dist"].get("family"), c["dist"]["submit"]) for c in cases),
                          start_tamper=histogram_all("%s -> start=%d" % (c["dist"].get("tamper") or "(none)", c["dist"]["start"])
                                                     for c in cases if c["dist"]["start"] != 3),
                          objects=fw.histogram(min(c["dist"]["objects"], 60) // 10 * 10 for c in cases),
                          verdicts=fw.histogram("validate=%d submit=%d start=%d" % (c["dist"]["validate"], c["dist"]["submit"], c["dist"]["start"]) for c in cases)),
        coq_shards=[dict(shard=i["shard"], n=i["n"], rc=i["rc"], wall_s=round(i["wall"], 1)) for i in infos],
    ), assumptions=[
        "abstraction of Go values to Coq terms by harness/plancoq (strings.TrimSpace, uuid.Version, reflect.TypeOf, encoding/json) and harness/c16lib (request canonicalisation: empty = nil slices/maps inside requests)",
        "a_plugreg (registered / is-check / accepts-request) is the harness's own knowledge of its plugins; for Submit it is the verdict on the request after the request's own Defaults()",
        "workflow.NewV7 yields distinct version-7 ids (premise supply_inj / supply_v7 of c16_submit): observed on every stored plan and, for runs of 6 000 - 20 000 ids drawn back to back, on the large plans",
        "store.Create either stores the plan or fails (create_ok, property C14's subject); sqlite vault only",
        "concurrent batch: overlap of the 8 goroutines is up to the Go scheduler (400 calls each of Validate and Submit in the quick tier); correct code has no shared state, so verdicts are per plan",
        "Not covered: plans with shared pointers (the model is over trees; Submit rejects them: register already set); cosmosdb vault",
    ])


def histogram_all(values):
    h = {}
    for v in values:
        h[v] = h.get(v, 0) + 1
    return dict(sorted(h.items(), key=lambda kv: (-kv[1], kv[0])))
