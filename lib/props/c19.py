"""C19 - walk visits every object once, in execution order, with its ancestors; stops at once.

Theorem side: coq/tree/props/C19.v (walk_all is the unique list meeting the specification, and the
yield-passing walk feeds exactly that list to any consumer until it says stop).
Correspondence: the real walk.Plan on generated plans x every early-stop position equals the model.
Because the specification determines the output completely, any disagreement is a property violation
with the plan as the failing input.
"""
from vf import framework as fw

HEADER = """From Coercion.Base Require Import Plan.
From Coercion.Tree Require Import Walk WalkCheck."""


def run(ctx):
    proofs_ok = ctx.static_and_proofs("tree")
    n = 150 if ctx.tier == "quick" else 1500
    cases = ctx.harness("c19", ["-n", str(n)])
    if cases is None:
        ctx.evidence(dict(evaluations=0, distinct_nontrivial=0, rule="harness did not run", samples=[]))
        return
    terms = [c["coq"] for c in cases]
    results, infos = fw.eval_cases(ctx.work, "tree", HEADER, "case", "check_case", "case_ok", terms)
    for info in infos:
        ctx.oblige("corr_ok shard %d (%d cases): forallb case_ok cases = true" % (info["shard"], info["n"]), info["rc"] == 0)
    bad = []
    for c, r in zip(cases, results):
        if c.get("note", "").startswith("panic"):
            bad.append((c, "walk panicked: " + c["note"][:300]))
        elif r is None:
            bad.append((c, "model evaluation produced no result for this case"))
        elif r[0] != 0:
            so = c["observed"][r[0] - 1]
            bad.append((c, "stop position k=%d (%s reading%s): implementation delivered %d items in %d calls, the model (= the unique list meeting the spec) differs"
                        % (so["k"], so.get("reading", "in-loop"),
                           ": Items kept and their chains read after the walk returned" if so.get("reading") == "kept" else "",
                           len(so["items"] or []), so["calls"])))
    if bad:
        # smallest failing plan first: the replay is the failing input itself
        bad.sort(key=lambda x: x[0]["dist"]["objects"])
        c, why = bad[0]
        ctx.violation(dict(kind="walk-differs-from-specification", why=why, case=c["id"], input=c["input"],
                           plan_coq=c["coq"][:20000], observed=c["observed"][:3], failing_cases=len(bad),
                           replay_cmd="VERIF_SEED=%s ./check C19 --tier %s" % (ctx.seed, ctx.tier)))
    stops = sum(c["dist"]["stops"] for c in cases)
    base = [c for c in cases if c["kind"] == "walk"]
    ctx.evidence(dict(
        evaluations=stops,
        distinct_nontrivial=fw.distinct_nontrivial(cases),
        rule="plans from harness/plangen (1-3 blocks, 1-3 sequences, 1-3 actions, each of the 10 check groups with p in {.15,.4,.7,1}), "
             "then nil/empty slices injected; object IDs stamped (1/4 all nil, 1/4 all distinct, 1/2 with 2-4 different objects SHARING one non-nil id: two actions, two sequences, "
             "a block and a group, an object and its own child, a random handful - the walk must not look at ids); for each plan the walk is run with a consumer stopping at every position k=1..n+1 and never; "
             "every walk is read twice: each Item abstracted inside the consumer, and the Item values kept (Chain not copied) and abstracted after the walk returned "
             "(aliased chains); ONE walk.Plan(p) value per plan is walked again and again (stopped at k then in full for k = 1, middle, last; full twice; "
             "two goroutines at once, full+full and stopped+full; full once more) and every one of these walks goes to the model too; "
             "then the plan is CHANGED (a block / sequence / action appended, an absent group set) and iterators obtained or already walked BEFORE the change are walked: "
             "they must yield the plan as it is now (case kind walk-changed); then a consumer adds, while it is handed an item, something the walk has not reached yet "
             "(a sequence or group to the block it holds, an action to the sequence or group it holds, a block or group to the plan, the plan's deferred group from an action): "
             "the walk must yield it, i.e. equal the model's walk of the plan as it is afterwards (case kind walk-live; additions to a slice already being ranged over are not asserted); the kept reading of the full walk always goes to the model, that of an early stop when it differs from the in-loop reading; "
             "evaluations = (plan, stop position) pairs; distinct = distinct full walks (hash of the yielded path/chain list); non-trivial = more than 3 objects",
        samples=[dict(id=c["id"], input=c["input"], dist=c["dist"], full_walk=c["observed"][0]["items"][:12]) for c in base[:3]],
        traces_validated_against_impl=stops,
        plans=len(base),
        cases=fw.histogram(c["kind"] for c in cases),
        changes=fw.histogram(c["dist"].get("change", "none") for c in cases if c["kind"] != "walk"),
        distribution=dict(objects=fw.histogram(c["dist"]["objects"] for c in base),
                          blocks=fw.histogram(c["dist"]["blocks"] for c in base),
                          ids=fw.histogram(c["dist"].get("ids", "?") for c in base),
                          max_sequences_with_actions_in_a_block=fw.histogram(c["dist"]["seqs_with_actions"] for c in base),
                          walks_of_one_seq_value_per_plan=fw.histogram(c["dist"]["same_seq_walks"] for c in base),
                          kept_reading_differs_from_in_loop=fw.histogram(c["dist"]["kept_differs"] for c in base),
                          reshaped=fw.histogram(x.split(":")[1] if ":" in x else x for c in base for x in (c["dist"]["reshaped"] or ["none"]))),
        coq_shards=[dict(shard=i["shard"], n=i["n"], rc=i["rc"], wall_s=round(i["wall"], 1)) for i in infos],
    ), assumptions=["the path numbering of objects and the abstraction of Go values to Coq terms done by the harness",
                    "nil elements inside Blocks/Sequences/Actions slices are outside C19's quantifier and are not generated here (C16 covers them)"])
