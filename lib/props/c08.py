"""C08 - Persist-before-act: durable state leads side effects; no visible regress.

Theorem side (coq/c08, project Coercion.C08 on top of the frozen engine core coq/engine):
  MonC08.v      the formal statement of the property over an observed trace (no proofs):
                  mon_persist   (a) EvStart a => durable image shows a (Running, n), n = invocations of this run so far,
                                    and the sequence of a sequence action durably Running;
                                (b) every attempt's result is durable (write (Running, n+1, lastok = outcome ok) on top of
                                    (Running, n)) before the next attempt, the next action of the sequence, the terminal
                                    write; a timed-out attempt may be recorded while the plugin is still inside (End owed);
                                (c) EvRelease fin => plan durably terminal, fin = durable image (every object, reason);
                                    afterwards no durable change, re-reads = fin;
                                (e) no write moves a block / sequence / sequence action out of durable Completed / Failed;
                  mon_reads     (d) consecutive snapshots (polls, released plan): Completed / Failed blocks, sequences and
                                    sequence actions keep their status;
                  mon_explained the checkable part of the read hypothesis of (d): every snapshot cell is explained by the
                                durable history of its object at positions that never go backwards (look-ahead: one write
                                per object that returned but is not logged yet).
  props/C08.v   c08_persist_before_act (every shape, every accepted trace: mon_persist holds), its readable corollaries
                c08_start_durably_running and c08_release_after_terminal_write, image_monotone (no step of the automaton)
                and image_monotone_trace, c08_no_visible_regress (mon_reads under the explicit read hypothesis) and
                c08_no_visible_regress_checked (accepted /\ mon_explained => mon_reads: the hypothesis follows from
                the condition that is evaluated on every real trace).
                Proof: product invariant R (automaton state x monitor state) + reachable-state invariant binv, kept by
                every epsilon-move, every handler and the stutter rule (AutoLemmas.product_run).
Correspondence (every run): real engine traces (profiles persist / attempts / mixed, a poller calling Workstream.Plan every
  ~200 us) accepted by the automaton, and the three monitors evaluated on each of them inside Coq.
"Write failure is fatal" (harness/cmd/c08fatal): a child process whose vault fails the k-th Update* must exit without
  releasing a waiter and without a further plugin invocation that depends on the failed write; k swept over all writes.
  Every tier: a fixed slice of three small plans (a retried action, check groups, 2-action sequences; ~200 child runs, ~2 s);
  thorough: also 120 generated plans (~8000 child runs).
"""
import json
import os

from props import engine_common as ec
from vf import framework as fw

CODES = {
    "mon_persist_diag": {
        1: "(a) plugin invoked while its action is not durably (Running, n) with n = invocations so far",
        2: "(b) plugin invoked while an earlier invocation of the action is inside the plugin or its result is not durable",
        3: "(b) an action of a sequence starts while an earlier action's result is not durable",
        4: "a run of an action begins (Running, 0) with a result of the previous run not durable",
        5: "(b) an attempt write that is not exactly the record of the next attempt",
        6: "(b) the record of an attempt contradicts the plugin's outcome",
        7: "(b) terminal write of an action with an un-recorded result",
        8: "(b) terminal write of an action changes the durable attempt record",
        9: "(e) a write moves a block / sequence / sequence action out of a durable Completed / Failed",
        10: "(c) the durable image changes after Wait returned",
        11: "(c) Wait returned before the plan's terminal write",
        12: "(c) the plan Wait returned differs from the durable image",
        13: "(c) a re-read after Wait differs from the plan Wait returned",
        14: "plugin End without a Start (malformed log)",
        15: "(c) the plan Wait returned differs from the durable image in the failure reason only",
        16: "(a) a sequence action is invoked while its sequence is not durably Running",
    },
    "mon_reads_diag": {1: "(d) a polled snapshot shows a Completed / Failed block, sequence or sequence action in another status"},
    "mon_explained_diag": {1: "a polled snapshot shows a cell that the durable history of that object does not explain "
                              "(read hypothesis of c08_no_visible_regress)"},
}

NOT_COVERED = [
    "Not covered: durability below the Update* return (SQLite / WAL / fsync); recovery (resumed runs) - C09/C10; "
    "nothing Running in the released plan and no plugin in flight at the release - C04 (mon_final)",
    "clause (d) is PROVED under the explicit read hypothesis of c08_no_visible_regress (each snapshot cell = the durable "
    "cell after some prefix, prefixes monotone per object); the hypothesis is checked on every real trace by mon_explained "
    "and (d) itself by mon_reads; polls sample the store every ~200 us, clause (e) (durable form) is checked on every write",
    "check actions are excluded from (d)/(e) by the property text (continuous re-runs reset them)",
]


MONS = ["mon_persist_diag", "mon_reads_diag", "mon_explained_diag"]
INDEPENDENT = {9, 10, 11, 12, 13, 15}


# ---- memory: a C08 trace carries ~15 full snapshots, a 512-trace Coq shard needs 2.3 GB (measured); 16 of them at once
# do not fit next to the other checks.  Same evaluation, smaller shards (<= 120 traces, still 16 at a time).
def _evaluate(ctx, tag, cases, header, ok_fn="eng_ok"):
    work = os.path.join(ctx.work, "coq_" + tag)
    n = len(cases)
    return fw.eval_cases(work, getattr(ctx, "engine_proj", "engine"), header, "case", "eng_check", ok_fn,
                         [c["coq"] for c in cases], shards=max(fw.NCPU, (n + 119) // 120))


ec.evaluate = _evaluate


def _codes(m, diag):
    """[(code, event index | None)] of one monitor result ([0] = holds; mon_persist_diag lists up to 6 violations)."""
    if not diag or diag[0] == 0:
        return []
    if m == "mon_persist_diag":
        return [(diag[i], diag[i + 1] if i + 1 < len(diag) else None) for i in range(0, len(diag), 2)]
    return [(diag[0], diag[1] if len(diag) > 1 else None)]


def _classes(res):
    """{(monitor, code): [(case, result, event index)]} over all cases on which a monitor is false (a case is in every
    class one of its violations belongs to)."""
    out = {}
    seen = set()
    for m, lst in (res.get("mon_bad") or {}).items():
        for c, r in lst:
            if (c["id"], m) in seen:
                continue
            seen.add((c["id"], m))
            got, cascade = set(), False
            for code, idx in _codes(m, r[1 + MONS.index(m)]):
                # codes 1-8 and 14 leave the per-action record of the monitor in a state from which follow-up codes
                # cascade: only the first of them classifies the trace; the others are independent of what came before
                if code in got or (cascade and code not in INDEPENDENT):
                    continue
                got.add(code)
                cascade = cascade or code not in INDEPENDENT
                out.setdefault((m, code), []).append((c, r, idx))
    return out


def _patch_evidence(ctx, extra):
    path = fw.evidence_path(ctx.pid)
    try:
        ev = json.load(open(path))
    except Exception:
        return
    ev["coverage"].update(extra)
    ev["violations"] = len(ctx.violations)
    ev["wall_s"] = round(__import__("time").time() - ctx.t0, 2)
    with open(path, "w") as f:
        json.dump(ev, f, indent=1, default=str)


def run(ctx):
    mons = [("mon_persist_diag", "list"), ("mon_reads_diag", "list"), ("mon_explained_diag", "list")]
    res = ec.run_engine_check(
        ctx,
        profile=[("persist", 200, 8000), ("attempts", 60, 2000), ("mixed", 60, 3000), ("final", 48, 1500), ("cont", 32, 1000)],
        n_quick=0, n_thorough=0,
        extra_header="From Coercion.C08 Require Import MonC08.",
        monitors=mons,
        release_obligation=False,
        harness_args=["-poll"],
        multi_quick=24, multi_thorough=600,
        proj="c08",
        rule_extra="Every trace carries EvRead snapshots of a poller (Workstream.Plan every ~200 us).",
        not_covered=NOT_COVERED,
    )
    if not res:
        return
    # one VIOLATION per distinct (monitor, code) class, smallest case first (engine_common reported the smallest case
    # overall; the classes it did not show get their own replay: E3 / E4 of the pre-fix tree differ from S4 this way)
    classes = _classes(res)
    hist = {}
    reported = set()
    for rel in ctx.violations:
        try:
            rp = json.load(open(os.path.join(fw.ROOT, rel)))
        except Exception:
            continue
        cr = rp.get("check_result") or []
        for k, (m, _) in enumerate(mons):
            if len(cr) > 1 + k and cr[1 + k] and cr[1 + k][0] != 0:
                reported.add((m, cr[1 + k][0]))          # the first violation of that trace
    for (m, code), lst in sorted(classes.items(), key=lambda x: (x[0][0], x[0][1] or 0)):
        hist["%s code %s: %s" % (m, code, CODES.get(m, {}).get(code, "?"))] = len(lst)
        if (m, code) in reported:
            continue
        lst.sort(key=lambda x: ec._size(x[0]))
        c, r, idx = lst[0]
        k = MONS.index(m)
        ctx.violation(ec._replay_obj(
            ctx, c, "monitor-false",
            "%s = %s: %s; offending event #%s; %d failing traces of this class"
            % (m, r[1 + k], CODES.get(m, {}).get(code, "?"), idx, len(lst)),
            r, mons, dict(failing_monitor=m, failing_code=code, offending_event_index=idx,
                          offending_event=(c["observed"]["events"][idx][:400] if idx is not None and idx < len(c["observed"]["events"]) else None),
                          failing_cases=[x[0]["id"] for x in lst[:30]])))
    extra = dict(violation_classes=hist, monitor_codes=CODES)
    reads = [c["dist"].get("kinds", {}).get("R", 0) for c in res["live"]]
    extra["snapshots_per_trace"] = fw.histogram([(x // 5) * 5 for x in reads])
    extra["snapshots_total"] = sum(reads)
    extra["writes_total"] = sum(c["dist"].get("kinds", {}).get("W", 0) for c in res["live"])
    extra["plugin_invocations_total"] = sum(c["dist"].get("kinds", {}).get("S", 0) for c in res["live"])

    # every tier: the fixed slice (3 small plans with a retried action, check groups, 2-action sequences; every k);
    # thorough: also 120 generated plans
    extra["write_failure_is_fatal_quick_slice"] = _fatal(ctx, ["-quick"], "cases_fatal_quick.jsonl", "fixed slice")
    if ctx.tier == "thorough":
        n = int(os.environ.get("C08_FATAL_PLANS", "120"))
        extra["write_failure_is_fatal"] = _fatal(ctx, ["-n", str(n)], "cases_fatal.jsonl", "%d generated plans" % n)
    _patch_evidence(ctx, extra)


def _fatal(ctx, args, out_name, what):
    """A vault that fails the k-th Update* - the process must exit (log.Fatalf) without releasing a waiter and without a
    plugin invocation that depends on the failed write; k swept over every write of every plan, child processes."""
    cases = ctx.harness("c08fatal", args, out_name=out_name, timeout=3000)
    if cases is None:
        return dict(ran=False)
    bad = [c for c in cases if c["observed"].get("verdict") != "ok"]
    ctx.oblige("write failure is fatal (%s): %d (plan, k) crash points, every one exits without a dependent invocation"
               % (what, len(cases)), not bad)
    if bad:
        bad.sort(key=lambda c: (c["dist"].get("writes", 0), c["dist"].get("k", 0)))
        c = bad[0]
        ctx.violation(dict(kind="write-failure-not-fatal", case=c["id"], input=c["input"], observed=c["observed"],
                           note=c.get("note", ""), failing_cases=[x["id"] for x in bad[:30]],
                           why="the vault failed Update* number k and the engine did not stop: " + str(c["observed"].get("verdict"))))
    return dict(ran=True, plans=len({c["input"]["plan"] for c in cases}), crash_points=len(cases), failing=len(bad),
                failed_write_kind=fw.histogram(c["dist"].get("kind") for c in cases),
                exit_codes=fw.histogram(c["observed"].get("exit") for c in cases),
                verdicts=fw.histogram(c["observed"].get("verdict") for c in cases),
                strict_plans=sum(1 for c in cases if c["dist"].get("strict")),
                samples=[dict(id=c["id"], k=c["dist"].get("k"), failed=c["observed"].get("failed"),
                              after=c["observed"].get("after_failure")) for c in cases[:3]])
