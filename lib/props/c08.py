"""C08 - persist-before-act; no visible regress (work in progress header; see the final docstring)."""
from props import engine_common as ec


def run(ctx):
    ec.run_engine_check(
        ctx,
        profile=[("persist", 200, 3000), ("attempts", 60, 800), ("mixed", 60, 1200)],
        n_quick=0, n_thorough=0,
        extra_header="From Coercion.C08 Require Import MonC08.",
        monitors=[("mon_persist_diag", "list"), ("mon_reads_diag", "list"), ("mon_explained_diag", "list")],
        release_obligation=False,
        harness_args=["-poll"],
        proj="c08",
    )
