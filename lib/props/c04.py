"""C04 - Wait returns a terminal, quiescent, consistent, truthful plan.

STATUS: engine-core PIPELINE TEST (the C04 engineer owns this file and coq/engine/props/C04.v and will replace the
monitor by mon_final and add the theorems c04_final_consistent / image_invariant / final_sound).

What runs now, end to end, through props/engine_common.run_engine_check:
  * every trace of the real engine (profile `final`: a failing stage at every position - pre, continuous initial /
    k-th run, sequence, post, deferred, plan and block level, bypass - and a continuous check parked in flight by the
    director exactly when the last block / the block finishes; plus `mixed`; plus 2-6 plans on one Workstream) must be
    ACCEPTED by the observable automaton (coq/engine/Auto.v) - which includes: the terminal plan write equals
    Final.final of the durable image, Release only after it, the released plan equals the durable image, nothing but
    equal re-reads afterwards;
  * the simple monitor MonBasic.mon_basic (released; plan Completed|Failed; nothing Running in the released plan; no
    activity after the release; the re-read 30 ms later equals the released plan) must hold on every trace;
  * Hang (Wait does not return within 5 s, re-run 3x in fresh children) violates C04's release obligation;
  * Final.v = finalStates by direct function equality on generated status combinations (verifhooks.FinalStates).
"""
from props import engine_common as ec


def run(ctx):
    ec.run_engine_check(
        ctx,
        profile=[("final", 224, 2400), ("mixed", 96, 1200)],
        n_quick=0, n_thorough=0,
        extra_header="From Coercion.Engine Require Import MonBasic.",
        monitors=["mon_basic", ("mon_basic_diag", "list")],
        release_obligation=True,
        multi_quick=40, multi_thorough=400,
        finalfn=(2000, 7776),
        rule_extra="Pipeline test of the engine core: the monitor is MonBasic (not yet mon_final).",
        not_covered=["Not covered yet (C04 owner): consistent fin, truthful tr fin and the reason monitor as separate monitors "
                     "(the automaton's acceptance already forces the terminal write = Final.final(image) and fin = image)",
                     "wall-clock monotonicity of start/end times"],
    )
