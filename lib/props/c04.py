"""C04 - Wait returns a terminal, quiescent, consistent, truthful plan.

Coq project coq/c04 (on top of the shared engine core coq/engine):
  MonC04.v     mon_final = the formal statement of the property over one observed trace (read it first);
  props/C04.v  the theorems: every trace the observable automaton accepts satisfies mon_final_core.

What runs, through props/engine_common.run_engine_check:
  * every trace of the real engine (profile `final`: a failing stage at every position - pre, continuous initial /
    k-th run, sequence, post, deferred, plan and block level, bypass - and a continuous check parked in flight by the
    director exactly when the last block / the block finishes; plus `mixed`; plus the bounded-exhaustive `tol` family
    (tolerance x concurrency x failing subsets with held sequences: a sequence in flight when the block gives up -
    the E3 shape); plus 2-6 plans on one Workstream) must be
    ACCEPTED by the observable automaton (coq/engine/Auto.v) - which includes: the terminal plan write equals
    Final.final of the durable image, Release only after it, the released plan equals the durable image, nothing but
    equal re-reads afterwards;
  * mon_final (MonC04.v) must hold on every trace: a false monitor is a concrete violation with that trace as replay;
  * Hang (Wait does not return within 5 s, re-run 3x in fresh children) violates C04's release obligation;
  * Final.v = finalStates by direct function equality on generated status combinations (verifhooks.FinalStates).
"""
from props import engine_common as ec

CODES = {
    1: "never released", 2: "plan not Completed/Failed", 3: "an object of the released plan is Running",
    4: "a plugin is still executing at release", 6: "Completed plan inconsistent with its blocks/check groups",
    7: "sequence status inconsistent with its actions", 8: "action Completed <-> attempts and last one ok fails",
    9: "time flags (start<=end, set/unset) wrong", 10: "released action differs from what the trace shows ran",
    11: "failure reason is not the stage the trace shows failing / unset <-> Completed fails",
    12: "activity after release", 13: "re-read differs from the released plan", 14: "released plan lacks an object",
    15: "status/reason of the engine's last plan write differ from the released plan",
    16: "the reason the engine wrote is not the stage the trace shows failing",
}


def run(ctx):
    # the shared driver writes the evidence itself: capture it, add the per-clause breakdown, then write it
    write_evidence, captured = ctx.evidence, {}
    ctx.evidence = lambda coverage, assumptions=None, level="proof": captured.update(cov=coverage, asm=assumptions, level=level)
    out = ec.run_engine_check(
        ctx,
        profile=[("final", 224, 9600), ("mixed", 96, 4800), ("tol", 360, 2880)],
        n_quick=0, n_thorough=0,
        extra_header="From Coercion.C04 Require Import MonC04.",
        monitors=["mon_final", ("mon_final_diag", "list")],
        release_obligation=True,
        multi_quick=40, multi_thorough=1200,
        finalfn=(2000, 7776),
        proj="c04",
        rule_extra="mon_final_diag codes: %s." % "; ".join("%d %s" % kv for kv in sorted(CODES.items())),
        not_covered=["Not covered: wall-clock monotonicity of start/end times (the time flags of the released plan are "
                     "checked on the implementation by mon_times; the automaton carries no clock, so the theorems are about "
                     "mon_final_core = every other clause)",
                     "whether a block's own status is right for what its sequences/checks did is C03's clause; retry budgets C05's"],
    )
    ctx.evidence = write_evidence
    if out:
        # which clauses of mon_final fail, on how many traces; one replay per distinct SET of failing clauses
        # (smallest trace) beyond the one the shared driver already wrote, so that different defects are
        # reported separately (at most 8)
        per, sig = {}, {}
        for c, r in zip(out["live"], out["results"]):
            if r is None or len(r) < 3 or (r[2] and r[2][0] == 0):
                continue
            for code in r[2]:
                per.setdefault(code, []).append(c["id"])
            sig.setdefault(tuple(sorted(r[2])), []).append((c, r))
        shown = set()
        for m, lst in out["mon_bad"].items():
            lst.sort(key=lambda x: ec._size(x[0]))
            if lst and lst[0][1] and len(lst[0][1]) > 2:
                shown.add(tuple(sorted(lst[0][1][2])))
        mons = ec._mon_specs(["mon_final", ("mon_final_diag", "list")])
        for k in sorted(sig, key=lambda k: (len(k), k)):
            if k in shown or len(shown) >= 8:
                continue
            shown.add(k)
            sig[k].sort(key=lambda x: ec._size(x[0]))
            c, r = sig[k][0]
            ctx.violation(ec._replay_obj(ctx, c, "monitor-false", "mon_final false on the trace of the real engine: failing clauses %s (%d traces "
                                         "fail exactly these)" % ("; ".join("%d %s" % (x, CODES.get(x, "?")) for x in k), len(sig[k])), r, mons,
                                         dict(failing_monitor="mon_final", failing_clauses=list(k),
                                              failing_cases=[x[0]["id"] for x in sig[k][:30]])))
        if "cov" in captured:
            captured["cov"]["mon_final_clauses_failing"] = {"%d %s" % (k, CODES.get(k, "?")): len(v) for k, v in sorted(per.items())}
            captured["cov"]["mon_final_failing_clause_sets"] = {str(list(k)): len(v) for k, v in sorted(sig.items())}
    if "cov" in captured:
        write_evidence(captured["cov"], captured["asm"], captured["level"])
