"""C04 - Wait returns a terminal, quiescent, consistent, truthful plan.

Coq project coq/c04 (on top of the shared engine core coq/engine):
  MonC04.v     mon_final = the formal statement of the property over one observed trace (read it first);
  props/C04.v  the theorems: every trace the observable automaton accepts satisfies mon_final_core.

What runs, through props/engine_common.run_engine_check:
  * every trace of the real engine (profile `final`: a failing stage at every position - pre, continuous initial /
    k-th run, sequence, post, deferred, plan and block level, bypass - and a continuous check parked in flight by the
    director exactly when the last block / the block finishes; plus `mixed`; plus the bounded-exhaustive `tol` family
    (tolerance x concurrency x failing subsets with held sequences: a sequence in flight when the block gives up -
    the E3 shape); plus 2-6 plans on one Workstream) must be
    ACCEPTED by the observable automaton (coq/engine/Auto.v) - which includes: the terminal plan write equals
    Final.final of the durable image, Release only after it, the released plan equals the durable image, nothing but
    equal re-reads afterwards;
  * mon_final (MonC04.v) must hold on every trace: a false monitor is a concrete violation with that trace as replay;
  * Hang (Wait does not return within 5 s, re-run 3x in fresh children) violates C04's release obligation;
  * Final.v = finalStates by direct function equality on generated status combinations (verifhooks.FinalStates);
  * a POLLED batch (profiles `cont` - a continuous check that passes, then fails at run k - and `final`, harness flag
    -poll: Workstream.Plan is called every ~200 us while the plan runs): same automaton, same monitor.  The plan Wait
    returns is assembled from reads; a storage layer that answers reads differently once something was read (a cache of
    "finished" check groups) makes it disagree with what ran and with the engine's own last writes (clauses 6/8/10/11/15/13).
"""
import json

from props import engine_common as ec
from vf import framework as fw

EXTRA_HEADER = "From Coercion.C04 Require Import MonC04."
MONITORS = ["mon_final", ("mon_final_diag", "list")]
# the polled batch: (profile, n quick, n thorough).  A poller calls Workstream.Plan every ~200 us while the plan runs
# (EvRead events; the automaton does not constrain them before the release, the monitor ignores them): a vault that
# serves READS differently once something has been read (a cache) shows only here.  `cont`: a continuous check that
# passes, then fails at run k >= 2; `final`: a failing stage at every position.
POLLED = [("cont", 72, 720), ("final", 64, 960)]

CODES = {
    1: "never released", 2: "plan not Completed/Failed", 3: "an object of the released plan is Running",
    4: "a plugin is still executing at release", 6: "Completed plan inconsistent with its blocks/check groups",
    7: "sequence status inconsistent with its actions", 8: "action Completed <-> attempts and last one ok fails",
    9: "time flags (start<=end, set/unset) wrong", 10: "released action differs from what the trace shows ran",
    11: "failure reason is not the stage the trace shows failing / unset <-> Completed fails",
    12: "activity after release", 13: "re-read differs from the released plan", 14: "released plan lacks an object",
    15: "status/reason of the engine's last plan write differ from the released plan",
    16: "the reason the engine wrote is not the stage the trace shows failing",
    17: "a plan-level check group's Failed status differs from what the trace shows of its last run",
}


def _diag(r):
    return r[2] if r is not None and len(r) > 2 and r[2] and r[2][0] != 0 else []


def judge_polled(ctx, cases, tag):
    """Same automaton, same monitor, on traces of plans that were polled while they ran."""
    mons = ec._mon_specs(MONITORS)
    header = ec._header(EXTRA_HEADER, mons)
    hangs = [c for c in cases if ec._is_hang(c)]
    live = [c for c in cases if not ec._is_hang(c) and not c["dist"].get("late_start")]
    results, infos = ec.evaluate(ctx, tag, live, header)
    for info in infos:
        ctx.oblige("corr_ok polled shard %d (%d traces of polled plans): automaton accepts, mon_final holds"
                   % (info["shard"], info["n"]), info["rc"] == 0)
    bad, rejected = [], []
    for c, r in zip(live, results):
        acc, b, why = ec.classify(c, r, mons)
        if b:
            bad.append((c, r, b, why))
        elif not acc:
            rejected.append((c, r, why))
    sigs = {}
    for x in bad:
        sigs.setdefault(tuple(sorted(_diag(x[1]))), []).append(x)
    for k in sorted(sigs, key=lambda k: (len(k), k))[:4]:
        sigs[k].sort(key=lambda x: ec._size(x[0]))
        c, r, b, why = sigs[k][0]
        ctx.violation(ec._replay_obj(ctx, c, "monitor-false", "POLLED plan (Workstream.Plan called every ~200 us while it ran): mon_final false on "
                                     "the trace of the real engine: failing clauses %s (%d of %d polled traces fail exactly these); "
                                     "automaton: %s" % ("; ".join("%d %s" % (x, CODES.get(x, "?")) for x in k), len(sigs[k]), len(live), why),
                                     r, mons, dict(failing_monitor="mon_final", failing_clauses=list(k), poll=True,
                                                   failing_cases=[x[0]["id"] for x in sigs[k][:30]])), tag=tag)
    if hangs:
        hangs.sort(key=ec._size)
        ctx.violation(ec._replay_obj(ctx, hangs[0], "hang", "release obligation violated: Wait of a POLLED plan did not return within 5 s "
                                     "(%d hanging cases)" % len(hangs), None, mons, dict(poll=True)), tag=tag)
    if rejected and not bad:
        rejected.sort(key=lambda x: ec._size(x[0]))
        c, r, why = rejected[0]
        ctx.violation(ec._replay_obj(ctx, c, "correspondence-broken", "corr_engine_accept (polled plan): %s; mon_final true on %d rejected "
                                     "traces" % (why, len(rejected)), r, mons, dict(broken="corr_engine_accept: " + why, poll=True)),
                      nofail=True, tag=tag)
    per = {}
    for x in bad:
        for code in _diag(x[1]):
            per["%d %s" % (code, CODES.get(code, "?"))] = per.get("%d %s" % (code, CODES.get(code, "?")), 0) + 1
    return dict(plans=len(cases), traces_checked=len(live), accepted_by_automaton=len(live) - len(rejected) - sum(1 for x in bad if not ec.classify(x[0], x[1], mons)[0]),
                monitor_false=len(bad), clauses_failing=per, hangs=len(hangs), distinct=len({c.get("hash") for c in live}),
                reads_before_release=fw.histogram(min(40, (c["dist"].get("kinds", {}).get("R", 1) - 1) // 5 * 5) for c in live),
                profiles=fw.histogram(c["input"].get("profile") for c in cases),
                cont_fail_run=fw.histogram(c["dist"].get("cont_fail_run") for c in cases if "cont_fail_run" in c.get("dist", {})))


def polled_batch(ctx):
    quick = ctx.tier == "quick"
    cases = []
    for prof, nq, nt in POLLED:
        got = ec._harness(ctx, prof, nq if quick else nt, "cases_polled_%s.jsonl" % prof, ["-poll", "-from", "300000"])
        if got is None:
            return dict(skipped="harness did not run")
        cases += got
    ctx.oblige("polled batch: harness run completes (%d plans)" % len(cases), True)
    return judge_polled(ctx, cases, "polled")


def polled_replay(ctx, rp):
    ctx.engine_proj = "c04"
    ctx.static_and_proofs("c04")
    cases = ec._harness(ctx, rp.get("profile") or "cont", 1, "replay_polled.jsonl",
                        ["-poll", "-only", str(rp.get("index")), "-reps", "20"], seed=rp.get("case_seed") or rp.get("seed")) or []
    res = judge_polled(ctx, cases, "replay") if cases else dict(plans=0)
    ctx.say("replayed polled %s index %s: %s" % (rp.get("profile"), rp.get("index"), {k: res.get(k) for k in ("plans", "monitor_false", "clauses_failing", "hangs")}))
    if not ctx.violations:
        ctx.say("replay: not reproduced on this repository (%d polled runs accepted, mon_final true)" % len(cases))
    ctx.evidence(dict(evaluations=len(cases), distinct_nontrivial=len({c.get("hash") for c in cases}), rule="replay of " + str(ctx.replay),
                      samples=[], traces_validated_against_impl=len(cases)))


def run(ctx):
    if ctx.replay:
        try:
            rp = json.load(open(ctx.replay))
        except (OSError, ValueError):
            rp = {}
        if rp.get("poll"):
            return polled_replay(ctx, rp)
    # the shared driver writes the evidence itself: capture it, add the per-clause breakdown, then write it
    write_evidence, captured = ctx.evidence, {}
    ctx.evidence = lambda coverage, assumptions=None, level="proof": captured.update(cov=coverage, asm=assumptions, level=level)
    out = ec.run_engine_check(
        ctx,
        profile=[("final", 224, 9600), ("mixed", 96, 4800), ("tol", 360, 2880)],
        n_quick=0, n_thorough=0,
        extra_header=EXTRA_HEADER,
        monitors=MONITORS,
        release_obligation=True,
        multi_quick=40, multi_thorough=1200,
        finalfn=(2000, 7776),
        proj="c04",
        rule_extra="mon_final_diag codes: %s." % "; ".join("%d %s" % kv for kv in sorted(CODES.items())),
        not_covered=["Not covered: wall-clock monotonicity of start/end times (the time flags of the released plan are "
                     "checked on the implementation by mon_times; the automaton carries no clock, so the theorems are about "
                     "mon_final_core = every other clause)",
                     "whether a block's own status is right for what its sequences/checks did is C03's clause; retry budgets C05's"],
    )
    ctx.evidence = write_evidence
    if out:
        # which clauses of mon_final fail, on how many traces; one replay per distinct SET of failing clauses
        # (smallest trace) beyond the one the shared driver already wrote, so that different defects are
        # reported separately (at most 8)
        per, sig = {}, {}
        for c, r in zip(out["live"], out["results"]):
            if r is None or len(r) < 3 or (r[2] and r[2][0] == 0):
                continue
            for code in r[2]:
                per.setdefault(code, []).append(c["id"])
            sig.setdefault(tuple(sorted(r[2])), []).append((c, r))
        shown = set()
        for m, lst in out["mon_bad"].items():
            lst.sort(key=lambda x: ec._size(x[0]))
            if lst and lst[0][1] and len(lst[0][1]) > 2:
                shown.add(tuple(sorted(lst[0][1][2])))
        mons = ec._mon_specs(["mon_final", ("mon_final_diag", "list")])
        for k in sorted(sig, key=lambda k: (len(k), k)):
            if k in shown or len(shown) >= 8:
                continue
            shown.add(k)
            sig[k].sort(key=lambda x: ec._size(x[0]))
            c, r = sig[k][0]
            ctx.violation(ec._replay_obj(ctx, c, "monitor-false", "mon_final false on the trace of the real engine: failing clauses %s (%d traces "
                                         "fail exactly these)" % ("; ".join("%d %s" % (x, CODES.get(x, "?")) for x in k), len(sig[k])), r, mons,
                                         dict(failing_monitor="mon_final", failing_clauses=list(k),
                                              failing_cases=[x[0]["id"] for x in sig[k][:30]])))
        if "cov" in captured:
            captured["cov"]["mon_final_clauses_failing"] = {"%d %s" % (k, CODES.get(k, "?")): len(v) for k, v in sorted(per.items())}
            captured["cov"]["mon_final_failing_clause_sets"] = {str(list(k)): len(v) for k, v in sorted(sig.items())}
    if out is not None and not ctx.replay:
        polled = polled_batch(ctx)
        if "cov" in captured:
            captured["cov"]["polled_batch"] = polled
            captured["cov"]["evaluations"] = captured["cov"].get("evaluations", 0) + polled.get("traces_checked", 0) + polled.get("hangs", 0)
            captured["cov"]["traces_validated_against_impl"] = captured["cov"].get("traces_validated_against_impl", 0) + polled.get("traces_checked", 0)
            captured["cov"]["obligations"] = len(ctx.obligations)
            captured["cov"]["discharged"] = sum(1 for _, ok in ctx.obligations if ok)
            captured["cov"]["obligation_list"] = [dict(name=n, discharged=ok) for n, ok in ctx.obligations]
    if "cov" in captured:
        write_evidence(captured["cov"], captured["asm"], captured["level"])
