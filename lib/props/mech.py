"""Mechanism theorems behind C02 / C03 / C07 (coq/limiter) and their structural tie to the source.

`check_mechanisms(ctx)` is meant to be called by the C02, C03 and C07 checks next to the observable engine
automaton.  It
  1. builds coq/limiter (Limiter.v = detailed ExecuteSequences model, ContChan.v = result-channel protocol),
  2. re-checks coq/limiter/props/Mechanisms.v with coqc and records every theorem + `Print Assumptions`,
  3. rebuilds harness/cmd/limiterprobe, regenerates the statement shape of the transcribed functions from the
     repository under test ($VERIF_REPO or /repo) and proves `observed = assumed` (SourceShape.assumed) by
     vm_compute in a scratch .v,
  4. records the obligations through ctx.oblige; a shape mismatch or a theorem that no longer checks is reported
     through ctx.violation(..., nofail=True) naming the statement that moved / the theorem.
Fail-closed: unknown syntax is printed by the probe as UNKNOWN:..., which the assumed list does not contain.

`./check MECH` runs only this (used for the teeth experiments).
"""
import difflib
import json
import os
import re
import shutil

from vf import framework as fw

PROJ = "limiter"
PROPS = "Mechanisms"

SCRATCH = """From Coq Require Import List String Bool Arith.
From Coercion.Limiter Require Import SourceShape.
Import ListNotations.
Open Scope string_scope.
Definition observed : list (string * list string) :=
%s.
Definition report := Eval vm_compute in shape_diff assumed observed.
Print report.
Lemma observed_no_unknown : no_unknown observed = true.
Proof. vm_compute. reflexivity. Qed.
Lemma source_shape_ok : observed = assumed.
Proof. vm_compute. reflexivity. Qed.
"""


def theorem_names(src):
    """Theorem names of a props file, qualified by the enclosing Module."""
    names, mods = [], []
    for line in fw.strip_comments(src).split("\n"):
        m = re.match(r"\s*Module\s+([A-Za-z0-9_']+)\s*\.", line)
        if m:
            mods.append(m.group(1))
            continue
        m = re.match(r"\s*End\s+([A-Za-z0-9_']+)\s*\.", line)
        if m and mods and mods[-1] == m.group(1):
            mods.pop()
            continue
        m = re.match(r"\s*(?:Theorem|Lemma|Corollary)\s+([A-Za-z0-9_']+)", line)
        if m:
            names.append(".".join(mods + [m.group(1)]))
    return names


def assumed_tokens(path=None):
    """{function: [token, ...]} parsed from coq/limiter/SourceShape.v (only used to word the mismatch message;
    the verdict itself is the Coq lemma)."""
    src = open(path or os.path.join(fw.project_dir(PROJ), "SourceShape.v")).read()
    i = src.index("Definition assumed")
    j = src.index("(* ------", i)
    res, cur = {}, None
    for line in src[i:j].split("\n"):
        m = re.match(r'^ \("((?:[^"]|"")*)", \[', line)
        if m:
            cur = m.group(1).replace('""', '"')
            res[cur] = []
            continue
        m = re.match(r'^\s{4}"((?:[^"]|"")*)";?', line)
        if m and cur is not None:
            res[cur].append(m.group(1).replace('""', '"'))
    return res


def describe_diff(assumed, observed_fns, path):
    """Human-readable list of what moved / appeared / disappeared, with source lines."""
    notes = []
    obs = {f["name"]: f["tokens"] for f in observed_fns}
    files = {f["name"]: f.get("file") for f in observed_fns}
    for name in list(assumed) + [n for n in obs if n not in assumed]:
        a = assumed.get(name)
        o = obs.get(name)
        if a is None:
            notes.append(dict(function=name, what="function not in the assumed shape"))
            continue
        if o is None:
            notes.append(dict(function=name, what="function missing from the probe output"))
            continue
        ot = [t["t"] for t in o]
        if a == ot:
            continue
        sm = difflib.SequenceMatcher(a=a, b=ot, autojunk=False)
        gone, new = [], []
        for tag, i1, i2, j1, j2 in sm.get_opcodes():
            if tag in ("delete", "replace"):
                gone += [(k, a[k]) for k in range(i1, i2)]
            if tag in ("insert", "replace"):
                new += [(k, o[k]) for k in range(j1, j2)]
        trivial = {"{", "}"}
        gone_txt = [t for _, t in gone]
        for k, t in new:
            if t["t"] in trivial:
                continue
            if t["t"].startswith("UNKNOWN"):
                what = "syntax the probe does not know (fail-closed)"
            elif t["t"] in gone_txt:
                what = "statement moved"
            else:
                what = "statement not in the assumed shape (new or changed)"
            notes.append(dict(function=name, what=what, statement=t["t"], at="%s:%d" % (files.get(name) or path, t["line"]), token_index=k))
        new_txt = [t["t"] for _, t in new]
        for k, t in gone:
            if t in trivial or t in new_txt:
                continue
            notes.append(dict(function=name, what="assumed statement no longer present (removed or changed)",
                              statement=t, assumed_token_index=k))
        if not any(n["function"] == name for n in notes):
            notes.append(dict(function=name, what="block structure (braces) changed"))
    return notes


def check_mechanisms(ctx):
    """Returns dict(ok, theorems, closed, axioms, shape_ok, tokens, functions, notes)."""
    work = os.path.join(ctx.work, "mech")
    shutil.rmtree(work, ignore_errors=True)
    os.makedirs(work, exist_ok=True)
    res = dict(ok=False, theorems=[], closed=0, axioms=[], shape_ok=False, tokens=0, functions=0, notes=[])

    bad = fw.forbidden_scan([fw.project_dir(PROJ)])
    ctx.oblige("mechanisms: no forbidden vernacular in coq/%s" % PROJ, not bad)
    if bad:
        ctx.violation(dict(kind="forbidden-vernacular", lines=bad[:20], broken="coq/%s" % PROJ), nofail=True, tag="mech")
        return res
    ok, log, where = fw.coq_build([PROJ])
    ctx.oblige("mechanisms: full .vo build of coq/%s (make)" % PROJ, ok)
    if not ok:
        ctx.violation(dict(kind="coq-build-failed", broken="first failing file: %s" % where, log=log[-3000:]),
                      nofail=True, tag="mech")
        return res
    flags = fw.project_flags(PROJ)

    # --- the theorems
    pf = os.path.join(fw.project_dir(PROJ), "props", PROPS + ".v")
    names = theorem_names(open(pf).read())
    shutil.copy(pf, os.path.join(work, PROPS + "_recheck.v"))
    rc, out = fw.sh(["coqc"] + flags + [PROPS + "_recheck.v"], cwd=work, timeout=900)
    closed = out.count("Closed under the global context")
    axioms = sorted(set(re.findall(r"^([A-Za-z0-9_.']+)\s*:", out.split("Axioms:", 1)[1], re.M))) if "Axioms:" in out else []
    proofs_ok = rc == 0 and bool(names) and closed == len(names) and not axioms
    for t in names:
        ctx.oblige("mechanism theorem %s (coq/%s/props/%s.v)" % (t, PROJ, PROPS), proofs_ok)
    res.update(theorems=names, closed=closed, axioms=axioms)
    if not proofs_ok:
        ctx.violation(dict(kind="mechanism-theorem-does-not-check", broken="coq/%s/props/%s.v" % (PROJ, PROPS),
                           closed_under_global_context=closed, theorems=len(names), axioms=axioms, log=out[-3000:]),
                      nofail=True, tag="mech")

    # --- the tie to the source
    binp, blog = fw.build_harness("limiterprobe")
    if binp is None:
        ctx.oblige("mechanisms: limiterprobe builds", False)
        ctx.violation(dict(kind="harness-build-failed", broken="go build ./cmd/limiterprobe", log=blog[-3000:]),
                      nofail=True, tag="mech")
        return res
    shape = os.path.join(work, "shape.json")
    rc, o = fw.sh([binp, "-repo", fw.REPO, "-out", shape], cwd=work, env=ctx.env, timeout=120)
    if rc != 0 or not os.path.exists(shape):
        ctx.oblige("mechanisms: limiterprobe parses internal/execute/sm/sm.go", False)
        ctx.violation(dict(kind="mechanism-source-shape-mismatch",
                           broken="SourceShape.source_shape_ok: the probe could not parse the source", log=o[-2000:]),
                      nofail=True, tag="mech")
        return res
    probe = json.load(open(shape))
    fns = probe["functions"]
    res.update(tokens=sum(len(f["tokens"]) for f in fns), functions=len(fns))
    with open(os.path.join(work, "ShapeObserved.v"), "w") as f:
        f.write(SCRATCH % probe["coq"])
    rc, out = fw.sh(["coqc"] + flags + ["ShapeObserved.v"], cwd=work, timeout=300)
    shape_ok = rc == 0
    ctx.oblige("mechanism source shape: observed = assumed (SourceShape.source_shape_ok by vm_compute; %d tokens, %d functions of %s)"
               % (res["tokens"], res["functions"], probe["file"]), shape_ok)
    res["shape_ok"] = shape_ok
    if not shape_ok:
        rep = fw.parse_report(out) or []
        notes = describe_diff(assumed_tokens(), fns, probe["file"])
        first = notes[0] if notes else dict(what="no difference found by the driver; see log")
        res["notes"] = notes
        ctx.violation(dict(kind="mechanism-source-shape-mismatch",
                           broken="SourceShape.source_shape_ok (observed = assumed) no longer checks: %s: %s%s%s" % (
                               first.get("function", "?"), first.get("what"),
                               (" `%s`" % first["statement"]) if "statement" in first else "",
                               (" at %s" % first["at"]) if "at" in first else ""),
                           differences=notes[:40],
                           coq_report=dict(meaning="per function: 0 = equal, k+1 = first differing token k",
                                           functions=[f["name"] for f in fns], report=rep),
                           theorems_that_rest_on_it=names, log=out[-1500:]),
                      nofail=True, tag="mech")
    res["ok"] = proofs_ok and shape_ok
    return res


def run(ctx):
    """`./check MECH`: only the mechanism theorems and their tie (no behavioural correspondence here; the
    behavioural tie of these models is the observable projection checked by C02/C03/C07)."""
    r = check_mechanisms(ctx)
    ctx.assumptions = dict(closed_under_global_context=r["closed"], axioms=r["axioms"],
                           file="coq/%s/props/%s.v" % (PROJ, PROPS))
    ctx.evidence(dict(
        evaluations=r["tokens"], distinct_nontrivial=r["functions"],
        rule="structural tie only: tokens = normalised statements of the transcribed functions compared inside Coq",
        samples=r["notes"][:5], theorems=r["theorems"], shape_ok=r["shape_ok"],
        checker_cmd="make (coq/limiter) ; coqc props/Mechanisms.v ; limiterprobe | coqc ShapeObserved.v (Lemma source_shape_ok by vm_compute)"),
        assumptions=["the detailed models are hand transcriptions; the probe ties statement ORDER and presence, not semantics",
                     "gostdlib/base worker.Limited / sync.Group semantics transcribed from the pinned module version (go.mod line is part of the shape)",
                     "Go's select, channel and WaitGroup semantics as modelled (select picks any ready case; default only if none)"])
