"""C18 - clones are deep, definition-preserving and resubmittable.

Theorem side: coq/clone/props/C18.v over the model of workflow/utils/clone/clone.go (value level: Clone.v,
with locations: CloneLoc.v).
Correspondence: the real clone.Plan/Block/Sequence/Checks/Action on objects crafted into five execution
states x the four option sets; per observation the model's clone must equal the abstraction of the real
clone, the model's validate must equal what workflow.Validate and a real Submit said, and the property
monitors (right-hand sides of the theorems, evaluated on the implementation's own output with no clone
function involved; label-set disjointness; the Go-side overlap / mutation monitors) must hold.
clone is a pure function and the theorems determine its output completely (definition + state/pristine),
so a disagreement with the model is a violation with that input.
"""
from vf import framework as fw

HEADER = """From Coercion.Base Require Import Plan.
From Coercion.Clone Require Import Clone CloneSpec CloneLoc CloneCheck."""

VECTOR = ["model: clone_* (erase original) = erase (real clone)",
          "workflow.Validate verdict = validate_* (model clone)",
          "Submit verdict = validate_* (model clone)",
          "monitor c18_defn_preserved on the real clone",
          "monitor c18_keepstate / c18_default_pristine on the real clone",
          "monitor c18_default_resubmittable on the real clone (Validate and Submit accept)",
          "monitor c18_no_sharing: label sets of clone and original disjoint",
          "Go-side monitor (1 address ranges overlap, 2 mutating the clone changed the original, 3 mutating the original changed the clone, 4 panic, 5 Submit of the clone changed the original, 6 clone holds a value outside the modelled domain, 7 the clone depends on the state of the Context, 8 the clone depends on the order / repetition of the options)",
          "model self-check: labelled model erases to the value model and allocates fresh labels"]


def run(ctx):
    ctx.static_and_proofs("clone")
    quick = ctx.tier == "quick"
    args = ["-n", "240" if quick else "2400"]
    if ctx.replay:
        # re-run exactly the recorded case (same seed, same index) on the current repository
        import json
        rp = json.load(open(ctx.replay))
        ctx.env["VERIF_SEED"] = str(rp.get("seed", ctx.seed))
        idx = int(rp["input"]["index"])
        args = ["-n", str(idx + 1), "-only", str(idx)] + (["-big"] if rp["input"].get("big") else [])
        quick = True
    cases = ctx.harness("c18", args)
    if cases is None:
        ctx.evidence(dict(evaluations=0, distinct_nontrivial=0, rule="harness did not run", samples=[]))
        return
    if not quick:
        more = ctx.harness("c18", ["-n", "600", "-big"], out_name="cases_big.jsonl")
        if more is None:
            return
        for c in more:
            c["id"] = "big-" + c["id"]
        cases += more
    terms = [c["coq"] for c in cases]
    results, infos = fw.eval_cases(ctx.work, "clone", HEADER, "case", "check_case", "case_ok", terms)
    for info in infos:
        ctx.oblige("corr_ok shard %d (%d cases): forallb case_ok cases = true" % (info["shard"], info["n"]), info["rc"] == 0)
    bad = []
    for c, r in zip(cases, results):
        if r is None:
            bad.append((c, None, "model evaluation produced no result for this case"))
        elif r != [0]:
            ob = c["observed"][r[0] - 1] if 0 < r[0] <= len(c["observed"]) else {}
            failed = [VECTOR[i] for i, v in enumerate(r[1:]) if v != 0 and i < len(VECTOR)]
            bad.append((c, r, "option set keep_secrets=%s keep_state=%s: %s" % (ob.get("keep_secrets"), ob.get("keep_state"), "; ".join(failed))))
    if bad:
        bad.sort(key=lambda x: (x[0]["dist"]["nodes"], x[0]["id"]))
        c, r, why = bad[0]
        ob = c["observed"][r[0] - 1] if r and 0 < r[0] <= len(c["observed"]) else None
        ctx.violation(dict(kind="clone-violates-C18", why=why, check_vector=r, vector_legend=VECTOR, case=c["id"], case_kind=c["kind"],
                           input=c["input"], observed=ob, note=c.get("note", "")[:2000], case_coq=c["coq"][:30000],
                           failing_cases=len(bad), other_failing=[(x[0]["id"], x[0]["kind"], x[2][:200]) for x in bad[1:8]],
                           replay_cmd="VERIF_SEED=%s ./check C18 --tier %s   (harness: c18 -only %s%s)" % (
                               ctx.seed, ctx.tier, c["input"]["index"], " -big" if c["input"].get("big") else "")))
    nobs = sum(len(c["observed"]) for c in cases)
    obs = [(c, o) for c in cases for o in c["observed"]]
    ctx.evidence(dict(
        evaluations=nobs,
        distinct_nontrivial=fw.distinct_nontrivial(cases),
        rule="plans from harness/plangen (1-2 blocks, 1-2 sequences, 1-3 actions in the quick tier; up to 3x3x3 in the thorough -big run; each of the "
             "10 check groups with p in {.15,.35,.6}; keys with p .3; Req/AltReq/SecReq requests, the latter with coerce:\"secure\" fields at four "
             "depths; Plan.Meta, request Tags/Keys/KV and response Items drawn from the shapes nil / empty / empty with capacity / buf[:0] of a "
             "filled buffer / non-empty with spare capacity / exact; attempts slices exact, with spare capacity or as appended), crafted into the execution states fresh / submitted / running / completed / failed (ids, states, times, attempts with "
             "responses and wrapped errors, reason, submit time, plan ids, registry pointers, etags); every 5th case made irregular (1-3 of 20 kinds, the first one cycling through all kinds: nil / empty "
             "slices, nil elements, empty sequence, empty attempts, blank names, short timeout, unknown plugin, rejected / nil request); the object "
             "cloned is the plan or a block / sequence / checks group / action of it; each case = one original x the 4 option sets; the observed clone of each option set is made under a Context of a kind that rotates "
             "through live / already cancelled / deadline passed / cancelled from another goroutine during the call, and for every option set the clones "
             "under all four kinds of Context are compared with each other; likewise the options are passed in an order / with a repetition that rotates "
             "(both orders, and S,T,S / T,S,T / T,T,S / S,S,T; a single option once or twice) and the clones for all these lists are compared; evaluations = "
             "(original, option set) observations; distinct = distinct case terms by hash; non-trivial = the original has more than 3 "
             "pointer/slice/map nodes",
        samples=[dict(id=c["id"], kind=c["kind"], input=c["input"], dist=c["dist"], observed=c["observed"]) for c in cases[:3]],
        traces_validated_against_impl=nobs,
        cases=len(cases),
        distribution=dict(kind=fw.histogram(c["dist"]["kind"] for c in cases),
                          mode=fw.histogram(c["dist"]["mode"] for c in cases),
                          stream=fw.histogram(c["dist"]["stream"] for c in cases),
                          context=fw.histogram("%s/%s" % (c["dist"]["kind"], o["context"]) for c, o in obs),
                          option_list=fw.histogram("ks=%s st=%s list#%s" % (o["keep_secrets"], o["keep_state"], o["option_list"]) for c, o in obs),
                          meta_shape=fw.histogram(c["dist"]["meta_shape"] for c in cases if c["dist"]["kind"] == "plan"),
                          irregular=fw.histogram(x for c in cases for x in (c["dist"]["irregular"] or [])),
                          nodes=fw.histogram(min(c["dist"]["nodes"] // 10 * 10, 200) for c in cases),
                          actions=fw.histogram(min(c["dist"]["actions"], 30) for c in cases),
                          attempts=fw.histogram(min(c["dist"]["attempts"] // 5 * 5, 60) for c in cases),
                          wrapped_errors=fw.histogram(min(c["dist"]["wrapped_errors"], 10) for c in cases),
                          secure_requests=fw.histogram(min(c["dist"]["secure_reqs"], 8) for c in cases),
                          scrub_entries=fw.histogram(min(c["dist"]["scrub_entries"], 10) for c in cases),
                          default_clone_accepted=fw.histogram("%s validate=%s submit=%s" % (c["dist"]["stream"], o["validate_ok"], o["submit_ok"])
                                                              for c, o in obs if not o["keep_state"]),
                          keepstate_clone_accepted=fw.histogram("%s validate=%s" % (c["dist"]["mode"], o["validate_ok"]) for c, o in obs if o["keep_state"]),
                          nil_results=sum(1 for _, o in obs if o["nil_result"]),
                          mutations_per_clone=fw.histogram(min(o["mutations"] // 20 * 20, 400) for _, o in obs)),
        coq_shards=[dict(shard=i["shard"], n=i["n"], rc=i["rc"], wall_s=round(i["wall"], 1)) for i in infos],
    ), assumptions=[
        "the abstraction of Go values to Coq terms (harness/plancoq leaves, harness/c18x labelled trees: labels are addresses interned per case), "
        "the reflect walkers (address ranges, deep dump, mutate-everything) and the harness's own scrub of its secure-tagged types",
        "brunoga/deep.MustCopy and clone.Secure on one value are Section variables of the model (hypotheses: value preserved, new locations; "
        "scrubbed value, no new shared location); clone.Secure itself is property C17",
        "Not covered: WithRemoveCompletedSequences (outside the property); State.ETag and the unexported planID / register fields are observed "
        "(dump, Submit) but not part of the model's tree; nil *Attempt elements and nil top-level arguments",
    ])
