"""C07 - Cont-check failures are never lost; deferred checks always run once entered.

Coq project coq/c07 (on top of the shared engine core coq/engine and the mechanism model coq/limiter):
  MonC07.v     mon_cont_deferred = the formal statement of the property over one observed trace, one small fold
               per scope (plan / block), clauses 1-14 in its header (read it first);
  props/C07.v  c07_cont_deferred: forall sh tr s, shape_wf sh = true -> run sh init tr = Some s -> mon_cont_deferred (sh, tr) = true
               (all shapes, traces, interleavings; all 15 clauses); c07_deferred_exactly_once (at traces ending in
               EvRelease); c07_thread_alive_plan / _block (the safety half of "keeps being re-run"); plus the ContChan
               mechanism theorems (no_failure_lost, failure_conserved, at_most_one_failed, no_send_after_close,
               drain_progress) restated from coq/limiter.  Proof: product invariant automaton x monitor per scope
               (C07Plan.v, C07Block.v) over the reachable-state invariants Inv.pinv (copied from coq/c06), C07XInv, C07YInv.
  Examples.v   a real two-block trace with a failing continuous and deferred group: accepted, monitor true; mutations
               (deferred runs erased / doubled, failure lost in the released plan) and a hand-written bad trace: false.

What runs (props/engine_common.run_engine_check):
  * pre-checks: mech.check_mechanisms (coq/limiter re-checked + statement shape of runContChecks / contChecksPassing /
    the drains regenerated from the source under test) and smgraph.check_smgraph (state graph regenerated from the
    source; deferred_checks_dominate_end*, block_end_only_through_block_deferred);
  * harness option `-deferred 0.7`: every scope without a deferred group gets one with probability 0.7 (it fails with
    probability 0.2), so that the scope that fails usually HAS a deferred group;
  * profile `cont` (failure injected at the k-th run of a continuous check, k = 1..6 and none, plan / block / both, the
    director releasing the held sequences one by one with pauses of 0..2.5 check periods so that the k-th run falls
    before / after each sequence boundary and into the window between the last poll and the drain; other groups and
    sequences fail at random so that every way a scope can fail occurs) + `final` (a failing stage at every position)
    + `tol` (tolerance exceeded inside / after the launch loop: the sequence way of failing a block) + `mixed`; every trace of the real engine must be ACCEPTED by the automaton and satisfy mon_cont_deferred;
  * "keeps being re-run" (liveness, not a trace-safety clause) is MEASURED: a continuous group that is scripted to fail
    at run k >= 2 must be seen making its runs; if no trace at all shows a THIRD run (initial run + two re-runs) of
    any continuous group the check reports a violation (runContChecks does not re-run);
  * KNOWN FINDING K1 (how OFTEN the implementation re-runs): harness/cmd/c07k1 runs, in its own process, one block / one
    sequence / one action of 600 ms with a continuous group of Delay 20 ms (block level, then plan level) whose check fails
    from its 8th call on: the check is invoked <= 4 times during the action instead of 30 and the scope ends Completed.
    Reported through the known-findings protocol (KNOWN-FINDING line while listed as known; a violation if not listed;
    a NOTE if the implementation no longer shows it).  Statement side: props/C07.v, Mech.c07_keeps_rerunning_refuted.
  * KNOWN FINDING K2 ("after everything else in that scope", strict reading): mon_cont_deferred exempts the scope's own
    continuous group in clause 5; mon_cont_deferred_strict (clauses 20 / 21: a continuous run begins after the scope's
    deferred / post run has begun) is evaluated on every trace as well (appended to the diagnosis).  Traces on which only
    the strict monitor is false, at BLOCK level, are K2 (one KNOWN-FINDING line per run, with a deterministic witness
    harness/cmd/c07k2: continuous runs of 30 ms, a 5 ms action, a 150 ms deferred check); at PLAN level it is a VIOLATION.
    Statement side: props/C07.v, c07_deferred_last_refuted_block.
"""
from vf import framework as fw
from props import engine_common as ec
from props import mech
from props import smgraph

CODES = {
    1: "runs of one check group overlap (an action reset again before the whole run was over) / unknown action",
    2: "a continuous run begins after a FAILED run of that group",
    3: "a deferred run begins in a scope that was not entered (bypassed or never started)",
    4: "a second deferred run begins",
    5: "something else of the scope (sequence / bypass / pre / post plugin) runs after its deferred run began",
    6: "a run of the scope's bypass / continuous / deferred group is still in progress when Wait returns",
    7: "deferred runs of an entered scope != 1, or of a scope not entered != 0, when Wait returns",
    8: "a run of a tracked group begins or goes on after Wait returned (or Wait returned twice)",
    10: "a continuous run failed but the scope is not Failed / the group is not shown Failed in the released plan",
    11: "the deferred run failed but the scope is not Failed / the group is not shown Failed in the released plan",
    12: "plan: reason is not the first stage shown Failed (pre, continuous, block, post, deferred) after a continuous/deferred failure",
    13: "plan: reason ContCheck / DeferredCheck although no continuous / deferred run failed",
    14: "block: its continuous/deferred run failed but the plan is not Failed with reason Block (or ContCheck of the plan)",
    15: "the reason of the plan Wait returned is not the reason the engine wrote",
}


K1_WHAT = ("continuous checks stall during a long sequence: runContChecks blocks in its send on the capacity-1 result "
           "channel after at most two re-runs (the channel is read only before a sequence starts and when the scope ends), so a "
           "failure due at a later run never happens and the scope ends Completed")


def check_k1(ctx):
    """Known finding K1: a deterministic witness run in its own process (harness/cmd/c07k1), at block and at plan level."""
    cases = ctx.harness("c07k1", ["-work", "600", "-delay", "20", "-failat", "8"], out_name="k1.jsonl", timeout=120)
    if cases is None:
        return None
    wit = [c for c in cases if c.get("kind") == "witness"]
    for c in cases:
        if c.get("kind") != "witness":
            ctx.notes.append("witness K1 (%s) could not be produced on this tree: %s" % (c.get("id"), c.get("note")))
    ctx.oblige("witness K1 replayed on the implementation", len(wit) == len(cases) and len(wit) >= 2)
    present = [c for c in wit if c["observed"].get("finding_present")]
    if present:
        o = present[0]["observed"]
        desc = "; ".join("%s level: %d invocations during the %d ms action (%d due), %d in all, scope %s" % (
            c["input"]["level"], c["observed"]["invocations_during_action"], c["input"]["work_ms"], c["observed"]["invocations_due"],
            c["observed"]["invocations_total"], c["observed"]["scope_status"]) for c in present)
        if ctx.finding_status("K1") == "known":
            ctx.known("K1", K1_WHAT + " [witness: Delay %d ms, check failing from call %d on; %s]"
                      % (present[0]["input"]["delay_ms"], present[0]["input"]["fail_from_call"], desc))
        else:
            ctx.violation(dict(kind="finding-not-listed-as-known", finding="K1", why=K1_WHAT, observed=o, input=present[0]["input"],
                               witnesses=[c["observed"] for c in present]))
    else:
        for c in wit:
            ctx.notes.append("witness K1: the implementation no longer shows the finding (%s)" % c["observed"].get("what"))
    return dict(witnesses=[dict(id=c["id"], **{k: c["observed"].get(k) for k in (
        "finding_present", "invocations_during_action", "invocations_due", "invocations_total", "scope_status", "plan_status",
        "offsets_ms_from_action_start")}) for c in wit])


K2_WHAT = ("block continuous checks keep running during the block's post and deferred checks: the block's continuous thread is only "
           "cancelled and drained in BlockEnd, after BlockPostChecks and BlockDeferredChecks (the plan level stops it before its post and "
           "deferred checks), so runs of the block's continuous group BEGIN after its deferred (post) run has begun")
EXTRA_HEADER = "From Coercion.C07 Require Import MonC07."


def _strict(r):
    """strict diagnosis [code, event index, scope, run] appended to mon_cont_deferred_diag2 (None = strict monitor holds)."""
    if r is None or len(r) < 3 or not r[2] or r[2][0] != 0 or len(r[2]) < 9:
        return None
    return r[2][5:9]


def _ev_us(c, idx):
    try:
        return int(c["observed"]["events"][idx].split()[1].lstrip("+").rstrip("us"))
    except Exception:
        return None


def _k2_describe(c, st):
    code, idx, scope, run = st
    b = scope - 1
    grp = "deferred" if code == 20 else "post"
    t0 = next((_ev_us(c, i) for i, e in enumerate(c["observed"]["events"])
               if ("Write block%d.%s[" % (b, grp)) in e and "Running n=0" in e), None)
    t1 = _ev_us(c, idx)
    dt = "%.1f ms" % ((t1 - t0) / 1000.0) if t0 is not None and t1 is not None else "?"
    return "%s: continuous run %d of block %d began %s after its %s group" % (c["id"], run, b, dt, grp)


def check_k2(ctx, mons, live, results):
    """Known finding K2: traces of this run on which ONLY the strict monitor is false (block level), plus a deterministic witness."""
    header = ec._header(EXTRA_HEADER, ec._mon_specs(mons))
    shown, other = [], []
    for c, r in zip(live, results):
        st = _strict(r)
        if st is None:
            continue
        (shown if st[0] in (20, 21) and st[2] >= 1 else other).append((c, st))
    # any other failure of the strict monitor (plan level) is a violation
    if other:
        other.sort(key=lambda x: ec._size(x[0]))
        c, st = other[0]
        ctx.violation(ec._replay_obj(ctx, c, "strict-monitor-false", "mon_cont_deferred_strict false at PLAN level (clause %d at event #%d): a run of the "
                                     "plan's continuous group began after its %s run had begun; %d traces" % (st[0], st[1], "deferred" if st[0] == 20 else "post", len(other)),
                                     None, ec._mon_specs(mons), dict(failing_monitor="mon_cont_deferred_strict", strict=st)))
    wit = ctx.harness("c07k2", ["-slow", "150", "-cont", "30"], out_name="k2.jsonl", timeout=120)
    wdesc, wok = None, False
    if wit:
        ok_cases = [c for c in wit if c.get("coq") and not (c.get("note") or "").startswith("hang")]
        if ok_cases:
            wres, _ = ec.evaluate(ctx, "k2", ok_cases, header)
            c, r = ok_cases[0], wres[0]
            acc, bad, why = ec.classify(c, r, ec._mon_specs(mons))
            wok = acc and not bad
            if not wok:
                ctx.violation(ec._replay_obj(ctx, c, "k2-witness-rejected", "the K2 witness trace is not accepted / violates mon_cont_deferred: %s %s" % (why, bad),
                                             r, ec._mon_specs(mons)), nofail=not bad)
            st = _strict(r)
            if st and st[0] in (20, 21) and st[2] >= 1:
                wdesc = _k2_describe(c, st)
            elif wok:
                ctx.notes.append("witness K2: the implementation no longer shows the finding (strict monitor holds on the witness trace)")
    ctx.oblige("witness K2 replayed on the implementation", bool(wit) and wok)
    if shown or wdesc:
        shown.sort(key=lambda x: ec._size(x[0]))
        eg = _k2_describe(*shown[0]) if shown else None
        line = K2_WHAT + " [%d traces of this run show it%s; witness %s]" % (len(shown), (", e.g. " + eg) if eg else "", wdesc or "not shown")
        if ctx.finding_status("K2") == "known":
            ctx.known("K2", line)
        else:
            c = shown[0][0] if shown else wit[0]
            ctx.violation(ec._replay_obj(ctx, c, "finding-not-listed-as-known", K2_WHAT, None, ec._mon_specs(mons),
                                         dict(finding="K2", traces=[x[0]["id"] for x in shown[:30]], witness=wdesc)))
    return dict(traces_showing_it=len(shown), by_clause=fw.histogram(x[1][0] for x in shown), examples=[_k2_describe(*x) for x in shown[:5]],
                witness=wdesc, strict_false_at_plan_level=len(other))


def run(ctx):
    write_evidence, captured = ctx.evidence, {}
    ctx.evidence = lambda coverage, assumptions=None, level="proof": captured.update(cov=coverage, asm=assumptions, level=level)
    mons = ["mon_cont_deferred", ("mon_cont_deferred_diag2", "list")]
    out = ec.run_engine_check(
        ctx,
        profile=[("cont", 252, 2520), ("final", 128, 1920), ("tol", 180, 1080), ("mixed", 48, 720)],
        n_quick=0, n_thorough=0,
        extra_header=EXTRA_HEADER,
        monitors=mons,
        release_obligation=False,
        harness_args=["-deferred", "0.7"],
        multi_quick=21, multi_thorough=252,
        proj="c07",
        pre_checks=[mech.check_mechanisms, smgraph.check_smgraph],
        rule_extra="mon_cont_deferred_diag codes: %s." % "; ".join("%d = %s" % kv for kv in sorted(CODES.items())),
        assumptions=["the result-channel protocol itself (buffer of one, close on exit, non-blocking polls, drain) is not "
                     "observable in the trace: it is modelled in coq/limiter/ContChan.v (theorems Mech.* of props/C07.v) and tied "
                     "to the source by mech.check_mechanisms; the trace-level statement is: a Failed run => scope Failed"],
        not_covered=["Not covered: the RATE of continuous re-runs (bounded by the capacity-1 channel; only that re-runs happen "
                     "is measured); order of the other stages (C01), gating by the initial run (C06), tolerance (C03), "
                     "released plan = durable image and quiescence (C04/C08); hangs (release obligation: C04/C06)"],
    )
    ctx.evidence = write_evidence
    if out:
        live, results = out["live"], out["results"]
        # ---- measured: continuous groups are re-run; failures at run k are reached; deferred runs happen ----
        stats = dict(traces=0, plan_cont_runs=[], block_cont_runs=[], deferred_runs=[], scopes_cont_failed=[])
        by_k = {}
        for c, r in zip(live, results):
            if r is None or len(r) < 3 or not r[2] or r[2][0] != 0 or len(r[2]) < 5:
                continue
            _, pc, bc, d, f = r[2][:5]
            stats["traces"] += 1
            stats["plan_cont_runs"].append(pc)
            stats["block_cont_runs"].append(bc)
            stats["deferred_runs"].append(d)
            stats["scopes_cont_failed"].append(f)
            k = c["dist"].get("cont_fail_run")
            if c["dist"].get("profile") == "cont" and k is not None:
                e = by_k.setdefault(int(k), dict(n=0, reached=0, max_runs=0))
                e["n"] += 1
                e["reached"] += 1 if f else 0
                e["max_runs"] = max(e["max_runs"], pc, bc)
        rerun = sum(1 for a, b in zip(stats["plan_cont_runs"], stats["block_cont_runs"]) if max(a, b) >= 2)
        third = sum(1 for a, b in zip(stats["plan_cont_runs"], stats["block_cont_runs"]) if max(a, b) >= 3)
        with_cont = sum(1 for a, b in zip(stats["plan_cont_runs"], stats["block_cont_runs"]) if max(a, b) >= 1)
        ok = (with_cont < 30) or third > 0
        ctx.oblige("continuous checks keep being re-run: %d of %d traces with a continuous group show >= 2 runs of one "
                   "(%d show >= 3)" % (rerun, with_cont, third), ok)
        if not ok:
            c = min((c for c in live if c["dist"].get("profile") == "cont"), key=ec._size, default=live[0])
            ctx.violation(ec._replay_obj(ctx, c, "no-rerun", "C07 'each continuous check keeps being re-run': none of %d traces with "
                                         "a continuous group shows a third run of it (the initial run and two re-runs) although the sequences were held for several "
                                         "check periods (runContChecks does not re-run)" % with_cont, None, ec._mon_specs(mons)))
        # ---- which clauses fail, on how many traces; one replay per distinct clause beyond the one already written ----
        per = {}
        for c, r in zip(live, results):
            if r is None or len(r) < 3 or not r[2] or r[2][0] == 0:
                continue
            per.setdefault(r[2][0], []).append((c, r))
        shown = set()
        for m, lst in out["mon_bad"].items():
            lst.sort(key=lambda x: ec._size(x[0]))
            if lst and lst[0][1] and len(lst[0][1]) > 2 and lst[0][1][2]:
                shown.add(lst[0][1][2][0])
        for code in sorted(per):
            if code in shown or len(shown) >= 8:
                continue
            shown.add(code)
            per[code].sort(key=lambda x: ec._size(x[0]))
            c, r = per[code][0]
            sc = r[2][2] if len(r[2]) > 2 else None
            ctx.violation(ec._replay_obj(ctx, c, "monitor-false", "mon_cont_deferred false on the trace of the real engine: clause %d (%s) at event "
                                         "#%s, scope %s; %d traces fail this clause first"
                                         % (code, CODES.get(code, "?"), r[2][1] if len(r[2]) > 1 else "?",
                                            "plan" if sc == 0 else "block %s" % (sc - 1 if sc else "?"), len(per[code])), r,
                                         ec._mon_specs(mons), dict(failing_monitor="mon_cont_deferred", failing_clause=code,
                                                                   failing_cases=[x[0]["id"] for x in per[code][:30]])))
        if "cov" in captured:
            captured["cov"]["clauses_failing_first"] = {"%d %s" % (k, CODES.get(k, "?")): len(v) for k, v in sorted(per.items())}
        if "cov" in captured:
            captured["cov"]["cont_reruns"] = dict(
                traces_with_cont=with_cont, traces_with_second_run=rerun, traces_with_third_run=third,
                plan_cont_runs=fw.histogram(stats["plan_cont_runs"]), block_cont_runs_max=fw.histogram(stats["block_cont_runs"]),
                deferred_runs_per_trace=fw.histogram(stats["deferred_runs"]),
                scopes_with_failed_cont_run=fw.histogram(stats["scopes_cont_failed"]),
                scripted_failing_run_k={str(k): v for k, v in sorted(by_k.items())})
    k1 = None if ctx.replay else check_k1(ctx)
    k2 = check_k2(ctx, mons, out["live"], out["results"]) if (out and not ctx.replay) else None
    if "cov" in captured:
        if k2:
            captured["cov"]["known_finding_K2"] = k2
            captured["cov"]["notes"] = ctx.notes[:40]
        if k1:
            captured["cov"]["known_finding_K1"] = k1
            captured["cov"]["notes"] = ctx.notes[:40]
        write_evidence(captured["cov"], captured["asm"], captured["level"])
    return out
