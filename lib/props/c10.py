"""C10 - Recovery converges to the same consistent terminal outcome.

Model: coq/resume/Resume.v.  Monitor: MonRecover.mon_converges (the recovering process reaches EvRelease; the
released plan is Completed/Failed, has nothing Running, satisfies the consistency rules of C04, the deferred group
of every entered scope has a completed run, and - plugin outcomes being a function of the action alone - its status
is the uninterrupted run's).  Known, unfixed defects of the repair are excused clause by clause through the deviation
flags listed as `known` in known_findings.json (KNOWN-FINDING lines); anything else is a VIOLATION.
Theorems: coq/resume/props/C10.v.  Harness: harness/cmd/recover.  See props/recover_common.py.
"""
from props import recover_common as rc


def run(ctx):
    rc.run_check(ctx, "C10", plans_quick=12, plans_thorough=90, frm=5004)
