"""C10 - Recovery converges to the same consistent terminal outcome.

Model: coq/resume/Resume.v.  Monitor: MonRecover.mon_converges (the recovering process reaches EvRelease; the
released plan is Completed/Failed, has nothing Running, satisfies the consistency rules of C04, the deferred group
of every entered scope has a completed run, and - plugin outcomes being a function of the action alone - its status
is the uninterrupted run's).  Known, unfixed defects of the repair are excused clause by clause through the deviation
flags listed as `known` in known_findings.json (KNOWN-FINDING lines); anything else is a VIOLATION.
Theorems: coq/resume/props/C10.v (release side: terminal, nothing Running without flags; refutations per flag) and
coq/c10x/props/C10.v (for EVERY crash image of EVERY accepted engine trace and every deviation flag set: clause (i) -
the released sequences and actions obey C04's clauses 7 and 8, the released plan obeys clause 6 - as an invariant of
the resumed automaton about the IN-MEMORY image, on top of coq/c04's product invariant for the crash images and
coq/recover's transcription of fixAction / fixSeq; clause (ii) for the plan scope when the repair does not
short-circuit to End; clause (ii) refuted without flags on a real recovery and on a model witness).  The deferred-group
clause for block scopes, the block rule, progress, verdict equality and everything after a second crash stay monitored.
Harness: harness/cmd/recover.  See props/recover_common.py.
"""
from vf import framework as fw
from props import recover_common as rc

# coq/c10x: clause (i) proved for the resumed automaton (first crash)
FULL_PROJECTS = (("c10x", "consistency_statement"),)


def check_full(ctx):
    """Full .vo build of coq/c10x (and of the projects it cites: c04, c06, imgwf, chain) and re-check of its
    props/C10.v with Print Assumptions; its theorems are obligations of this check."""
    good = True
    for proj, key in FULL_PROJECTS:
        ok, log, where = fw.coq_build([proj])
        ctx.oblige("full .vo build of coq/%s (make)" % proj, ok)
        if not ok:
            ctx.violation(dict(kind="coq-build-failed", broken="first failing file: %s" % where, log=log[-3000:]), nofail=True)
            good = False
            continue
        pc = fw.props_check(proj, "C10")
        fine = pc["ok"] and bool(pc["theorems"]) and not pc["axioms"] and pc["closed"] == len(pc["theorems"])
        for t in pc["theorems"]:
            ctx.oblige("theorem %s (%s)" % (t, pc["file"]), fine)
        if isinstance(ctx.assumptions, dict):
            ctx.assumptions[key] = dict(file=pc["file"], theorems=pc["theorems"],
                                        closed_under_global_context=pc["closed"], axioms=pc["axioms"])
        if not fine:
            ctx.violation(dict(kind="property-theorem-does-not-check", broken=pc["file"], log=pc["log"]), nofail=True)
            good = False
    return good


def run(ctx):
    base = ctx.static_and_proofs

    def both(proj, extra_projects=()):
        # the theorems of coq/resume first (they set ctx.assumptions), then the consistency clause on top of them
        return base(proj, extra_projects) and check_full(ctx)
    ctx.static_and_proofs = both
    rc.run_check(ctx, "C10", plans_quick=12, plans_thorough=90, frm=5004)
