"""SmGraph - the source-derived state-chain graph (DESIGN.md section 3, "a second, structural tie").

`check_smgraph(ctx)` is called by the checks of C01, C06, C07 (and C10):

  1. full .vo build of coq/smgraph (generic finite-graph lemmas: reach_complete, dominates_sound, ...; the
     committed snapshot SmGraphGen.v and the obligations about it),
  2. rebuild harness/cmd/smgraph (go/parser + go/ast, standard library only) and run it on the repository
     ($VERIF_REPO, default /repo): it REGENERATES SmGraphGen.v (+ a JSON twin with positions and guard texts)
     into the run's work directory,
  3. compile the regenerated graph and re-prove every theorem of coq/smgraph/props/SmGraphProps.v against it
     (the theorems are split into shards compiled in parallel; a failing theorem is isolated and the rest of
     its shard re-checked), one obligation per theorem,
  4. if anything fails: compute (inside Coq, from the same definitions the theorems use) the multiset
     difference between the extracted edge list and the declared one, render it readably (added / removed /
     RE-ROUTED return sites with their guard conditions and source positions) and report ONE
     `ctx.violation(..., nofail=True)`: the structure the engine automaton declares is no longer the
     structure of the code.  The caller then searches for a failing input with the engine harness.

Returns a dict: ok, failed (theorem names), diff (added / removed / rerouted / methods / entries / unknown),
readable (lines), guard_drift (guards that changed w.r.t. the committed snapshot although the edge set did
not: informational, never a violation), graph (path of the JSON), theorems.

`python3 lib/props/smgraph.py [--tier quick]` runs it standalone (pid SMGRAPH).
"""
import concurrent.futures
import json
import os
import re
import shutil
import sys
import time

if __name__ == "__main__":
    sys.path.insert(0, os.path.dirname(os.path.dirname(os.path.abspath(__file__))))

from vf import framework as fw  # noqa: E402

PROJ = "smgraph"
PROPS = os.path.join("props", "SmGraphProps.v")
BLOCK_RE = re.compile(r"^(Theorem|Example|Lemma)\s+([A-Za-z0-9_']+)", re.M)

REPORT_V = """From Coq Require Import List String.
From Coercion.SmGraph Require Import SmGraph SmGraphGen.
Set Printing Width 1000000.
Set Printing Depth 1000000.
Definition r_edges_added := Eval vm_compute in edges_added sm_edges.
Definition r_edges_removed := Eval vm_compute in edges_removed sm_edges.
Definition r_methods_added := Eval vm_compute in methods_added sm_methods.
Definition r_methods_removed := Eval vm_compute in methods_removed sm_methods.
Definition r_entries_added := Eval vm_compute in entries_added sm_entries.
Definition r_entries_removed := Eval vm_compute in entries_removed sm_entries.
Print r_edges_added. Print r_edges_removed. Print r_methods_added. Print r_methods_removed.
Print r_entries_added. Print r_entries_removed.
"""


def split_props(src):
    """preamble, [(name, kind, text)] - a block runs from its Theorem/Example line to the next one."""
    ms = list(BLOCK_RE.finditer(src))
    if not ms:
        return src, []
    pre = src[:ms[0].start()]
    blocks = []
    for i, m in enumerate(ms):
        end = ms[i + 1].start() if i + 1 < len(ms) else len(src)
        blocks.append((m.group(2), m.group(1), src[m.start():end]))
    # a comment opened at the very end of a block belongs to the next theorem: cut it off
    out = []
    for name, kind, text in blocks:
        depth, cut, i = 0, len(text), 0
        last_open = None
        while i < len(text):
            if text.startswith("(*", i):
                if depth == 0:
                    last_open = i
                depth += 1
                i += 2
            elif text.startswith("*)", i) and depth:
                depth -= 1
                i += 2
            else:
                i += 1
        if depth > 0 and last_open is not None:
            cut = last_open
        out.append((name, kind, text[:cut]))
    return pre, out


def _flags(work):
    base = os.path.join(fw.COQ, "base")
    return ["-R", base, "Coercion.Base", "-R", work, "Coercion.SmGraph"]


def _run_shard(args):
    """Compile preamble + blocks; isolate failing blocks one at a time. Returns {name: (ok, log)}, closed count."""
    work, k, pre, blocks = args
    res, closed, lib = {}, 0, None
    todo = list(blocks)
    rounds = 0
    while todo:
        rounds += 1
        name_v = "shard_%d_%d.v" % (k, rounds)
        offs, text = [], pre
        for b in todo:
            offs.append((text.count("\n") + 1, b))
            text += b[2] + "\n"
        with open(os.path.join(work, "props", name_v), "w") as f:
            f.write(text)
        rc, out = fw.sh(["coqc"] + _flags(work) + [os.path.join("props", name_v)], cwd=work, timeout=600)
        if rc == 0:
            for b in todo:
                res[b[0]] = (True, "")
            closed += out.count("Closed under the global context")
            lib = "Coercion.SmGraph.props." + name_v[:-2]
            break
        m = re.search(r'File "[^"]*", line (\d+)', out)
        bad = None
        if m:
            ln = int(m.group(1))
            for start, b in offs:
                if start <= ln:
                    bad = b
        if bad is None:          # failure in the preamble (or a timeout): everything in the shard fails
            for b in todo:
                res[b[0]] = (False, out[-1500:])
            break
        res[bad[0]] = (False, out[-1500:])
        todo = [b for b in todo if b[0] != bad[0]]
    return res, closed, lib


def _parse_lists(out):
    """{'r_edges_added': [str, ...], ...} from Coq's `Print`."""
    res = {}
    for m in re.finditer(r"\b(r_[a-z_]+)\s*=\s*(.*?)\n\s*:\s*list string", out, re.S):
        res[m.group(1)] = [s.replace('""', '"') for s in re.findall(r'"((?:[^"]|"")*)"', m.group(2))]
    return res


def _edge_key(e):
    d = e["dst"]
    name = {"St": d.get("name", ""), "Nil": "nil", "Unknown": "UNKNOWN"}.get(d["kind"])
    if name is None:
        name = "FOREIGN:%s.%s" % (d.get("machine", ""), d.get("name", ""))
    return "%s %s %s %s" % (e["machine"], e["src"], name, "err" if e["err_assigned"] else "-")


def _sites(graph, key):
    return [dict(guards=e["guards"], at=e["return_at"], assigned_at=e["assign_at"], why=e["dst"].get("why"))
            for e in (graph or {}).get("edges", []) if _edge_key(e) == key]


def _fmt_key(key):
    m, s, t, r = key.split(" ", 3)
    return "%s.%s -> %s%s" % (m, s, t, " [may stop: req.Err assigned]" if r == "err" else "")


def _fmt_sites(sites):
    out = []
    for s in sites:
        g = " && ".join(s["guards"]) if s["guards"] else "(unconditional)"
        out.append("        at %s  when  %s" % (s["at"], g))
        if s.get("why"):
            out.append("        not understood: %s" % s["why"])
    return out


def _new_only(sites, others):
    """sites whose guard chain does not occur among `others` (falls back to all of them)."""
    have = [" && ".join(o["guards"]) for o in others]
    out = []
    for x in sites:
        g = " && ".join(x["guards"])
        if g in have:
            have.remove(g)
        else:
            out.append(x)
    return out or sites


def structural_diff(lists, new_graph, snap_graph):
    """Pair surplus and missing return sites of the same state into re-routings; attach guards/positions."""
    added = list(lists.get("r_edges_added", []))
    removed = list(lists.get("r_edges_removed", []))
    by_src = {}
    for k in added:
        by_src.setdefault(tuple(k.split(" ")[:2]), dict(a=[], r=[]))["a"].append(k)
    for k in removed:
        by_src.setdefault(tuple(k.split(" ")[:2]), dict(a=[], r=[]))["r"].append(k)
    rerouted, only_added, only_removed = [], [], []
    for src, ar in sorted(by_src.items()):
        a, r = sorted(ar["a"]), sorted(ar["r"])
        while a and r:
            rerouted.append(dict(state="%s.%s" % src, was=r.pop(0), now=a.pop(0)))
        only_added += a
        only_removed += r
    readable = []
    for x in rerouted:
        readable.append("RE-ROUTED  %s: a return site declared as  %s  now is  %s" % (x["state"], _fmt_key(x["was"]), _fmt_key(x["now"])))
        x["now_sites"] = _new_only(_sites(new_graph, x["now"]), _sites(snap_graph, x["now"]))
        x["was_sites_in_snapshot"] = _new_only(_sites(snap_graph, x["was"]), _sites(new_graph, x["was"]))
        readable.append("    sites now taking the new edge:")
        readable += _fmt_sites(x["now_sites"])
        if x["was_sites_in_snapshot"]:
            readable.append("    sites that took the declared edge in the committed snapshot:")
            readable += _fmt_sites(x["was_sites_in_snapshot"])
    add_l, rem_l = [], []
    for k in only_added:
        s = _new_only(_sites(new_graph, k), _sites(snap_graph, k))
        add_l.append(dict(edge=k, sites=s))
        readable.append("ADDED      %s  (one more return site than declared)" % _fmt_key(k))
        readable += _fmt_sites(s)
    for k in only_removed:
        s = _new_only(_sites(snap_graph, k), _sites(new_graph, k))
        rem_l.append(dict(edge=k, sites_in_snapshot=s))
        readable.append("REMOVED    %s  (one return site fewer than declared)" % _fmt_key(k))
        readable += _fmt_sites(s)
    for tag, key in (("METHOD ADDED   ", "r_methods_added"), ("METHOD REMOVED ", "r_methods_removed"),
                     ("ENTRY ADDED    ", "r_entries_added"), ("ENTRY REMOVED  ", "r_entries_removed")):
        for x in lists.get(key, []):
            readable.append("%s %s" % (tag, x.replace(" ", ".", 1)))
    unknown = [dict(machine=e["machine"], src=e["src"], why=e["dst"].get("why"), at=e["assign_at"], closure=e["closure"])
               for e in (new_graph or {}).get("edges", []) if e["dst"]["kind"] in ("Unknown", "Foreign") or e["closure"]]
    for u in unknown:
        readable.append("NOT UNDERSTOOD %s.%s at %s: %s%s" % (u["machine"], u["src"], u["at"], u["why"] or "foreign/closure edge",
                                                           " (inside a function literal)" if u["closure"] else ""))
    for e in (new_graph or {}).get("entries", []):
        if e["dst"]["kind"] != "St":
            readable.append("ENTRY NOT UNDERSTOOD in %s at %s: %s" % (e["func"], e["at"], e["dst"].get("why")))
    diff = dict(rerouted=rerouted, added=add_l, removed=rem_l,
                methods_added=lists.get("r_methods_added", []), methods_removed=lists.get("r_methods_removed", []),
                entries_added=lists.get("r_entries_added", []), entries_removed=lists.get("r_entries_removed", []),
                not_understood=unknown)
    return diff, readable


def guard_drift(new_graph, snap_graph):
    """Edges present in both graphs whose guard texts differ (informational)."""
    if not new_graph or not snap_graph:
        return []

    def table(g):
        t = {}
        for e in g.get("edges", []):
            t.setdefault(_edge_key(e), []).append(" && ".join(e["guards"]))
        return {k: sorted(v) for k, v in t.items()}
    a, b = table(new_graph), table(snap_graph)
    return [dict(edge=k, now=a[k], snapshot=b[k]) for k in sorted(a) if k in b and a[k] != b[k] and len(a[k]) == len(b[k])]


def check_smgraph(ctx, report=True):
    """report=False: record the obligations and return the diff, but leave the VIOLATION line to the caller."""
    t0 = time.time()
    res = dict(ok=False, failed=[], diff=None, readable=[], guard_drift=[], graph=None, theorems=[])
    pdir = fw.project_dir(PROJ)

    # 1. the project itself (generic lemmas, snapshot, obligations about the snapshot)
    ok, log, where = fw.coq_build([PROJ])
    ctx.oblige("full .vo build of coq/smgraph (generic graph lemmas: reach_complete, dominates_sound, ...; snapshot graph)", ok)
    if not ok:
        ctx.violation(dict(kind="coq-build-failed", broken="coq/smgraph: first failing file: %s" % where, log=log[-3000:]), nofail=True)
        res["failed"] = ["coq/smgraph build"]
        return res

    # 2. regenerate the graph from the repository's current source
    work = os.path.join(ctx.work, "smgraph")
    shutil.rmtree(work, ignore_errors=True)
    os.makedirs(os.path.join(work, "props"))
    binp, blog = fw.build_harness("smgraph")
    gen_v, gen_j = os.path.join(work, "SmGraphGen.v"), os.path.join(work, "smgraph.json")
    rc, out = (1, blog) if binp is None else fw.sh([binp, "-repo", fw.REPO, "-v", gen_v, "-json", gen_j], cwd=work, env=ctx.env, timeout=300)
    ctx.oblige("smgraph extractor builds and parses %s (go/parser)" % fw.REPO, rc == 0)
    if rc != 0:
        ctx.violation(dict(kind="smgraph-extractor-failed", broken="harness/cmd/smgraph could not build or could not parse the repository",
                           log=out[-3000:]), nofail=True)
        res["failed"] = ["smgraph extractor"]
        return res
    new_graph = json.load(open(gen_j))
    res["graph"] = gen_j
    snap_graph = None
    try:
        snap_graph = json.load(open(os.path.join(pdir, "SmGraphGen.json")))
    except (OSError, ValueError):
        pass
    res["snapshot_is_current"] = (open(gen_v).read() == open(os.path.join(pdir, "SmGraphGen.v")).read())

    # 3. compile the regenerated graph next to the project's compiled generic part, then the theorems
    for f in ("SmGraph.vo", "SmGraphProofs.vo"):
        shutil.copy(os.path.join(pdir, f), os.path.join(work, f))
    rc, out = fw.sh(["coqc"] + _flags(work) + ["SmGraphGen.v"], cwd=work, timeout=600)
    ctx.oblige("regenerated SmGraphGen.v compiles", rc == 0)
    if rc != 0:
        ctx.violation(dict(kind="smgraph-generated-file-does-not-compile", broken="SmGraphGen.v", log=out[-3000:]), nofail=True)
        res["failed"] = ["SmGraphGen.v"]
        return res
    src = open(os.path.join(pdir, PROPS)).read()
    pre, blocks = split_props(src)
    theorems = [b[0] for b in blocks if b[1] != "Example"]
    res["theorems"] = theorems
    nsh = max(1, min(8, fw.NCPU, len(blocks)))
    shards = [(work, k, pre, blocks[k::nsh]) for k in range(nsh)]
    with open(os.path.join(work, "SmGraphReport.v"), "w") as f:
        f.write(REPORT_V)
    results, closed, libs = {}, 0, []
    with concurrent.futures.ThreadPoolExecutor(max_workers=nsh + 1) as ex:
        rep_f = ex.submit(fw.sh, ["coqc"] + _flags(work) + ["SmGraphReport.v"], work, None, 600)
        for r, c, lib in ex.map(_run_shard, shards):
            results.update(r)
            closed += c
            if lib:
                libs.append(lib)
        rrc, rout = rep_f.result()
    failed = []
    for name, kind, _ in blocks:
        ok_t = results.get(name, (False, "not run"))[0]
        what = "example (non-vacuity)" if kind == "Example" else "theorem"
        ctx.oblige("smgraph %s %s, re-proved about the graph extracted from %s" % (what, name, fw.REPO), ok_t)
        if not ok_t:
            failed.append(name)
    ok_closed = closed >= len([t for t in theorems if t not in failed])
    ctx.oblige("smgraph: Print Assumptions of every re-proved theorem says Closed under the global context", ok_closed)
    if ctx.tier == "thorough":
        trc, tout = fw.sh([fw.GO, "test", "-count=1", "./cmd/smgraph"], cwd=fw.HARNESS, env=fw.GOENV, timeout=900)
        ctx.oblige("smgraph: extractor self-tests (flow analysis and fail-closed cases on synthetic state methods) pass", trc == 0)
        if trc != 0:
            failed.append("extractor self-tests")
            res["selftest_log"] = tout[-1500:]
    if ctx.tier == "thorough" and libs and not os.environ.get("VERIF_NO_COQCHK"):
        # independent re-check of the re-proved theorems (and of everything they depend on) with coqchk
        crc, cout = fw.sh(["coqchk", "-silent", "-o"] + _flags(work) + libs, cwd=work, timeout=3000)
        ok_chk = crc == 0 and "* Axioms: <none>" in cout
        ctx.oblige("smgraph: coqchk -silent -o of the re-proved theorems lists no axioms", ok_chk)
        res["coqchk"] = cout[-1200:]
        if not ok_chk:
            failed.append("coqchk")
    lists = _parse_lists(rout) if rrc == 0 else {}
    diff, readable = structural_diff(lists, new_graph, snap_graph)
    res.update(diff=diff, readable=readable, failed=failed, guard_drift=guard_drift(new_graph, snap_graph),
               closed_under_global_context=closed, wall_s=round(time.time() - t0, 1),
               edges=len(new_graph.get("edges", [])), methods=len(new_graph.get("methods", [])))
    res["ok"] = not failed and ok_closed
    if (failed or not ok_closed) and report:
        logs = {n: results[n][1][-800:] for n in failed if n in results}
        ctx.say("SMGRAPH: the state-chain graph extracted from %s is not the declared one; %d obligation(s) fail: %s"
                % (fw.REPO, len(failed), ", ".join(failed)))
        for line in readable:
            ctx.say("SMGRAPH:   " + line)
        ctx.violation(dict(kind="state-chain-graph-differs-from-declaration",
                           broken="coq/smgraph/props/SmGraphProps.v: " + ", ".join(failed or ["Print Assumptions not closed"]),
                           what="the Go source's req.Next structure (regenerated by harness/cmd/smgraph) no longer satisfies the structural "
                                "obligations the engine automaton's gating proofs cite; edge list difference below (multiset, per return site)",
                           repo=fw.REPO, failed_obligations=failed, diff=diff, readable=readable, coq_logs=logs,
                           replay_cmd="VERIF_REPO=%s python3 lib/props/smgraph.py" % fw.REPO), nofail=True, tag="smgraph")
    return res


def coverage(res):
    """A block for the caller's evidence file."""
    return dict(smgraph=dict(ok=res.get("ok"), theorems=len(res.get("theorems", [])), failed=res.get("failed"),
                             edges=res.get("edges"), methods=res.get("methods"), wall_s=res.get("wall_s"),
                             snapshot_is_current=res.get("snapshot_is_current"),
                             guard_drift=res.get("guard_drift"), readable_diff=res.get("readable")))


if __name__ == "__main__":
    import argparse
    ap = argparse.ArgumentParser()
    ap.add_argument("--tier", default=os.environ.get("VERIF_TIER", "quick"))
    ap.add_argument("--keep", action="store_true")
    a = ap.parse_args()
    os.chdir(fw.ROOT)
    if a.keep:
        os.environ["VERIF_KEEP"] = "1"
    ctx = fw.Ctx("SMGRAPH", a.tier, int(os.environ.get("VERIF_SEED", "1") or 1))
    r = check_smgraph(ctx)
    print("smgraph: ok=%s theorems=%d failed=%s edges=%s methods=%s snapshot_is_current=%s wall=%ss"
          % (r["ok"], len(r["theorems"]), r["failed"], r.get("edges"), r.get("methods"), r.get("snapshot_is_current"), r.get("wall_s")))
    for d in r.get("guard_drift", []):
        print("guard drift (informational): %s\n    now      %s\n    snapshot %s" % (_fmt_key(d["edge"]), d["now"], d["snapshot"]))
    print("obligations: %d, discharged: %d" % (len(ctx.obligations), sum(1 for _, ok in ctx.obligations if ok)))
    ctx.cleanup()
    sys.exit(ctx.exit_code())
