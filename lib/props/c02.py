"""C02 - At most Block.Concurrency sequences in flight; one block at a time.

Proof side (coq/c02): MonC02.mon_conc is the formal statement over a trace (after every event: the sequences of a
block with an action inside its plugin are at most its Concurrency, and no two blocks have one at the same time);
props/C02.v proves it for every shape, every trace and every interleaving the observable engine automaton accepts.
Mechanism side (pre-check, lib/props/mech.py): coq/limiter proves that the automaton's launch guard is what the real
mechanism (limiter channel + Limited pool + WaitGroup of ExecuteSequences) enforces, and ties the transcription to
the source statement by statement.

Correspondence: profile `conc` (#sequences <, =, > Concurrency; hold scripts park exactly min(conc, #seqs) sequences
inside their plugins while the director verifies for 5 ms that no further one starts, then releases them in a random
order), `order` and `mixed` runs for variety (later sequences finishing first, overruns, failures), and several plans
on ONE Workstream (the bound is per plan and per block), plus a batch in which several goroutines call Start for the
same plan id together (race_batch: a plan run by two state machines breaks the bound).  Every trace must be accepted by the automaton and satisfy
mon_conc; a false monitor is a concrete violation with that trace as the replay.
"""
import json
import os

from vf import framework as fw
from props import engine_common as ec
from props import mech

MONITORS = ["mon_conc", ("mon_conc_diag", "list"), ("conc_peak", "list")]
EXTRA_HEADER = "From Coercion.C02 Require Import MonC02."
RACE_K = 6


def _racestart_supported():
    """harness/cmd/engine has the -racestart flag (k goroutines call Workstream.Start for one plan id together)."""
    try:
        return "racestart" in open(os.path.join(fw.HARNESS, "cmd", "engine", "main.go")).read()
    except OSError:
        return False


def race_batch(ctx):
    """"For every plan ... every scheduler interleaving" includes callers that race: RACE_K goroutines call Start for the
    SAME plan id together (a retried RPC).  At most one may run the plan; if two state machines run it, sequences are
    launched twice and the bound breaks.  Same monitors on every trace; a child process that died (the second finisher
    closes a nil waiter channel) or a hang is an observation and is reported as a violation as well.
    Returns a dict for the evidence."""
    quick = ctx.tier == "quick"
    n = 40 if quick else 400
    if not _racestart_supported():
        ctx.notes.append("race batch skipped: harness/cmd/engine has no -racestart flag")
        return dict(skipped="harness/cmd/engine has no -racestart flag")
    cases = ec._harness(ctx, "conc", n, "cases_race.jsonl", ["-racestart", str(RACE_K), "-from", "200000"])
    if cases is None:
        return dict(skipped="harness did not run")
    ctx.oblige("race batch: harness run completes (%d plans, %d racing Start calls each)" % (n, RACE_K), True)
    return judge_race(ctx, cases, "race")


def judge_race(ctx, cases, tag):
    mons = ec._mon_specs(MONITORS)
    header = ec._header(EXTRA_HEADER, mons)
    died = [c for c in cases if any(w in (c.get("note") or "").lower() for w in ("panic", "died", "crash", "exit"))]
    hangs = [c for c in cases if ec._is_hang(c) and c not in died]
    live = [c for c in cases if c.get("coq") and c not in died and not ec._is_hang(c) and not c["dist"].get("late_start")]
    results, infos = ec.evaluate(ctx, tag, live, header, ok_fn="eng_ok" if tag == "race" else "eng_mon_ok")
    for info in infos:
        ctx.oblige("corr_ok race shard %d (%d traces of plans started by %d racing Start calls): automaton accepts, monitors hold"
                   % (info["shard"], info["n"], RACE_K), info["rc"] == 0)
    bad, rejected = [], []
    for c, r in zip(live, results):
        acc, b, why = ec.classify(c, r, mons)
        if any(m in b for m in ("mon_conc", "mon_conc_diag")):
            bad.append((c, r, b, why))
        elif not acc:
            rejected.append((c, r, why))
    if bad:
        bad.sort(key=lambda x: ec._size(x[0]))
        c, r, b, why = bad[0]
        ctx.violation(ec._replay_obj(ctx, c, "monitor-false", "%d Start calls raced for one plan id and the plan's trace violates %s "
                                     "(%d of %d raced plans); automaton: %s" % (RACE_K, b, len(bad), len(live), why), r, mons,
                                     dict(failing_monitor=b[0], failing_monitors=b, racestart=RACE_K,
                                          failing_cases=[x[0]["id"] for x in bad[:30]])), tag=tag)
    if died:
        c = died[0]
        ctx.violation(ec._replay_obj(ctx, c, "process-died", "the process running the plan died after %d racing Start calls for one plan "
                                     "id (%d of %d raced plans): %s" % (RACE_K, len(died), len(cases), c.get("note")), None, mons,
                                     dict(racestart=RACE_K, dead_cases=[x["id"] for x in died[:30]])), tag=tag)
    if hangs and not bad and not died:
        c = hangs[0]
        ctx.violation(ec._replay_obj(ctx, c, "hang", "Wait did not return after %d racing Start calls for one plan id (%d of %d raced "
                                     "plans)" % (RACE_K, len(hangs), len(cases)), None, mons, dict(racestart=RACE_K)), tag=tag)
    if rejected and not bad and not died:
        rejected.sort(key=lambda x: ec._size(x[0]))
        c, r, why = rejected[0]
        ctx.violation(ec._replay_obj(ctx, c, "correspondence-broken", "corr_engine_accept (raced Start): %s; monitors true on %d rejected "
                                     "traces" % (why, len(rejected)), r, mons,
                                     dict(broken="corr_engine_accept: " + why, racestart=RACE_K)), nofail=True, tag=tag)
    return dict(plans=len(cases), racing_start_calls=RACE_K, traces_checked=len(live), monitor_false=len(bad),
                rejected_by_automaton=len(rejected) + sum(1 for x in bad if not ec.classify(x[0], x[1], mons)[0]),
                process_died=len(died), hangs=len(hangs), distinct=len({c.get("hash") for c in live}),
                start_calls_that_returned_nil=fw.histogram(c["dist"].get("start_ok") for c in cases if "start_ok" in c.get("dist", {})))


def race_replay(ctx, rp):
    """Replay of a race-batch case: the same plan (seed, index), the same number of racing Start calls, 20 times."""
    ctx.engine_proj = "c02"
    ctx.static_and_proofs("c02")
    cases = ec._harness(ctx, rp.get("profile") or "conc", 1, "replay_race.jsonl",
                        ["-racestart", str(rp["racestart"]), "-only", str(rp.get("index")), "-reps", "20"],
                        seed=rp.get("case_seed") or rp.get("seed")) or []
    res = judge_race(ctx, cases, "replay") if cases else dict(plans=0)
    ctx.say("replayed %s index %s with %s racing Start calls: %s" % (rp.get("profile"), rp.get("index"), rp["racestart"], res))
    if not ctx.violations:
        ctx.say("replay: not reproduced on this repository (%d runs, no monitor violation, no dead process)" % len(cases))
    ctx.evidence(dict(evaluations=len(cases), distinct_nontrivial=len({c.get("hash") for c in cases}),
                      rule="replay of " + str(ctx.replay), samples=[], traces_validated_against_impl=res.get("traces_checked", 0),
                      racing_start_batch=res))


def run(ctx):
    if ctx.replay:
        try:
            rp = json.load(open(ctx.replay))
        except (OSError, ValueError):
            rp = {}
        if rp.get("racestart"):
            return race_replay(ctx, rp)
    out = ec.run_engine_check(
        ctx,
        profile=[("conc", 216, 7200), ("order", 48, 1800), ("mixed", 48, 1800)],
        n_quick=0, n_thorough=0,
        extra_header=EXTRA_HEADER,
        monitors=MONITORS,
        release_obligation=False,
        multi_quick=48, multi_thorough=1440,
        proj="c02",
        pre_checks=[mech.check_mechanisms],
        rule_extra="mon_conc_diag: [1;i;b;n;conc] = after event i, n sequences of block b in flight > Concurrency; "
                   "[2;i;b;b'] = sequences of blocks b and b' in flight together. conc_peak is a measurement (largest number "
                   "of sequences of one block seen in flight together), not a verdict.",
        assumptions=[
            "in flight = plugin entered and not returned, and not given up by the engine (an attempt the engine timed out "
            "stops counting at its attempt write: plugin contract; same reading as C04's quiescence clause)",
            "Concurrency <= 0 is normalised to 1 by Block.Defaults at Submit: C16 (coq/validate); the engine harness stores "
            "plans with Concurrency 1..3 directly, shape_wf (conc >= 1) is checked per case",
        ],
        not_covered=[
            "Not covered: the bound is proved for every interleaving of the model; the implementation's interleavings are "
            "steered (director gates) and sampled, not enumerated",
            "Not covered here: overlap of a block's CHECK actions with another block (C01 order clause (i))",
        ],
    )
    if not out or ctx.replay:
        return
    race = race_batch(ctx)
    # how often the bound was attained: peak number of sequences of one block in flight vs the Concurrency
    peaks = {}
    for c, r in zip(out["live"], out["results"]):
        if r is None or len(r) < 4 or len(r[3]) < 2:
            continue
        concs = c["dist"].get("conc") or []
        seqs = c["dist"].get("seqs_per_block") or []
        cap = max([min(a, b) for a, b in zip(concs, seqs)] or [0])
        key = "peak=%d cap=%d" % (r[3][1], cap)
        peaks[key] = peaks.get(key, 0) + 1
    p = fw.evidence_path(ctx.pid)
    try:
        ev = json.load(open(p))
        ev["coverage"]["peak_in_flight_vs_cap"] = dict(
            meaning="peak = largest number of sequences of one block inside their plugins together (conc_peak); "
                    "cap = max over blocks of min(Concurrency, #sequences)", histogram=peaks)
        ev["coverage"]["racing_start_batch"] = race
        if isinstance(race.get("traces_checked"), int):
            ev["coverage"]["evaluations"] += race["plans"]
            ev["coverage"]["traces_validated_against_impl"] += race["traces_checked"]
        ev["coverage"]["obligations"] = len(ctx.obligations)
        ev["coverage"]["discharged"] = sum(1 for _, ok in ctx.obligations if ok)
        ev["coverage"]["obligation_list"] = [dict(name=n, discharged=ok) for n, ok in ctx.obligations]
        ev["violations"] = len(ctx.violations)
        json.dump(ev, open(p, "w"), indent=1, default=str)
    except (OSError, ValueError, KeyError):
        pass
