"""C02 - At most Block.Concurrency sequences in flight; one block at a time.

Proof side (coq/c02): MonC02.mon_conc is the formal statement over a trace (after every event: the sequences of a
block with an action inside its plugin are at most its Concurrency, and no two blocks have one at the same time);
props/C02.v proves it for every shape, every trace and every interleaving the observable engine automaton accepts.
Mechanism side (pre-check, lib/props/mech.py): coq/limiter proves that the automaton's launch guard is what the real
mechanism (limiter channel + Limited pool + WaitGroup of ExecuteSequences) enforces, and ties the transcription to
the source statement by statement.

Correspondence: profile `conc` (#sequences <, =, > Concurrency; hold scripts park exactly min(conc, #seqs) sequences
inside their plugins while the director verifies for 5 ms that no further one starts, then releases them in a random
order), `order` and `mixed` runs for variety (later sequences finishing first, overruns, failures), and several plans
on ONE Workstream (the bound is per plan and per block).  Every trace must be accepted by the automaton and satisfy
mon_conc; a false monitor is a concrete violation with that trace as the replay.
"""
import json
import os

from props import engine_common as ec
from props import mech


def run(ctx):
    out = ec.run_engine_check(
        ctx,
        profile=[("conc", 216, 7200), ("order", 48, 1800), ("mixed", 48, 1800)],
        n_quick=0, n_thorough=0,
        extra_header="From Coercion.C02 Require Import MonC02.",
        monitors=["mon_conc", ("mon_conc_diag", "list"), ("conc_peak", "list")],
        release_obligation=False,
        multi_quick=48, multi_thorough=1440,
        proj="c02",
        pre_checks=[mech.check_mechanisms],
        rule_extra="mon_conc_diag: [1;i;b;n;conc] = after event i, n sequences of block b in flight > Concurrency; "
                   "[2;i;b;b'] = sequences of blocks b and b' in flight together. conc_peak is a measurement (largest number "
                   "of sequences of one block seen in flight together), not a verdict.",
        assumptions=[
            "in flight = plugin entered and not returned, and not given up by the engine (an attempt the engine timed out "
            "stops counting at its attempt write: plugin contract; same reading as C04's quiescence clause)",
            "Concurrency <= 0 is normalised to 1 by Block.Defaults at Submit: C16 (coq/validate); the engine harness stores "
            "plans with Concurrency 1..3 directly, shape_wf (conc >= 1) is checked per case",
        ],
        not_covered=[
            "Not covered: the bound is proved for every interleaving of the model; the implementation's interleavings are "
            "steered (director gates) and sampled, not enumerated",
            "Not covered here: overlap of a block's CHECK actions with another block (C01 order clause (i))",
        ],
    )
    if not out or ctx.replay:
        return
    # how often the bound was attained: peak number of sequences of one block in flight vs the Concurrency
    peaks = {}
    for c, r in zip(out["live"], out["results"]):
        if r is None or len(r) < 4 or len(r[3]) < 2:
            continue
        concs = c["dist"].get("conc") or []
        seqs = c["dist"].get("seqs_per_block") or []
        cap = max([min(a, b) for a, b in zip(concs, seqs)] or [0])
        key = "peak=%d cap=%d" % (r[3][1], cap)
        peaks[key] = peaks.get(key, 0) + 1
    p = os.path.join("evidence", ctx.pid + ".json")
    try:
        ev = json.load(open(p))
        ev["coverage"]["peak_in_flight_vs_cap"] = dict(
            meaning="peak = largest number of sequences of one block inside their plugins together (conc_peak); "
                    "cap = max over blocks of min(Concurrency, #sequences)", histogram=peaks)
        json.dump(ev, open(p, "w"), indent=1, default=str)
    except (OSError, ValueError, KeyError):
        pass
