"""C14 - Create is all-or-nothing and unique; Delete removes exactly one plan.

Theorem side: coq/store/props/C14.v - c14_create_atomic, c14_create_unencodable, c14_create_unique, c14_delete_exact
(sqlite model); c14_create_atomic_cosmos, c14_delete_exact_cosmos and c14_cosmos_two_batch_gap (cosmosdb model: atomic
for the plan partition; the plan batch and the search batch are proved NOT atomic together).
Correspondence (every run): a value the JSON codec refuses is planted at EVERY action position of generated plans
(request through an `any` field, or an attempt's response), directly through Vault.Create and through
Workstream.Submit; duplicate creates; interleaved creates/deletes of 2-5 plans; (sqlite) plans that share one
object id with a stored plan; (cosmosdb fake) createItemErr / deleteItemErr before the plan batch and between the
plan batch and the search batch, readItemErr (a non-404 read error) during a duplicate-id and a fresh-id Create; thorough tier: a child process killed at random instants during Create on a
file-backed store. Observed after every operation: result class, Read of every plan id, and - file-backed sqlite -
the row counts per table per plan_id over the harness's own SQL connection (orphan rows are invisible to Read).
The model is run on the same operations in Coq and must give the same result classes, reads and counts.
"""
from vf import framework as fw
from props import store_common as sc


def run(ctx):
    ctx.static_and_proofs("store")
    quick = ctx.tier == "quick"
    if quick:
        args = ["-plant", "6", "-plantcz", "3", "-submit", "4", "-dup", "12", "-interleave", "18", "-collide", "10", "-fault", "20", "-bigbatch", "2", "-cancel", "10", "-cancelburst", "16"]
    else:
        args = ["-plant", "60", "-plantcz", "30", "-submit", "40", "-dup", "120", "-interleave", "240", "-collide", "100", "-fault", "200", "-bigbatch", "12", "-cancel", "100", "-cancelburst", "64", "-kill", "300"]
    cases = ctx.harness("c14", args, timeout=3000)
    if cases is None:
        ctx.evidence(dict(evaluations=0, distinct_nontrivial=0, rule="harness did not run", samples=[]))
        return
    terms = [c["coq"] for c in cases]
    results, infos = fw.eval_cases(ctx.work, "store", sc.HEADER, "case", "check_case", "case_ok", terms)
    for info in infos:
        ctx.oblige("corr_ok shard %d (%d cases): forallb case_ok cases = true" % (info["shard"], info["n"]), info["rc"] == 0)
    failing = sc.classify(ctx, "C14", cases, results, "create-or-delete-not-atomic-or-not-exact")
    gap = [c for c in cases if c["kind"] == "fault" and c["dist"].get("mode") == 1]
    kills = [c for c in cases if c["kind"] == "kill"]

    def kill_outcome(c):
        after = (c["observed"][-1].get("after") or {})
        present = any(k == c["observed"][-1].get("plan") and str(v).startswith("plan") for k, v in after.items())
        return "child %s, plan %s afterwards" % ("finished" if c["dist"].get("child_finished") else "killed before it reported",
                                                 "complete" if present else "absent")
    ops = sum(c["dist"]["ops"] for c in cases)
    ctx.evidence(dict(
        evaluations=ops,
        distinct_nontrivial=fw.distinct_nontrivial(cases),
        rule="evaluations = operations performed on a real vault whose result class, subsequent Reads and (file-backed sqlite) row counts "
             "per table per plan_id were compared with the model; a case = one short history on a fresh vault; distinct = by hash of the case "
             "term; every case of these families is non-trivial except a Submit with nothing planted",
        samples=[dict(id=c["id"], input=c["input"], dist=c["dist"], ops=(c["observed"] or [])[:3]) for c in cases[:2]],
        traces_validated_against_impl=len(cases),
        failing_cases=failing,
        cosmos_two_batch_gap_reproduced=len(gap),
        kill_cases=dict(n=len(kills), child_finished=sum(1 for c in kills if c["dist"].get("child_finished")),
                        outcomes=fw.histogram(kill_outcome(c) for c in kills),
                        delays_us=fw.histogram((c["dist"]["delay_us"] // 500) * 500 for c in kills)),
        distribution=dict(family=sc.dist(cases, "kind") if False else fw.histogram(c["kind"] for c in cases),
                          backend=sc.dist(cases, "backend"), with_row_counts=sc.dist(cases, "counts"),
                          planted_position=fw.histogram(c["dist"].get("position") for c in cases if c["kind"] in ("plant", "plantcz", "submit")),
                          planted_backend_x_place=fw.histogram("%s / %s" % (c["dist"]["backend"], c["dist"].get("planted"))
                                                               for c in cases if c["kind"] in ("plant", "plantcz", "submit")),
                          planted_where=fw.histogram((c["dist"].get("where") or "").split("/")[0] + "/" + (c["dist"].get("where") or "").split(" ")[-1]
                                                     for c in cases if c["kind"] in ("plant", "plantcz", "submit")),
                          operations=sc.ophist(cases)),
        coq_shards=[dict(shard=i["shard"], n=i["n"], rc=i["rc"], wall_s=round(i["wall"], 1)) for i in infos],
    ), assumptions=[
        "SQLite's transaction semantics (rollback on error, atomic commit, crash recovery of the WAL) are trusted; the model states them as [txn]",
        "the abstraction of Go values to Coq terms done by the harness; row counts are read over the harness's own connection to the database file",
        "cosmosdb only through the package's fake client; a Cosmos transactional batch is atomic per partition (trusted); the plan batch and the "
        "search batch are NOT atomic together: a Create/Delete that fails between them returns an error while the plan is already stored/removed "
        "(modelled as two steps, reproduced through the fake's toggles: cosmos_two_batch_gap_reproduced)",
        "kill family (thorough tier): the instant of the kill is not controlled, only sampled; the verdict (database = before or after) does not depend on it",
        "Not covered: the real Cosmos service; power loss below the OS (fsync honesty); concurrent writers",
    ])
