"""C13 - storage round trip: Read returns exactly what was last written.

Theorem side: coq/store/props/C13.v - c13_roundtrip_sqlite and c13_roundtrip_cosmos (for every operation list of the
domain, every Read and every result class of the model equal the specification's, Spec.v), c13_fetch_commit (what a
successful Create committed is read back whole), c13_spec_read_* (never created / deleted reads as an error).
Correspondence: real vaults (sqlite in-memory, sqlite file-backed, cosmosdb over its fake client) are driven
through generated operation lists Create / UpdatePlan / UpdateBlock / UpdateChecks / UpdateSequence /
UpdateAction / Delete; after every operation every plan id of the case (created, deleted, never created) is Read.
The model (coq/store/SqliteModel.v, CosmosModel.v) is run on the same operations inside Coq; every result class
and every Read must be what the model computes. The model is proved equal to the specification (Spec.v), which
determines every observation completely, so a disagreement is a violation with that operation list as input.
"""
import os

from vf import framework as fw
from props import store_common as sc


def run(ctx):
    ctx.static_and_proofs("store")
    quick = ctx.tier == "quick"
    args = ["-oplists", "60" if quick else "900", "-singles", "72" if quick else "900", "-paged", "9" if quick else "120", "-regchange", "8" if quick else "120", "-alone", "6" if quick else "60"]
    if os.environ.get("C13_BACKENDS"):
        args += ["-backends", os.environ["C13_BACKENDS"]]
    cases = ctx.harness("c13", args)
    if cases is None:
        ctx.evidence(dict(evaluations=0, distinct_nontrivial=0, rule="harness did not run", samples=[]))
        return
    terms = [c["coq"] for c in cases]
    results, infos = fw.eval_cases(ctx.work, "store", sc.HEADER, "case", "check_case", "case_ok", terms)
    for info in infos:
        ctx.oblige("corr_ok shard %d (%d cases): forallb case_ok cases = true" % (info["shard"], info["n"]), info["rc"] == 0)
    failing = sc.classify(ctx, "C13", cases, results, "read-differs-from-last-write")
    reads = sum(c["dist"]["reads"] for c in cases)
    ops = sum(c["dist"]["ops"] for c in cases)
    ctx.evidence(dict(
        evaluations=reads,
        distinct_nontrivial=fw.distinct_nontrivial(cases),
        rule="evaluations = Reads through a real vault compared with the model (every plan id of the case after every operation); "
             "a case = one operation list (4-30 operations over 1-4 plans) or one Create of a big plan; distinct = distinct by hash of the "
             "whole case term (operations + observations); non-trivial = an operation list with at least one Update*, or a single plan "
             "with more than 2 actions",
        samples=[dict(id=c["id"], input=c["input"], dist=c["dist"], first_ops=(c["observed"] or [])[:3]) for c in cases[:2]],
        traces_validated_against_impl=len(cases),
        operations=ops,
        failing_cases=failing,
        distribution=dict(backend=sc.dist(cases, "backend"), ops_per_case=sc.dist(cases, "ops"), plans_per_case=sc.dist(cases, "plans"),
                          objects_per_case=fw.histogram((c["dist"]["objects"] // 5) * 5 for c in cases),
                          operations=sc.ophist(cases)),
        coq_shards=[dict(shard=i["shard"], n=i["n"], rc=i["rc"], wall_s=round(i["wall"], 1)) for i in infos],
    ), assumptions=[
        "the abstraction of Go values to Coq terms done by the harness (strings/uuids/values interned per case; times as UnixNano with 0 = zero time; "
        "typed values by Go type + canonical JSON after nil->empty normalisation of maps/slices INSIDE request/response values)",
        "nil vs empty child slices (Blocks/Sequences/Actions/Attempts) are identified; Meta nil == empty",
        "strings that are not valid UTF-8: the JSON codec (go-json-experiment) refuses them inside requests, responses and error messages "
        "(Create / UpdateAction fail and change nothing: modelled as enc failing) and, on cosmosdb, as names / descriptions (create_checked); "
        "sqlite TEXT columns store them byte for byte",
        "generated instants are zero or after 1970 (the sqlite codec maps earlier instants to the zero time by design)",
        "cosmosdb only through the package's fake client: objects are compared keyed by id (the fake ignores ORDER BY); order is tied by the "
        "emitted items' pos (C14 check, VerifPlanItems) and Cosmos is trusted to honour ORDER BY c.pos",
        "Not covered: the real Cosmos service; SQLite itself; concurrent callers of one vault",
    ])
