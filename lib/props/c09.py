"""C09 - After a crash, durably finished work is never executed again.

Model: coq/resume/Resume.v (the engine automaton of coq/engine started from the crash repair Fix.fix_plan of
coq/recover, with the in-memory image next to the durable one).  Monitor: MonRecover.mon_noreexec (no plugin
invocation of a sequence action that is Completed/Failed in the crash image or whose last durable attempt has no
error; none inside a sequence / block that is finished in the crash image; none at all when the plan is not durably
Running).  Theorems: coq/resume/props/C09.v (every well-formed crash image) and coq/imgwf/props/C09.v (the FULL
statement: every write-prefix crash image of every trace accepted by the uninterrupted-run automaton is well-formed -
a reachable-state invariant of coq/engine's automaton - hence c09_no_reexecution and c09_crash_chain_full) and
coq/chain/props/C09.v (every crash image left by a crashed RECOVERY on which the plan is not terminal is well-formed -
a reachable-state invariant of the RESUMED automaton, any deviation flags - hence c09_crash_chain_unconditional: any
number of crashes, no premise on any image).
Harness: harness/cmd/recover (every write prefix of every recorded run is a crash point; double crashes; thorough:
file-backed stores and real SIGKILLs of a child).  See props/recover_common.py.
"""
from vf import framework as fw
from props import recover_common as rc

# coq/imgwf: the lemma about coq/engine that the full statement needs, and the full theorems (first crash);
# coq/chain: the same for the resumed automaton, and the chain of crashes with no premise left
FULL_PROJECTS = (("imgwf", "full_statement"), ("chain", "chain_statement"))


def check_full(ctx):
    """Full .vo build of coq/imgwf and coq/chain (and of the projects they cite: c04, c06) and re-check of their
    props/C09.v with Print Assumptions; their theorems are obligations of this check."""
    good = True
    for proj, key in FULL_PROJECTS:
        good = check_full_one(ctx, proj, key) and good
    return good


def check_full_one(ctx, FULL, key):
    ok, log, where = fw.coq_build([FULL])
    ctx.oblige("full .vo build of coq/%s (make)" % FULL, ok)
    if not ok:
        ctx.violation(dict(kind="coq-build-failed", broken="first failing file: %s" % where, log=log[-3000:]), nofail=True)
        return False
    pc = fw.props_check(FULL, "C09")
    good = pc["ok"] and bool(pc["theorems"]) and not pc["axioms"] and pc["closed"] == len(pc["theorems"])
    for t in pc["theorems"]:
        ctx.oblige("theorem %s (%s)" % (t, pc["file"]), good)
    if isinstance(ctx.assumptions, dict):
        ctx.assumptions[key] = dict(file=pc["file"], theorems=pc["theorems"],
                                    closed_under_global_context=pc["closed"], axioms=pc["axioms"])
    if not good:
        ctx.violation(dict(kind="property-theorem-does-not-check", broken=pc["file"], log=pc["log"]), nofail=True)
    return good


def run(ctx):
    base = ctx.static_and_proofs

    def both(proj, extra_projects=()):
        # the partial theorems of coq/resume first (they set ctx.assumptions), then the full statement on top of them
        return base(proj, extra_projects) and check_full(ctx)
    ctx.static_and_proofs = both
    rc.run_check(ctx, "C09", double_quick=2, plans_quick=8, plans_thorough=90, frm=0)
