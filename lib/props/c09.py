"""C09 - After a crash, durably finished work is never executed again.

Model: coq/resume/Resume.v (the engine automaton of coq/engine started from the crash repair Fix.fix_plan of
coq/recover, with the in-memory image next to the durable one).  Monitor: MonRecover.mon_noreexec (no plugin
invocation of a sequence action that is Completed/Failed in the crash image or whose last durable attempt has no
error; none inside a sequence / block that is finished in the crash image; none at all when the plan is not durably
Running).  Theorems: coq/resume/props/C09.v.  Harness: harness/cmd/recover (every write prefix of every recorded
run is a crash point; double crashes; thorough: file-backed stores and real SIGKILLs).  See props/recover_common.py.
"""
from props import recover_common as rc


def run(ctx):
    rc.run_check(ctx, "C09", plans_quick=12, plans_thorough=90, frm=0)
