"""Structural tie of the C12 model (coq/api) to /repo/internal/execute/execute.go.

`check_api_shape(ctx)` regenerates, with harness/cmd/limiterprobe -set api, the statement shape of Plans.Start,
Plans.runPlan and Plans.Wait from the repository under test, proves `observed = assumed` (coq/apishape/ApiShape.v)
by vm_compute in a scratch .v, records the obligations (incl. the named order lemmas of ApiShape.v: the stopper and
the waiter are registered before pool.Submit; Start holds startMu across lookup, Read and runPlan) and reports a
mismatch as ctx.violation(..., nofail=True) naming the statement that moved.  Independent of check_mechanisms
(own Coq project, own assumed list): a change in sm.go does not make C12 alarm.  Fail-closed like SourceShape.
"""
import json
import os
import shutil

from vf import framework as fw
from props.mech import assumed_tokens, describe_diff

PROJ = "apishape"
LEMMAS = ["assumed_no_unknown", "runPlan_registers_before_submit", "runPlan_submit_ctx_not_cancellable", "start_holds_lock_across_lookup_read_launch",
          "wait_blocks_on_registered_waiter"]

SCRATCH = """From Coq Require Import List String Bool Arith.
From Coercion.ApiShape Require Import ApiShape.
Import ListNotations.
Open Scope string_scope.
Definition observed : list (string * list string) :=
%s.
Definition report := Eval vm_compute in shape_diff assumed observed.
Print report.
Lemma observed_no_unknown : no_unknown observed = true.
Proof. vm_compute. reflexivity. Qed.
Lemma api_shape_ok : observed = assumed.
Proof. vm_compute. reflexivity. Qed.
"""


def check_api_shape(ctx):
    """Returns dict(ok, tokens, functions, notes)."""
    work = os.path.join(ctx.work, "apishape")
    shutil.rmtree(work, ignore_errors=True)
    os.makedirs(work, exist_ok=True)
    res = dict(ok=False, tokens=0, functions=0, notes=[])
    ok, log, where = fw.coq_build([PROJ])
    for l in LEMMAS:
        ctx.oblige("api shape lemma ApiShape.%s (coq/%s/ApiShape.v, by vm_compute over the assumed list)" % (l, PROJ), ok)
    if not ok:
        ctx.violation(dict(kind="coq-build-failed", broken="first failing file: %s" % where, log=log[-3000:]),
                      nofail=True, tag="apishape")
        return res
    binp, blog = fw.build_harness("limiterprobe")
    if binp is None:
        ctx.oblige("api shape: limiterprobe builds", False)
        ctx.violation(dict(kind="harness-build-failed", broken="go build ./cmd/limiterprobe", log=blog[-3000:]),
                      nofail=True, tag="apishape")
        return res
    shape = os.path.join(work, "api.json")
    rc, o = fw.sh([binp, "-set", "api", "-repo", fw.REPO, "-out", shape], cwd=work, env=ctx.env, timeout=120)
    if rc != 0 or not os.path.exists(shape):
        ctx.oblige("api shape: limiterprobe parses internal/execute/execute.go", False)
        ctx.violation(dict(kind="api-source-shape-mismatch",
                           broken="ApiShape.api_shape_ok: the probe could not parse the source", log=o[-2000:]),
                      nofail=True, tag="apishape")
        return res
    probe = json.load(open(shape))
    fns = probe["functions"]
    res.update(tokens=sum(len(f["tokens"]) for f in fns), functions=len(fns))
    with open(os.path.join(work, "ApiShapeObserved.v"), "w") as f:
        f.write(SCRATCH % probe["coq"])
    rc, out = fw.sh(["coqc"] + fw.project_flags(PROJ) + ["ApiShapeObserved.v"], cwd=work, timeout=300)
    res["ok"] = rc == 0
    ctx.oblige("api source shape: observed = assumed (ApiShape.api_shape_ok by vm_compute; %d tokens of Start, runPlan, Wait in %s)"
               % (res["tokens"], probe["file"]), res["ok"])
    if not res["ok"]:
        notes = describe_diff(assumed_tokens(os.path.join(fw.project_dir(PROJ), "ApiShape.v")), fns, probe["file"])
        res["notes"] = notes
        first = notes[0] if notes else dict(what="no difference found by the driver; see log")
        ctx.violation(dict(kind="api-source-shape-mismatch",
                           broken="ApiShape.api_shape_ok (observed = assumed) no longer checks: %s: %s%s%s" % (
                               first.get("function", "?"), first.get("what"),
                               (" `%s`" % first["statement"]) if "statement" in first else "",
                               (" at %s" % first["at"]) if "at" in first else ""),
                           differences=notes[:40],
                           coq_report=dict(meaning="per function: 0 = equal, k+1 = first differing token k",
                                           functions=[f["name"] for f in fns], report=fw.parse_report(out) or []),
                           rests_on_it="coq/api Launch step: the waiter and the stopper are registered before the engine goroutine is spawned; "
                                       "Start is serialised by startMu (lemmas %s)" % ", ".join(LEMMAS[1:]),
                           log=out[-1500:]),
                      nofail=True, tag="apishape")
    return res
