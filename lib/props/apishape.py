"""Structural ties of three models to statement-level facts of the source that were the subject of `fix:` commits.

  check_api_shape(ctx)     C12  coq/api      /repo/internal/execute/execute.go: Start, runPlan, Wait       (ApiShape.v)
  check_reader_shape(ctx)  C15  coq/query    sqlite + cosmosdb reader.go: Search, List                       (ReaderShape.v)
  check_run_shape(ctx)     C05  coq/attempts /repo/internal/execute/sm/actions/actions.go: run               (RunShape.v)

Each regenerates, with harness/cmd/limiterprobe -set <set>, the statement shape of its functions from the repository
under test, proves `observed = assumed` (coq/apishape/<File>.v) by vm_compute in a scratch .v, records the
obligations (incl. the named order lemmas of that file, proved by vm_compute over the assumed list) and reports a
mismatch as ctx.violation(..., nofail=True, tag=<own tag>) naming the statement that moved.  The three are
independent of each other and of check_mechanisms (own assumed list, own source file(s)): a change in one source
file does not make a property tied to another file alarm.  Fail-closed like SourceShape (UNKNOWN:... tokens).
"""
import json
import os
import shutil

from vf import framework as fw
from props.mech import assumed_tokens, describe_diff

PROJ = "apishape"

SCRATCH = """From Coq Require Import List String Bool Arith.
From Coercion.ApiShape Require Import %(mod)s.
Import ListNotations.
Open Scope string_scope.
Definition observed : list (string * list string) :=
%(coq)s.
Definition report := Eval vm_compute in shape_diff assumed observed.
Print report.
Lemma observed_no_unknown : no_unknown observed = true.
Proof. vm_compute. reflexivity. Qed.
Lemma %(lemma)s : observed = assumed.
Proof. vm_compute. reflexivity. Qed.
"""

SETS = dict(
    api=dict(mod="ApiShape", set="api", tag="apishape", lemma="api_shape_ok", kind="api-source-shape-mismatch",
             what="Start, runPlan, Wait",
             lemmas=["assumed_no_unknown", "runPlan_registers_before_submit", "runPlan_submit_ctx_not_cancellable",
                     "start_holds_lock_across_lookup_read_launch", "wait_blocks_on_registered_waiter"],
             rests="coq/api Launch step: the waiter and the stopper are registered before the engine goroutine is spawned; "
                   "Start is serialised by startMu"),
    readers=dict(mod="ReaderShape", set="readers", tag="readershape", lemma="reader_shape_ok", kind="reader-source-shape-mismatch",
                 what="sqlite/cosmosdb Search, List",
                 lemmas=["assumed_no_unknown", "readers_submit_ctx_not_cancellable", "readers_job_defers_put_and_close",
                         "readers_results_created_before_returned_after", "sqlite_no_early_return_between_take_and_submit"],
                 rests="coq/query producer (produce_cancelled, c15_stream_closed_any_ctx): the job always runs, streams, then "
                       "closes the stream and puts the connection back"),
    attempts=dict(mod="RunShape", set="attempts", tag="runshape", lemma="run_shape_ok", kind="run-source-shape-mismatch",
                  what="actions.run",
                  lemmas=["assumed_no_unknown", "run_answer_wins_over_deadline", "run_job_closes_by_defer_sends_once"],
                  rests="coq/attempts: an answer that has arrived wins over the expired deadline; one send, ch closed by defer"),
)


def _check(ctx, key):
    cfg = SETS[key]
    mod, tag = cfg["mod"], cfg["tag"]
    work = os.path.join(ctx.work, tag)
    shutil.rmtree(work, ignore_errors=True)
    os.makedirs(work, exist_ok=True)
    res = dict(ok=False, tokens=0, functions=0, notes=[])
    ok, log, where = fw.coq_build([PROJ])
    for l in cfg["lemmas"]:
        ctx.oblige("shape lemma %s.%s (coq/%s/%s.v, by vm_compute over the assumed list)" % (mod, l, PROJ, mod), ok)
    if not ok:
        ctx.violation(dict(kind="coq-build-failed", broken="first failing file: %s" % where, log=log[-3000:]),
                      nofail=True, tag=tag)
        return res
    binp, blog = fw.build_harness("limiterprobe")
    if binp is None:
        ctx.oblige("%s: limiterprobe builds" % tag, False)
        ctx.violation(dict(kind="harness-build-failed", broken="go build ./cmd/limiterprobe", log=blog[-3000:]),
                      nofail=True, tag=tag)
        return res
    shape = os.path.join(work, "shape.json")
    rc, o = fw.sh([binp, "-set", cfg["set"], "-repo", fw.REPO, "-out", shape], cwd=work, env=ctx.env, timeout=120)
    if rc != 0 or not os.path.exists(shape):
        ctx.oblige("%s: limiterprobe parses the source" % tag, False)
        ctx.violation(dict(kind=cfg["kind"], broken="%s.%s: the probe could not parse the source" % (mod, cfg["lemma"]),
                           log=o[-2000:]), nofail=True, tag=tag)
        return res
    probe = json.load(open(shape))
    fns = probe["functions"]
    files = sorted({f.get("file") or probe["file"] for f in fns})
    res.update(tokens=sum(len(f["tokens"]) for f in fns), functions=len(fns))
    with open(os.path.join(work, mod + "Observed.v"), "w") as f:
        f.write(SCRATCH % dict(mod=mod, coq=probe["coq"], lemma=cfg["lemma"]))
    rc, out = fw.sh(["coqc"] + fw.project_flags(PROJ) + [mod + "Observed.v"], cwd=work, timeout=300)
    res["ok"] = rc == 0
    ctx.oblige("source shape: observed = assumed (%s.%s by vm_compute; %d tokens of %s in %s)"
               % (mod, cfg["lemma"], res["tokens"], cfg["what"], ", ".join(files)), res["ok"])
    if not res["ok"]:
        notes = describe_diff(assumed_tokens(os.path.join(fw.project_dir(PROJ), mod + ".v")), fns, probe["file"])
        res["notes"] = notes
        first = notes[0] if notes else dict(what="no difference found by the driver; see log")
        ctx.violation(dict(kind=cfg["kind"],
                           broken="%s.%s (observed = assumed) no longer checks: %s: %s%s%s" % (
                               mod, cfg["lemma"], first.get("function", "?"), first.get("what"),
                               (" `%s`" % first["statement"]) if "statement" in first else "",
                               (" at %s" % first["at"]) if "at" in first else ""),
                           differences=notes[:40],
                           coq_report=dict(meaning="per function: 0 = equal, k+1 = first differing token k",
                                           functions=[f["name"] for f in fns], report=fw.parse_report(out) or []),
                           rests_on_it="%s (lemmas %s)" % (cfg["rests"], ", ".join(cfg["lemmas"][1:])),
                           log=out[-1500:]),
                      nofail=True, tag=tag)
    return res


def check_api_shape(ctx):
    """C12. Returns dict(ok, tokens, functions, notes)."""
    return _check(ctx, "api")


def check_reader_shape(ctx):
    """C15. Returns dict(ok, tokens, functions, notes)."""
    return _check(ctx, "readers")


def check_run_shape(ctx):
    """C05. Returns dict(ok, tokens, functions, notes)."""
    return _check(ctx, "attempts")
