"""C15 - Exists, Search and List answer exactly from stored state and terminate.

Theorem side: coq/query/props/C15.v (the transcriptions of Exists / buildSearchQuery / Search / List of
both back ends answer exactly what the association-list specification says, for every history and
every filter / limit; every stream ends with its close; Running plans are always found).
Correspondence: generated vault histories run on the real sqlite vault (in memory, file-backed) and on
the cosmosdb vault over the package's fake client; every Exists / Search / List observation is judged in
Coq (a) by the property monitor relative to the specification store (kind 2 = violation) and (b)
against the model's own answer (kind 1 = broken correspondence). For cosmosdb, whose fake ignores query
text, the text and parameters of buildSearchQuery and of List are parsed into the Query.v AST, compared with the
model's AST and evaluated in Coq over the raw search items the vault actually wrote.
"""
import json

from vf import framework as fw

HEADER = """From Coercion.Base Require Import Plan.
From Coercion.Query Require Import Rows Query Spec QueryCheck."""

HINT = {        ("sqlite", "search", "stream-error"): "S2-like: the Search statement fails (original defect S2: IN (?,?)s syntax error for ByIDs / ByGroupIDs)",
        ("sqlite", "search", "wrong-items"): "Search returns the wrong plans, or the right plans with wrong contents (original defect S2 was of this kind: several statuses joined with AND gave an empty result)",
        ("sqlite", "list", "state-time-1754"): "S8-like: List returns 1754-08-30T22:43:41.128654848Z (the wrapped UnixNano of the zero time) as State.Start/End of a plan that has none",
        ("sqlite", "search", "state-time-1754"): "S8-like: Search returns 1754-08-30T22:43:41.128654848Z (the wrapped UnixNano of the zero time) as State.Start/End of a plan that has none",
        ("sqlite", "list", "never-closed"): "S3-like: the List stream is never closed",
        ("sqlite", "search", "never-closed"): "the Search stream is never closed",
        ("crash", None, "value"): "a background goroutine of the code under test killed the process (original defect S3: List used the connection after returning it to the pool)",
        ("cosmos", "update", "value"): "S7-like: the search item written by UpdatePlan differs from the plan (original defect S7: swarm dropped, the plan vanishes from every query)",
        ("cosmos", "create", "value"): "the search item written by Create differs from the plan",
        ("sqlite", "list-ctx", "never-closed"): "S9-like: List under a done context returned a channel that is never closed (the pool dropped the streaming job)",
        ("sqlite", "search-ctx", "never-closed"): "S9-like: Search under a done context returned a channel that is never closed (the pool dropped the streaming job)",
        ("cosmos", "list-ctx", "never-closed"): "S9-like: List under a done context returned a channel that is never closed",
        ("cosmos", "search-ctx", "never-closed"): "S9-like: Search under a done context returned a channel that is never closed",
        ("sqlite", "list", "panic-or-hang"): "the store is wedged: a call with a live context does not return (S9: the dropped job kept the only connection)",
        ("sqlite", "search", "panic-or-hang"): "the store is wedged: a call with a live context does not return (S9: the dropped job kept the only connection)",
        ("sqlite", "exists", "value"): "Exists answers wrongly or does not return (S1: always false; S9: store wedged after a dropped streaming job)",
        ("cosmos", "exists-fault", "value"): "Exists answered without an error although the point read failed with something other than 404",
        ("cosmos", "list-text", "value"): "the query cosmosdb List sends, evaluated over the search items actually written, is not the first <limit> plans newest first",
        ("cosmos", "query-text", "value"): "the query cosmosdb emits, evaluated over the search items actually written, does not select the matching plans"}

WHAT = {1: "result (nil / error) of a mutation", 2: "cosmosdb search item written by the mutation",
        3: "Exists", 4: "Search", 5: "List", 6: "text/parameters of cosmosdb buildSearchQuery (AST differs from the model's)",
        7: "cosmosdb buildSearchQuery evaluated over the search items actually written",
        8: "text/parameters cosmosdb List sends (AST differs from the model's)",
        9: "the query cosmosdb List sends, evaluated over the search items actually written",
        10: "cosmosdb Exists while point reads fail: 'false' (or 'true') without the service having said 404 (or returned the item)",
        11: "cosmosdb Search/List while queries fail: the stream must deliver one error and be closed",
        12: "Search under a cancelled / expired context: neither an error nor a stream closed within the bound carrying a newest-first prefix of the answer",
        13: "List under a cancelled / expired context: neither an error nor a stream closed within the bound carrying a newest-first prefix of the answer"}


def triples(r):
    if not r or r == [0]:
        return []
    return [tuple(r[i:i + 3]) for i in range(0, len(r) - 2, 3)]


def merge_hist(cases, prefix):
    h = {}
    for c in cases:
        for k, v in (c.get("dist", {}).get("hist") or {}).items():
            if k.startswith(prefix):
                h[k[len(prefix):]] = h.get(k[len(prefix):], 0) + v
    return dict(sorted(h.items(), key=lambda kv: (-kv[1], kv[0])))


def run(ctx):
    ctx.static_and_proofs("query")
    __import__("props.apishape", fromlist=["x"]).check_reader_shape(ctx)  # structural tie of the Search/List producers (fix 1fa6ce7)
    n = 234 if ctx.tier == "quick" else 15600
    cases = ctx.harness("c15", ["-n", str(n), "-tier", ctx.tier, "-scratch", ctx.work, "-procs", str(max(4, fw.NCPU // 2))], timeout=3000)
    if cases is None:
        ctx.evidence(dict(evaluations=0, distinct_nontrivial=0, rule="harness did not run", samples=[]))
        return
    witnesses = [c for c in cases if c.get("kind") in ("witness", "witness-absent")]
    cases = [c for c in cases if c.get("kind") not in ("witness", "witness-absent")]
    # known findings: the witness of the refutation theorem (c15_stream_closed_refuted_abandoned), replayed on the real code
    for c in witnesses:
        o = c.get("observed") or {}
        fid = o.get("witness")
        if c["kind"] == "witness-absent":
            ctx.notes.append("witness %s could not be produced on this tree: %s" % (fid, o.get("what")))
            continue
        ctx.oblige("witness %s replayed on the implementation" % fid, True)
        if o.get("finding_present"):
            what = "abandoned sqlite stream is never closed and wedges the store"
            if ctx.finding_status(fid) == "known":
                ctx.known(fid, what + " [witness replayed: %s]" % o.get("what"))
            else:
                ctx.violation(dict(kind="finding-not-listed-as-known", finding=fid, why=what, observed=o, input=c.get("input")))
        else:
            ctx.notes.append("witness %s: the implementation no longer shows the finding (%s)" % (fid, o.get("what")))
            ctx.say("NOTE: property=C15 witness %s: the implementation no longer shows the finding (%s)" % (fid, o.get("what")))
    crashed = [c for c in cases if not c.get("coq")]
    live = [c for c in cases if c.get("coq")]
    terms = [c["coq"] for c in live]
    results, infos = fw.eval_cases(ctx.work, "query", HEADER, "case", "check_case", "case_ok", terms,
                                    shards=(fw.NCPU if ctx.tier == "quick" else 4 * fw.NCPU), timeout=3000)
    for info in infos:
        ctx.oblige("corr_ok shard %d (%d histories): forallb case_ok cases = true" % (info["shard"], info["n"]), info["rc"] == 0)

    viol, broken = [], []
    for c in crashed:
        viol.append((0, c, None, "the worker process died while running this history: " + c.get("note", "")[:600]))
    for c, r in zip(live, results):
        if r is None:
            broken.append((c["dist"]["steps"], c, None, "model evaluation produced no result for this history"))
            continue
        for kind, i, what in triples(r):
            st = c["observed"][i] if i < len(c["observed"]) else {}
            why = "%s step #%d (%s): %s" % (c["kind"], i, st.get("kind"), WHAT.get(what, "?"))
            (viol if kind == 2 else broken).append((c["dist"]["steps"], c, i, why))

    def replay(entry, extra):
        _, c, i, why = entry
        obs = c.get("observed") or []
        d = dict(kind="c15", why=why, case=c["id"], backend=c.get("kind"), input=c.get("input"),
                 failing_step=i, step=(obs[i] if i is not None and i < len(obs) else None),
                 history=[dict(kind=s["kind"], input=s.get("input"), obs=(s.get("obs") if s["kind"] in ("create", "update", "delete") else None))
                          for s in obs[: (i or 0) + 1] if s["kind"] in ("create", "update", "delete")][-40:],
                 replay_cmd="VERIF_SEED=%s ./check C15 --tier %s   (history index %s)" % (ctx.seed, ctx.tier, c.get("input", {}).get("index")))
        d.update(extra)
        return d

    # one replay per distinct kind of failure (what x backend family), smallest history first
    def report(entries, nofail, label):
        seen = {}
        for e in sorted(entries, key=lambda e: (e[0], e[1]["id"], e[2] or 0)):
            c, i = e[1], e[2]
            st = (c.get("observed") or [{}])[i] if i is not None and i < len(c.get("observed") or []) else {}
            key = (c.get("kind", "").split("-")[0], st.get("kind"), classify(st))
            if key in seen:
                seen[key] += 1
                continue
            seen[key] = 1
            ctx.violation(replay(e, dict(classification=label, failure_key=list(key), hint=HINT.get(key, ""),
                                         failing_observations_total=len(entries))), nofail=nofail)
        return seen

    if viol:
        report(viol, False, "the property monitor (statement of C15 relative to the specification store) is false on what the implementation did")
    elif broken:
        # monitors hold everywhere but the model disagrees with the code: broken correspondence
        e = sorted(broken, key=lambda e: (e[0], e[1]["id"]))[0]
        ctx.violation(replay(e, dict(classification="model differs from implementation, all monitors true",
                                     broken="corr_ok (QueryCheck.check_case): " + e[3],
                                     failing_observations_total=len(broken))), nofail=True)

    steps = sum(c["dist"]["steps"] for c in live)
    obs_steps = sum(v for c in live for k, v in (c["dist"].get("hist") or {}).items()
                    if k in ("step:exists", "step:search", "step:list", "step:query-text", "step:list-text",
                             "step:exists-fault", "step:search-fault", "step:list-fault", "step:search-ctx", "step:list-ctx"))
    ctx.evidence(dict(
        evaluations=obs_steps,
        distinct_nontrivial=fw.distinct_nontrivial(live),
        rule="a history = creates / UpdatePlans / deletes (duplicate creates, deletes and updates of unknown ids, re-creation of deleted ids) "
             "on a fresh vault with 0-12 plans (thorough: up to 30), interleaved with Exists probes, a partial battery in the middle and a full "
             "battery at the end (Exists of every id incl. deleted / never created / nil; all 7 filter-kind combinations single- and multi-valued "
             "incl. unknown ids, absent groups, repeated values, status 150; Running; all statuses; all ids; the empty filter; List limits "
             "-1,0,1,n-1,n,n+1; cosmosdb: Exists of a stored and an unknown id while every point read is answered 404/409/410/412/429/500/503 or fails without a status, Search and List while every query fails; names and descriptions incl. numeric-looking strings; Search and List under contexts cancelled before the call, cancelled 0-200 us after it starts, or already expired (12 probes per history, then live-context Exists / Read / List / Search on the same store); the cosmosdb fake hands query results out in pages of 0 (= one page), 1, 2 or 3 items, in half of the paged histories with an empty page before every later page; one ByIDs list of 501 / 600 / 1100 entries per history, never-created ids with the live ids planted around the multiples of 500 oldest first, alone or with group / status filters). evaluations = observations judged (Exists + Search + List + parsed cosmos Search and List query texts); distinct = distinct "
             "(history, observations) by hash; non-trivial = at least 2 live plans at the end and more than 10 steps",
        samples=[dict(id=c["id"], backend=c["kind"], dist={k: v for k, v in c["dist"].items() if k != "hist"},
                      first_steps=c["observed"][:6], last_steps=c["observed"][-3:]) for c in live[3:6]],
        traces_validated_against_impl=obs_steps,
        histories=len(live), steps=steps, worker_crashes=len(crashed),
        known_finding_witnesses=[c.get("observed") for c in witnesses],
        distribution=dict(
            backend=fw.histogram(c["kind"] for c in live),
            cosmos_paging=fw.histogram(c["dist"].get("paging") for c in live if c["kind"] == "cosmos"),
            store_size_created=fw.histogram(c["dist"]["plans"] for c in live),
            store_size_live_at_end=fw.histogram(c["dist"]["live"] for c in live),
            tied_plans_at_end=fw.histogram(c["dist"]["tied_plans"] for c in live),
            filter_kind=merge_hist(live, "filter:"),
            filter_values=merge_hist(live, "filter-values:"),
            long_id_filters=merge_hist(live, "long-filter:"),
            search_result_sizes=merge_hist(live, "search-results:"),
            list_limit=merge_hist(live, "limit:"),
            list_skipped=merge_hist(live, "list:"),
            cosmos_list_text_limit=merge_hist(live, "list-text-limit:"),
            exists=merge_hist(live, "exists:"),
            cosmos_exists_under_read_fault=merge_hist(live, "exists-fault:"),
            cosmos_stream_under_query_fault=merge_hist(live, "stream-fault:"),
            streams_under_done_context=merge_hist(live, "ctx:"),
            skipped_after_wedge=merge_hist(live, "skipped-after-wedge"),
            bounds=dict(stream_idle_deadline_s=2, call_return_deadline_s=5, history_watchdog_s=90,
                        note="a stream is NeverClosed when it delivers nothing and is not closed for stream_idle_deadline_s; a call that does not "
                             "return within call_return_deadline_s is a hang (class 2) and the store counts as wedged"),
            step_kinds=merge_hist(live, "step:"),
            final_statuses=fw.histogram(s for c in live for s, k in c["dist"]["statuses"].items() for _ in range(k)),
        ),
        coq_shards=[dict(shard=i["shard"], n=i["n"], rc=i["rc"], wall_s=round(i["wall"], 1)) for i in infos],
    ), assumptions=[
        "the abstraction of uuids / strings / times / statuses to small numbers and the parser of the Cosmos SQL subset are harness code (trusted)",
        "SQLite and the Cosmos query engine are trusted to implement Query.run_query for the AST the code emits (ORDER BY ties: any order)",
        "UpdatePlan is only called with a plan object that agrees with the stored plan in id, group, name, description (what the engine does)",
        "cosmosdb Search/List through the package fake are only compared as sets and only for id filters / limit <= 0: the fake ignores the "
        "query text, ORDER BY and (by a type assertion on int) panics on @limit; the text ties (hooks VerifSearchQuery, VerifListQuery) cover what the real service would be sent",
        "NeverClosed is observed with a 2 s idle deadline, a hung call with a 5 s deadline (harness constants, see distribution.bounds); "
        "observations under contexts cancelled during the call depend on the schedule (they are left out of the history hash); the verdict does not",
        "sqlite theorems about result contents assume the State times written are representable (zero time or int64 nanoseconds); "
        "the sqlite specification has the codec's documented loss: instants at or before the Unix epoch read back as the zero time, "
        "a submit time before the epoch is stored as the epoch",
        "every generated family drains every stream it opens; a consumer that cancels its context and stops reading is covered only by the "
        "deterministic witness of known finding S11 (sqlite: never closed, store wedged), run in a process and vault of its own on every run",
        "Not covered: the real Cosmos service",
    ])


def classify(st):
    o = st.get("obs")
    if isinstance(o, dict) and "closed" in o:
        if o.get("class") == 2:
            return "panic-or-hang"
        if o.get("class") == 1:
            return "rejected"
        if o.get("err"):
            return "stream-error"
        if not o.get("closed"):
            return "never-closed"
        if any(str(it.get(k)) == "-6795364578871345152" for it in (o.get("items") or []) for k in ("Start", "End")):
            return "state-time-1754"
        return "wrong-items"
    return "value"
