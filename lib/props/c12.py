"""C12 - a plan executes at most once; repeated or racing Start is rejected safely; the API never panics.

Theorem side: coq/api/props/C12.v over the small-step model coq/api/ApiModel.v (Start = enter/lock, waiter check,
read+validate, launch; engine = Running write, terminal write, close waiter, delete waiter; any interleaving).
Correspondence: the real Workstream driven by harness/cmd/c12 - every history in a child process -
  (i)   sequential histories over {Submit, Start, Wait, Status, Plan} x {known, unknown, deleted, nil} ids with
        explicit await / open-gate / delete / tick steps: each call's result class and each plan's execution count
        must be producible by the model (set-of-states simulation with the model's own `step`, ApiCheck.check_ops);
  (ii)  bursts of 2-16 concurrent Start (+ concurrent Wait/Plan/Status) on one id: monitor only;
  (ii') held-read cases: a vault wrapper holds the store.Read inside one Start while other Starts are made and (if
        one of them started the plan) its execution finishes; then the held call goes on: monitor only;
  (iii) plan images with old / future / zero SubmitTime and non-NotStarted or otherwise unstartable images created
        directly in the vault, and histories in which time really passes (maxSubmit 6 s).
The property monitor (ApiCheck.hist_monitor / burst_monitor) is evaluated in Coq on every observation.
"""
import json
import os

from vf import framework as fw

HEADER = """From Coercion.Base Require Import Plan.
From Coercion.Api Require Import ApiModel ApiCheck."""

KIND = {
    1: "the process panicked / exited (or a call returned something outside the result enum)",
    2: "a plan was executed more than once (an action's plugin was called more than once, retries = 0)",
    3: "a second Start on the same plan returned nil",
    4: "Start returned nil on a plan that may not be started (stale / zero SubmitTime / not NotStarted / invalid / maxSubmit 0)",
    5: "a call on an id the vault does not have did not fail (empty plan, nil error)",
    6: "no Start of a concurrent burst on a startable plan succeeded",
    7: "executions differ from the Starts that returned nil (a Start returned nil but the plan was never executed, or a plan ran that nobody started)",
    8: "a failed Start returned something that is not an error",
    9: "Wait blocked until its deadline on a plan that is not executing (never started, finished, or unknown id): "
       "a rejected Start / finished run left a waiter behind - the rejection was not without side effects",
}
# which DESIGN section-7 defect a monitor kind points at (only used to word the report)
DEFECT = {1: "A1/A2 (panic)", 2: "A1", 3: "A1", 5: "A2", 7: "A1"}


def sizes(tier):
    if tier == "quick":
        return [dict(n=300, bursts=120, ticks=3, stale=18, maxlen=12, base=0)]
    # thorough: more of the same, plus a batch of long histories (up to 24 calls before quiescing)
    return [dict(n=10000, bursts=3000, ticks=30, stale=300, maxlen=12, base=0),
            dict(n=2000, bursts=0, ticks=0, stale=0, maxlen=24, base=100000)]


def evaluate(ctx, cases, tag=""):
    ok_cases = [c for c in cases if c.get("coq")]
    terms = [c["coq"] for c in ok_cases]
    results, infos = fw.eval_cases(os.path.join(ctx.work, "coq" + tag), "api", HEADER, "case", "check_case", "case_ok", terms)
    return ok_cases, results, infos


def case_size(c):
    return len(json.dumps(c.get("input", {})))


def panic_signature(c):
    tail = (c.get("observed") or {}).get("stderr_tail") or ""
    for line in tail.split("\n"):
        if line.startswith("panic: ") or line.startswith("fatal error: "):
            return line.strip()[:160]
    return (c.get("observed") or {}).get("abnormal") or "unclassified result"


def rerun(ctx, case, reps=3):
    """Re-run one spec in fresh children; returns the verdict lists of the repetitions."""
    spec = os.path.join(ctx.work, "rerun_%s.json" % case["id"])
    with open(spec, "w") as f:
        json.dump(case["input"], f)
    again = ctx.harness("c12", ["-spec", spec, "-reps", str(reps)], out_name="rerun_%s.jsonl" % case["id"], timeout=400)
    if not again:
        return []
    _, res, _ = evaluate(ctx, again, tag="_rerun_" + case["id"])
    return res


def run(ctx):
    ctx.static_and_proofs("api")
    __import__("props.apishape", fromlist=["x"]).check_api_shape(ctx)  # structural tie of the Launch order (runPlan/Start/Wait)
    if ctx.replay:
        rp = json.load(open(ctx.replay))
        spec = os.path.join(ctx.work, "replay_spec.json")
        with open(spec, "w") as f:
            json.dump(rp["input"], f)
        cases = ctx.harness("c12", ["-spec", spec, "-reps", "5"], timeout=600)
    else:
        cases = []
        for k, z in enumerate(sizes(ctx.tier)):
            part = ctx.harness("c12", ["-n", str(z["n"]), "-bursts", str(z["bursts"]), "-ticks", str(z["ticks"]),
                                       "-maxlen", str(z["maxlen"]), "-base", str(z["base"]), "-stale", str(z["stale"])],
                               out_name="cases_%d.jsonl" % k, timeout=3000)
            if part is None:
                cases = None
                break
            cases += part
    if cases is None:
        ctx.evidence(dict(evaluations=0, distinct_nontrivial=0, rule="harness did not run", samples=[]))
        return
    setup = [c for c in cases if c.get("kind") == "setup-error"]
    ctx.oblige("every child process set up its vault, plugins and workstream", not setup)
    if setup:
        ctx.violation(dict(kind="harness-setup-failed", broken="child could not build its world: " + setup[0].get("note", "")[:500],
                           input=setup[0].get("input")), nofail=True)
    cases, results, infos = evaluate(ctx, cases)
    for info in infos:
        ctx.oblige("corr_ok shard %d (%d cases): forallb case_ok cases = true" % (info["shard"], info["n"]), info["rc"] == 0)

    viol, broken, noresult = {}, [], []
    for c, r in zip(cases, results):
        if r is None:
            noresult.append(c)
        elif r[0] == 1:
            viol.setdefault(r[1], []).append((c, r))
        elif r[0] != 0:
            broken.append((c, r))

    # concrete violations: one replay per kind, smallest failing case first
    # (a panic is sub-divided by the first line of the Go panic message - for the wording of the report only)
    groups = {}
    for kind in sorted(viol):
        for c, r in viol[kind]:
            groups.setdefault((kind, panic_signature(c) if kind == 1 else ""), []).append((c, r))
    timing_flaky = []
    for (kind, sig) in sorted(groups):
        lst = sorted(groups[(kind, sig)], key=lambda x: case_size(x[0]))
        c, r = lst[0]
        if kind == 9:
            # the only deadline-based clause: confirm in fresh children before reporting. Sequential histories
            # first (they repeat exactly; in a burst the Wait must happen to arrive after a rejected Start).
            confirmed = None
            for cand, rr in sorted(lst, key=lambda x: (x[0]["kind"] == "burst", case_size(x[0])))[:4]:
                again = rerun(ctx, cand)
                if sum(1 for x in again if x and x[0] == 1) >= 2:
                    confirmed = (cand, rr)
                    break
                timing_flaky.append((cand["id"], rr, again))
            if confirmed is None:
                continue
            c, r = confirmed
        ctx.violation(dict(
            kind="c12-monitor-false", monitor_kind=kind, what=KIND.get(kind, "?") + ((": " + sig) if sig else ""),
            points_at=DEFECT.get(kind, "new"),
            at_call=r[2], case=c["id"], input=c["input"], observed=c["observed"], case_coq=c["coq"],
            failing_cases=len(lst), other_failing_ids=[x[0]["id"] for x in lst[1:12]],
            replay_cmd="./check C12 --replay <this file>   (or VERIF_SEED=%s ./check C12 --tier %s)" % (ctx.seed, ctx.tier)),
            tag="k%d" % kind)

    # model cannot follow although the monitor is true: re-run in fresh children, look for a failing input
    really_broken = []
    flaky = []
    for c, r in sorted(broken, key=lambda x: case_size(x[0]))[:6]:
        again = rerun(ctx, c)
        bad = [x for x in again if x is None or x[0] != 0]
        if len(bad) >= 2 or not again:
            really_broken.append((c, r, again))
        else:
            flaky.append((c["id"], r, again))
    if really_broken:
        c, r, again = really_broken[0]
        found = any(x and x[0] == 1 for x in again)
        ctx.violation(dict(
            kind="c12-correspondence-broken",
            broken="corr_ok (ApiCheck.check_ops / check_execs): the model of Start/Wait/Status/Plan cannot follow the implementation at call %d"
                   " (execution-count index %d); property monitor true on this observation" % (r[1], r[2] if len(r) > 2 else 0),
            verdict=r, reruns=again, case=c["id"], input=c["input"], observed=c["observed"], case_coq=c["coq"],
            failing_cases=len(broken)), nofail=not (viol or found), tag="corr")
    if noresult:
        ctx.violation(dict(kind="c12-model-evaluation-failed", broken="coqc produced no report for %d cases" % len(noresult),
                           case=noresult[0]["id"], log=[i["out"][-1500:] for i in infos if i["rc"] != 0][:2]), nofail=True, tag="eval")

    hist = [c for c in cases if c["kind"].startswith("hist")]
    bursts = [c for c in cases if c["kind"] == "burst"]
    calls = sum(len(c["observed"]["calls"]) for c in hist)

    def merge(key):
        h = {}
        for c in hist:
            for k, v in (c["dist"].get(key) or {}).items():
                h[k] = h.get(k, 0) + v
        return dict(sorted(h.items(), key=lambda kv: -kv[1]))
    res_hist = {}
    for c in hist:
        for o in c["observed"]["calls"]:
            k = "%s/%s -> %s" % (o["op"], o.get("id_kind") or "-", o["result"])
            res_hist[k] = res_hist.get(k, 0) + 1
    ctx.evidence(dict(
        evaluations=calls + len(bursts),
        distinct_nontrivial=fw.distinct_nontrivial(cases),
        rule="evaluations = API calls of sequential histories whose result class was compared with the model (incl. the quiescing "
             "Wait/Plan of every plan) + concurrent bursts judged by the monitor; distinct = distinct (pre-images, maxSubmit, call/id-kind/result "
             "sequence) resp. (target, #starts, others, gate, sorted results); non-trivial history = a known id receives a Start and at least one "
             "more call; non-trivial burst = >= 2 concurrent Starts on an id the vault has",
        samples=[dict(id=c["id"], input=c["input"], observed=c["observed"]) for c in (hist[:2] + bursts[:1])],
        traces_validated_against_impl=len(hist),
        histories=len(hist), bursts=len(bursts), child_processes=len(cases),
        abnormal_children=fw.histogram(c["dist"].get("abnormal") or "none" for c in cases),
        flaky_on_rerun=flaky + timing_flaky,
        distribution=dict(
            ops=merge("ops"), op_idkind=merge("op_idkind"), status_interval_idkind=merge("status_interval"),
            op_idkind_result=dict(sorted(res_hist.items(), key=lambda kv: -kv[1])[:60]),
            history_len=fw.histogram(c["dist"]["len"] for c in hist),
            pre_images=fw.histogram(x for c in hist for x in (c["dist"]["pre"] or ["none"])),
            max_submit_ms=fw.histogram(c["dist"]["max_ms"] for c in hist),
            burst_target=fw.histogram(c["dist"]["target"] for c in bursts),
            burst_starts=fw.histogram(c["dist"]["starts"] for c in bursts),
            burst_others=fw.histogram(len(c["dist"]["others"] or []) for c in bursts),
            burst_ok_count=fw.histogram(sum(1 for s in c["observed"]["starts"] if s == "ok") for c in bursts)),
        child_wall_ms_max=max([c["dist"].get("wall_ms", 0) for c in cases] or [0]),
        coq_shards=[dict(shard=i["shard"], n=i["n"], rc=i["rc"], wall_s=round(i["wall"], 1)) for i in infos],
    ), assumptions=[
        "error classes are read from Go types only (nil / context error / workflow/errors.Error / other), never from texts",
        "executions of a plan = max plugin call count per action of an all-ok plan with retries 0 and no bypass/continuous checks, counted by plan nonce",
        "the model's clock is the caller's: images are crafted >= 2 min away from the maxSubmit boundary, real sleeps overshoot it by 400 ms; the exact boundary is proved in the model only",
        "store writes of the engine succeed (a failed write is log.Fatal in sm.Start/End: outside C12's quantifier, which ranges over call orders and ids)",
        "a Wait on a plan the caller did not start (or saw finish) gets a 3 s deadline and counts as blocked when it expires (monitor clause 9, confirmed by 3 re-runs before it is reported)",
        "vault.Delete is used on plans that are not executing only; Status is called with positive, zero, -1 ns and -(1<<62) ns intervals (its results do not depend on the interval; a non-positive one must not panic)",
        "Not covered: recovery-started executions (C11), the cosmosdb vault, interleavings inside store.Read/validateStartState, cancellation of a context that is already dead when the call is made",
    ])
