"""C06 - Bypass and pre-check gating: what must not run does not run.

Theorem side (coq/c06, on top of the frozen engine core coq/engine):
  * MonC06.v      the monitor mon_gate: one small fold per scope (the plan, every block) over the plugin events and
                  the released plan - see the header of that file for the clauses (codes 1-8);
  * props/C06.v   c06_gating: for EVERY well-formed shape and EVERY trace the observable automaton accepts from
                  `init` (all interleavings, no bounds) the monitor holds, in prefix-closed form and at traces ending
                  in EvRelease; plus the reading lemmas of the monitor (gate_never: a failed pre / initial continuous
                  run => no sequence action of the scope EVER; bypass_silences; released_verdict).
Structural tie (pre_check smgraph.check_smgraph, re-proved against the graph REGENERATED from the Go source on every
run): plan_bypass_successors (PlanBypassChecks has exactly the skip edge to End and the edge to PlanPreChecks),
execute_sequences_gated / execute_sequences_gated_per_block (ExecuteSequences only through PlanPreChecks,
PlanStartContChecks, BlockBypassChecks, BlockPreChecks, BlockStartContChecks), after_block_deferred_no_sequences_of_this_block,
after_plan_deferred_only_end, block_end_only_through_block_deferred, deferred_checks_dominate_end(_after_prechecks),
every_state_can_reach_end / end_is_the_only_stop (the chain itself has no trap: a hang can only come from inside a state).

Correspondence (props/engine_common.run_engine_check): every run of the real engine is (a) accepted by the automaton and
released and (b) satisfies mon_gate evaluated directly on the observed trace.  Profile `gate` is bounded-exhaustive:
2 levels (plan, block 0) x 32 presence subsets of the five check groups x (bypass ok | no failure | first failing
group among the present pre/cont/post/deferred) = 224 cases, all in the quick tier; `mixed` adds random shapes with
failing bypasses, continuous groups with and without pre groups, holds and overruns; `cont` and `final` add failures of
the k-th continuous run and a failing stage at every position (what decides the final status of an entered scope).
Release obligation: a scope whose pre / initial continuous run fails must still END - a run in which Wait does not
return within 5 s (re-run 3x in fresh child processes) is a concrete violation (E2 was such a hang).
"""
from props import engine_common as ec
from props import smgraph

CODES = {
    1: "a plugin event of the scope after its bypass checks had all succeeded (something ran that must not run)",
    2: "a sequence action of the scope was invoked although a pre check / a check of the INITIAL continuous run of the "
       "scope has not returned ok (ungated sequence)",
    3: "the bypass passed although something else of the scope had already run",
    4: "the bypass checks all succeeded but the released plan does not show the scope Completed",
    5: "the pre group or the initial continuous run was not all-ok but the released plan does not show the scope Failed",
    6: "the scope is Failed in the released plan and no stage other than its bypass failed (a bypass failure alone failed it)",
    7: "the scope is Completed in the released plan although it was not bypassed and did not run to its end "
       "(a group not Completed / a sequence never run / a block not Completed)",
    8: "something of the scope ran but the released plan shows it neither Completed nor Failed",
}

SMGRAPH_FACTS = ["plan_bypass_successors", "execute_sequences_gated", "execute_sequences_gated_per_block",
                 "after_block_deferred_no_sequences_of_this_block", "after_plan_deferred_only_end",
                 "block_end_only_through_block_deferred", "deferred_checks_dominate_end",
                 "deferred_checks_dominate_end_after_prechecks", "every_state_can_reach_end", "end_is_the_only_stop",
                 "graph_as_declared", "phase_graph_as_declared"]


def _smgraph(ctx):
    res = smgraph.check_smgraph(ctx)
    missing = [t for t in SMGRAPH_FACTS if t not in res.get("theorems", [])]
    bad = [t for t in SMGRAPH_FACTS if t in res.get("failed", [])]
    ctx.oblige("smgraph facts cited by C06 exist and are re-proved about the current source: %s" % ", ".join(SMGRAPH_FACTS),
               not missing and not bad and bool(res.get("theorems")))
    ctx.notes.append("smgraph: ok=%s, %d theorems re-proved about the regenerated graph, failed=%s"
                     % (res.get("ok"), len(res.get("theorems", [])), res.get("failed")))
    return res


def run(ctx):
    out = ec.run_engine_check(
        ctx,
        profile=[("gate", 224, 6720), ("mixed", 150, 6000), ("cont", 48, 1500), ("final", 48, 1500)],
        n_quick=0, n_thorough=0,
        extra_header="From Coercion.C06 Require Import MonC06.",
        monitors=["mon_gate", ("mon_gate_diag", "list")],
        release_obligation=True,
        multi_quick=0, multi_thorough=400,
        proj="c06",
        pre_checks=[_smgraph],
        rule_extra="mon_gate_diag codes: " + "; ".join("%d = %s" % kv for kv in sorted(CODES.items()))
                   + ". Profile gate = all 224 (level, presence subset, bypass ok / first failing group) combinations.",
        assumptions=["the shape handed to the monitor (which groups a scope has, number of actions, tolerated failures) is "
                     "printed by the harness from the plan it submitted",
                     "structural tie of the phase graph to the Go source: coq/smgraph obligations " + ", ".join(SMGRAPH_FACTS)],
        not_covered=["Not covered: order of stages inside an entered scope (C01), the tolerance arithmetic deciding Failed vs "
                     "Completed for an entered block (C03; here: Failed needs a cause other than the bypass), attempts inside one "
                     "action (C05), entrance/exit delays (0 in every generated plan: status Stopped never occurs), recovered runs "
                     "(C09/C10: skipRecoveredChecks paths)"],
    )
    # which clauses of the monitor are violated, on how many traces (mon_gate_diag = [code; event index; scope])
    if out and out.get("mon_bad"):
        hist = {}
        for c, r in out["mon_bad"].get("mon_gate_diag", []):
            d = r[2] if r and len(r) > 2 else None
            if d and d[0] != 0:
                key = (d[0], "plan" if len(d) > 2 and d[2] == 0 else "block")
                hist.setdefault(key, []).append(c["id"])
        for (code, scope), ids in sorted(hist.items()):
            ctx.say("C06: clause %d violated in the %s scope on %d traces (e.g. %s): %s"
                    % (code, scope, len(ids), ", ".join(ids[:3]), CODES.get(code, "?")))
    return out
