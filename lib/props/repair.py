"""Crash repair (recovery.go: fixAction .. fixPlan, Recovery's switch): the repair side of C09 / C10.

check_repair(ctx) is called by the C09 / C10 checks; `python3 lib/props/repair.py [--tier quick|thorough]`
runs it alone (as property C10, scratch directory .work/C10, evidence in evidence/repair.json).

Theorem side: coq/recover/props/Repair.v.  Correspondence: harness/cmd/fixprobe calls the real fix* functions
(verifhooks, build tag verif) on arbitrary images at every level, on every distinct durable image of real runs
(in-memory sqlite vault behind a wrapper that reads the plan back after every write) and on the witnesses of the
R2 / R3 refutation lemmas; Coq checks model = implementation (function equality) on each, kernel-checked.
"""
import os
import sys

if __name__ == "__main__":
    sys.path.insert(0, os.path.join(os.path.dirname(os.path.abspath(__file__)), ".."))

from vf import framework as fw

HEADER = """From Coercion.Base Require Import Plan.
From Coercion.Recover Require Import Fix Witness FixCheck."""

KIND = {1: "fixAction", 2: "fixChecks", 3: "fixSeq", 4: "fixBlock", 5: "fixPlan", 6: "guards", 7: "isCompleted"}

BRANCHES = {
    "fixAction": {0: "not Running: untouched", 1: "Running, no attempt: reset", 2: "Running, only incomplete attempts: dropped, reset",
                  3: "last attempt complete, no error: Completed", 4: "incomplete trailing attempts dropped, then Completed",
                  5: "last attempt complete with error: Failed", 6: "incomplete trailing attempts dropped, then Failed"},
    "fixChecks": {0: "not Running: untouched", 1: "Running: reset with its actions"},
    "fixSeq": {0: "not Running: untouched", 1: "an action is Stopped: Running actions and sequence Stopped",
               2: "Stopped after fixAction (unreachable: fixAction never yields Stopped)", 3: "an action Failed: Failed",
               4: "nothing completed: NotStarted", 5: "all completed: Completed", 6: "partly completed: stays Running (will be resumed)"},
    "fixBlock": {0: "not Running: untouched", 1: "bypass group Completed: block Completed, return", 2: "pre group Failed: block Failed, return (R3)",
                 3: "cont group Failed: block Failed, return (R3)", 4: "post group Failed: block Failed, return (R3)",
                 5: "a sequence Stopped: block Stopped", 6: "nothing completed or failed: block NotStarted", 7: "stays Running",
                 15: "a sequence Stopped: block Stopped (sequences resumed first)", 16: "block NotStarted (sequences resumed first)",
                 17: "stays Running (sequences resumed first)"},
    "fixPlan": {0: "not Running: untouched", 1: "bypass group Completed: plan Completed, return", 2: "pre group Failed: plan Failed, return",
                3: "post group Failed: plan Failed, return", 4: "a block Stopped: plan Stopped, return", 5: "a block Failed: plan Failed",
                6: "no block completed/running/failed: plan NotStarted", 7: "all blocks, post and deferred Completed: plan Completed",
                8: "falls through: stays Running", 14: "cont group Failed; a block Stopped: plan Stopped", 15: "cont group Failed; a block Failed: plan Failed",
                16: "cont group Failed, then no block completed/running/failed: plan NotStarted (overrides Failed)",
                17: "cont group Failed, then everything Completed: plan Completed (overrides Failed)", 18: "cont group Failed: plan Failed, falls through"},
}
# branch 2 of fixSeq is dead code (proved: FixProofs.fix_action_not_stopped); everything else must be hit
REQUIRED = {k: [b for b in v if not (k == "fixSeq" and b == 2)] for k, v in BRANCHES.items()}

MONITORS = {1: "an object finished in the image (Completed/Failed/Stopped) was changed by repair",
            2: "fixAction's result violates its specification (last complete attempt decides; incomplete trailing attempts dropped)",
            3: "a durably successful action was executed again", 4: "a sequence inside a finished object was executed"}
CODES = {1: "image after repair differs from the model's", 2: "executed sequences / plugin calls differ from the model's",
         4: "entry point of Recovery differs from the model's", 9: "harness witness differs from the Coq witness"}


def check_repair(ctx, runs=None, arb=None):
    """Runs the repair correspondence. Returns a dict for the caller's evidence (also stored in ctx.repair)."""
    quick = ctx.tier == "quick"
    runs = runs if runs is not None else (24 if quick else 400)
    arb = arb if arb is not None else (900 if quick else 30000)
    ok, log, where = fw.coq_build(["recover"])
    ctx.oblige("full .vo build of coq/recover (make)", ok)
    if not ok:
        ctx.violation(dict(kind="coq-build-failed", broken="first failing file: %s" % where, log=log[-3000:]), nofail=True)
        return None
    pc = fw.props_check("recover", "Repair")
    for t in pc["theorems"]:
        ctx.oblige("theorem %s (%s)" % (t, pc["file"]), pc["ok"])
    if not pc["ok"] or not pc["theorems"]:
        ctx.violation(dict(kind="property-theorem-does-not-check", broken=pc["file"], log=pc["log"]), nofail=True)
        return None
    assumptions = dict(closed_under_global_context=pc["closed"], axioms=pc["axioms"], file=pc["file"], theorems=len(pc["theorems"]))

    cases = ctx.harness("fixprobe", ["-runs", str(runs), "-arb", str(arb), "-probe-every", "4" if quick else "2",
                                     "-entry", "80" if quick else "2000"],
                        out_name="repair_cases.jsonl", timeout=1500)
    if cases is None:
        return None
    died = [c for c in cases if c["kind"] in ("child-died", "run-hang", "probe-error")]
    all_cases = cases
    cases = [c for c in cases if c.get("coq")]
    terms = [c["coq"] for c in cases]
    results, infos = fw.eval_cases(os.path.join(ctx.work, "repair"), "recover", HEADER, "case", "check_case", "case_ok", terms)
    for info in infos:
        ctx.oblige("repair corr_ok shard %d (%d cases): forallb case_ok cases = true" % (info["shard"], info["n"]), info["rc"] == 0)

    cover = {k: {} for k in BRANCHES}
    bad = []
    for c, r in zip(cases, results):
        if c.get("note", "").startswith("panic"):
            bad.append((c, [1, 0], "the repair function panicked: " + c["note"][:400]))
        elif c.get("note", "").startswith("self-check"):
            bad.append((c, [1, 0], "two calls of the real fixPlan (hooks) on two reads of the same stored image gave different results: "
                        "the repair is not a function of the image (or the store returned two different images)"))
        elif r is None:
            bad.append((c, None, "model evaluation produced no result for this case (shard failed)"))
        elif r[0] != 0:
            bad.append((c, r, "%s; %s" % (CODES.get(r[0], "code %d" % r[0]),
                                          MONITORS.get(r[1], "all property monitors hold on what the implementation did") if len(r) > 1 else "")))
        else:
            k = KIND.get(r[1])
            if k in cover:
                cover[k][r[2]] = cover[k].get(r[2], 0) + 1
                if k == "fixPlan":
                    for b in r[3:]:
                        cover["fixBlock"][b] = cover["fixBlock"].get(b, 0) + 1
    for d in died:
        ctx.notes.append("harness child: %s %s" % (d["kind"], d.get("note", "")))
    if died and ctx.tier:
        hangs = [d for d in died if d["kind"] == "run-hang"]
        if hangs:
            ctx.violation(dict(kind="uninterrupted-run-hang", why="an uninterrupted run of a generated plan did not finish in 8 s", cases=hangs[:3]), nofail=True)

    if bad:
        def size(x):
            return len(x[0]["coq"])
        viol = sorted([b for b in bad if b[1] and len(b[1]) > 1 and b[1][1] != 0 and b[1][0] != 9], key=size)
        broken = sorted([b for b in bad if b not in viol], key=size)
        if viol:
            c, r, why = viol[0]
            ctx.violation(dict(kind="repair-violates-property", why=why, monitor=MONITORS.get(r[1]), case=c["id"], case_kind=c["kind"], input=c["input"],
                               observed=c.get("observed"), result=r, failing_cases=len(viol),
                               replay_cmd="VERIF_SEED=%s python3 lib/props/repair.py --tier %s" % (ctx.seed, ctx.tier)))
        if broken:
            c, r, why = broken[0]
            ctx.violation(dict(kind="repair-model-differs-from-code", why=why, broken="corr_ok (FixCheck.check_case): model of %s = implementation" % c["kind"],
                               case=c["id"], case_kind=c["kind"], input=c["input"], observed=c.get("observed"), result=r, failing_cases=len(broken),
                               replay_cmd="VERIF_SEED=%s python3 lib/props/repair.py --tier %s" % (ctx.seed, ctx.tier)), nofail=True)

    # known findings: the witnesses of the refutation lemmas, replayed on the real code
    for c in cases:
        if c["kind"] != "witness":
            continue
        o = c.get("observed") or {}
        fid = o.get("witness")
        present = bool(o.get("finding_present"))
        ctx.oblige("witness %s replayed on the implementation" % fid, True)
        if present:
            status = ctx.finding_status(fid) if ctx.pid == "C10" else next((f.get("status") for f in fw.load_findings() if f.get("id") == fid), None)
            what = {"R2": "interrupted check-group run is not repaired by recovery",
                    "R3": "fixBlock early return leaves an in-flight sequence Running",
                    "R5": "sequence repaired only in memory stays Running after a second crash",
                    "R6": "plan continuous-check failure abandons the running block at recovery"}[fid]
            if status == "known":
                pid, ctx.pid = ctx.pid, "C10"
                ctx.known(fid, what + " [witness replayed through the hooks: %s]" % o.get("what"))
                ctx.pid = pid
            else:
                ctx.violation(dict(kind="finding-not-listed-as-known", finding=fid, why=what, observed=o, input=c["input"]))
        else:
            ctx.notes.append("witness %s: the implementation no longer shows the finding (%s)" % (fid, o.get("what")))

    for c in all_cases:
        if c["kind"] == "witness-absent":
            o = c.get("observed") or {}
            ctx.notes.append("witness %s could not be produced on this tree: %s" % (o.get("witness"), o.get("what")))

    missing = {k: [b for b in REQUIRED[k] if b not in cover[k]] for k in REQUIRED}
    missing = {k: v for k, v in missing.items() if v}
    ctx.oblige("every branch of every fix function was exercised", not missing)

    reach = [c for c in cases if c["kind"] == "reachable"]
    probed = [c for c in reach if c["dist"].get("probed")]
    arbent = [c for c in cases if c["kind"] == "arb-entry"]
    mix = {}
    for c in reach + [c for c in cases if c["kind"] in ("arb-plan", "arb-entry")]:
        for k, v in (c["dist"].get("status_mix") or {}).items():
            key = ("reachable " if c["kind"] == "reachable" else "arbitrary ") + k
            mix[key] = mix.get(key, 0) + v
    def straight_to_end_with(c, what):
        o = c.get("observed") or {}
        return o.get("plan_status_after") in ("Completed", "Failed", "Stopped") and (o.get("running_left_mix") or {}).get(what, 0) > 0
    live = [c for c in reach if c["nontrivial"]]
    r2_like = [c for c in live if straight_to_end_with(c, "gaction")]
    r3_like = [c for c in live if straight_to_end_with(c, "seq")]
    rep = dict(
        evaluations=len(cases),
        distinct_nontrivial=fw.distinct_nontrivial(cases),
        rule="one evaluation = one image handed to one real fix* function (or guard) and compared with the model in Coq; distinct by hash of "
             "(script, image before, image after, calls, entry); non-trivial = every arbitrary image, and every reachable image whose plan is durably Running "
             "(recovery is only entered for those)",
        cases_by_kind=fw.histogram(c["kind"] for c in cases),
        branch_coverage={k: {"%d: %s" % (b, BRANCHES[k].get(b, "?")): n for b, n in sorted(v.items())} for k, v in cover.items()},
        branches_not_hit=missing,
        reachable_images=len(reach), real_runs=runs,
        reachable_running_images_where_repair_goes_to_End_leaving_a_check_action_Running_R2=len(r2_like),
        reachable_running_images_where_repair_goes_to_End_leaving_a_sequence_Running_R3=len(r3_like),
        reachable_R2_R3_examples=[dict(id=c["id"], input=c["input"], after=c["observed"].get("after")) for c in (r2_like[:1] + r3_like[:1])],
        entry_points_observed_on_real_recoveries=fw.histogram(c["dist"]["probed"] for c in probed),
        entry_points_observed_on_recoveries_of_arbitrary_images=fw.histogram(
            "%s (plan %s after fixPlan)" % (c["dist"]["probed"] or "none seen", c["observed"]["plan_status_after"]) for c in arbent),
        recoveries_leaving_something_running=sum(1 for c in probed if (c["observed"].get("recovery") or {}).get("running_left", 0) > 0),
        recoveries_hanging=sum(1 for c in probed if (c["observed"].get("recovery") or {}).get("hang")),
        crash_point_kinds=fw.histogram(c["dist"]["write"] for c in reach),
        status_mix=dict(sorted(mix.items())),
        profiles=fw.histogram(c["dist"].get("profile") for c in cases if c["kind"].startswith("arb")),
        disagreements=len(bad),
        samples=[dict(id=c["id"], kind=c["kind"], input=c["input"], observed=c.get("observed")) for c in (reach[5:6] + [c for c in cases if c["kind"] == "arb-block"][:1] + [c for c in cases if c["kind"] == "witness"])],
        coq_shards=[dict(shard=i["shard"], n=i["n"], rc=i["rc"], wall_s=round(i["wall"], 1)) for i in infos],
        print_assumptions=assumptions,
    )
    ctx.repair = rep
    return rep


ASSUMPTIONS = [
    "execution of the sequences fixBlock resumes is the oracle run_seq; the correspondence instantiates it with exec_seq over a scripted action run "
    "(FixCheck.run_act_script: the retry loop of sm/actions with the harness plugin), the theorems assume only run_contract",
    "instants are abstracted to zero / non-zero; time.Now() stamps and copies of a non-zero attempt End are 'non-zero'",
    "the hooks are called with a logging stub store (fixBlock -> execSeq only uses UpdateSequence / UpdateAction); real sqlite vaults are used to produce "
    "the reachable images and to observe the entry point of real recoveries",
    "entry point observed on a real recovery = the recovering engine's own first UpdatePlan (logged by the vault wrapper): new Start => Start; "
    "new End => End; neither => PlanBypassChecks. Nothing else is taken from a live recovery: the repaired image always comes from the hooks, called "
    "on the store's view of the image before the Workstream is opened; the store is read again only after Wait returned; a process in which a "
    "recovery did not end is replaced",
    "Not covered here: the resumed run after repair (stage 2: the engine automaton started from the repaired image)",
]


def main():
    import argparse
    ap = argparse.ArgumentParser()
    ap.add_argument("--tier", default=os.environ.get("VERIF_TIER", "quick"), choices=["quick", "thorough"])
    ap.add_argument("--seed", type=int, default=int(os.environ.get("VERIF_SEED", "1") or 1))
    ap.add_argument("--runs", type=int)
    ap.add_argument("--arb", type=int)
    a = ap.parse_args()
    os.chdir(fw.ROOT)
    ctx = fw.Ctx("C10", a.tier, a.seed)
    bad = fw.forbidden_scan([os.path.join(fw.COQ, "recover"), os.path.join(fw.COQ, "base")])
    ctx.oblige("no forbidden vernacular in coq/recover, coq/base", not bad)
    if bad:
        ctx.violation(dict(kind="forbidden-vernacular", lines=bad[:20]), nofail=True)
    rep = check_repair(ctx, a.runs, a.arb) if not bad else None
    if rep is not None:
        ctx.assumptions = rep.pop("print_assumptions")
        ctx.pid = "repair"          # evidence/repair.json (C10's own evidence file belongs to the C10 check)
        ctx.evidence(rep, ASSUMPTIONS)
        ctx.pid = "C10"
        print("repair: %d cases, %d disagreements, branches not hit: %s, wall %.1fs" % (rep["evaluations"], rep["disagreements"], rep["branches_not_hit"] or "none", __import__("time").time() - ctx.t0))
    for n in ctx.notes:
        print("note:", n)
    ctx.cleanup()
    sys.exit(ctx.exit_code())


if __name__ == "__main__":
    main()
