"""C03 - Tolerated-failure threshold stops new sequences and decides outcomes.

Theorem side (coq/c03, depends on coq/engine and coq/limiter):
  MonC03.mon_tol is the formal statement of the property over an observed trace (a fold with explicit small state, written
  without reference to the automaton; clauses [1]-[13] in the header of coq/c03/MonC03.v).  props/C03.v proves
    c03_tolerance                      forall sh tr s, shape_wf sh = true -> run sh init tr = Some s -> mon_tol (sh, tr) = true
    c03_tolerance_any_shape            the same without the premise
    c03_release                        at EvRelease fin: fin shows the block's last written status; plan Failed after a Failed block
    c03_bound_and_verdict              what acceptance means in arithmetic: f <= tol + conc; Failed => cause and I = 0;
                                       Completed => no cause and I = 0
    c03_block_verdict_schedule_independent   automaton level: with an action-determined oracle and no failing check the block's
                                       deciding write is Failed iff #would-fail > tol, for every schedule
  for every shape, trace and interleaving the observable engine automaton accepts (product invariant, no bounds), and
  re-states the mechanism theorems of coq/limiter (detailed model of ExecuteSequences with its unobservable steps:
  launch guard, failed bound + attained, conc = 1 stops, verdict, schedule independence, pre-counted failures), which
  mech.check_mechanisms re-checks and ties to the statement order of the source on every run.

Correspondence: every run of the real engine (profile `tol`: bounded-exhaustive tol -1..2 x conc 1..3 x <= 4 sequences x
failing subsets = 360 plans, the director permuting the completion order; plus `mixed`; plus 2-6 plans on one Workstream)
must be accepted by the automaton AND satisfy mon_tol; a false monitor is a concrete violation with that trace as replay.
"""
from props import engine_common as ec
from props import mech

CODES = {
    1: "more than ToleratedFailures + Concurrency sequences of a block failed",
    2: "a sequence was started although the launch condition forbids it (too many in flight, tolerance used up, or the block already decided)",
    3: "Concurrency 1: activity of a sequence after the failure that exceeded the tolerance",
    4: "a sequence's status did not go NotStarted -> Running -> Completed|Failed (or changed after its terminal write)",
    5: "a plugin of a sequence's action was entered / returned while the sequence was not started-and-unfinished",
    6: "an action of a never-started sequence was written with a status other than NotStarted",
    7: "block written Failed without cause (tolerance not exceeded, no check group of the block Failed, plan continuous checks not Failed)",
    8: "block written Completed although its tolerance was exceeded or one of its check groups Failed",
    9: "block's terminal write while a sequence was still in flight (outcome decided before the sequences finished)",
    10: "block status regressed / changed after its terminal write",
    11: "event of a later block before its Running write, or a later block entered after a Failed (or unfinished) block",
    12: "a block Failed but the plan's terminal write / released plan is not Failed",
    13: "the released plan shows the block with another status than the one last written",
}


def run(ctx):
    # the bounded-exhaustive family is 360 plans; the quick tier runs all of it
    res = ec.run_engine_check(
        ctx,
        profile=[("tol", 360, 360 * 15), ("mixed", 90, 3000)],
        n_quick=0, n_thorough=0,
        extra_header="From Coercion.C03 Require Import MonC03.",
        monitors=["mon_tol", ("mon_tol_diag", "list")],
        release_obligation=False,
        multi_quick=24, multi_thorough=600,
        proj="c03",
        pre_checks=[mech.check_mechanisms],
        rule_extra="mon_tol_diag codes: %s." % "; ".join("%d = %s" % kv for kv in sorted(CODES.items())),
        assumptions=["the launch condition I < conc /\\ (tol < 0 \\/ f + I <= tol + conc - 1) is the observable form of "
                     "'nothing not yet started is started once the tolerance is exceeded': the engine counts a failure after "
                     "the terminal write and before freeing the slot (Limiter.limiter_launch_guard proves it from the detailed "
                     "model; limiter_failed_bound_attained shows it is tight)"],
        not_covered=["Not covered: blocks before the running one (C02/C08), writes of actions of started sequences (C05/C08), "
                     "quiescence at release (C04); hangs are outside this property (release obligation: C04/C06)"],
    )
    return res
