"""C11 - only live Running plans are resumed; stale ones closed (Failed / ExceedRecovery, nothing left
Running, no plugin invoked); everything else untouched; with recovery disabled nothing happens.

Theorem side: coq/select/props/C11.v over the model coq/select/Select.v (a transcription of
internal/execute/recovery.go and of the recovery part of execute.New) and the specification
coq/select/SelectSpec.v.
Correspondence: stores of 0-8 plans (never started, terminal, Running crash images of real runs; aged
or live relative to the configured maximum, 200 ms / 1 s / x10 away from the boundary on both sides),
recovery on/off, opened with the REAL coercion.New, one child process per store. Compared with the
model: the complete post-state of every plan that is not resumed (every object's status/start/end, the
reason, "nothing else changed"), no plugin call and no vault write for untouched plans, activity for
every plan the model resumes. The property monitor (SelectCheck.monitor) is evaluated on the same
observation.
"""
import json
import os

from vf import framework as fw

HEADER = """From Coercion.Base Require Import Plan.
From Coercion.Select Require Import Rows Select SelectSpec SelectCheck."""

CODES = {
    1: "post-state (status/start/end of some object, or the reason) of a plan that must not be resumed differs from the model",
    2: "a plugin was called for a plan that must not be resumed",
    3: "a live Running plan shows no sign of having been resumed (no plugin call, no vault write)",
    4: "the vault saw Update* calls for a plan that must stay untouched",
    5: "something other than states/reason changed in a plan that must not be resumed",
    6: "observation list and store differ in length",
    7: "a live Running plan was not resumed but closed with reason ExceedRecovery",
    8: "the Vault implements storage.Recovery but coercion.New used it (Search/Read/Update*) before calling Recovery(), or never called it",
    11: "coercion.New returned an error although its context was live and no store operation fails",
    12: "coercion.New returned an error, but something was executed or the store is not what a prefix of the closes' writes leaves",
    10: "the Update* calls that closed an aged plan are not the model's write list (every row but the plan's in walk order, then the plan row)",
    9: "inconclusive: the age boundary fell between the clock readings before and after coercion.New",
}


R9_WHAT = ("cosmosdb UpdatePlan patches the plan item and then replaces the search entry (updater.go patchPlan); torn between the two on the FIRST "
           "write of a run (sm.Start: NotStarted -> Running; crash, or the search-partition write refused and the engine log.Fatalf's) the item is "
           "durably Running while its search entry still says NotStarted; Vault.Recovery (cosmosdb/recovery.go) and execute.recover only search "
           "entries that say Running, so the plan is never repaired, never resumed and Start rejects it: durably Running yet not considered")


BATCH_BYTES = 4_000_000   # text of case terms per Coq round (16 shards): bounds time and memory of every coqc process


def full_term(c):
    """The self-contained Coq term of one run of one store."""
    if c.get("full_term"):
        return c["full_term"]
    return "(%s [%s])" % (c["_head"], c["coq"])


def evaluate(ctx, good):
    """Evaluate check_case on every observed run. The runs of one store (one for an ordinary store, one per crash
    point for the family 'crash during the close') share the store term. Rounds of bounded size; the cases of a
    shard that produced no report are evaluated again, in small rounds, before they count as failed.
    -> (result per case: [code, plan index, monitor] | None, shard infos)"""
    groups, order = {}, []
    for c in good:
        if not c.get("full_term"):
            c["_head"] = c["dist"].pop("case_head")      # kept out of evidence and replays' dist
        key = ("full", id(c)) if c.get("full_term") else (c["dist"].get("group"), c["_head"])
        if key not in groups:
            groups[key] = []
            order.append(key)
        groups[key].append(c)
    items = []
    for key in order:
        ms = groups[key]
        term = ms[0]["full_term"] if key[0] == "full" else "(%s [%s])" % (key[1], "; ".join(m["coq"] for m in ms))
        items.append((term, ms))
    result = {}
    infos = []
    rounds = [0]

    def one_pass(todo, budget, shards, timeout):
        batches, cur, sz = [], [], 0
        for it in todo:
            if cur and sz + len(it[0]) > budget:
                batches.append(cur)
                cur, sz = [], 0
            cur.append(it)
            sz += len(it[0])
        if cur:
            batches.append(cur)
        failed = []
        for part in batches:
            work = os.path.join(ctx.work, "coq_%d" % rounds[0])
            res, inf = fw.eval_cases(work, "select", HEADER, "case", "check_case", "case_ok", [t for t, _ in part],
                                     shards=shards, timeout=timeout)
            for x in inf:
                x["shard"] = x["shard"] + 100 * rounds[0]
                x["bytes"] = sum(len(t) for t, _ in part)
            infos.extend(inf)
            rounds[0] += 1
            for (t, ms), r in zip(part, res):
                if r is None or len(r) != 3 * len(ms):
                    failed.append((t, ms))
                    continue
                for k, m in enumerate(ms):
                    result[id(m)] = r[3 * k:3 * k + 3]
            if not os.environ.get("VERIF_KEEP"):
                import shutil
                shutil.rmtree(work, ignore_errors=True)
        return failed
    failed = one_pass(items, BATCH_BYTES, fw.NCPU, 600)
    retried = len(failed)
    if failed:
        failed = one_pass(failed, BATCH_BYTES // 4, max(2, fw.NCPU // 2), 900)
    return [result.get(id(c)) for c in good], infos, retried, len(failed)


def run(ctx):
    ctx.static_and_proofs("select")
    n = 180 if ctx.tier == "quick" else 2400
    args = ["-n", str(n)] + (["-big"] if ctx.tier == "thorough" else [])
    only = None
    recorded = None
    if ctx.replay:
        rp = json.load(open(ctx.replay))
        if rp.get("case_coq", "").startswith("(Build_case") and rp["case_coq"].count("(") == rp["case_coq"].count(")"):
            # the recorded observation is re-evaluated as well (timing makes a fresh run differ)
            recorded = dict(id=str(rp.get("case")) + "-recorded", kind="store", coq=rp["case_coq"], full_term=rp["case_coq"], nontrivial=True, hash="recorded",
                            dist=rp.get("dist") or {"plans": 0, "recovery": True, "max_age": "?", "file_backed": False, "new_ms": 0},
                            input=rp.get("input") or {}, observed=rp.get("store") or [])
        only = rp.get("input", {}).get("index")
        if only is not None:
            args = ["-n", str(int(only) + 1), "-only", str(only)] + (["-big"] if rp.get("tier") == "thorough" else [])
            ctx.env["VERIF_SEED"] = str(rp.get("seed", ctx.seed))
    cases = ctx.harness("c11", args, timeout=3000)
    if cases is None:
        ctx.evidence(dict(evaluations=0, distinct_nontrivial=0, rule="harness did not run", samples=[]))
        return
    probes = [c for c in cases if c.get("kind") == "cosmos-recovery-probe"]
    cases = [c for c in cases if c.get("kind") != "cosmos-recovery-probe"]
    probe = (probes[0].get("observed") or {}) if probes else None
    if probe is not None:
        # the REAL cosmosdb.Vault must implement storage.Recovery: coercion.New's type assertion decides, at run
        # time, whether the search entries are repaired before the engine searches for Running plans
        ctx.oblige("*cosmosdb.Vault implements storage.Recovery (run-time type assertion on the real type)", bool(probe.get("implements_recovery")))
        if not probe.get("implements_recovery"):
            ctx.violation(dict(
                kind="vault-lost-its-recovery-interface", monitor_false=True, failure_class="vault-lost-its-recovery-interface",
                why="`_, ok := any(vault).(storage.Recovery)` is false for %s: coercion.New then skips the Vault's Recovery() silently, the search "
                    "entries a crash left behind are never repaired, and a finished plan whose search entry still says Running is a candidate of "
                    "start-up recovery (model: open_workstream with implements = false keeps v_stale; c11_storage_recovery_first needs implements = true; "
                    "example c11_ex_unrepaired_index_refutes)" % probe.get("vault_type"),
                probe=probe, input=dict(probe="cosmosdb.NewFakeVaultOpts(reg, \"swarm\", 0); any(v).(storage.Recovery)"),
                replay_cmd="./check C11   (the probe runs on every invocation)"))
        elif probe.get("stopped_at") == "complete" and not probe.get("search_entry_repaired"):
            ctx.violation(dict(
                kind="vault-recovery-does-not-repair", monitor_false=True, failure_class="vault-recovery-does-not-repair",
                why="plan item %s, search entry still Running; Search(Running) lists the plan; after Recovery() the search entry is still %s"
                    % (probe.get("plan_item_status"), probe.get("search_entry_status_after_recovery")), probe=probe,
                input=dict(probe="cosmosdb fake: UpdatePlan with the search-partition write failing, then Recovery()")))
    # R9 (known, not repaired): the first UpdatePlan of a run torn between the plan item and the search entry
    torn = (probe or {}).get("torn_first_write")
    if isinstance(torn, dict) and torn.get("torn"):
        if ctx.finding_status("R9") == "fixed":
            ctx.violation(dict(kind="torn-first-update-leaves-running-plan-unlisted", monitor_false=True, failure_class="R9-returned",
                               why=R9_WHAT + " -- listed as fixed in known_findings.json but reproduced by the probe", probe=torn,
                               input=dict(probe="cosmosdb fake: Create NotStarted; UpdatePlan(Running) with the search-partition write refused")))
        else:
            ctx.known("R9", R9_WHAT + " [witness of this run: real cosmosdb updater over the package's fake, plan item %s, search entry status %s, UpdatePlan error %s; "
                      "model: c11_ex_torn_first_write_refuted]" % (torn.get("plan_item_status"), torn.get("search_entry_status"), torn.get("update_plan_returned_error")))
    if recorded is not None:
        cases = [recorded] + cases
    good = [c for c in cases if c.get("coq")]
    lost = [c for c in cases if not c.get("coq")]
    results, infos, retried, unevaluated = evaluate(ctx, good)
    # a shard whose corr_ok failed is an obligation not discharged unless every case of it was evaluated (then the
    # failing cases are reported one by one below); a shard that died and whose cases passed on re-evaluation is not
    for info in infos:
        ctx.oblige("corr_ok round %d shard %d (%d stores): forallb case_ok cases = true" % (info["shard"] // 100, info["shard"] % 100, info["n"]),
                   info["rc"] == 0 or info["report"] is None)
    ctx.oblige("every observed run was evaluated by the model (%d store terms re-evaluated after their shard died, %d still without a result)"
               % (retried, unevaluated), unevaluated == 0)

    bad, inconclusive = [], []
    code_of = {}
    for c, r in zip(good, results):
        if r is None:
            bad.append((c, None, "model evaluation produced no result for this store (coqc failed on its shard)", False))
            continue
        code, ix, mon = r[0], r[1], r[2]
        code_of[id(c)] = code
        if code == 9:
            inconclusive.append(c)
            if mon == 1:
                continue
        if code != 0 or mon != 1:
            obs = (c.get("observed") or [])
            what = CODES.get(code, "model and implementation agree on this store") if code else "model and implementation agree, but the property monitor is false"
            bad.append((c, obs[ix] if ix < len(obs) else None, "plan #%d: %s" % (ix, what), mon != 1))
    # a store whose child died: nothing may have been resumed by a correct implementation only if ...
    # we cannot know without the observation; such stores are reported, and fail the run when frequent.
    ctx.oblige("every store was observed (children that crashed or hung: %d of %d)" % (len(lost), len(cases)),
               len(lost) * 20 <= max(len(cases), 1))
    if lost and len(lost) * 20 > len(cases):
        c = lost[0]
        ctx.violation(dict(kind="stores-not-observable", broken="corr_select: the child process running coercion.New crashed or hung on %d of %d stores"
                           % (len(lost), len(cases)), case=c["id"], input=c.get("input"), note=c.get("note", "")[:3000]), nofail=True)
    if bad:
        # one VIOLATION per class of failure (a concrete replay each), property-monitor-false classes first,
        # the smallest store of each class
        def klass(x):
            c, o, why, monfalse = x
            code = code_of.get(id(c))
            if c["dist"].get("crash_after_write"):
                return "crash-during-close"
            if o and o.get("status") == "Running" and o.get("after_status") == "Failed" and o.get("running_after", 0) > 0:
                return "aged-plan-half-closed"
            if code == 7:
                return "live-plan-closed"
            if code == 8:
                return "vault-used-before-its-recovery"
            if c["dist"].get("context", "live") != "live":
                return "new-with-done-context"
            if c["dist"].get("crash_after_write"):
                return "crash-during-close"
            if code == 10 or (o and o.get("status") == "Running" and o.get("after_reason") == "FRExceedRecovery" and o.get("first_row_written", 1) == 0 and o.get("objects", 1) > 1):
                return "close-write-order"
            if c["dist"].get("stale_index_plans") and o is not None and (c.get("observed") or []).index(o) in c["dist"]["stale_index_plans"]:
                return "terminal-plan-listed-by-stale-index-touched"
            return "code-%s" % code
        groups = {}
        for x in bad:
            groups.setdefault(klass(x), []).append(x)
        order = sorted(groups, key=lambda k: (not any(x[3] for x in groups[k]), k not in ("aged-plan-half-closed", "live-plan-closed"), k))
        for k in order[:4]:
            xs = sorted(groups[k], key=lambda x: (not x[3], x[0]["dist"]["plans"]))
            c, plan_obs, why, monfalse = xs[0]
            if k == "aged-plan-half-closed":
                why += " -- aged plan closed incompletely: the plan row is Failed but %d object(s) in it are still Running in the store (%d Update* call(s) seen)" % (
                    plan_obs["running_after"], plan_obs.get("vault_writes", 0))
            elif k == "live-plan-closed" and plan_obs:
                why += " -- witness of the most recent activity: %s (age kind %s, %.3f s old at crafting, maxAge %s); stored afterwards: %s/%s" % (
                    plan_obs.get("witness"), plan_obs.get("age_kind"), plan_obs.get("age_ns", 0) / 1e9, c["dist"].get("max_age"),
                    plan_obs.get("after_status"), plan_obs.get("after_reason"))
                if str(plan_obs.get("witness", "")).startswith("attempt."):
                    why += " -- the recent record is an attempt: lastUpdate ignores attempts"
            elif k == "close-write-order" and plan_obs:
                why += " -- the first Update* call of the close rewrote row %s of the plan in walk order (0 = the plan row, which the model writes LAST: while it is Running the next start-up repeats an interrupted close; R10)" % plan_obs.get("first_row_written")
            elif k == "crash-during-close" and plan_obs:
                why += " -- incarnation 1 died after write %s of start-up recovery (closing a stale Running plan), incarnation 2 then opened the same store: afterwards %s/%s, %d plugin call(s) over both incarnations, %d vault write(s) by incarnation 2, %d object(s) Running" % (
                    c["dist"].get("crash_after_write"), plan_obs.get("after_status"), plan_obs.get("after_reason"), plan_obs.get("plugin_calls", 0),
                    plan_obs.get("vault_writes", 0), plan_obs.get("running_after", 0))
            elif k == "new-with-done-context":
                why += " -- coercion.New was handed a context that was %s before the call and returned %s; expected: an error, or a complete recovery - never a Workstream whose Running plans were left alone (theorem c11_new_error_or_complete_recovery)" % (
                    c["dist"].get("context"), ("the error: " + str(c["dist"].get("new_error"))[:160]) if c["dist"].get("new_returned_error") else "a Workstream and a nil error")
            elif k == "vault-used-before-its-recovery":
                why = "the Vault implements storage.Recovery; calls in order of first use: %s; calls made before Recovery(): %s" % (
                    c["dist"].get("vault_call_order"), (c["dist"].get("calls_before_recovery") or [])[:8])
            elif k == "terminal-plan-listed-by-stale-index-touched":
                why += " -- this plan is durably %s; the Vault's search index still listed it as Running until Recovery(); afterwards %s/%s, %d plugin call(s), %d vault write(s); vault calls in order of first use: %s" % (
                    plan_obs.get("status"), plan_obs.get("after_status"), plan_obs.get("after_reason"), plan_obs.get("plugin_calls", 0),
                    plan_obs.get("vault_writes", 0), c["dist"].get("vault_call_order"))
            elif plan_obs and plan_obs.get("status") == "Running" and plan_obs.get("after_status") == "Failed" and plan_obs.get("after_reason") != "FRExceedRecovery":
                why += " -- aged plan closed with stored reason %s instead of FRExceedRecovery" % plan_obs.get("after_reason")
            ctx.violation(dict(
                kind="recovery-selection-differs" if not monfalse else "property-violated", failure_class=k,
                why=why, monitor_false=monfalse, case=c["id"], input=c["input"], dist=c["dist"], offending_plan=plan_obs,
                store=c.get("observed") or [], failing_cases=len(xs), failing_cases_all_classes=len(bad), case_coq=full_term(c),
                broken=None if monfalse else "corr_ok (SelectCheck.case_ok): the implementation's recovery left a store the model does not predict",
                replay_cmd="VERIF_SEED=%s ./check C11 --tier %s   (store index %s; or ./check C11 --replay <this file>)"
                           % (ctx.seed, ctx.tier, c["input"].get("index"))),
                nofail=not monfalse)

    crash_cases = [c for c in good if c["dist"].get("crash_after_write")]
    half = [(c, d) for c in crash_cases for d in (c.get("observed") or [])[:1]
            if d["status"] == "Running" and d["after_status"] == "Failed" and d.get("running_after", 0) > 0]
    plans = [d for c in good for d in (c.get("observed") or [])]
    resumed = [d for d in plans if d["plugin_calls"] + d["vault_writes"] > 0 and d["after_reason"] != "FRExceedRecovery"]
    aged = [d for d in plans if d["status"] == "Running" and d["after_reason"] == "FRExceedRecovery" and d["after_status"] == "Failed"]
    unfinished = [d for d in plans if d["wait"] != "returned"]

    def cls(c, d):
        if not c["dist"]["recovery"]:
            return "recovery-off"
        if d["status"] != "Running":
            return "not-running"
        return "running"
    ctx.evidence(dict(
        evaluations=len(plans),
        distinct_nontrivial=fw.distinct_nontrivial(good),
        rule="evaluations = plans observed through coercion.New (stores x plans); a store is non-trivial when it holds at least one durably "
             "Running plan; distinct = by hash of (recovery flag, maxAge, per plan: status, age kind, witness field, size, kinds of Running "
             "objects, status and reason afterwards)",
        samples=[dict(id=c["id"], input=c["input"], dist=c["dist"], plans=c["observed"][:4]) for c in good[:3] if c.get("observed")][:3]
                or [dict(id=c["id"], input=c["input"], dist=c["dist"]) for c in good[:2]],
        traces_validated_against_impl=len(good),
        stores=len(cases), stores_observed=len(good), stores_lost=[dict(id=c["id"], note=c.get("note", "")[:400]) for c in lost][:10],
        inconclusive_boundary=len(inconclusive),
        cosmosdb_recovery_probe=probe,
        crash_during_close=dict(
            cases=len(crash_cases), stores=len({c["input"]["index"] for c in crash_cases}),
            what="a stale Running plan is closed by an incarnation that dies after the j-th Update* of start-up recovery, for every j of the close; "
                 "a second incarnation then opens the same store; the model (children first, ending at the plan's last activity; plan row last) predicts: the second incarnation finds the plan Running and stale again and completes the close: Failed/ExceedRecovery, nothing Running, never handed to runPlan, no plugin call",
            observation_not_alarmed="none since fix f93b03f (R10): the second incarnation repeats an interrupted close; cases_with_objects_left_running must be 0",
            cases_with_objects_left_running=len(half),
            example=(dict(case=half[0][0]["id"], j=half[0][0]["dist"]["crash_after_write"], objects=half[0][1]["objects"],
                          left_running=half[0][1]["running_after"], input=half[0][0]["input"]) if half else None)),
        plans_resumed=len(resumed), plans_aged_out=len(aged), plans_unfinished_at_deadline=len(unfinished),
        distribution=dict(
            plans_per_store=fw.histogram(c["dist"]["plans"] for c in good),
            case_kind=fw.histogram(c.get("kind") for c in good),
            context_given_to_new=fw.histogram("%s / recovery %s -> %s" % (c["dist"].get("context"), "on" if c["dist"]["recovery"] else "off",
                                                                          "error" if c["dist"].get("new_returned_error") else "nil error") for c in good),
            crash_after_write_j=fw.histogram(c["dist"].get("crash_after_write") for c in crash_cases),
            first_row_written_when_closing=fw.histogram(d.get("first_row_written") for c in good if not c["dist"].get("crash_after_write")
                                                        for d in (c.get("observed") or []) if d["status"] == "Running" and d["after_reason"] == "FRExceedRecovery"),
            recovery_flag=fw.histogram(c["dist"]["recovery"] for c in good),
            max_age=fw.histogram(c["dist"]["max_age"] for c in good),
            file_backed=fw.histogram(c["dist"]["file_backed"] for c in good),
            vault_implements_storage_recovery=fw.histogram(bool(c["dist"].get("indexed_vault")) for c in good),
            stale_index_entries_per_indexed_vault=fw.histogram(len(c["dist"].get("stale_index_plans") or []) for c in good if c["dist"].get("indexed_vault")),
            vault_call_order=fw.histogram(">".join(c["dist"].get("vault_call_order") or []) for c in good if c["dist"].get("indexed_vault")),
            status_of_plans_listed_by_stale_index=fw.histogram((c.get("observed") or [])[j]["status"] + "/" + (c.get("observed") or [])[j]["age_kind"]
                                                              for c in good for j in (c["dist"].get("stale_index_plans") or [])),
            option_order_when_both_passed=fw.histogram(c["dist"].get("option_order") for c in good
                                                       if not c["dist"]["recovery"] and c["dist"]["max_age"] != "default30m"),
            status_before=fw.histogram(d["status"] for d in plans),
            age_kind_of_running_plans=fw.histogram(d["age_kind"] for d in plans if d["status"] == "Running"),
            age_kind_of_other_plans=fw.histogram(d["age_kind"] for d in plans if d["status"] != "Running"),
            witness_of_latest_activity=fw.histogram(d["witness"] for d in plans if d["status"] == "Running"),
            running_object_kinds_before=fw.histogram(k for d in plans for k in (d.get("running_in") or [])),
            objects_per_plan=fw.histogram(d["objects"] // 5 * 5 for d in plans),
            outcome=fw.histogram("%s/%s -> %s/%s%s" % (cls(c, d), d["status"], d["after_status"], d["after_reason"],
                                                      " (resumed)" if d["plugin_calls"] + d["vault_writes"] > 0 and d["after_reason"] != "FRExceedRecovery" else "")
                                 for c in good for d in (c.get("observed") or [])),
            new_ms=fw.histogram(min(c["dist"]["new_ms"], 50) // 5 * 5 for c in good),
            child_attempts=fw.histogram(c["dist"].get("attempts", 1) for c in good),
        ),
        coq_shards=[dict(shard=i["shard"], n=i["n"], rc=i["rc"], wall_s=round(i["wall"], 1)) for i in infos],
    ), assumptions=[
        "the clock is not injectable: ages are sampled 200 ms / 1 s / x10 away from maxAge on both sides; the exact boundary (strict <) is proved in the model only",
        "the one clock reading a close writes (the End of the plan row) is represented by one stamp: an observed plan-row End inside [t0,t1] of the New call is identified with it; every other stamp, also the End of the closed children (= lastUpdate(plan) since f93b03f), is compared exactly",
        "store operations are assumed to succeed (Search/Read/Update* errors abort recovery in the code; not modelled)",
        "resumption is observed as 'plugin call or vault write for the plan'; what a resumed plan then does is C09/C10's matter, a resumed plan that misses the deadline is only counted",
        "Wait's knowledge of an id is not directly observable through the public API (Workstream.Wait falls back to Read for unknown ids); it is observed through the waiting itself",
        "the harness's abstraction of plans to Coq terms (ids interned per store), its own walk-order traversal, the logging/limiting vault wrappers",
        "storage.Recovery contract: 30% of the stores are opened through a Vault wrapper that implements storage.Recovery and whose Search(Running) lists one or two durably terminal plans as Running until Recovery() has been called (a search index that lags the plan rows after a crash, as cosmosdb's can); observed: Recovery() is called before the first Search/Read/Update*, and the listed plan is neither executed nor written (theorem c11_storage_recovery_first; the real cosmosdb Recovery is not exercised here)",
        "crash during the close: the first incarnation is cut off by a vault wrapper that drops every Update* after the j-th (what the store sees of a process that died there); the order of the Update* calls of every close is compared with the model's write list (plan row first; theorem c11_close_is_crash_safe)",
        "the real *cosmosdb.Vault is asked at run time whether it implements storage.Recovery (violation kind vault-lost-its-recovery-interface); the behavioural part of that probe crafts 'plan item terminal, search entry Running' through the package's fake and calls Recovery(), but with the present verif hooks it stops there: the fake Vault does not wire the unexported recovery{reader, updater} field (Recovery() panics on the fake) and the fake answers a status-only Search with an empty result - see coverage.cosmosdb_recovery_probe.stopped_at",
        "context already done: 15% of the ordinary stores hand coercion.New a context that was cancelled before the call or whose deadline has passed; since fix 2c25a0f (R8) New returns the error of a failed recovery; the check accepts an error with nothing executed and an untouched / prefix-closed store, or a complete recovery (theorem c11_new_error_or_complete_recovery); other store-operation failures (a failing Search / Read / Update*) are modelled by execute_new's budget but not injected",
        "R9 (known finding): c11_storage_recovery_first assumes the search index lists every durably Running plan; the torn first UpdatePlan of cosmosdb breaks that (entry NotStarted, item Running) and Vault.Recovery does not repair it. The torn state is reproduced on every run on the real updater over the fake; that the plan is then not resumed cannot be observed through the fake (it answers a status-only Search with an empty result) and is shown in the model (c11_ex_torn_first_write_refuted). sqlite stores, which every other family uses, have no separate index",
        "lastUpdate counts the start/end of every object and of every attempt of every action (since fix d8f84b2, R4); the 'attempt-recent' cases (all states far older than maxAge, one attempt 1 ms old) must be resumed",
    ])
