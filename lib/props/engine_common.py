"""Shared driver of the engine properties (C01-C08; C09/C10 reuse the pieces).

    from props import engine_common as ec
    def run(ctx):
        ec.run_engine_check(ctx, profile="order", n_quick=300, n_thorough=3000,
                            extra_header="From Coercion.Engine Require Import MonC01.",
                            monitors=["mon_order", ("mon_order_diag", "list")])

What it does (FRAMEWORK.md "What a check is" + "Verdict rules"):
  1. ctx.static_and_proofs("engine")  (forbidden scan, full .vo build, re-check of props/Cnn.v);
  2. harness run(s) of harness/cmd/engine with the profile(s); every case is one plan run of the REAL engine,
     printed as a Coq term of type Coercion.Engine.Accept.case = (shape * list event);
  3. in Coq (16 shards, vm_compute), for every case: check_case (the observable automaton accepts the trace and
     the trace ends released) and every monitor the caller names; one kernel-checked corr_ok per shard;
  4. classification:
       monitor false                       -> concrete VIOLATION, smallest failing case as replay;
       rejected, all monitors true         -> budgeted neighbour search (same case re-run on other schedules, and
                                              further cases of the profile) through the monitors; a failing one is
                                              a concrete VIOLATION, else `no-failing-input-found` VIOLATION naming
                                              corr_engine_accept and the first rejected event;
       Hang (Wait did not return in 5 s, 3 fresh children)  -> concrete VIOLATION of the release obligation for
                                              properties that include it (release_obligation=True);
  5. evidence with the measured input distributions.

A monitor is a Gallina function `case -> bool` (name) or `case -> list nat` (("name", "list"); head 0 = holds).
Replay: `./check Cnn --replay replays/Cnn-k.json` re-runs exactly that case (seed + profile + index) up to 20 times
and re-evaluates the recorded trace as well.
"""
import json
import os
import time

from vf import framework as fw

BASE_HEADER = """From Coercion.Base Require Import Plan.
From Coercion.Engine Require Import Shape Event Accept."""

PHASES_P = ["PStart", "PBypass", "PPre", "PBlocks", "PPost", "PDeferred", "PEnd", "PReleased"]
PHASES_B = ["BEnter", "BBypass", "BPre", "BSeqs", "BPost", "BDeferred", "BEnd"]
KINDS = {1: "EvStart", 2: "EvEnd", 3: "EvWrite", 4: "EvRead", 5: "EvRelease"}

ASSUMPTIONS = [
    "the harness's event log: ONE lock for plugin Start/End, vault writes (logged after Update* returned) and the "
    "release, so its order is a happens-before witness; path numbering; the term printer",
    "schedules of the implementation are steered (director gates) and sampled, not enumerated; only acceptance is "
    "checked, never a specific schedule",
    "machine load taints a run in two recognisable ways - a plugin entered after its attempt's deadline (late_start); a plugin "
    "that returned before its deadline while the engine looked at the answer only after the deadline and recorded a timeout "
    "(late_end; the same signature BEFORE the deadline is not excused); the engine timed an attempt out before the worker pool had "
    "entered the plugin at all, a whole timeout after the previous write of the action (late_never) - such a run is re-run in a fresh child, and excluded and "
    "counted if it persists",
    "Not covered: durability below the Update* return; back-off durations; goroutines that emit no observable event",
]


def _mon_specs(monitors):
    out = []
    for m in monitors or []:
        if isinstance(m, (tuple, list)):
            out.append((m[0], m[1]))
        else:
            out.append((m, "bool"))
    return out


def _header(extra_header, mons):
    """Coq header defining eng_check : case -> list (list nat) and eng_ok : case -> bool."""
    parts = ["check_case c"]
    oks = ["case_ok c"]
    for name, kind in mons:
        if kind == "bool":
            parts.append("(if %s c then [0] else [1])" % name)
            oks.append("%s c" % name)
        else:
            parts.append("%s c" % name)
            oks.append("(match %s c with 0 :: _ => true | _ => false end)" % name)
    return "\n".join([
        BASE_HEADER, extra_header or "",
        "Definition eng_check (c : case) : list (list nat) := [%s]." % "; ".join(parts),
        "Definition eng_ok (c : case) : bool := %s." % " && ".join(oks),
        # monitors alone (hang traces, neighbour search): acceptance is not part of the lemma there
        "Definition eng_mon_ok (c : case) : bool := %s." % (" && ".join(oks[1:]) or "true"),
    ])


def describe_reject(r):
    """check_case result -> text naming the first rejected event."""
    if r is None:
        return "model evaluation produced no result"
    if r[0] == 1:
        return "event #%d %s not enabled in phase %s/%s" % (r[1], KINDS.get(r[2], "?"), PHASES_P[r[3]], PHASES_B[r[4]])
    if r[0] == 2:
        return "trace accepted but never released (phase %s/%s)" % (PHASES_P[r[1]], PHASES_B[r[2]])
    if r[0] == 3:
        return "shape not well-formed (concurrency 0)"
    return "accepted"


def _first_fatal_line(stderr):
    lines = [l.strip() for l in (stderr or "").split("\n") if l.strip()]
    for l in lines:
        if not l.startswith("{") and any(w in l.lower() for w in ("panic", "fatal", "failed", "error", "died", "dying")):
            return l[:300]
    plain = [l for l in lines if not l.startswith("{")]
    return (plain or lines or ["(no stderr)"])[0][:300]


def _is_panic(c):
    return c.get("kind") == "panic" or c.get("note", "").startswith("panic")


def _is_hang(c):
    return bool(c.get("dist", {}).get("hang")) or not c.get("coq") or c.get("note", "").startswith("hang")


def _size(c):
    return (c.get("dist", {}).get("events", 10 ** 6), c.get("dist", {}).get("actions", 0))


def evaluate(ctx, tag, cases, header, ok_fn="eng_ok"):
    """Evaluate eng_check on cases. Returns (results, infos)."""
    work = os.path.join(ctx.work, "coq_" + tag)
    return fw.eval_cases(work, getattr(ctx, "engine_proj", "engine"), header, "case", "eng_check", ok_fn, [c["coq"] for c in cases])


def classify(case, res, mons):
    """-> (accepted?, [names of false monitors], reject text)."""
    if res is None:
        return False, [], "model evaluation produced no result"
    acc = res[0] and res[0][0] == 0
    bad = [mons[i][0] for i in range(len(mons)) if not (res[1 + i] and res[1 + i][0] == 0)]
    return acc, bad, describe_reject(res[0])


def _replay_obj(ctx, c, kind, why, res, mons, extra=None):
    obj = dict(kind=kind, why=why, case=c["id"], profile=c["input"].get("profile"), index=c["input"].get("index"),
               case_seed=c["input"].get("seed"), input=c["input"], observed=c["observed"], note=c.get("note", ""),
               coq=c["coq"][:400000], check_result=res, monitors=[m[0] for m in mons],
               replay_cmd="./check %s --replay <this file>" % ctx.pid)
    if extra:
        obj.update(extra)
    return obj


def _harness(ctx, profile, n, out_name, extra_args=(), seed=None):
    env_seed = ctx.env.get("VERIF_SEED")
    if seed is not None:
        ctx.env["VERIF_SEED"] = str(seed)
    try:
        return ctx.harness("engine", ["-profile", profile, "-n", str(n)] + list(extra_args), out_name=out_name)
    finally:
        ctx.env["VERIF_SEED"] = env_seed


def _dist(cases):
    def col(k):
        return [c["dist"].get(k) for c in cases if k in c.get("dist", {})]
    flat = lambda k: [x for c in cases for x in (c["dist"].get(k) or [])]
    outcomes = {}
    for c in cases:
        for k, v in (c["dist"].get("outcomes") or {}).items():
            outcomes[k] = outcomes.get(k, 0) + v
    d = dict(profile=fw.histogram(col("profile")), kind=fw.histogram(col("kind")), blocks=fw.histogram(col("blocks")),
             sequences=fw.histogram(col("sequences")), actions=fw.histogram(col("actions")),
             check_groups=fw.histogram(col("groups")), plan_group_mask=fw.histogram(col("plan_group_mask")),
             block_group_mask=fw.histogram(flat("block_group_masks")), concurrency=fw.histogram(flat("conc")),
             tolerated_failures=fw.histogram(flat("tol")), seqs_per_block=fw.histogram(flat("seqs_per_block")),
             scripted_nonok_actions=fw.histogram(col("scripted_nonok_actions")), plugin_outcomes_observed=outcomes,
             events_per_trace=fw.histogram([(e // 25) * 25 for e in col("events")]),
             holds=fw.histogram(col("holds")), director_steps=fw.histogram(col("director_steps")),
             hang_reruns=fw.histogram(col("hang_reruns")), late_reruns=fw.histogram(col("late_reruns")),
             forced_deferred=fw.histogram(col("forced_deferred")), racing_starts=fw.histogram(col("racing_starts")),
             start_ok=fw.histogram(col("start_ok")), start_ctx_cancelled=fw.histogram(col("start_ctx_cancelled")))
    for k in ("final_stage", "gate_level", "gate_fail", "gate_mask", "tol_family", "failing_seqs", "cont_fail_run",
              "cont_where", "conc_vs_seqs", "failing_action_pos"):
        v = col(k)
        if v:
            d[k] = fw.histogram(v)
    probes = [tuple(c["dist"].get("probes") or []) for c in cases if c["dist"].get("probes")]
    if probes:
        d["in_flight_sequences_at_probe"] = fw.histogram([x for p in probes for x in p])
    return d


def run_engine_check(ctx, profile, n_quick, n_thorough, extra_header="", monitors=(), *, release_obligation=True,
                     harness_args=(), multi_quick=0, multi_thorough=0, finalfn=(0, 0), neighbour_budget_s=None,
                     assumptions=(), rule_extra="", not_covered=(), proj="engine", pre_checks=()):
    """profile: a profile name, or a list of (profile, n_quick, n_thorough) to run several (n_* then ignored).
    multi_*: additionally run that many cases of the (first) profile with 2-6 plans concurrently on one Workstream.
    finalfn: (n_quick, n_thorough) calls of the direct Final.v <-> finalStates correspondence (C04)."""
    mons = _mon_specs(monitors)
    header = _header(extra_header, mons)
    # proj: the Coq project holding props/<pid>.v and the monitors (default coq/engine; a property's own project, e.g.
    # coq/c02 with `-R ../engine Coercion.Engine` in its _CoqProject.head, builds coq/engine first as a dependency).
    # pre_checks: callables f(ctx) run right after the proof step (e.g. mech.check_mechanisms, smgraph.check_smgraph).
    ctx.engine_proj = proj
    proofs_ok = ctx.static_and_proofs(proj)
    for f in pre_checks:
        f(ctx)
    if ctx.replay:
        return _replay(ctx, header, mons, release_obligation)
    quick = ctx.tier == "quick"
    plan = profile if isinstance(profile, (list, tuple)) else [(profile, n_quick, n_thorough)]
    cases = []
    t_h = time.time()
    for (prof, nq, nt) in plan:
        got = _harness(ctx, prof, nq if quick else nt, "cases_%s.jsonl" % prof, harness_args)
        if got is None:
            ctx.evidence(dict(evaluations=0, distinct_nontrivial=0, rule="harness did not run", samples=[]))
            return None
        cases += got
    nm = multi_quick if quick else multi_thorough
    if nm:
        k = 2 + int(ctx.seed) % 5
        got = _harness(ctx, plan[0][0], nm, "cases_multi.jsonl", list(harness_args) + ["-multi", str(k), "-from", "100000"])
        if got is None:
            ctx.evidence(dict(evaluations=0, distinct_nontrivial=0, rule="harness did not run", samples=[]))
            return None
        for c in got:
            c["dist"]["plans_on_workstream"] = k
        cases += got
    harness_wall = time.time() - t_h
    ctx.oblige("harness run completes", True)

    # a child that died ONCE and whose cases then ran 3 rounds in fresh children without dying again: not a violation by
    # itself (the traces of the re-run rounds are in `cases` and are checked like any other); recorded and printed
    deaths = [c for c in cases if c.get("kind") == "child-death-unreproduced"]
    cases = [c for c in cases if c.get("kind") != "child-death-unreproduced"]
    for c in deaths:
        ctx.say("NOTE: child process died once and did not reproduce in 3 re-runs: " + _first_fatal_line(c.get("observed", {}).get("stderr", "")))
    panics = [c for c in cases if _is_panic(c)]
    cases = [c for c in cases if not _is_panic(c)]
    if panics:
        # the process running the engine died (a Go panic / log.Fatalf): an observation of the case it was running,
        # and a concrete violation for every engine property (nothing holds of a plan whose engine crashed)
        c = panics[0]
        ctx.violation(dict(kind="panic", case=c["id"], profile=c["input"].get("profile"), index=c["input"].get("index"),
                           case_seed=c["input"].get("seed"), input=c["input"], observed=c.get("observed"), note=c.get("note", ""),
                           why="the process running the engine panicked while running this case (%d cases)" % len(panics),
                           panicking_cases=[x["id"] for x in panics[:30]], replay_cmd="./check %s --replay <this file>" % ctx.pid))
    hangs = [c for c in cases if _is_hang(c)]
    late = [c for c in cases if not _is_hang(c) and c["dist"].get("late_start")]
    live = [c for c in cases if not _is_hang(c) and not c["dist"].get("late_start")]
    t_c = time.time()
    results, infos = evaluate(ctx, "main", live, header)
    coq_wall = time.time() - t_c
    for info in infos:
        ctx.oblige("corr_ok shard %d (%d traces): forallb eng_ok cases = true (automaton accepts, monitors hold)"
                   % (info["shard"], info["n"]), info["rc"] == 0)

    mon_bad, rejected = {}, []
    for c, r in zip(live, results):
        acc, bad, why = classify(c, r, mons)
        for m in bad:
            mon_bad.setdefault(m, []).append((c, r))
        if not acc and not bad:
            rejected.append((c, r, why))

    # 1. a monitor is false on what the implementation did: concrete violation, smallest case first
    #    (one violation per distinct smallest case; it lists every monitor that is false on it)
    reported = {}
    for m, lst in sorted(mon_bad.items()):
        lst.sort(key=lambda x: _size(x[0]))
        reported.setdefault(lst[0][0]["id"], (lst[0], []))[1].append((m, len(lst)))
    for cid, ((c, r), ms) in sorted(reported.items()):
        acc, bad, why = classify(c, r, mons)
        ctx.violation(_replay_obj(ctx, c, "monitor-false", "monitor(s) %s false on the trace of the real engine (%s failing traces); "
                                  "automaton: %s" % (bad, ", ".join("%s: %d" % x for x in ms), why), r, mons,
                                  dict(failing_monitor=bad[0], failing_monitors=bad,
                                       failing_cases=[x[0]["id"] for x in mon_bad[ms[0][0]][:30]])))

    # 2. Hang: Wait did not return
    hang_mon_bad = []
    if hangs:
        with_trace = [c for c in hangs if c.get("coq")]
        hres, _ = evaluate(ctx, "hang", with_trace, header, ok_fn="eng_mon_ok") if with_trace else ([], [])
        hangs.sort(key=_size)
        if release_obligation:
            c = hangs[0]
            ctx.violation(_replay_obj(ctx, c, "hang", "release obligation violated: Workstream.Wait did not return within 5 s "
                                      "(re-run in fresh child processes %s times); %d hanging cases"
                                      % (c["dist"].get("hang_reruns"), len(hangs)), None, mons,
                                      dict(hanging_cases=[x["id"] for x in hangs[:30]])))
        else:
            for c, r in zip(with_trace, hres):
                # safety monitors on the prefix: a monitor that needs the release is expected to be false here
                ctx.notes.append("hang %s: %s" % (c["id"], r))
            ctx.notes.append("%d hanging cases are outside this property's scope (release obligation: C04/C06)" % len(hangs))

    # 3. rejected by the automaton, every monitor true: neighbour search, then no-failing-input-found
    neighbour = dict(runs=0, failing=0)
    if rejected and not mon_bad:
        budget = neighbour_budget_s if neighbour_budget_s is not None else (20 if quick else 600)
        t0 = time.time()
        found = None
        rejected.sort(key=lambda x: _size(x[0]))
        # (ii) the implementation: the same cases on other schedules, then further cases of the same profiles
        todo = []
        for c, r, why in rejected[:6]:
            todo.append((c["input"]["profile"], ["-only", str(c["input"]["index"]), "-reps", "12"], c["input"]["seed"]))
        for (prof, nq, nt) in plan:
            todo.append((prof, ["-from", "500000", "-n", str(200 if quick else 2000)], None))
        for j, (prof, args, seed) in enumerate(todo):
            if time.time() - t0 > budget or found:
                break
            got = _harness(ctx, prof, 1, "neigh_%d.jsonl" % j, list(harness_args) + args, seed=seed) or []
            got = [c for c in got if not _is_hang(c)]
            nres, _ = evaluate(ctx, "neigh_%d" % j, got, header, ok_fn="eng_mon_ok")
            neighbour["runs"] += len(got)
            for c, r in zip(got, nres):
                acc, bad, why = classify(c, r, mons)
                if bad:
                    neighbour["failing"] += 1
                    if found is None or _size(c) < _size(found[0]):
                        found = (c, r, bad, why)
        if found:
            c, r, bad, why = found
            ctx.violation(_replay_obj(ctx, c, "monitor-false-in-neighbour-search",
                                      "correspondence broken (%s) and the neighbour search found a trace on which monitor %s is false"
                                      % (rejected[0][2], bad[0]), r, mons, dict(failing_monitor=bad[0])))
        else:
            c, r, why = rejected[0]
            ctx.violation(_replay_obj(ctx, c, "correspondence-broken",
                                      "corr_engine_accept: %s; all monitors true on %d rejected traces and on %d neighbour runs"
                                      % (why, len(rejected), neighbour["runs"]), r, mons,
                                      dict(broken="corr_engine_accept: " + why, rejected_cases=[x[0]["id"] for x in rejected[:30]],
                                           neighbour_search=neighbour)), nofail=True)

    # 4. direct correspondence of Final.v with finalStates (a pure function with a complete specification:
    #    any disagreement is a violation with that input)
    ff = None
    nff = finalfn[0] if quick else finalfn[1]
    if nff:
        fcases = _harness(ctx, "finalfn", nff, "cases_finalfn.jsonl")
        if fcases is not None:
            fres, finfos = fw.eval_cases(os.path.join(ctx.work, "coq_finalfn"), proj, BASE_HEADER, "fcase",
                                         "check_fcase", "fcase_ok", [c["coq"] for c in fcases])
            for info in finfos:
                ctx.oblige("final_corr_ok shard %d (%d calls of finalStates): Final.final = finalStates" % (info["shard"], info["n"]),
                           info["rc"] == 0)
            fbad = [(c, r) for c, r in zip(fcases, fres) if r != [0] or c.get("note")]
            if fbad:
                fbad.sort(key=lambda x: len(x[0]["input"]["statuses"]))
                c, r = fbad[0]
                ctx.violation(dict(kind="finalStates-differs-from-Final.v", case=c["id"], input=c["input"], observed=c["observed"],
                                   note=c.get("note", ""), coq=c["coq"], failing_cases=len(fbad),
                                   why="finalStates computed a (status, reason) that Final.final (the transcription the C04 "
                                       "theorems are about) does not"))
            ff = dict(calls=len(fcases), disagreements=len(fbad), results=fw.histogram(c["dist"]["result"] for c in fcases),
                      distinct=len({c["hash"] for c in fcases}))

    accepted = sum(1 for c, r in zip(live, results) if r is not None and r[0] and r[0][0] == 0)
    samples = [dict(id=c["id"], kind=c["kind"], spec=c["input"]["spec"], first_events=c["observed"]["events"][:14],
                    n_events=c["dist"]["events"]) for c in live[:3]]
    cov = dict(
        evaluations=len(live) + len(hangs),
        distinct_nontrivial=fw.distinct_nontrivial(live),
        rule="one evaluation = one run of a generated plan on the real engine (public API, in-memory sqlite vault, scripted "
             "plugins, director schedule), checked in Coq against the observable automaton and the monitors %s; distinct = "
             "distinct hash of (shape, projected trace); trivial = single block, single sequence, single action, all ok, no "
             "check groups. %s" % ([m[0] for m in mons], rule_extra),
        samples=samples,
        traces_validated_against_impl=len(live),
        accepted_by_automaton=accepted, rejected_by_automaton=len(live) - accepted,
        monitor_false={m: len(v) for m, v in mon_bad.items()},
        hangs=len(hangs), panics=len(panics),
        unreproduced_child_deaths=dict(count=len(deaths), items=[dict(cases=c["input"].get("cases"), opts=c["input"].get("opts"),
                                                                       profile=c["input"].get("profile"), rerun_cases=c.get("observed", {}).get("rerun_cases"),
                                                                       stderr_tail=c.get("observed", {}).get("stderr", "")[-1500:]) for c in deaths[:10]]), excluded_late_start=len(late), neighbour_search=neighbour,
        late_start=sum(c["dist"].get("late_starts", 0) for c in late), late_end=sum(c["dist"].get("late_ends", 0) for c in late), late_never=sum(c["dist"].get("late_never", 0) for c in late),
        late_reruns=sum(c["dist"].get("late_reruns", 0) for c in cases),
        events_total=sum(c["dist"].get("events", 0) for c in live),
        distribution=_dist(cases),
        harness_wall_s=round(harness_wall, 1), coq_wall_s=round(coq_wall, 1),
        coq_shards=[dict(shard=i["shard"], n=i["n"], rc=i["rc"], wall_s=round(i["wall"], 1)) for i in infos],
        notes=ctx.notes[:40],
    )
    if ff:
        cov["final_function_correspondence"] = ff
    ctx.evidence(cov, assumptions=list(ASSUMPTIONS) + list(assumptions) + list(not_covered))
    return dict(cases=cases, live=live, results=results, rejected=rejected, mon_bad=mon_bad, hangs=hangs)


def _replay(ctx, header, mons, release_obligation):
    """Re-run exactly the recorded case (seed + profile + index) up to 20 times and re-evaluate the recorded trace."""
    rp = json.load(open(ctx.replay))
    prof, idx, seed = rp.get("profile"), rp.get("index"), rp.get("case_seed") or rp.get("seed")
    verdict = []
    recorded = None
    if rp.get("coq"):
        recorded = dict(id=str(rp.get("case")) + "-recorded", coq=rp["coq"], input=rp.get("input", {}), observed=rp.get("observed", {}),
                        dist=dict(events=0), kind="recorded")
        res, _ = evaluate(ctx, "recorded", [recorded], header, ok_fn="eng_mon_ok")
        acc, bad, why = classify(recorded, res[0], mons)
        ctx.say("recorded trace: automaton %s; monitors false: %s" % ("accepts" if acc else "REJECTS (" + why + ")", bad or "none"))
        verdict.append((recorded, res[0], acc, bad, why))
    fresh = []
    if prof and idx is not None and prof != "finalfn":
        inp = rp.get("input") or {}
        opts = inp.get("opts") or {}
        args = ["-only", str(idx), "-reps", "20"]
        if opts.get("DeferredP"):
            args += ["-deferred", str(opts["DeferredP"])]
        if opts.get("RaceStart"):
            args += ["-racestart", str(opts["RaceStart"])]
        if "CancelCtxP" in opts:  # the harness default is 0.5: always pass what the recorded run used (incl. 0)
            args += ["-cancelctx", str(opts["CancelCtxP"])]
        if inp.get("poll"):
            args += ["-poll"]
        fresh = _harness(ctx, prof, 1, "replay.jsonl", args, seed=seed) or []
        pan = [c for c in fresh if _is_panic(c)]
        fresh = [c for c in fresh if not _is_panic(c)]
        if pan:
            ctx.violation(dict(kind="panic", case=pan[0]["id"], input=pan[0]["input"], observed=pan[0].get("observed"), note=pan[0].get("note", ""),
                               why="replay: the process running the engine panicked (%d of %d runs)" % (len(pan), len(pan) + len(fresh))), tag="replay")
        hang = [c for c in fresh if _is_hang(c)]
        live = [c for c in fresh if not _is_hang(c)]
        res, _ = evaluate(ctx, "replay", live, header, ok_fn="eng_mon_ok")
        nrej = nbad = 0
        for c, r in zip(live, res):
            acc, bad, why = classify(c, r, mons)
            nrej += 0 if acc else 1
            nbad += 1 if bad else 0
            verdict.append((c, r, acc, bad, why))
        ctx.say("replayed %s index %s seed %s: %d runs, %d hang, %d rejected by the automaton, %d with a false monitor"
                % (prof, idx, seed, len(fresh), len(hang), nrej, nbad))
        if hang and release_obligation:
            ctx.violation(_replay_obj(ctx, hang[0], "hang", "release obligation violated on replay: Wait did not return", None, mons), tag="replay")
    # verdict: the fresh runs decide (does it still happen on this repository?); the recorded trace decides only when
    # the case could not be re-run.  Replay files written here are tagged so that the replayed file is not overwritten.
    fresh_v = [v for v in verdict if v[0] is not recorded]
    basis = fresh_v if fresh_v else verdict
    badm = [v for v in basis if v[3]]
    rej = [v for v in basis if not v[2] and not v[3]]
    if badm:
        c, r, acc, bad, why = badm[0]
        ctx.violation(_replay_obj(ctx, c, "monitor-false", "replay: monitor(s) %s false (%d of %d runs)" % (bad, len(badm), len(basis)),
                                  r, mons, dict(failing_monitor=bad[0], failing_monitors=bad)), tag="replay")
    elif rej and not ctx.violations:
        c, r, acc, bad, why = rej[0]
        ctx.violation(_replay_obj(ctx, c, "correspondence-broken", "replay: corr_engine_accept: %s (%d of %d runs)" % (why, len(rej), len(basis)),
                                  r, mons, dict(broken="corr_engine_accept: " + why)), nofail=True, tag="replay")
    elif not ctx.violations:
        ctx.say("replay: not reproduced on this repository (%d fresh runs accepted, all monitors true)" % len(basis))
    ctx.evidence(dict(evaluations=len(verdict), distinct_nontrivial=len({c.get("hash") for c in fresh}), rule="replay of " + str(ctx.replay),
                      samples=[], traces_validated_against_impl=len(fresh)))
    return None
