"""C20 - the builder yields the described plan or a sticky first error; it never panics.

Theorem side: coq/builder/props/C20.v (the cursor machine of builder.go equals the reference
specification built on a recursive-descent parser of the call list; it never panics; the stickiness
monitor holds on every run of the machine).
Correspondence: the real builder on generated sessions (New + up to 25 calls, valid-prefix biased, one
misuse injected at a uniformly chosen position) returns, call by call, what the model returns: error or
not, WHICH error value (Go == on the value, as the index of the call that created it), its class, Err()
afterwards, and the emitted plan as a tree of labels.
The specification determines the output completely, so a disagreement in outcome is a violation with the
session as the failing input; a disagreement in the CLASS of an error only (classes are read off the
error text) is reported as a broken correspondence.
"""
from vf import framework as fw

HEADER = """From Coercion.Base Require Import Plan.
From Coercion.Builder Require Import Model Spec Check.
Definition case_ok := case_ok_with %s."""

# Findings of this check that are not yet in known_findings.json (that file is maintained by the lead);
# an entry there takes precedence.
PENDING = {
    "B2": "Reset(name, descr, WithGroupID(uuid.Nil)) returns the option's error without recording it: the builder is "
          "left with a fresh plan and the OLD sticky error (or none), so later calls and Plan() do not return Reset's error",
}

CODES = {1: "the builder panicked", 2: "different outcome (error or not / which error value / emitted tree)",
         3: "same outcome but a different error class"}


def run(ctx):
    ctx.static_and_proofs("builder")
    n = 600 if ctx.tier == "quick" else 12000
    cases = ctx.harness("c20", ["-n", str(n)])
    if cases is None:
        ctx.evidence(dict(evaluations=0, distinct_nontrivial=0, rule="harness did not run", samples=[]))
        return
    b2 = ctx.finding_status("B2") or "known"          # pending finding: treated as known-unfixed
    b2_known = b2 != "fixed"
    header = HEADER % ("dev_only_B2" if b2_known else "dev_none")
    terms = [c["coq"] for c in cases]
    results, infos = fw.eval_cases(ctx.work, "builder", header, "case", "check_case", "case_ok", terms)
    need_b2, bad, spec_diff = [], [], []
    for c, r in zip(cases, results):
        if r is None:
            bad.append((c, 2, 0, "model evaluation produced no result for this case", True))
            continue
        code0, i0, code1, i1, mon, same = r
        if not same:
            spec_diff.append(c)
        if code0 == 0:
            continue
        if b2_known and code1 == 0:
            need_b2.append((c, i0))
            continue
        code, i = (code1, i1) if b2_known else (code0, i0)
        why = "call %d: %s" % (i, CODES.get(code, "?"))
        bad.append((c, code, i, why, mon == 1))
    # corr_ok is proved against the model with the known deviations; cases needing B2 are accepted by it
    for info in infos:
        ctx.oblige("corr_ok shard %d (%d cases): forallb case_ok cases = true" % (info["shard"], info["n"]), info["rc"] == 0)
    if need_b2:
        c, i = min(need_b2, key=lambda x: x[0]["dist"]["len"])
        ctx.known("B2", PENDING["B2"] + " [%d of %d sessions need this deviation; smallest: %s, call %d; input %s]"
                  % (len(need_b2), len(cases), c["id"], i, compact(c["input"])))
    if spec_diff:
        c = min(spec_diff, key=lambda x: x["dist"]["len"])
        ctx.violation(dict(kind="reference-differs-from-model", broken="c20_builder (run_session dev_none x = spec_session x) is contradicted by evaluation",
                           case=c["id"], input=c["input"]), nofail=True)
    if bad:
        bad.sort(key=lambda x: (x[1] == 3, x[0]["dist"]["len"]))
        c, code, i, why, mon_ok = bad[0]
        obs = c["observed"]
        # the different ways in which sessions fail, with the smallest example of each
        kinds = {}
        for bc, bcode, bi, bwhy, bmon in bad:
            calls = [bc["input"]["new"]] + bc["input"]["calls"]
            ck = calls[bi]["kind"] if bi < len(calls) else "?"
            ob = bc["observed"][bi] if bi < len(bc["observed"]) else {}
            first = (ob.get("panic") or "").split("\n")[0]
            key = "%s at %s%s%s" % (CODES.get(bcode, "?"), "New" if bi == 0 else ck,
                                    " (nil argument)" if bi < len(calls) and calls[bi].get("nil") else "",
                                    ": " + first if first else "")
            k = kinds.setdefault(key, dict(sessions=0, example=bc["id"], call=bi, input=compact(bc["input"])))
            k["sessions"] += 1
            for pi, po in enumerate(bc["observed"]):
                if po.get("panic"):
                    pk = "panic at %s: %s" % (calls[pi]["kind"] if pi < len(calls) else "?", po["panic"].split("\n")[0])
                    k.setdefault("panics_in_these_sessions", {}).setdefault(pk, dict(sessions=0, example=bc["id"], call=pi, input=compact(bc["input"])))["sessions"] += 1
                    break
        replay = dict(kind="builder-differs-from-specification", why=why, case=c["id"], input=c["input"], failing_call=i,
                      observed=obs[max(0, i - 1):i + 3], session_coq=c["coq"][:20000], failing_cases=len(bad),
                      stickiness_monitor_on_observation=mon_ok, note=c.get("note", ""), failure_kinds=kinds,
                      replay_cmd="VERIF_SEED=%s ./check C20 --tier %s   # case %s" % (ctx.seed, ctx.tier, c["id"]))
        if code == 3:
            replay["broken"] = "corr_ok: only the class of an error differs (classes are read off the error text)"
            ctx.violation(replay, nofail=True)
        else:
            ctx.violation(replay)
    calls = sum(c["dist"]["len"] + 1 for c in cases)
    ctx.evidence(dict(
        evaluations=calls,
        distinct_nontrivial=fw.distinct_nontrivial(cases),
        rule="sessions = New + <=25 calls; 487 sessions enumerated exhaustively whatever the seed (every ordered pair of check kinds at plan and at block level, "
             "every kind of call at each of the 5 cursor positions, every invalid ChecksType at each position, every ordered pair first misuse kind x second misuse kind of the 17 kinds - 289 sessions - "
             "in which the second misuse meets a builder already holding the first one's error; 12 sessions passing the same pointer to two Add* calls; 81 sessions with use after emit as the first misuse: every ordered pair of 9 call kinds after a successful Plan(), then Plan() again, a Reset and a second plan); then several builders alive at once with interleaved calls, each compared with the model of its own call list and no plan pointer emitted twice "
             "(family multi: the 6 orders of {a emits, a is Reset, b is created, b's first Add*} x 3 shapes, plus n/12 random interleavings of 2-3 ordinary sessions); then random families: 25% all-valid (valid prefix, Plan(), sometimes calls after it, sometimes Reset + second epoch), "
             "60% the same with 1-3 misuses, each of a uniformly chosen kind (later ones biased to nil arguments) inserted at a uniformly chosen applicable position, 5% invalid New, "
             "10% unbiased random call streams; evaluations = calls executed on the real builder and compared; "
             "distinct = distinct (session, observation) terms; non-trivial = >=3 calls and (a misuse or an emitted plan of >=4 objects)",
        samples=[dict(id=c["id"], input=c["input"], dist=c["dist"]) for c in cases[:3]],
        traces_validated_against_impl=len(cases),
        sessions=len(cases),
        sessions_needing_B2=len(need_b2),
        distribution=dict(family=fw.histogram(c["kind"] for c in cases),
                          injected_misuse=fw.histogram(c["dist"]["injected"] or "none" for c in cases),
                          multi_builder_cases=fw.histogram(c["dist"]["injected"] for c in cases if c["kind"] == "multi"),
                          second_misuse=fw.histogram(c["dist"].get("second_misuse") or "none" for c in cases),
                          misuses_injected=fw.histogram(c["dist"].get("misuses_injected", 0) for c in cases),
                          first_error_observed=fw.histogram(c["dist"]["first_error"] for c in cases),
                          length=fw.histogram(c["dist"]["len"] for c in cases),
                          plans_emitted=fw.histogram(c["dist"]["emitted"] for c in cases),
                          objects_in_emitted_plan=fw.histogram(c["dist"]["objects"] for c in cases),
                          call_kinds=sum_hist(c["dist"]["call_kinds"] for c in cases),
                          error_classes_per_call=sum_hist(class_hist(c) for c in cases)),
        coq_shards=[dict(shard=i["shard"], n=i["n"], rc=i["rc"], wall_s=round(i["wall"], 1)) for i in infos],
    ), assumptions=[
        "labels: the harness recognises an emitted object by pointer identity (checks, sequences, actions) or by ALL BlockArgs fields (blocks); "
        "error identity is Go's == on the error value; error classes are read off the error text by keywords (class-only mismatches are reported as broken correspondence)",
        "the same *Sequence / *Action / *Checks pointer passed to two Add* calls IS covered (exhaustive family alias:*, 12 sessions: a sequence twice in one block and in two blocks, "
        "an action several times in one sequence, in another sequence and in a group, one Checks as two plan groups and a block group): a label goes with the pointer, the second call carries "
        "the first call's label and, as the Actions already in it, what the object holds at that moment, and the model appends what each call was given, so the emitted tree lists it twice; "
        "adding actions THROUGH the second occurrence of an aliased sequence/group (visible in both places) is outside the model and not generated. "
        "Not covered: options other than WithGroupID, "
        "calling an Option directly on a builder, a zero-value BuildPlan not made by New, concurrent use",
    ])


def compact(s):
    return "New(%s) %s" % (s["new"].get("why", "ok"), " ".join(c["kind"] + (":" + c["why"] if c.get("why") else "") for c in s["calls"]))


def class_hist(c):
    h = {}
    for o in c["observed"]:
        k = "panic" if o.get("panic") else (o["ret"]["class"] if o.get("ret") else "ok")
        h[k] = h.get(k, 0) + 1
    return h


def sum_hist(hs):
    t = {}
    for h in hs:
        for k, v in h.items():
            t[k] = t.get(k, 0) + v
    return dict(sorted(t.items(), key=lambda kv: -kv[1]))
