"""Composition theorems between the per-property Coq models (coq/glue).

The properties were verified in separate Coq projects sharing only coq/base/Plan.v; several models duplicate a
notion another project defines.  coq/glue/props/Glue.v holds machine-checked theorems relating the duplicates
for all inputs (C16 <-> C18 validation, C16 -> engine shape, C16 -> store domain, C15 -> C11 search, C05 <->
engine action automaton), so that the per-property theorems compose.

`check_glue(ctx)`
  1. scans coq/glue for forbidden vernacular,
  2. builds coq/glue and, first, every project it imports (full .vo build, `make`),
  3. re-checks coq/glue/props/Glue.v with coqc and records every theorem + `Print Assumptions`,
  4. records one obligation per theorem through ctx.oblige; a theorem that no longer checks (e.g. because one
     of the two models it relates was changed) is reported through ctx.violation(..., nofail=True) naming it.
There is no Go harness here: each model named in a glue theorem is tied to the code by its own project's
correspondence check; the glue theorems are pure Coq statements between models.

`./check GLUE` runs only this.
"""
import os
import re
import shutil

from vf import framework as fw

PROJ = "glue"
PROPS = "Glue"


def theorem_names(src):
    return re.findall(r"^\s*(?:Theorem|Lemma|Corollary)\s+([A-Za-z0-9_']+)", fw.strip_comments(src), re.M)


def theorem_at_line(src, line):
    """Name of the Theorem whose statement/proof contains source line `line` (1-based) of the props file."""
    name = None
    for k, l in enumerate(src.split("\n"), 1):
        m = re.match(r"\s*(?:Theorem|Lemma|Corollary)\s+([A-Za-z0-9_']+)", l)
        if m:
            name = m.group(1)
        if k >= line:
            break
    return name


def importers(proj_failed):
    """Glue*.v files (and hence the theorems resting on them) that import the failed project directly."""
    logical = fw.project_logical(proj_failed) if os.path.exists(os.path.join(fw.project_dir(proj_failed), "_CoqProject.head")) else None
    if not logical:
        return []
    hits = []
    d = fw.project_dir(PROJ)
    for f in sorted(os.listdir(d)):
        if f.endswith(".v") and logical in open(os.path.join(d, f)).read():
            hits.append(f)
    return hits


def check_glue(ctx):
    """Returns dict(ok, theorems, closed, axioms, imports, failing)."""
    work = os.path.join(ctx.work, "glue")
    shutil.rmtree(work, ignore_errors=True)
    os.makedirs(work, exist_ok=True)
    res = dict(ok=False, theorems=[], closed=0, axioms=[], imports=fw.project_deps(PROJ), failing=None)

    bad = fw.forbidden_scan([fw.project_dir(q) for q in [PROJ] + res["imports"]])
    ctx.oblige("glue: no forbidden vernacular in coq/%s nor in the projects it imports" % PROJ, not bad)
    if bad:
        ctx.violation(dict(kind="forbidden-vernacular", lines=bad[:20], broken="coq/%s" % PROJ), nofail=True, tag="glue")
        return res
    ok, log, where = fw.coq_build([PROJ])
    ctx.oblige("glue: full .vo build of coq/%s and of the projects it imports (%s)" % (PROJ, ", ".join(res["imports"])), ok)
    pf = os.path.join(fw.project_dir(PROJ), "props", PROPS + ".v")
    src = open(pf).read()
    names = theorem_names(src)
    res["theorems"] = names
    if not ok:
        for t in names:
            ctx.oblige("glue theorem %s (coq/%s/props/%s.v)" % (t, PROJ, PROPS), False)
        broken = "first failing file: %s" % where
        m = re.match(r"glue/(?:\./)?props/%s\.v:(\d+)" % PROPS, where or "")
        if m:
            res["failing"] = theorem_at_line(src, int(m.group(1)))
            broken = "coq/%s/props/%s.v: theorem %s no longer checks (line %s)" % (PROJ, PROPS, res["failing"], m.group(1))
        else:
            failed_proj = (where or "").split("/")[0]
            if failed_proj and failed_proj != PROJ:
                broken += " - project coq/%s does not build; glue files importing it: %s" % (failed_proj, ", ".join(importers(failed_proj)) or "?")
        ctx.violation(dict(kind="coq-build-failed", broken=broken, theorem=res["failing"], theorems=names, log=log[-3000:]),
                      nofail=True, tag="glue")
        return res

    shutil.copy(pf, os.path.join(work, PROPS + "_recheck.v"))
    rc, out = fw.sh(["coqc"] + fw.project_flags(PROJ) + [PROPS + "_recheck.v"], cwd=work, timeout=900)
    closed = out.count("Closed under the global context")
    axioms = sorted(set(re.findall(r"^([A-Za-z0-9_.']+)\s*:", out.split("Axioms:", 1)[1], re.M))) if "Axioms:" in out else []
    # per theorem: coqc prints one answer per `Print Assumptions`, in file order, and stops at the first error
    answers = re.findall(r"Closed under the global context|Axioms:", out)
    failing = None
    for i, t in enumerate(names):
        good = i < len(answers) and answers[i].startswith("Closed")
        if not good and failing is None:
            failing = t
        ctx.oblige("glue theorem %s (coq/%s/props/%s.v): checks, closed under the global context" % (t, PROJ, PROPS), good)
    printed = len(re.findall(r"^\s*Print\s+Assumptions\s", fw.strip_comments(src), re.M))
    proofs_ok = rc == 0 and bool(names) and closed == len(names) == printed and not axioms
    if not proofs_ok and failing is None:
        failing = "(every theorem answered; coqc rc=%d, %d theorems, %d Print Assumptions, %d closed)" % (rc, len(names), printed, closed)
    res.update(closed=closed, axioms=axioms, failing=failing, ok=proofs_ok)
    if not proofs_ok:
        ctx.oblige("glue: props/%s.v re-checks as a whole" % PROPS, False)
        ctx.violation(dict(kind="glue-theorem-does-not-check",
                           broken="coq/%s/props/%s.v: theorem %s no longer checks or is not closed" % (PROJ, PROPS, failing),
                           theorem=failing, closed_under_global_context=closed, theorems=len(names), axioms=axioms,
                           log=out[-3000:]), nofail=True, tag="glue")
    if proofs_ok and ctx.tier == "thorough" and not os.environ.get("VERIF_NO_COQCHK"):
        ck = fw.coqchk_props(PROJ, PROPS, timeout=6000)
        ctx.oblige("glue: coqchk -silent -o %s (independent re-check of the compiled theorems and of every library they depend on)"
                   % ck.get("library"), ck["ok"])
        res["coqchk_axioms"] = ck["axioms"]
        if not ck["ok"]:
            res["ok"] = False
            ctx.violation(dict(kind="coqchk-failed", broken="coqchk %s" % ck.get("library"), log=ck["log"]), nofail=True, tag="glue")
    return res


def run(ctx):
    r = check_glue(ctx)
    ctx.assumptions = dict(closed_under_global_context=r["closed"], axioms=r["axioms"],
                           file="coq/%s/props/%s.v" % (PROJ, PROPS))
    ctx.evidence(dict(
        evaluations=len(r["theorems"]), distinct_nontrivial=r["closed"],
        rule="one evaluation = one composition theorem re-checked by coqc; non-trivial = closed under the global context",
        samples=r["theorems"][:8], theorems=r["theorems"], imports=r["imports"],
        checker_cmd="make (coq/glue and its imports) ; coqc props/Glue.v"),
        assumptions=["pure Coq statements between models: each model is tied to the Go code only by its own project's correspondence check",
                     "the vm_compute Examples in GlueExamples.v show the hypotheses are satisfiable; they are not a substitute for the theorems"])
