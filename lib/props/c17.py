"""C17 - secure-tagged values never leak through clones or HTML reports; the registry refuses
secret-looking untagged fields.

Theorem side: coq/secure/props/C17.v (c17_scrubbed, c17_clone_surfaces, c17_report, c17_registry over the
model of clone/secure.go, the clone entry points, reports.Render and registry.findSecrets).
Correspondence (coq/secure/SecureCheck.v, harness/cmd/c17): request/response TYPES are built at run time
(reflect.StructOf/PointerTo/SliceOf/MapOf/ArrayOf), filled with unique canaries, and
  (i)   clone.Secure's result is compared with the model's value, and the monitors (no exposed secure-tagged
        field holds anything but "[secret hidden]"/zero; erase-equality = untagged data and shape intact) are
        evaluated on what the implementation returned;
  (ii)  such values sit in sequence actions, check actions and attempts of plans; the five clone entry points
        (with and without WithKeepState) and reports.Render run for real; every Req/Resp of the clone is compared
        with the model, the original is re-read, and every canary is byte-searched in the clone's JSON and in
        every rendered file;
  (iii) plugins whose Request()/Response() are such types (generated ones incl. unexported fields, plus hand-declared
        ones: embedded structs / *structs of unexported types one and two levels deep, untagged / secure / ignore,
        ordinary unexported fields, named types) are registered and the verdict compared with find_secrets.
The functional specification (SecureSpec.scrub, Registry.reach) determines the outputs completely, so a
disagreement is a violation with that input.
"""
import json

from vf import framework as fw

HEADER = """From Coercion.Secure Require Import GoVal SecureModel SecureSpec Registry Surfaces SecureCheck."""

CODES = {
    1: "clone.Secure's result differs from the specification (scrub) although nothing secure-tagged survived and untagged data is intact",
    2: "clone.Secure left a value under an exported secure-tagged field (leak)",
    3: "clone.Secure changed untagged data or the shape of the value",
    4: "clone.Secure panicked",
    5: "clone.Secure's error/ok verdict differs from the model",
    11: "a clone entry point's requests/responses differ from the model",
    12: "a secure-tagged value survived in a request/response of the clone (leak)",
    13: "a clone's request/response differs from the original outside secure-tagged fields (or responses were copied/dropped wrongly)",
    14: "a clone entry point panicked",
    16: "the original plan's requests/responses changed during the clone",
    17: "canary search in the clone's JSON: a secure canary is present or an untagged canary is missing",
    21: "reports.Render did not render an untagged request/response value the model says is rendered",
    22: "reports.Render rendered a value that no template input of the model contains (a scrubbed secret)",
    24: "reports.Render failed or panicked",
    31: "registry.Register's verdict differs from find_secrets (secret-looking untagged field reachable through struct/pointer nesting)",
}

# which DESIGN section-7 item a failure code of a case family belongs to (for the replay's description only)
def classify(c, code):
    k = c["kind"]
    if k.startswith("secure"):
        return "X1/X4 (clone.Secure dispatch)"
    if k.startswith("clone"):
        return "clone surface"
    if k == "render":
        return "X2 (reports.Render)"
    return "X3 (registry.findSecrets)"


def size_of(c):
    return len(c["coq"])


def run(ctx):
    replayed = None
    if ctx.replay:
        # a replay file names seed, tier and case id: the whole (deterministic) run is repeated with them, and the
        # recorded observation is evaluated in Coq once more next to the fresh one
        replayed = json.load(open(ctx.replay))
        ctx.seed = int(replayed.get("seed", ctx.seed))
        ctx.tier = replayed.get("tier", ctx.tier)
        ctx.env["VERIF_SEED"], ctx.env["VERIF_TIER"] = str(ctx.seed), ctx.tier
    ctx.static_and_proofs("secure")
    quick = ctx.tier == "quick"
    args = ["-secure", "260" if quick else "10000", "-plans", "10" if quick else "250",
            "-reg", "150" if quick else "6000", "-chains", "90" if quick else "3000", "-conc", "40" if quick else "300", "-depth", "5"]
    cases = ctx.harness("c17", args, timeout=1500)
    if cases is None:
        ctx.evidence(dict(evaluations=0, distinct_nontrivial=0, rule="harness did not run", samples=[]))
        return
    if replayed and replayed.get("coq_case") and len(replayed["coq_case"]) < 30000:
        cases.append(dict(id="recorded:" + str(replayed.get("case")), kind=str(replayed.get("kind", "secure-recorded")).replace("c17-", "").rsplit("-", 1)[0] + "-recorded",
                          coq=replayed["coq_case"], nontrivial=False, hash="recorded", dist={}, input=replayed.get("input"), observed=replayed.get("observed") or {}))
    terms = [c["coq"] for c in cases]
    results, infos = fw.eval_cases(ctx.work, "secure", HEADER, "case", "check_case", "case_ok", terms,
                                   timeout=600 if quick else 3000)
    for info in infos:
        ctx.oblige("corr_ok shard %d (%d cases): forallb case_ok cases = true" % (info["shard"], info["n"]), info["rc"] == 0)

    bad = {}
    noresult = []
    for c, r in zip(cases, results):
        o = c.get("observed") or {}
        code = None
        if r is None:
            noresult.append(c)
            continue
        if c["id"].startswith("recorded:"):
            # the observation stored in the replay file, evaluated again by today's model: information only,
            # the verdict of a replay is what the code does NOW on the same input
            ctx.say("REPLAY %s: recorded observation evaluates to check_case=%s (%s)" % (c["id"], r, CODES.get(r[0], "agrees with the model")))
            continue
        if r[0] != 0:
            code = r[0]
        # the harness's own canary labels (independent of the Coq model): a secure canary in JSON / HTML
        elif o.get("leaked"):
            code = {"render": 22}.get(c["kind"], 17 if c["kind"].startswith("clone") else 2)
        elif o.get("missing"):
            code = {"render": 21}.get(c["kind"], 17 if c["kind"].startswith("clone") else 3)
        if code is not None:
            fam = (c["kind"].split("-")[0], code)
            bad.setdefault(fam, []).append((c, r))

    if noresult:
        ctx.violation(dict(kind="model-evaluation-failed", broken="corr_ok: coqc produced no report for %d cases" % len(noresult),
                           case=noresult[0]["id"], log=[i["out"][-1500:] for i in infos if i["rc"] != 0][:2]), nofail=True)

    for (fam, code), lst in sorted(bad.items()):
        lst.sort(key=lambda x: size_of(x[0]))          # smallest failing input first
        c, r = lst[0]
        ctx.violation(dict(kind="c17-%s-%d" % (fam, code), what=CODES.get(code, "code %d" % code), where=classify(c, code),
                           case=c["id"], check_case=r, failing_cases=len(lst), other_cases=[x[0]["id"] for x in lst[1:12]],
                           failing_constructor_pairs=fw.histogram(p for x in lst for p in (x[0]["dist"].get("pairs") or [])) if fam == "secure" else None,
                           failing_types=[x[0]["input"].get("type") for x in lst[:12]] if fam == "secure" else None,
                           input=c["input"], observed=c["observed"], coq_case=c["coq"][:30000],
                           replay_cmd="VERIF_SEED=%s ./check C17 --tier %s   # case id %s" % (ctx.seed, ctx.tier, c["id"])),
                      tag="%s%d" % (fam, code))

    cases = [c for c in cases if not c["id"].startswith("recorded:")]
    sec = [c for c in cases if c["kind"].startswith("secure")]
    pairs = fw.histogram(p for c in sec for p in (c["dist"].get("pairs") or []))
    by_kind = fw.histogram(c["kind"] for c in cases)
    ctx.evidence(dict(
        evaluations=len(cases),
        distinct_nontrivial=fw.distinct_nontrivial(cases),
        rule="one evaluation = one call of clone.Secure / one clone entry point / one Render / one Register on generated types; "
             "distinct by hash of (type, abstracted input, abstracted observation); non-trivial = clone.Secure value with a reachable "
             "secure-tagged field and nesting depth >= 2, clone/render case whose plan carries secure-tagged leaves, registry case with a "
             "secret-looking untagged field somewhere in the type",
        samples=[dict(id=c["id"], kind=c["kind"], input=c["input"], dist=c["dist"],
                      observed={k: v for k, v in (c["observed"] or {}).items() if k in ("result", "entry", "keep_state", "n_secret", "n_plain", "files", "registered", "offending")})
                 for c in (sec[400:402] + [c for c in cases if c["kind"] == "clone-plan"][:1] + [c for c in cases if c["kind"] == "render"][:1]
                           + [c for c in cases if c["kind"] == "registry"][:1])],
        traces_validated_against_impl=len(cases),
        case_families=by_kind,
        distribution=dict(
            secure_depth=fw.histogram(c["dist"]["depth"] for c in sec),
            secure_constructor_pairs_above_secure_field=pairs,
            secure_canaries_per_value=fw.histogram(min(c["dist"]["secure_leaves"], 12) for c in sec),
            reachable_secure_fields_per_value=fw.histogram(min(c["dist"].get("secure_fields", 0), 12) for c in sec),
            secure_result=fw.histogram(c["dist"]["result"] for c in sec),
            panics=sum(1 for c in cases if (c.get("observed") or {}).get("panic")),
            clone_entry=fw.histogram("%s keep_state=%s" % (c["dist"]["entry"], c["dist"]["keep_state"]) for c in cases if c["kind"].startswith("clone")),
            clone_secure_leaves=fw.histogram(min(c["dist"]["secure_leaves"], 30) for c in cases if c["kind"].startswith("clone")),
            render_files=fw.histogram(c["dist"]["files"] for c in cases if c["kind"] == "render"),
            registry_offending_fields=fw.histogram(c["dist"]["offending"] for c in cases if c["kind"].startswith("registry")),
            registry_static=fw.histogram("%s -> %s" % (c["dist"].get("path") or "no offending field", "accepted" if c["dist"]["registered"] else "refused")
                                         for c in cases if c["kind"] == "registry-static"),
            registry_registered=fw.histogram(c["dist"]["registered"] for c in cases if c["kind"].startswith("registry")),
            registry_ctors_above_offending=fw.histogram(k for c in cases if c["kind"] == "registry" for k in (c["dist"].get("non_struct_ctors_above") or [])),
        ),
        coq_shards=[dict(shard=i["shard"], n=i["n"], rc=i["rc"], wall_s=round(i["wall"], 1)) for i in infos],
    ), assumptions=[
        "the abstraction of Go values/types to GoVal.gv / Registry.ty terms and the canary labels are computed by the harness with reflect and strings only",
        "methods are invisible to the model (the specification: json.Marshaler / TextMarshaler / Stringer / error implementers are "
        "scrubbed like any struct); exercised on all three surfaces by the hand-declared types of harness/cmd/c17/methods.go",
        "values are trees: no sharing/cycles in VALUES; recursive TYPES (self-, 2- and 3-type cycles through pointers, slices, maps, "
        "struct values, interfaces) are hand-declared in harness/cmd/c17/recursive.go with finite values and go through all three surfaces; "
        "for the registry a recursive type is unfolded along each path until a struct type repeats (the repeat is cut), which has the same "
        "verdict as the code's walk with its `seen` set",
        "secure-concurrent family: two goroutines run clone.Secure at the same instant on two values of types never used before in the "
        "process (one recursive hand-declared family, N wide reflect.StructOf types); the model is sequential - clone.Secure has no shared "
        "state, so each result must equal the sequential one (deterministic on a correct tree; a racy implementation shows up probabilistically)",
        "ordinary unexported fields and anything below a Go array are outside the property (documented exclusions of clone.Secure); "
        "reflect.StructOf builds exported, non-embedded fields only: unexported fields, embedded structs / *structs of unexported "
        "types (whose promoted fields ARE in scope) and named types are exercised by the hand-declared types of harness/cmd/c17/static.go",
        "the registry's walk looks at ALL fields of a struct type, exported or not, embedded or not (the field's own name included, "
        "e.g. an embedded `loginSecure` or a private `keyCache` needs a tag): modelled as is; exercised by generated unexported fields "
        "(reflect.StructOf with PkgPath) and by the hand-declared types of harness/cmd/c17/reg.go",
        "the registry follows struct fields, pointers, slices, arrays and maps (keys and elements) since 3e0a32d (modelled: Registry.reach); "
        "an interface has no static fields",
        "a secure tag on an embedded field of unexported type makes every promoted field secret (since ea18f48; SecureSpec.promoted, "
        "SA_embed_tagged); exercised by the hand-declared EmbTagged / EmbDeep / EmbNil / EmbIgn / TagHolder types on all three surfaces",
        "clone.Plan with WithRemoveCompletedSequences (alone and with WithKeepState; plans with State everywhere and all four plan-level "
        "groups, because the option has other problems outside C17: nil State / absent groups dereferenced, nil actions left in sequences): "
        "WHICH objects it drops is not modelled; every request/response still in the result is paired with the original's by action name and "
        "must equal scrub(original) (CKept), nil actions count as absent, canaries searched in the clone's JSON (theorem c17_clone_any_kept_subset)",
        "HTML escaping, html/template and the JSON encoders are not modelled: rendered files are byte-searched",
        "embedded NON-struct values of unexported named types (type tokens []string; struct{ tokens }) are not entered by the code nor "
        "serialised by the encoders: treated as ordinary unexported fields",
        "brunoga/deep MustCopy is the identity on tree values in the model; that the original is untouched is observed, not proved (C18 models locations)",
    ])
