"""GEN - non-vacuity of the engine theorems (coq/gen): `./check GEN`.

C01-C08 are proved as "every trace ACCEPTED by the observable automaton satisfies the monitor".  coq/gen shows
that this set of traces is not empty on any shape that matters and for any behaviour of the plugins:
  gen : shape -> oracle -> trace  (Gen.v, a model file) is the sequential reference scheduler, and
  gen_accepted : shape_wf sh -> shape_ne sh -> exists s, run sh init (gen sh o) = Some s /\\ released s = true
for EVERY oracle (outcome per action and per invocation, incl. retries, permanent errors, overruns).

What this check does
  1. forbidden-vernacular scan and full .vo build of coq/gen (and of coq/engine, coq/c03, coq/c04 it imports);
  2. re-check of coq/gen/props/Gen.v with coqc; one obligation per theorem (checks + `Closed under the global
     context`); a theorem that no longer checks -> VIOLATION (no-failing-input-found) naming it;
  3. correspondence OF THE GENERATOR with the real engine (so that gen is the engine's schedule and not merely
     something the automaton happens to accept): real runs of harness/cmd/engine; the cases whose plan the engine
     executes sequentially (no continuous group, concurrency 1 wherever a block has several sequences) are
     compared inside Coq (GenCorr.gen_corr, vm_compute) with gen's trace for the same shape and the oracle read
     from the case's plugin scripts: equal traces after removing redundant writes (equal as a whole when no group
     has two actions, else equal per object and in the order of all plan/group/block/sequence writes).
     A difference is a concrete VIOLATION with the case as replay.
"""
import json
import os
import re
import shutil
import time

from vf import framework as fw

PROJ = "gen"
PROPS = "Gen"
GN = {"bypass": "GBypass", "pre": "GPre", "cont": "GCont", "post": "GPost", "deferred": "GDeferred"}
ON = {"ok": "OOk", "err": "OErr", "perm": "OPerm", "wrongtype": "OWrongType", "overrun": "OOverrun"}
HEADER = """From Coercion.Base Require Import Plan.
From Coercion.Engine Require Import Shape Event Accept.
From Coercion.Gen Require Import Gen GenCorr."""
# (profile, n quick, n thorough, extra harness args)
PLAN = [("gate", 112, 224, []), ("tol", 120, 360, []), ("conc", 80, 300, []), ("final", 120, 300, []),
        ("persist", 60, 300, []), ("tol", 120, 360, ["-deferred", "0.7"]), ("final", 80, 300, ["-deferred", "0.7"]),
        ("gate", 56, 224, ["-deferred", "0.7"]), ("mixed", 0, 300, []), ("order", 0, 300, [])]
CODES = {1: "the normalised traces differ at position %d (plan without parallel actions: total order)",
         2: "the writes of plan/groups/blocks/sequences and the release differ at position %d",
         3: "the events of action #%d of the shape differ at position %d", 4: "plan not sequential (not comparable)"}


def theorem_names(src):
    return re.findall(r"^\s*(?:Theorem|Lemma|Corollary)\s+([A-Za-z0-9_']+)", fw.strip_comments(src), re.M)


def aref_term(path):
    """'plan.pre[0]' / 'block2.bypass[1]' / 'block0.seq1[2]' -> term of Coercion.Base.Plan.aref."""
    m = re.match(r"^(plan|block(\d+))\.([a-z]+?)(\d*)\[(\d+)\]$", path)
    if not m:
        raise ValueError("unknown action path %r" % path)
    scope, b, kind, q, i = m.group(1), m.group(2), m.group(3), m.group(4), m.group(5)
    if kind == "seq":
        return "ASeq %s %s %s" % (b, q, i)
    return "AChk %s %s %s" % ("SPlan" if scope == "plan" else "(SBlock %s)" % b, GN[kind], i)


def oracle_term(scripts):
    """The oracle of a case: invocation k of an action answers what its script says for the FIRST run of the action
    (gates only delay), ok beyond the script."""
    arms = []
    for p, txt in sorted(scripts.items()):
        steps = [s.strip().split(">")[-1] for s in txt.split("|")[0].split(",") if s.strip()]
        for k, s in enumerate(steps):
            if s != "ok":
                arms.append("| %s, %d => %s" % (aref_term(p), k, ON[s]))
    return "(fun a k => match a, k with %s | _, _ => OOk end)" % " ".join(arms)


def sequential(spec):
    sh = spec["shape"]
    if sh["groups"][2] is not None:
        return False
    for bl in sh["blocks"]:
        if bl["groups"][2] is not None or (bl["conc"] != 1 and len(bl["seqs"]) > 1):
            return False
    return True


def check_proofs(ctx):
    res = dict(ok=False, theorems=[], closed=0, axioms=[], imports=fw.project_deps(PROJ))
    bad = fw.forbidden_scan([fw.project_dir(q) for q in [PROJ] + res["imports"]])
    ctx.oblige("no forbidden vernacular in coq/%s nor in the projects it imports" % PROJ, not bad)
    if bad:
        ctx.violation(dict(kind="forbidden-vernacular", lines=bad[:20], broken="coq/%s" % PROJ), nofail=True)
        return res
    ok, log, where = fw.coq_build([PROJ])
    ctx.oblige("full .vo build of coq/%s and of the projects it imports (%s)" % (PROJ, ", ".join(res["imports"])), ok)
    pf = os.path.join(fw.project_dir(PROJ), "props", PROPS + ".v")
    src = open(pf).read()
    names = theorem_names(src)
    res["theorems"] = names
    if not ok:
        for t in names:
            ctx.oblige("theorem %s (coq/%s/props/%s.v)" % (t, PROJ, PROPS), False)
        ctx.violation(dict(kind="coq-build-failed", broken="first failing file: %s" % where, theorems=names, log=log[-3000:]), nofail=True)
        return res
    work = os.path.join(ctx.work, "props")
    os.makedirs(work, exist_ok=True)
    shutil.copy(pf, os.path.join(work, PROPS + "_recheck.v"))
    rc, out = fw.sh(["coqc"] + fw.project_flags(PROJ) + [PROPS + "_recheck.v"], cwd=work, timeout=900)
    answers = re.findall(r"Closed under the global context|Axioms:", out)
    closed = out.count("Closed under the global context")
    axioms = sorted(set(re.findall(r"^([A-Za-z0-9_.']+)\s*:", out.split("Axioms:", 1)[1], re.M))) if "Axioms:" in out else []
    failing = None
    for i, t in enumerate(names):
        good = i < len(answers) and answers[i].startswith("Closed")
        if not good and failing is None:
            failing = t
        ctx.oblige("theorem %s (coq/%s/props/%s.v): checks, closed under the global context" % (t, PROJ, PROPS), good)
    printed = len(re.findall(r"^\s*Print\s+Assumptions\s", fw.strip_comments(src), re.M))
    res.update(closed=closed, axioms=axioms, ok=(rc == 0 and bool(names) and closed == len(names) == printed and not axioms))
    if not res["ok"]:
        ctx.violation(dict(kind="property-theorem-does-not-check",
                           broken="coq/%s/props/%s.v: theorem %s no longer checks or is not closed" % (PROJ, PROPS, failing or "?"),
                           theorem=failing, closed_under_global_context=closed, theorems=len(names), axioms=axioms, log=out[-3000:]),
                      nofail=True)
    if res["ok"] and ctx.tier == "thorough" and not os.environ.get("VERIF_NO_COQCHK"):
        ck = fw.coqchk_props(PROJ, PROPS, timeout=6000)
        ctx.oblige("coqchk -silent -o %s" % ck.get("library"), ck["ok"])
        if not ck["ok"]:
            res["ok"] = False
            ctx.violation(dict(kind="coqchk-failed", broken="coqchk %s" % ck.get("library"), log=ck["log"]), nofail=True)
    return res


def describe(r):
    if not r:
        return "model evaluation produced no result"
    if r[0] in CODES:
        return CODES[r[0]] % tuple(r[1:1 + CODES[r[0]].count("%d")])
    return "agree"


def check_generator(ctx):
    """Step 3. Returns dict(compared, runs, skipped, bad, dist)."""
    quick = ctx.tier == "quick"
    cases, runs, t0 = [], 0, time.time()
    for k, (prof, nq, nt, extra) in enumerate(PLAN):
        n = nq if quick else nt
        if not n:
            continue
        got = ctx.harness("engine", ["-profile", prof, "-n", str(n), "-cancelctx", "0"] + extra, out_name="gen_%d_%s.jsonl" % (k, prof))
        if got is None:
            return None
        runs += len(got)
        cases += [c for c in got if c.get("coq") and not c.get("dist", {}).get("hang") and c.get("kind") not in ("panic", "child-death-unreproduced")
                  and sequential(c["input"]["spec"])]
    ctx.oblige("harness runs complete", True)
    harness_wall = time.time() - t0
    terms = ["(%s, %s)" % (c["coq"], oracle_term(c["input"]["spec"]["scripts"])) for c in cases]
    t1 = time.time()
    results, infos = fw.eval_cases(os.path.join(ctx.work, "coq_gen"), PROJ, HEADER, "gcase", "gen_corr", "gen_corr_ok", terms)
    for info in infos:
        ctx.oblige("gen_corr shard %d (%d real sequential traces): forallb gen_corr_ok cases = true (gen's trace = the engine's)"
                   % (info["shard"], info["n"]), info["rc"] == 0)
    bad = [(c, r) for c, r in zip(cases, results) if r != [0]]
    bad.sort(key=lambda cr: cr[0].get("dist", {}).get("events", 10 ** 6))
    if bad:
        c, r = bad[0]
        ctx.violation(dict(kind="generator-differs-from-engine", why=describe(r), check_result=r, case=c["id"],
                           profile=c["input"].get("profile"), index=c["input"].get("index"), case_seed=c["input"].get("seed"),
                           input=c["input"], observed=c["observed"], oracle=oracle_term(c["input"]["spec"]["scripts"]),
                           coq=c["coq"][:200000], differing_cases=[x["id"] for x, _ in bad[:30]], n_differing=len(bad),
                           broken="Gen.gen is no longer the trace the engine logs for a sequentially executed plan "
                                  "(the engine's order of writes changed, or Gen.v drifted)"))
    strict = sum(1 for c in cases if all(g is None or len(g["retries"]) <= 1 for g in c["input"]["spec"]["shape"]["groups"])
                 and all(g is None or len(g["retries"]) <= 1 for bl in c["input"]["spec"]["shape"]["blocks"] for g in bl["groups"]))
    outcomes = {}
    for c in cases:
        for v in c["input"]["spec"]["scripts"].values():
            for s in re.findall(r"ok|err|perm|wrongtype|overrun", v.split("|")[0]):
                outcomes[s] = outcomes.get(s, 0) + 1
    return dict(compared=len(cases), runs=runs, bad=len(bad), strict=strict, scripted_outcomes=outcomes,
                blocks=fw.histogram([len(c["input"]["spec"]["shape"]["blocks"]) for c in cases]),
                events=fw.histogram([min(c["dist"].get("events", 0) // 50 * 50, 400) for c in cases]),
                harness_wall_s=round(harness_wall, 1), coq_wall_s=round(time.time() - t1, 1),
                samples=[c["id"] for c in cases[:5]])


def run(ctx):
    r = check_proofs(ctx)
    ctx.assumptions = dict(closed_under_global_context=r["closed"], axioms=r["axioms"], file="coq/%s/props/%s.v" % (PROJ, PROPS))
    g = check_generator(ctx) if r["ok"] else None
    g = g or dict(compared=0, runs=0, bad=0, strict=0)
    ctx.say("GEN: %d theorems re-checked (%d closed); generator = engine on %d of %d sequential real traces (%d engine runs)"
            % (len(r["theorems"]), r["closed"], g["compared"] - g["bad"], g["compared"], g["runs"]))
    ctx.evidence(dict(
        evaluations=g["compared"], distinct_nontrivial=g["compared"],
        rule="theorems re-checked by coqc; one evaluation = one real sequentially executed plan run whose logged trace (redundant "
             "writes removed) equals Gen.gen for the case's shape and scripted oracle, decided inside Coq by vm_compute",
        samples=g.get("samples", []), theorems=r["theorems"], imports=r["imports"], generator_correspondence=g,
        checker_cmd="make (coq/gen and imports) ; coqc props/Gen.v ; harness/cmd/engine | coqc cases_<k>.v (Lemma corr_ok: forallb gen_corr_ok cases = true)"),
        assumptions=["shape_ne (present groups and sequences have an action) is a premise of gen_accepted; shape_ne_needed proves it cannot be dropped; "
                     "workflow validation requires it of every plan",
                     "gen is ONE legal schedule per (shape, oracle): sequential, continuous groups run once; other schedules are covered by the "
                     "real traces accepted in C01-C08, not by this theorem",
                     "generator correspondence: plans the engine executes sequentially only; the oracle is read from the harness's plugin scripts "
                     "(first run of each action); End events of timed-out invocations are not compared (they come whenever the plugin returns)"])
