"""C01 - Declared order: blocks, then actions of a sequence, each gated on success."""
from props import engine_common as ec
from props import smgraph


def run(ctx):
    ec.run_engine_check(
        ctx,
        profile=[("order", 220, 2400), ("mixed", 80, 1200)],
        n_quick=0, n_thorough=0,
        extra_header="From Coercion.C01 Require Import MonC01.",
        monitors=["mon_order", ("mon_order_diag", "list")],
        release_obligation=False,
        proj="c01",
        pre_checks=[smgraph.check_smgraph],
    )
