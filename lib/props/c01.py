"""C01 - Declared order: blocks, then actions of a sequence, each gated on success.

Formal statement: the monitor `mon_order` (coq/c01/MonC01.v), a fold over the PLUGIN events of one plan run
(EvStart / EvEnd; writes are not invocations) with clauses
  (i)   blocks one at a time in declared order (the block index of plugin events never decreases; nothing of a block
        once the plan's post / deferred group has begun),
  (ii)  within a sequence: one invocation at a time, actions in index order, action i+1 only after action i's LAST
        return was ok, after a transient failure only the same action again, nothing after a failed action,
  (iii) every sequence action of block b only after every action of the plan's pre group, the plan's continuous
        group, block b's pre group and block b's continuous group has returned ok (the completed all-ok run of the
        pre groups and the initial run of the continuous groups),
  (iv)  a scope's post group only after its sequences (plan: its blocks), its deferred group only after its post
        group and its sequences; background runs of continuous groups and overrun returns (the engine enforced the
        attempt's deadline and no longer waits: plugin contract) are exempt (DESIGN.md section 11).

Theorem (coq/c01/props/C01.v, closed under the global context):
  c01_order_and_gates : forall sh tr s, shape_wf sh = true -> run sh init tr = Some s -> mon_order (sh, tr) = true
for ALL shapes, outcome scripts and interleavings the engine automaton (coq/engine) admits, proved by the product
invariant InvC01.R (kept by every epsilon-move and by every handler).

Every run:
  * the proofs are re-checked; lib/props/smgraph.py regenerates the state-chain graph from the Go source and re-proves
    the dominance facts that are the SECOND, source-derived tie of the phase order this property is about
    (ExecuteSequences only through PlanPreChecks/PlanStartContChecks/BlockPreChecks/BlockStartContChecks;
    BlockPostChecks only through ExecuteSequences; PlanPostChecks only through ExecuteBlock; BlockEnd only through
    BlockDeferredChecks; after PlanDeferredChecks only End; the graph is the declared one, per return site);
  * real engine traces (profiles order, tol, cont, gate, mixed) must be accepted by the automaton AND satisfy
    mon_order; a false monitor is a concrete violation with the trace as replay (one per violated clause).
"""
import json
import os

from props import engine_common as ec
from props import smgraph
from props import mech
from vf import framework as fw

CLAUSES = {1: "(i) blocks one at a time in declared order", 2: "(ii) actions of a sequence in order, each after its predecessor's ok",
           3: "(iii) sequence action before the pre / initial continuous checks passed",
           4: "(iv) post after the sequences, deferred after post and sequences"}

CITED = ["graph_as_declared", "phase_graph_as_declared", "execute_sequences_gated", "execute_sequences_gated_per_block",
         "after_block_deferred_no_sequences_of_this_block", "block_post_only_through_sequences",
         "block_post_only_through_sequences_per_block", "plan_post_only_through_execute_block", "plan_post_predecessor",
         "block_end_only_through_block_deferred", "after_plan_deferred_only_end", "entry_points_have_no_predecessor_but_recovery"]

_SM = {}


def _smgraph(ctx):
    res = smgraph.check_smgraph(ctx)
    _SM.update(res)
    for t in CITED:
        ctx.oblige("C01 cites smgraph fact %s (re-proved on the graph extracted from the source)" % t,
                   t in res.get("theorems", []) and t not in res.get("failed", []))
    return res


def run(ctx):
    out = ec.run_engine_check(
        ctx,
        profile=[("order", 300, 3000), ("tol", 240, 720), ("cont", 252, 1260), ("gate", 112, 448), ("mixed", 120, 1500)],
        n_quick=0, n_thorough=0,
        extra_header="From Coercion.C01 Require Import MonC01.",
        monitors=["mon_order", ("mon_order_diag", "list")],
        release_obligation=False,
        multi_quick=24, multi_thorough=300,
        proj="c01",
        # mech: the statement-shape tie of ExecuteSequences / BlockEnd / runContChecks (clause (iv) rests on the g.Wait calls:
        # a wait that gives up after a real-time limit cannot be exhibited by millisecond plugins, but it changes the shape)
        pre_checks=[_smgraph, mech.check_mechanisms],
        rule_extra="mon_order_diag = [0] holds | [1; event index; clause 1..4; 1 Start / 2 End].",
        assumptions=["the automaton's acceptance of the real traces (corr_ok) is what transfers the theorem to the code; "
                     "mon_order on the real trace itself is what yields a concrete failing trace when it does not"],
        not_covered=["Not covered: order of goroutines that emit no plugin event; how many attempts an action may have beyond "
                     "what clause (ii) needs (C05); launch guard / concurrency (C02, C03); bypass gating (C06); continuous "
                     "failures (C07); Hang traces are only noted here (release obligation: C04 / C06)"],
    )
    if not out:
        return
    # one concrete violation per violated CLAUSE (run_engine_check reports the smallest failing trace overall)
    by_clause = {}
    for c, r in out["mon_bad"].get("mon_order_diag", []):
        d = r[2] if r and len(r) > 2 else None
        if d and d[0] == 1 and len(d) >= 3:
            by_clause.setdefault(d[2], []).append((c, r))
    mons = ec._mon_specs(["mon_order", ("mon_order_diag", "list")])
    reported = set()
    for rel in ctx.violations:
        try:
            rp = json.load(open(os.path.join(fw.ROOT, rel)))
            d = (rp.get("check_result") or [None, None, None])[2]
            if rp.get("kind") == "monitor-false" and d and d[0] == 1:
                reported.add(d[2])
        except (OSError, ValueError, IndexError, TypeError):
            pass
    hist = {}
    for cl, lst in sorted(by_clause.items()):
        hist[CLAUSES.get(cl, str(cl))] = len(lst)
        if cl in reported:
            continue
        lst.sort(key=lambda x: ec._size(x[0]))
        c, r = lst[0]
        ctx.violation(ec._replay_obj(ctx, c, "monitor-false", "mon_order false: clause %s violated at event #%d (%s) of the real "
                                     "engine's trace; %d traces violate this clause" % (CLAUSES.get(cl, cl), r[2][1],
                                                                                         "EvStart" if r[2][3] == 1 else "EvEnd", len(lst)),
                                     r, mons, dict(failing_monitor="mon_order", clause=cl, failing_cases=[x[0]["id"] for x in lst[:30]])))
    # augment the evidence
    path = fw.evidence_path(ctx.pid)
    try:
        ev = json.load(open(path))
        ev["coverage"]["c01"] = dict(violated_clauses=hist, smgraph=smgraph.coverage(_SM).get("smgraph"), cited_smgraph_facts=CITED,
                                     theorem="c01_order_and_gates : forall sh tr s, shape_wf sh = true -> run sh init tr = Some s -> "
                                             "mon_order (sh, tr) = true")
        ev["violations"] = len(ctx.violations)
        ev["coverage"]["obligations"] = len(ctx.obligations)
        ev["coverage"]["discharged"] = sum(1 for _, ok in ctx.obligations if ok)
        json.dump(ev, open(path, "w"), indent=1, default=str)
    except (OSError, ValueError, KeyError):
        pass
