"""C05 - attempts: at most Retries+1 calls, stop on success/permanent, all recorded.

Theorem side: coq/attempts/props/C05.v, over the functional model of ONE ACTION RUN (ActionRun.v: a transcription of
actions.Runner.Start/Execute/exec/run/End + Backoff.Retry) for every retries and every script, and over the observable
automaton ActionAuto.v for every accepted trace.
Correspondence: real engine runs (coercion.New over in-memory sqlite, vault.Create, Start, Wait) of plans whose
actions have scripted outcomes; per action run: observed (calls, ctx.Err() per call, recorded attempts, final status)
= run_action retries script, and the event trace (durable writes + plugin start/end under one lock) is accepted by
ActionAuto and by the monitor.  The specification determines the result of a run completely, so a disagreement in
calls/attempts/status IS a violation with that script as the failing input.
"""
import json
import os

from vf import framework as fw

HEADER = """From Coercion.Base Require Import Plan.
From Coercion.Attempts Require Import ActionRun ActionAuto AttemptsCheck."""

CODES = {
    1: "number of plugin invocations differs from run_action (bound / stop rule)",
    2: "ctx.Err() seen by the plugin differs (context cancelled exactly in the overrun invocations)",
    3: "recorded attempts differ from run_action (one per invocation, in order, response / error / time order)",
    4: "final status differs from run_action",
    5: "the monitor passes but the event trace of the run is not accepted by ActionAuto",
    6: "the monitor of Appendix B (C05/C08a for one run) rejects the run's event trace: a Start without the previous attempt "
       "durable / after a final outcome / beyond retries+1, an attempt write that is not the next one or contradicts what the "
       "plugin returned, or a terminal write whose attempt count is not the number of invocations",
    7: "property evaluated on the observation itself is false",
    8: "attempts / status read back from storage differ from the last write of the last run",
    10: "the plan hung with this action run stuck before its terminal write (no event for over a second): no final status",
    9: "an action that never started has attempts, a status other than NotStarted, or other events than NotStarted writes",
}


def merge(h, d):
    for k, v in (d or {}).items():
        h[k] = h.get(k, 0) + v


def run(ctx):
    proofs_ok = ctx.static_and_proofs("attempts")
    __import__("props.apishape", fromlist=["x"]).check_run_shape(ctx)  # structural tie of actions.run (fix 45aa3d6)
    QUICK = ["-exh", "3", "-n", "120"]
    THOROUGH = ["-exh", "4", "-n", "8000", "-par", "8"]
    args = QUICK if ctx.tier == "quick" else THOROUGH
    only = os.environ.get("C05_ONLY")
    if ctx.replay:
        rp = json.load(open(ctx.replay))
        only = rp.get("case")
        ctx.env["VERIF_SEED"] = str(rp.get("seed", ctx.seed))
        args = THOROUGH if rp.get("tier") == "thorough" else QUICK
    if only:
        args += ["-only", only]
    cases = ctx.harness("c05", args, timeout=3000)
    if cases is None:
        ctx.evidence(dict(evaluations=0, distinct_nontrivial=0, rule="harness did not run", samples=[]))
        return
    live = [c for c in cases if c["coq"] != "[]" or not (c.get("note") or "").startswith(("dropped", "harness"))]
    dropped = [c for c in cases if (c.get("note") or "").startswith("dropped")]
    broken = [c for c in cases if (c.get("note") or "").startswith("harness")]
    live = [c for c in cases if c not in dropped and c not in broken]
    terms = [c["coq"] for c in live]
    results, infos = fw.eval_cases(ctx.work, "attempts", HEADER, "case", "check_case", "case_ok", terms)
    for info in infos:
        ctx.oblige("corr_ok shard %d (%d plans): forallb case_ok cases = true" % (info["shard"], info["n"]), info["rc"] == 0)
    ctx.oblige("every plan produced an observation (no harness failure)", not broken)

    bad = []
    for c, r in zip(live, results):
        acts = c["input"]["plan"]
        if r is None:
            bad.append((c, None, "model evaluation produced no result for this plan"))
        elif r[0] != 0:
            bad.append((c, r, CODES.get(r[0], "code %d" % r[0])))
    hangs = [c for c in live if c["dist"].get("hang")]
    if bad:
        def size(x):
            return x[0]["dist"].get("actions", 0)
        bad.sort(key=size)
        c, r, why = bad[0]
        detail = dict(kind="action-run-differs", why=why, case=c["id"], failing_plans=len(bad),
                      failing_ids=[b[0]["id"] for b in bad[:30]], input=c["input"],
                      replay_cmd="VERIF_SEED=%s C05_ONLY=%s ./check C05 --tier %s" % (ctx.seed, c["id"], ctx.tier))
        if r is not None:
            ai = r[1] if len(r) > 1 else 0
            acts = flat_actions(c["input"]["plan"])
            a = acts[ai] if ai < len(acts) else None
            obs = None
            for o in c["observed"]["actions"]:
                if a and o["path"] == a["path"]:
                    obs = o
            detail.update(code=r, action=a, observed_action=obs,
                          model_says="run_action retries script (coq/attempts/ActionRun.v); check_case answered %s "
                                     "[code; action index; run index; event index]" % r)
        else:
            detail.update(observed=c["observed"])
        # codes 1-4, 7, 8, 9 and 6: the property itself is false on the observation. Code 5 alone (trace not accepted
        # although results agree and the monitor passes) is a broken correspondence with no failing input.
        only5 = all(b[1] is not None and b[1][0] == 5 for b in bad)
        if only5:
            detail["broken"] = "corr_ok: a real trace is not accepted by ActionAuto.astep although run_action and the monitor agree with it"
        ctx.violation(detail, nofail=only5)
    for c in hangs:
        ctx.say("NOTE: plan %s did not finish within 5 s (hang): only prefix checks applied to its runs" % c["id"])

    # ---- evidence
    H = dict(outcomes={}, overrun_flavours={}, response_flavours={}, retries={}, script_len={}, calls={}, status={}, kinds={})
    combos = set()
    ran = runs = never = 0
    for c in live:
        d = c["dist"]
        for k in H:
            merge(H[k], d.get(k))
        combos.update(d.get("combos_run") or [])
        ran += d.get("ran", 0)
        runs += d.get("runs", 0)
        never += d.get("never_ran", 0)
    want = 5 * 10 ** int(args[args.index("-exh") + 1])
    ctx.oblige("bounded-exhaustive family: all %d (script of length %s over the 10 outcomes, retries 0-4) combinations ran"
               % (want, args[args.index("-exh") + 1]), len(combos) == want or bool(only))
    longs = [c for c in live if c["kind"] == "long"]
    ctx.oblige("long-budget family (retries 31, 32, 33, 40, 64): every action ran",
               bool(only) or (len(longs) > 0 and all(c["dist"].get("never_ran", 1) == 0 for c in longs)))
    lates = [c for c in live if c["kind"] == "late"]
    ctx.oblige("late-answer family (overrun ignoring the cancellation, answering inside the slow retry): plans ran",
               bool(only) or (len(lates) > 0 and all(c["dist"].get("ran", 0) > 0 for c in lates)))
    samples = []
    for c in live[:1] + live[-2:]:
        o = c["observed"]["actions"][:3]
        samples.append(dict(id=c["id"], dist={k: v for k, v in c["dist"].items() if k != "combos_run"},
                            actions=[dict(path=a["path"], runs=a["runs"][:2], back=a["back"]) for a in o]))
    ctx.evidence(dict(
        evaluations=runs,
        distinct_nontrivial=fw.distinct_nontrivial(live),
        rule="evaluations = action runs compared with run_action and checked against ActionAuto (a check action of a continuous group "
             "contributes one per run of the group); distinct = plans with distinct multisets of (retries, delivered script, kind, calls, "
             "attempts); non-trivial = at least one action ran. Bounded-exhaustive: every script of length k over the 10 outcomes "
             "{overrun} + {nil, good, wrong-typed response} x {no, transient, permanent error} x retries 0..4 (quick: k=3, 5000 "
             "combinations; thorough: k=4, 50000), each once, as a sequence or as a check action by the seed, laid out over plans so "
             "that each one runs; long budget: retries 31/32/33/40/64 with scripts transient for the whole budget or ending ok / permanent / wrong-typed at "
             "attempt 30-45 (plugin safety net: permanent error from call retries+10 on); scripted errors carry an EMPTY message with "
             "p = .3; random: 1-3 sequences x 1-3 actions, each of the "
             "10 check groups with p=.35, scripts of length 0-6, retries 0-4, conc 1-3, tolerance -1..2",
        samples=samples,
        traces_validated_against_impl=runs,
        plans=len(live), actions_ran=ran, actions_never_started=never, exhaustive_combinations_run=len(combos),
        dropped_disturbed=len(dropped), hangs=len(hangs),
        dropped_kinds=fw.histogram(k for c in dropped for k in (c["dist"].get("dropped_kinds") or {})),
        rerun_causes=fw.histogram(k for c in cases for k in ((c.get("dist") or {}).get("rerun_causes") or [])),
        reruns=fw.histogram(c["dist"].get("round", 0) for c in live),
        distribution=dict(outcomes_delivered=H["outcomes"], overrun_flavours=H["overrun_flavours"], response_flavours=H["response_flavours"], retries=H["retries"], script_len=H["script_len"],
                          invocations_per_run=H["calls"], final_status=H["status"], kinds=H["kinds"]),
        coq_shards=[dict(shard=i["shard"], n=i["n"], rc=i["rc"], wall_s=round(i["wall"], 1)) for i in infos],
    ), assumptions=[
        "the harness plugins (outcome scripts, tags in Resp.Value / Error.Code), the attribution of invocations by nonce+path, "
        "the single lock of the event log, the projection of attempts (nil-ness, Go type, Code class, Permanent, time order)",
        "timeouts are 15-25 ms where an overrun is planned, 30 s otherwise. Machine-load disturbances make the plan re-run in a fresh "
        "child (up to 3 times) and, if they persist, exclude it (dropped_disturbed / dropped_kinds): late_start (plugin entered "
        "after its deadline), late_end (the plugin logged an in-time return, the engine recorded a timeout, and its write came "
        "AFTER the invocation's deadline - the same with the write before the deadline is not excused), near_deadline (in-time "
        "return within 4 ms of the deadline). not-entered (attempt without invocation: the worker pool gave up) is re-run too but "
        "compared as it is if it persists; likewise late_notice (a prompt-flavour overrun whose late answer the engine recorded, "
        "with the attempt write >= 8 ms after the deadline). Overrun flavours: the plugin returns only after the engine's write of "
        "that attempt (cap 150 ms), or answers 8 ms after the cancellation (good response / permanent error); or IGNORES the cancellation and answers 15-25 ms after the deadline while a slow retry (answers "
        "after 40 ms; timeouts 60-70 ms there) is in flight; the model expects the timeout attempt for all three. Response "
        "flavours: PGood = the declared type (a value of Resp; for the plugin that declares *AltResp a pointer or a TYPED-NIL "
        "pointer of that type), PBad = a non-nil interface of another dynamic type (value, typed-nil pointer, nil map, nil slice, or a HOMONYM: a type of another package that prints the same with %T)",
        "modelled, not verified: Backoff.Retry of github.com/Azure/retry (transcribed), the retry policy has no MaxAttempts, the plan "
        "context is not cancelled during a run. Not covered: the back-off durations; recovered (Running) actions (C09/C10)",
    ])


def flat_actions(plan):
    out = []
    for g in plan["plan_groups"]:
        out += g or []
    for g in plan["block_groups"]:
        out += g or []
    for s in plan["seqs"]:
        out += s or []
    return out
