"""Shared by C13 and C14 (Store group): header of the Coq case files, decoding of check_case's result
codes into sentences, selection of the smallest failing case, distribution facts."""
from vf import framework as fw

HEADER = """From Coercion.Base Require Import Plan.
From Coercion.Store Require Import Tree Rows Spec SqliteModel CosmosModel StoreCheck."""

PLAN_DIFF = {0: "no top-level field (a nested object differs)", 1: "ID", 2: "GroupID", 3: "Name", 4: "Descr", 5: "Meta",
             6: "State (status/start/end)", 7: "SubmitTime", 8: "Reason", 9: "BypassChecks", 10: "PreChecks", 11: "ContChecks",
             12: "PostChecks", 13: "DeferredChecks", 14: "number of Blocks", 15: "a Block (or something below it)"}
ACT_DIFF = {0: "no action differs (or actions are missing/extra in equal numbers elsewhere)", 1: "action ids / order of actions",
            2: "an action's Req", 3: "an action's Attempts", 4: "an action's State", 5: "another field of an action",
            6: "number of actions"}


def explain_obs(code):
    """code = the tail of check_case's result that describes one observation."""
    if not code:
        return "?"
    k = code[0]
    j = code[1] if len(code) > 1 else -1
    if k == 21:
        return "Read of id #%d returned an error; the specification has a plan stored under it" % j
    if k == 22:
        return "Read of id #%d returned a plan and nil error; the specification has nothing under it (never created / deleted / failed create)" % j
    if k == 23:
        return "Read of id #%d returned a plan with a nil State or nil element (an empty plan)" % j
    if k == 24:
        return "Read of id #%d returned a plan that differs from what was last written: first difference in %s; among all actions: %s" % (
            j, PLAN_DIFF.get(code[2], code[2]), ACT_DIFF.get(code[3], code[3]))
    if k == 29:
        return "harness error: dangling table index"
    if k == 31:
        return "row counts per table for plan id #%d differ from the model's (orphan or missing rows)" % j
    if k == 32:
        return "Exists of id #%d differs from the specification (a plan that was not stored exists, or a stored one does not)" % j
    if k == 33:
        return "cosmosdb: the search partition's entry for id #%d is there / not there against the model" % j
    if k == 41:
        return "cosmosdb items emitted for the plan differ from the model's planToItems (item #%d)" % j
    return "code %r" % (code,)


def explain(res):
    if res is None:
        return "model evaluation produced no result for this case"
    if res == [0]:
        return "agrees"
    k = res[0]
    if k == 1:
        return "step %d: the operation %s, the specification says it %s" % (
            res[1], "failed" if res[2] == 1 else "succeeded", "succeeds" if res[2] == 1 else "fails")
    if k == 2:
        return "after step %d: %s" % (res[1], explain_obs(res[2:]))
    if k == 4:
        return "after the killed Create at step %d the database is neither the one before nor the one after it: %s" % (res[1], explain_obs(res[2:]))
    if k == 41:
        return "cosmosdb: item #%d that planToItems emitted for plan #%d differs from the model's (columns, pos or order of emission)" % (res[2], res[1])
    if k == 42:
        return "cosmosdb: the model's planToItems rejects plan #%d but the implementation emitted items" % res[1]
    if k == 6:
        return "step %d: the call (its context was cancelled at a random instant) returned nil, but the specification cannot succeed here" % res[1]
    if k == 7:
        return "step %d: the call (its context was cancelled at a random instant) returned an error, but the store is not the one before the call (nor, for Delete, the one after it): %s" % (res[1], explain_obs(res[2:]))
    if k == 8:
        return "unknown backend"
    if k == 9:
        return "harness error: step %d is outside the storage domain (nil State / nil element in an input)" % res[1]
    return "code %r" % (res,)


def failing_step(res):
    if res and res != [0] and len(res) > 1 and res[0] in (1, 2, 4, 6, 7, 9):
        return res[1]
    return None


def classify(ctx, pid, cases, results, what):
    """Report the smallest failing case per (kind, first code) as a violation. Returns number of failing cases.
    The specification determines every compared observation (result class, Read result, row counts)
    completely, so a disagreement is a violation of the property with that input (FRAMEWORK verdict rules)."""
    bad = []
    for c, r in zip(cases, results):
        if c.get("note", "").startswith("panic"):
            why = c["note"][:400]
            if r is not None and r != [0]:
                why = explain(r) + " || and then: " + why
            bad.append((c, r, why))
        elif r != [0]:
            bad.append((c, r, explain(r)))
    if not bad:
        return 0
    groups = {}
    for c, r, why in bad:
        key = (c["kind"], c["dist"].get("backend"), c["dist"].get("mode"), tuple((r or [99])[:1] + (r or [99])[2:5]))
        groups.setdefault(key, []).append((c, r, why))
    reported = 0
    for key, items in sorted(groups.items(), key=lambda kv: -len(kv[1])):
        if reported >= 6:
            break
        items.sort(key=lambda x: (x[0]["dist"].get("ops", 0), len(x[0]["coq"])))
        c, r, why = items[0]
        i = failing_step(r)
        trace = c.get("observed") or []
        if i is not None:
            trace = trace[:i + 1]
        ctx.violation(dict(kind=what, why=why, case=c["id"], case_kind=c["kind"], backend=c["dist"].get("backend"),
                           input=c["input"], case_dist=c["dist"], check_case_result=r, failing_cases_of_this_kind=len(items),
                           failing_cases_total=len(bad), operations_and_observations=trace[-8:],
                           case_coq=c["coq"][:60000],
                           replay_cmd="VERIF_SEED=%s ./check %s --tier %s   (case %s)" % (ctx.seed, pid, ctx.tier, c["id"])))
        reported += 1
    return len(bad)


def dist(cases, key):
    return fw.histogram(c["dist"].get(key) for c in cases)


def ophist(cases):
    h = {}
    for c in cases:
        for k, v in (c["dist"].get("ophist") or {}).items():
            h[k] = h.get(k, 0) + v
    return h
