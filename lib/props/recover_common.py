"""Shared driver of C09 (durably finished work is never executed again) and C10 (recovery converges) - stage 2:
the RESUMED engine run.  Model: coq/resume (Resume.v = the engine automaton of coq/engine started from the crash
repair of coq/recover; MonRecover.v = the monitors).  Harness: harness/cmd/recover.

What one run does:
  1. ctx.static_and_proofs("resume"): forbidden scan, full .vo build of coq/base, coq/engine, coq/recover and
     coq/resume, re-check of coq/resume/props/<pid>.v with Print Assumptions;
  2. repair.check_repair(ctx): the stage-1 correspondence (Fix.v = the real fix* functions, by function equality
     through the verifhooks hooks) and the Repair.v theorems - the resumed automaton starts from Fix.fix_plan;
  3. harness/cmd/recover (also: stores holding 3-6 plans Running at crash points of their own, recovered by ONE
     coercion.New that must return within 5 s): real uninterrupted runs of generated plans (case kind `run`), a REAL recovery
     (vault.Create of the crash image on a fresh store, coercion.New, Wait) for EVERY write prefix of each of them
     (kind `rec`, level 1), and for a sample of those recoveries every write prefix of the recovery again (level 2);
     thorough: file-backed stores and real SIGKILLs of a child;
  4. Coq (vm_compute, one kernel-checked corr_ok per shard), per case:
       run: the engine automaton accepts the trace, and read-back k = crash_image sh tr k for every k;
       rec: the resumed automaton accepts the recovering process's trace from the crash image (with the deviation
            flags listed as known in known_findings.json), mon_noreexec (C09), mon_converges (C10);
  5. verdicts:
       monitor false (after the known flags)            -> concrete VIOLATION, smallest case as replay;
       a case that needs a flag listed as `known`       -> KNOWN-FINDING line (never fails the run);
       a case that needs a flag NOT listed as known     -> concrete VIOLATION (it leaves something Running);
       Hang (Wait did not return in 2 s, confirmed in a fresh process on the kept image) -> VIOLATION (C10);
       trace rejected by the automaton, monitors true   -> more plans through the monitors (budgeted); a failing
                                                           one is a concrete VIOLATION, else no-failing-input-found.
Replay: `./check C10 --replay replays/C10-1.json` re-runs the plan of the recorded case (same seed and index: every
crash point of it again, 3 times) and re-evaluates the recorded case as well.
"""
import json
import os
import time

from vf import framework as fw
from props import repair

HEADER = """From Coercion.Base Require Import Plan.
From Coercion.Engine Require Import Shape Event.
From Coercion.Resume Require Import Resume MonRecover ResumeCheck.
Definition known : devs := {| dev_R2 := %s; dev_R3 := %s; dev_R5 := %s; dev_R6 := %s |}.
Definition chk := check_rcase known.
Definition okf := rcase_ok known."""

FLAGS = {2: "R2", 3: "R3", 5: "R5", 6: "R6"}   # R4 (C11) and R7 (C10, fixed by 0c944e8) have no flag
WHAT = {
    "R2": "interrupted check-group run is not repaired by recovery (a check action stays Running / its group keeps the "
          "interrupted run's Start / deferred groups are skipped when recovery short-circuits to End)",
    "R3": "fixBlock early return leaves an in-flight sequence Running",
    "R5": "a sequence repaired in memory is not written before its block's terminal write: after a second crash it stays "
          "Running inside a finished block (fixBlock ignores blocks that are not Running)",
    "R6": "plan-level continuous group durably Failed: Recovery goes to End and abandons the block that was executing (left Running)",
}
RPH = ["RIdle", "RRecover", "RRun"]
PPH = ["PStart", "PBypass", "PPre", "PBlocks", "PPost", "PDeferred", "PEnd", "PReleased"]
BPH = ["BEnter", "BBypass", "BPre", "BSeqs", "BPost", "BDeferred", "BEnd"]
KINDS = {1: "EvStart", 2: "EvEnd", 3: "EvWrite", 4: "EvRead", 5: "EvRelease"}
CODES = {10: "Wait did not return (no EvRelease)", 11: "the released plan is not Completed/Failed",
         12: "an object is left Running with no listed explanation", 13: "the released plan violates the consistency rules of C04",
         14: "the deferred group of an entered scope never completed a run", 15: "final status differs from the uninterrupted run's",
         17: "a Completed block of the released plan holds a Failed check group (a failed check was treated as passed)",
         16: "the crash image (left by a crashed recovery) shows a plan that had started as NotStarted: no process will ever resume it"}
OBJK = {1: "plan", 2: "check group", 3: "block", 4: "sequence", 5: "check action", 6: "sequence action"}

ASSUMPTIONS = [
    "crash = a prefix of the durable write sequence: the image is read back through the store after each Update* returned "
    "(every write is serialised by the harness's vault wrapper); Coq re-derives it from the trace (crash_image) and compares",
    "the crash image is materialised with vault.Create on a fresh store (any state/attempts are stored as given) and recovered "
    "by a new Workstream (coercion.New) in the same process under a fresh plugin nonce; the thorough tier cross-validates with "
    "file-backed stores and real SIGKILLs of a child process",
    "plugin outcomes are a function of the action alone (kind `determined`); in kind `contk` one continuous check fails at its "
    "k-th invocation of the process (outcome comparison is skipped there)",
    "the harness's event log: ONE lock for plugin Start/End, vault writes (logged after Update* returned) and the release",
    "the repair functions are the transcription Fix.v, tied to the code by function equality on every run (repair.check_repair)",
    "Not covered: durability below the Update* return (SQLite/WAL/fsync); crashes inside vault.Create; Stopped plans; "
    "entrance/exit delays; more than two crashes in the harness (crash_chain is proved for any number)",
]


def known_flags():
    ks = set()
    for f in fw.load_findings():
        if f.get("id") in FLAGS.values() and f.get("status") == "known":
            ks.add(f["id"])
    return ks


def header(known):
    b = lambda x: "true" if x in known else "false"
    return HEADER % (b("R2"), b("R3"), b("R5"), b("R6"))


def describe_reject(r):
    if not r:
        return "model evaluation produced no result"
    if r[0] == 1:
        return "event #%d %s not enabled in phase %s/%s/%s" % (r[1], KINDS.get(r[2], "?"), RPH[r[3]], PPH[r[4]], BPH[r[5]])
    if r[0] == 2:
        return "trace accepted but never released (phase %s/%s/%s)" % (RPH[r[1]], PPH[r[2]], BPH[r[3]])
    if r[0] == 3:
        return "shape not well-formed (concurrency 0)"
    if r[0] == 4:
        return "the repaired image is not one the resumed automaton can start from (a resumed sequence is not a Completed prefix + NotStarted actions)"
    return "accepted"


def describe_codes(cs):
    out, i = [], 0
    while i < len(cs):
        c = cs[i]
        if c == 12:
            out.append("%s (first: a %s)" % (CODES[12], OBJK.get(cs[i + 1], "?")))
            i += 2
        elif c == 13:
            sub = cs[i + 1:i + 4]
            names = [n for n, v in zip(["plan rule", "action rule", "start<=end"], sub) if v] or ["sequence rule"]
            out.append("%s (%s)" % (CODES[13], ", ".join(names)))
            i += 4
        else:
            out.append(CODES.get(c, "code %d" % c))
            i += 1
    return "; ".join(out)


def is_hang(c):
    return bool(c.get("dist", {}).get("hang"))


def size(c):
    return (c.get("dist", {}).get("events", 10 ** 6), c.get("dist", {}).get("actions", 0))


def replay_obj(ctx, c, kind, why, res, extra=None):
    obj = dict(kind=kind, why=why, case=c["id"], index=(c.get("input") or {}).get("index"), case_seed=(c.get("input") or {}).get("seed"),
               input=c.get("input"), observed=c.get("observed"), note=c.get("note", ""), coq=(c.get("coq") or "")[:600000],
               check_result=res, dist=c.get("dist"), replay_cmd="./check %s --replay <this file>" % ctx.pid)
    if extra:
        obj.update(extra)
    return obj


def harness(ctx, plans, frm, double, file_pct, kills, out_name, only=None):
    # thorough: runs of at most 30 writes get EVERY recovery's write prefixes as second crash points
    args = ["-plans", str(plans), "-from", str(frm), "-tier", ctx.tier, "-double", str(double), "-file", str(file_pct), "-kills", str(kills),
            "-doublesmall", "0" if ctx.tier == "quick" else "30",
            # stores holding 3-6 plans Running at crash points of their own (+ 0-2 others), ONE coercion.New on each
            "-stores", "0" if only is not None else ("6" if ctx.tier == "quick" else "80")]
    if only is not None:
        args += ["-only", ",".join(str(i) for i in only)]
    return ctx.harness("recover", args, out_name=out_name, timeout=3000)


BATCH_BYTES = 5_000_000     # text of the case terms per Coq evaluation round (16 shards): bounds the memory of the
                            # coqc processes (measured: ~11 MB of resident memory per 14 KB of term text)


def evaluate(ctx, tag, cases, known):
    live = [c for c in cases if c.get("coq")]
    res, infos = [], []
    batches, cur, sz = [], [], 0
    for c in live:
        if cur and sz + len(c["coq"]) > BATCH_BYTES:
            batches.append(cur)
            cur, sz = [], 0
        cur.append(c)
        sz += len(c["coq"])
    if cur:
        batches.append(cur)
    for k, part in enumerate(batches):
        work = os.path.join(ctx.work, "coq_%s_%d" % (tag, k))
        r, i = fw.eval_cases(work, "resume", header(known), "rcase", "chk", "okf", [c["coq"] for c in part])
        res += r
        for x in i:
            x["shard"] = x["shard"] + 16 * k
        infos += i
        if len(batches) > 1 and not os.environ.get("VERIF_KEEP"):
            import shutil
            shutil.rmtree(work, ignore_errors=True)
    return live, res, infos


def classify(ctx, which, live, res, known):
    """-> dict with the lists the verdict step needs."""
    out = dict(run_bad=[], rejected=[], noreexec=[], converges=[], need={}, unknown_flag=[], accepted=0, none=[], not_wf=[])
    for c, r in zip(live, res):
        if r is None:
            out["none"].append(c)
            continue
        if c["kind"] == "run":
            if r[0] != [0] or r[1] != [0] or r[2] != [0]:
                out["run_bad"].append((c, r))
            continue
        acc, need, nore, conv0, mneed, convk, wf = r
        if wf != [0]:
            out["not_wf"].append((c, r))
        if acc == [0]:
            out["accepted"] += 1
        else:
            out["rejected"].append((c, r, describe_reject(acc)))
        for f in set(need) | set(mneed):
            out["need"].setdefault(FLAGS[f], []).append(c)
        if nore != [0]:
            out["noreexec"].append((c, r))
        if convk != [0]:
            out["converges"].append((c, r))
    return out


def run_check(ctx, which, plans_quick, plans_thorough, frm, double_quick=4, double_thorough=4, file_thorough=25, kills_thorough=200):
    """which: 'C09' or 'C10'."""
    proofs_ok = ctx.static_and_proofs("resume")
    t_r = time.time()
    rep = repair.check_repair(ctx, runs=(10 if ctx.tier == "quick" else 200), arb=(500 if ctx.tier == "quick" else 20000))
    repair_wall = time.time() - t_r
    known = known_flags()
    if ctx.replay:
        return do_replay(ctx, which, known)
    quick = ctx.tier == "quick"
    t_h = time.time()
    cases = harness(ctx, plans_quick if quick else plans_thorough, frm, double_quick if quick else double_thorough,
                    0 if quick else file_thorough, 0 if quick else kills_thorough, "cases.jsonl")
    if cases is None:
        ctx.evidence(dict(evaluations=0, distinct_nontrivial=0, rule="harness did not run", samples=[]))
        return None
    harness_wall = time.time() - t_h
    ctx.oblige("harness run completes", True)
    t_c = time.time()
    live, res, infos = evaluate(ctx, "main", cases, known)
    coq_wall = time.time() - t_c
    for info in infos:
        ctx.oblige("corr_ok shard %d (%d cases): forallb (rcase_ok known) cases = true (engine automaton accepts the run and "
                   "read-back k = crash_image k; resumed automaton accepts the recovery; mon_noreexec; mon_converges)" % (info["shard"], info["n"]),
                   info["rc"] == 0)
    cl = classify(ctx, which, live, res, known)
    verdicts(ctx, which, cases, cl, known)
    write_evidence(ctx, which, cases, live, res, cl, known, rep, dict(harness_wall_s=round(harness_wall, 1), coq_wall_s=round(coq_wall, 1),
                   repair_wall_s=round(repair_wall, 1), coq_shards=[dict(shard=i["shard"], n=i["n"], rc=i["rc"], wall_s=round(i["wall"], 1)) for i in infos]))
    return cl


def say_known(ctx, fid, n, example):
    pid, ctx.pid = ctx.pid, "C10"          # R2, R3, R5, R6 are findings of C10
    ctx.known(fid, "%s [%d recoveries of this run need the flag, e.g. %s]" % (WHAT[fid], n, example))
    ctx.pid = pid


def verdicts(ctx, which, cases, cl, known, tag=None):
    # the uninterrupted runs themselves
    if cl["run_bad"]:
        cl["run_bad"].sort(key=lambda x: size(x[0]))
        c, r = cl["run_bad"][0]
        if c.get("note", "").startswith("hang") or is_hang(c):
            ctx.notes.append("uninterrupted run %s hung (release obligation of C04/C06)" % c["id"])
        why = (("engine automaton: " + str(r[0])) if r[0] != [0] else
               ("read-back %d differs from crash_image sh tr %d" % (r[1][1], r[1][1])) if r[1] != [0] else
               ("the resumed automaton started on the fresh plan rejects the uninterrupted run: " + describe_reject(r[2])))
        ctx.violation(replay_obj(ctx, c, "uninterrupted-run-not-in-the-model", "premise of the C09/C10 theorems broken on a real run: " + why, r,
                                 dict(broken="corr_run: " + why, failing_cases=[x[0]["id"] for x in cl["run_bad"][:20]])), nofail=True, tag=tag)
    # flags
    for fid, lst in sorted(cl["need"].items()):
        lst.sort(key=size)
        if fid in known:
            say_known(ctx, fid, len(lst), lst[0]["id"])
    # monitors (the known flags already applied)
    if which == "C09" and cl["noreexec"]:
        cl["noreexec"].sort(key=lambda x: size(x[0]))
        c, r = cl["noreexec"][0]
        ev = (c["observed"]["events"] or [""])[r[2][1]] if len(r[2]) > 1 and r[2][1] < len(c["observed"]["events"]) else ""
        ctx.violation(replay_obj(ctx, c, "monitor-false", "mon_noreexec false: the recovering process invoked a plugin for durably finished work: "
                                 "%s (crash image: %s); %d failing recoveries" % (ev, (c["observed"].get("crash_image") or "")[:600], len(cl["noreexec"])), r,
                                 dict(failing_monitor="mon_noreexec", failing_cases=[x[0]["id"] for x in cl["noreexec"][:30]])), tag=tag)
    if which == "C10" and cl["converges"]:
        groups = {}
        for c, r in cl["converges"]:
            groups.setdefault(describe_codes(r[5]), []).append((c, r))
        for why, lst in sorted(groups.items(), key=lambda kv: -len(kv[1]))[:4]:
            lst.sort(key=lambda x: size(x[0]))
            c, r = lst[0]
            unlisted = sorted({FLAGS[f] for f in r[4]} - known)
            extra = (" (explained by the finding(s) %s, which known_findings.json does not list as known: %s)"
                     % (unlisted, "; ".join(WHAT[f] for f in unlisted))) if unlisted else ""
            ctx.violation(replay_obj(ctx, c, "monitor-false", "mon_converges false: %s%s; %d failing recoveries" % (why, extra, len(lst)), r,
                                     dict(failing_monitor="mon_converges", codes=r[5], needs_flags=[FLAGS[f] for f in r[4]],
                                          failing_cases=[x[0]["id"] for x in lst[:30]])), tag=tag)
    if which == "C10":
        noisy = [c for c in cases if c["kind"] == "rec" and not is_hang(c) and ((c.get("dist") or {}).get("after_release") or (c.get("dist") or {}).get("leak"))]
        if noisy:
            noisy.sort(key=size)
            c = noisy[0]
            ctx.violation(replay_obj(ctx, c, "not-quiescent", "the recovered plan was not quiescent when Wait returned: %s; %d such recoveries"
                                     % (c.get("note", ""), len(noisy)), None, dict(failing_cases=[x["id"] for x in noisy[:30]])), tag=tag)
    shangs = [c for c in cases if c["kind"] == "store-hang"]
    if shangs:
        c = shangs[0]
        if which == "C10":
            ctx.violation(replay_obj(ctx, c, "hang", "no-hang clause violated: %s; %d such stores. Store composition (plan index, crash point): %s"
                                     % (c.get("note", ""), len(shangs), json.dumps((c.get("input") or {}).get("composition"))), None,
                                     dict(stores=[x["id"] for x in shangs[:20]])), tag=tag)
        else:
            ctx.notes.append("%d multi-plan stores on which coercion.New did not return (no-hang clause: C10)" % len(shangs))
    if which == "C09":
        hangs = [c for c in cases if c["kind"] == "rec" and is_hang(c)]
        if hangs:
            ctx.notes.append("%d recoveries hung (release obligation: C10)" % len(hangs))
    died = [c for c in cases if c["kind"] == "child-died"]
    if died:
        ctx.violation(replay_obj(ctx, died[0], "process-died", "a harness child process died or froze: " + died[0].get("note", ""), None,
                                 dict(broken="harness child", cases=[c["id"] for c in died[:10]])), nofail=True, tag=tag)
    # rejected by the automaton although the monitors hold
    mon_bad = cl["noreexec"] if which == "C09" else cl["converges"]
    rej = [x for x in cl["rejected"] if x[0]["id"] not in {m[0]["id"] for m in mon_bad}]
    if which == "C09":   # what is left Running is C10's business: only real rejections here
        rej = [x for x in rej if x[1][0][0] != 2 or not is_hang(x[0])]
    if rej and not mon_bad:
        rej.sort(key=lambda x: size(x[0]))
        c, r, why = rej[0]
        ctx.violation(replay_obj(ctx, c, "correspondence-broken", "corr_resume_accept: %s; the monitors hold on all %d rejected recoveries"
                                 % (why, len(rej)), r, dict(broken="corr_resume_accept: " + why, rejected_cases=[x[0]["id"] for x in rej[:30]])),
                      nofail=True, tag=tag)
    if cl["not_wf"]:
        cl["not_wf"].sort(key=lambda x: size(x[0]))
        c, r = cl["not_wf"][0]
        ctx.violation(replay_obj(ctx, c, "crash-image-not-well-formed", "premise of c09_no_reexecution broken on a real crash image: ImgWf.img_wf is false "
                                 "(crash image: %s); %d such images" % ((c["observed"].get("crash_image") or "")[:600], len(cl["not_wf"])), r,
                                 dict(broken="img_wf (crash image of a Running plan)", failing_cases=[x[0]["id"] for x in cl["not_wf"][:30]])),
                      nofail=True, tag=tag)
    if cl["none"]:
        ctx.violation(dict(kind="model-evaluation-failed", broken="a cases_<k>.v shard produced no report", cases=[c["id"] for c in cl["none"][:10]]),
                      nofail=True, tag=tag)


def write_evidence(ctx, which, cases, live, res, cl, known, rep, timing):
    recs = [c for c in cases if c["kind"] == "rec"]
    runs = [c for c in cases if c["kind"] == "run"]
    d = lambda k: [c["dist"].get(k) for c in recs if k in (c.get("dist") or {})]
    flat = lambda k, cs: [x for c in cs for x in ((c.get("dist") or {}).get(k) or [])]
    samples = []
    for c in recs[3:4] + [c for c in recs if (c.get("dist") or {}).get("level") == 2][:1]:
        samples.append(dict(id=c["id"], input=c["input"], crash_image=(c.get("observed") or {}).get("crash_image"),
                            first_events=(c.get("observed") or {}).get("events", [])[:12], n_events=c["dist"].get("events")))
    cov = dict(
        evaluations=len(live),
        distinct_nontrivial=fw.distinct_nontrivial(live),
        rule="one evaluation = one uninterrupted run (kind run) or one REAL recovery from one crash point (kind rec: crash image put into a fresh "
             "store with vault.Create, new Workstream with coercion.New, Wait), evaluated in Coq against the resumed automaton and the monitors; "
             "distinct by hash of (shape, crash image, projected trace); non-trivial = the plan was durably Running at the crash point (only those are resumed)",
        samples=samples,
        traces_validated_against_impl=len(live),
        uninterrupted_runs=len(runs), recoveries=len(recs),
        recoveries_by_level=fw.histogram(d("level")),
        resumed=fw.histogram(d("resumed")),
        every_write_prefix=all((c["dist"].get("writes", 0) <= 150) for c in runs),
        writes_per_run=fw.histogram([(c["dist"].get("writes", 0) // 25) * 25 for c in runs]),
        accepted_by_resumed_automaton=cl["accepted"], rejected=len(cl["rejected"]),
        monitor_false=dict(mon_noreexec=len(cl["noreexec"]), mon_converges_after_known_flags=len(cl["converges"])),
        recoveries_needing_flag={k: len(v) for k, v in sorted(cl["need"].items())},
        crash_images_not_well_formed=len(cl["not_wf"]),
        known_flags=sorted(known),
        hangs=sum(1 for c in recs if is_hang(c)),
        something_left_running=sum(1 for c in recs if (c.get("dist") or {}).get("running_left")),
        plugin_calls_in_recoveries=fw.histogram([min(x, 20) for x in d("plugin_calls")]),
        file_backed=sum(1 for c in recs if (c.get("dist") or {}).get("file_backed")),
        multi_plan_stores=len({(c.get("dist") or {}).get("store") for c in recs if (c.get("dist") or {}).get("multi")}),
        recoveries_in_multi_plan_stores=sum(1 for c in recs if (c.get("dist") or {}).get("multi")),
        plans_per_store=fw.histogram([(c.get("dist") or {}).get("plans_in_store") for c in recs if (c.get("dist") or {}).get("multi")]),
        store_hangs=sum(1 for c in cases if c["kind"] == "store-hang"),
        sigkill_restarts=sum(1 for c in cases if (c.get("dist") or {}).get("sigkill")),
        fresh_process_recoveries=sum(1 for c in recs if (c.get("dist") or {}).get("fresh_process")),
        distribution=dict(kind=fw.histogram([c["dist"].get("kind") for c in runs]), blocks=fw.histogram([c["dist"].get("blocks") for c in runs]),
                          sequences=fw.histogram([c["dist"].get("sequences") for c in runs]), actions=fw.histogram([c["dist"].get("actions") for c in runs]),
                          check_groups=fw.histogram([c["dist"].get("groups") for c in runs]), concurrency=fw.histogram(flat("conc", runs)),
                          tolerated_failures=fw.histogram(flat("tol", runs)),
                          scripted_nonok_actions=fw.histogram([c["dist"].get("scripted_nonok_actions") for c in runs]),
                          events_per_recovery=fw.histogram([(e // 20) * 20 for e in d("events")]),
                          running_objects_in_crash_image=fw.histogram(d("running_in_image"))),
        repair_correspondence=dict(evaluations=(rep or {}).get("evaluations"), disagreements=(rep or {}).get("disagreements"),
                                   branches_not_hit=(rep or {}).get("branches_not_hit")),
        notes=ctx.notes[:40],
    )
    cov.update(timing)
    ctx.evidence(cov, assumptions=ASSUMPTIONS)


def do_replay(ctx, which, known):
    rp = json.load(open(ctx.replay))
    idx, seed = rp.get("index"), rp.get("case_seed") or rp.get("seed")
    if rp.get("coq"):
        rec = dict(id=str(rp.get("case")) + "-recorded", kind="rec" if rp["coq"].startswith("(CRec") or rp["coq"].startswith("CRec") else "run",
                   coq=rp["coq"], input=rp.get("input"), observed=rp.get("observed") or {"events": []}, dist=rp.get("dist") or {})
        live, res, _ = evaluate(ctx, "recorded", [rec], known)
        ctx.say("recorded case: %s" % (res[0],))
    if idx is None:
        ctx.evidence(dict(evaluations=1, distinct_nontrivial=0, rule="replay of " + str(ctx.replay), samples=[]))
        return None
    env_seed = ctx.env.get("VERIF_SEED")
    if seed is not None:
        ctx.env["VERIF_SEED"] = str(seed)
    allc = []
    try:
        for k in range(3):
            got = harness(ctx, 1, 0, 100 if (rp.get("dist") or {}).get("level") == 2 else 0, 0, 0, "replay_%d.jsonl" % k, only=[idx]) or []
            allc += got
    finally:
        ctx.env["VERIF_SEED"] = env_seed
    live, res, _ = evaluate(ctx, "replay", allc, known)
    cl = classify(ctx, which, live, res, known)
    ctx.say("replayed plan %s (seed %s) 3 times: %d cases, %d rejected, mon_noreexec false on %d, mon_converges false on %d, flags needed: %s"
            % (idx, seed, len(live), len(cl["rejected"]), len(cl["noreexec"]), len(cl["converges"]), {k: len(v) for k, v in cl["need"].items()}))
    verdicts(ctx, which, allc, cl, known, tag="replay")
    if not ctx.violations:
        ctx.say("replay: not reproduced on this repository")
    ctx.evidence(dict(evaluations=len(live), distinct_nontrivial=fw.distinct_nontrivial(live), rule="replay of " + str(ctx.replay), samples=[],
                      traces_validated_against_impl=len(live)))
    return None
