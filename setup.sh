#!/bin/sh
# Run once after a fresh restore, offline: builds the Coq development (full .vo build) and the Go harness.
set -e
cd "$(dirname "$0")"
export GOFLAGS=-mod=mod GOPROXY=off GOSUMDB=off GOTOOLCHAIN=local
python3 - <<'PY'
import sys, os, glob
sys.path.insert(0, "lib")
from vf import framework as fw
bad = fw.forbidden_scan()
if bad:
    print("forbidden vernacular:\n" + "\n".join(bad)); sys.exit(1)
projs = sorted(os.path.basename(os.path.dirname(p)) for p in glob.glob(os.path.join(fw.COQ, "*", "_CoqProject.head")))
ok, log, where = fw.coq_build(projs)
print(log[-2000:])
if not ok:
    print("Coq build failed at", where); sys.exit(1)
for c in sorted(os.listdir(os.path.join(fw.HARNESS, "cmd"))):
    b, log = fw.build_harness(c)
    if b is None:
        print(log); sys.exit(1)
    print("built harness", c)
PY
echo SETUP-OK
