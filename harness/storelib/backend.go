package storelib

import (
	"context"
	"fmt"
	"os"
	"path/filepath"

	"github.com/element-of-surprise/coercion/workflow/storage"
	"github.com/element-of-surprise/coercion/workflow/storage/cosmosdb"
	sqlitevault "github.com/element-of-surprise/coercion/workflow/storage/sqlite"
	"github.com/google/uuid"
	"zombiezen.com/go/sqlite"
	"zombiezen.com/go/sqlite/sqlitex"
)

// Backend is a real vault plus what the harness knows about it.
type Backend struct {
	Name   string // "sqlite-mem", "sqlite-file", "cosmos-fake"
	Kind   int    // 0 = sqlite, 1 = cosmosdb (k_backend of the Coq case)
	Vault  storage.Vault
	Cosmos *cosmosdb.FakeCtl // cosmos only
	PageSize int             // cosmos only: page size of query results (0 = one page)
	Dir    string            // sqlite-file only
	sql    *sqlite.Conn      // sqlite-file only: the harness's own connection
}

var dbSeq int

// Open opens a fresh, empty vault of the named kind.
func Open(ctx context.Context, name string, set *Set) (*Backend, error) {
	switch name {
	case "sqlite-mem":
		v, err := sqlitevault.New(ctx, "", set.Reg, sqlitevault.WithInMemory())
		if err != nil {
			return nil, err
		}
		return &Backend{Name: name, Kind: 0, Vault: v}, nil
	case "sqlite-file":
		dbSeq++
		dir, err := filepath.Abs(fmt.Sprintf("db-%d-%d", os.Getpid(), dbSeq))
		if err != nil {
			return nil, err
		}
		os.RemoveAll(dir)
		return OpenFile(ctx, dir, set)
	case "cosmos-fake", "cosmos-page1", "cosmos-page2", "cosmos-page3":
		// NewFakeVaultOpts: query results in pages of at most pageSize items (0 = one page), and batches
		// that contain the item set with FakeCtl.SetPoisonItem are refused atomically
		pageSize := map[string]int{"cosmos-fake": 0, "cosmos-page1": 1, "cosmos-page2": 2, "cosmos-page3": 3}[name]
		v, ctl := cosmosdb.NewFakeVaultOpts(set.Reg, "swarm", pageSize)
		return &Backend{Name: name, Kind: 1, Vault: v, Cosmos: ctl, PageSize: pageSize}, nil
	}
	return nil, fmt.Errorf("unknown backend %q", name)
}

// OpenFile opens (creating it if needed) the file-backed sqlite vault in dir, and a second, direct
// SQL connection to the same database file for row counting.
func OpenFile(ctx context.Context, dir string, set *Set) (*Backend, error) {
	v, err := sqlitevault.New(ctx, dir, set.Reg)
	if err != nil {
		return nil, err
	}
	conn, err := sqlite.OpenConn(filepath.Join(dir, "workstream.db"), sqlite.OpenReadWrite, sqlite.OpenWAL)
	if err != nil {
		return nil, fmt.Errorf("direct connection: %w", err)
	}
	return &Backend{Name: "sqlite-file", Kind: 0, Vault: v, Dir: dir, sql: conn}, nil
}

// Abandon releases what the harness owns of a vault one of whose calls never returned.
func (b *Backend) Abandon() {
	if b.sql != nil {
		b.sql.Close()
	}
	if b.Dir != "" {
		os.RemoveAll(b.Dir)
	}
}

func (b *Backend) Close(ctx context.Context) {
	if b.sql != nil {
		b.sql.Close()
	}
	b.Vault.Close(ctx)
	if b.Dir != "" {
		os.RemoveAll(b.Dir)
	}
}

// Reopen closes the file-backed sqlite vault and opens the same database file again (a restart), with
// the registry of set. Other back ends are left as they are.
func (b *Backend) Reopen(ctx context.Context, set *Set) error {
	if b.Dir == "" {
		return nil
	}
	if b.sql != nil {
		b.sql.Close()
	}
	b.Vault.Close(ctx)
	nb, err := OpenFile(ctx, b.Dir, set)
	if err != nil {
		return err
	}
	b.Vault, b.sql = nb.Vault, nb.sql
	return nil
}

// HasCounts says whether Counts is available (file-backed sqlite only).
func (b *Backend) HasCounts() bool { return b.sql != nil }

var countQueries = []string{
	"SELECT count(*) FROM plans WHERE id = ?",
	"SELECT count(*) FROM blocks WHERE plan_id = ?",
	"SELECT count(*) FROM checks WHERE plan_id = ?",
	"SELECT count(*) FROM sequences WHERE plan_id = ?",
	"SELECT count(*) FROM actions WHERE plan_id = ?",
}

// Counts returns, over the harness's own SQL connection, the number of rows of
// [plans; blocks; checks; sequences; actions] that carry plan id pid.
func (b *Backend) Counts(pid uuid.UUID) ([]int, error) {
	out := make([]int, len(countQueries))
	for i, q := range countQueries {
		n := -1
		err := sqlitex.ExecuteTransient(b.sql, q, &sqlitex.ExecOptions{
			Args: []any{pid.String()},
			ResultFunc: func(stmt *sqlite.Stmt) error {
				n = stmt.ColumnInt(0)
				return nil
			},
		})
		if err != nil {
			return nil, err
		}
		out[i] = n
	}
	return out, nil
}

// TotalRows returns the total number of rows in the five tables (orphans under any plan id included).
func (b *Backend) TotalRows() (int, error) {
	total := 0
	for _, t := range []string{"plans", "blocks", "checks", "sequences", "actions"} {
		err := sqlitex.ExecuteTransient(b.sql, "SELECT count(*) FROM "+t, &sqlitex.ExecOptions{
			ResultFunc: func(stmt *sqlite.Stmt) error {
				total += stmt.ColumnInt(0)
				return nil
			},
		})
		if err != nil {
			return 0, err
		}
	}
	return total, nil
}
