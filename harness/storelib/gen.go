package storelib

import (
	"fmt"
	"time"

	"verifharness/core"
	"verifharness/hplug"
	"verifharness/plangen"

	"github.com/element-of-surprise/coercion/plugins"
	"github.com/element-of-surprise/coercion/workflow"
	"github.com/google/uuid"
)

// Everything here derives from the *core.Rand it is given, so calling a generator twice with equal
// PRNG states yields two structurally equal, pointer-disjoint plans: one goes to the vault (which may
// overwrite it), the other is the harness's own record of what was written.

var oddStrings = []string{"", " ", "x", "quo\"te", "uni-λ-✓", "two\nlines", "'; DROP TABLE plans; --", "tab\there", "null",
	"nul\x00inside", "\ufffd", "a\ufffdb", "\U0001F600 astral"} // incl. an embedded NUL and U+FFFD itself: legitimate text

// InvalidUTF8 are strings that are not valid UTF-8: lone continuation byte, truncated sequences, 0xff / 0xfe,
// an overlong encoding, a surrogate half.
var InvalidUTF8 = []string{"\x80", "a\x80b", "\xc3", "x\xe2\x82", "\xff", "ok\xfe", "\xc0\xaf", "\xed\xa0\x80", "\xf0\x9f\x98"}

// Taint puts ONE string that is not valid UTF-8 somewhere into the stored-form plan p: a name or description
// at some level, a string field of a request, of an attempt's response, or an error message at some depth.
// It returns where. (The JSON codec refuses such strings; TEXT columns store them byte for byte.)
func Taint(r *core.Rand, p *workflow.Plan) string {
	bad := InvalidUTF8[r.Intn(len(InvalidUTF8))]
	o := ObjectsOf(p)
	a := o.Actions[r.Intn(len(o.Actions))]
	switch r.Intn(6) {
	case 0:
		switch r.Intn(4) {
		case 0:
			p.Name = bad
		case 1:
			p.Blocks[0].Descr = bad
		case 2:
			if len(o.Seqs) > 0 {
				o.Seqs[0].Name = bad
				break
			}
			fallthrough
		default:
			a.Descr = bad
		}
		return "name/descr"
	case 1, 2:
		TaintReq(a, bad)
		return "request"
	case 3:
		a.Attempts = append(a.Attempts, &workflow.Attempt{Resp: TaintedResp(a.Plugin, bad), Start: time.Unix(7, 7)})
		return "attempt response"
	default:
		e := &plugins.Error{Code: 1, Message: "outer"}
		cur := e
		for d := r.Intn(4); d > 0; d-- {
			cur.Wrapped = &plugins.Error{Code: 2, Message: "wrapped"}
			cur = cur.Wrapped
		}
		cur.Message = "msg " + bad
		a.Attempts = append(a.Attempts, &workflow.Attempt{Err: e, Start: time.Unix(8, 8)})
		return "error message"
	}
}

// TaintReq gives the action a request its plugin's ValidateReq accepts whose Path is the string bad.
func TaintReq(a *workflow.Action, bad string) {
	switch a.Plugin {
	case hplug.AltName:
		a.Req = hplug.AltReq{Nonce: "n", Path: bad, N: 1}
	case AnyActionName, AnyCheckName:
		a.Req = AnyReq{Nonce: "n", Path: "p", X: []any{"fine", bad}}
	default:
		a.Req = hplug.Req{Nonce: "n", Path: bad, Tags: []string{"t"}}
	}
}

// TaintedResp is a response of the plugin's response type with the string bad inside.
func TaintedResp(plugin, bad string) any {
	switch plugin {
	case hplug.AltName:
		return &hplug.AltResp{Echo: bad}
	case AnyActionName, AnyCheckName:
		return AnyResp{Path: "p", V: map[string]any{"k": bad}}
	default:
		return hplug.Resp{Path: "p", Items: []string{"fine", bad}}
	}
}

// text that looks like a number (or another literal) to a column with numeric affinity or to a lenient
// decoder: it must come back byte for byte
var numericLooking = []string{"007", "2024.10", "1e3", "+15", " 15 ", "15 ", "12345678901234567890", "0x10", "1_000", "-0", ".5", "5.",
	"1e400", "NaN", "Infinity", "-Infinity", "true", "false", "null", "0", "00", "1.0", "1.50", "-1.0e-2", "\t7", "7\n", "1,5", "٣"}

func randString(r *core.Rand, kind string, n *int) string {
	switch c := r.Intn(100); {
	case c < 20:
		return oddStrings[r.Intn(len(oddStrings))]
	case c < 45:
		return numericLooking[r.Intn(len(numericLooking))]
	}
	*n++
	return fmt.Sprintf("%s-%d", kind, *n)
}

var zones = []*time.Location{time.UTC, time.FixedZone("plus", 3600*5+1800), time.FixedZone("minus", -3600*8)}

// RandTime is the zero time or an instant after the epoch (ns precision) in some location.
func RandTime(r *core.Rand) time.Time {
	switch r.Intn(6) {
	case 0, 1:
		return time.Time{}
	case 2:
		return time.Unix(0, []int64{1, 2, 999, 1000}[r.Intn(4)]) // just after the epoch
	case 3:
		return time.Unix(int64(1+r.Intn(4_000_000_000)), 0).In(zones[r.Intn(len(zones))])
	default:
		return time.Unix(int64(r.Intn(4_000_000_000)), int64(1+r.Intn(999_999_999))).In(zones[r.Intn(len(zones))])
	}
}

var statuses = []workflow.Status{workflow.NotStarted, workflow.Running, workflow.Completed, workflow.Failed, workflow.Stopped}
var reasons = []workflow.FailureReason{workflow.FRUnknown, workflow.FRPreCheck, workflow.FRBlock, workflow.FRPostCheck,
	workflow.FRContCheck, workflow.FRDeferredCheck, workflow.FRStopped, workflow.FRExceedRecovery}

func RandState(r *core.Rand) *workflow.State {
	return &workflow.State{Status: statuses[r.Intn(len(statuses))], Start: RandTime(r), End: RandTime(r)}
}

func RandReason(r *core.Rand) workflow.FailureReason { return reasons[r.Intn(len(reasons))] }

func randErr(r *core.Rand, depth int) *plugins.Error {
	e := &plugins.Error{Code: plugins.ErrCode(r.Intn(5)), Message: oddStrings[r.Intn(len(oddStrings))] + fmt.Sprint(r.Intn(50)), Permanent: r.Chance(0.5)}
	if depth > 0 && r.Chance(0.6) {
		e.Wrapped = randErr(r, depth-1)
	}
	return e
}

func randAnyValue(r *core.Rand) any {
	switch r.Intn(7) {
	case 0:
		return nil
	case 1:
		return "str" + fmt.Sprint(r.Intn(100))
	case 2:
		return r.Chance(0.5)
	case 3:
		return []any{"a", fmt.Sprint(r.Intn(9))}
	case 4:
		return map[string]any{"k": "v" + fmt.Sprint(r.Intn(9))}
	case 5:
		return float64(r.Intn(1000)) + 0.5
	default:
		return []any{}
	}
}

// RandResp is a response of the type the plugin registered under name declares (value, pointer), or nil.
func RandResp(r *core.Rand, plugin string) any {
	if r.Chance(0.2) {
		return nil
	}
	switch plugin {
	case hplug.AltName:
		resp := &hplug.AltResp{Echo: fmt.Sprint("echo", r.Intn(100))}
		switch r.Intn(3) {
		case 0:
			resp.M = map[string]int{}
		case 1:
			resp.M = map[string]int{"a": r.Intn(9), "b": -r.Intn(9)}
		}
		return resp
	case AnyActionName, AnyCheckName:
		return AnyResp{Path: fmt.Sprint("p", r.Intn(100)), V: randAnyValue(r)}
	default:
		resp := hplug.Resp{Path: fmt.Sprint("path", r.Intn(100)), Value: int64(r.Intn(1_000_000)) - 500_000}
		switch r.Intn(3) {
		case 0:
			resp.Items = []string{}
		case 1:
			resp.Items = []string{"i", oddStrings[r.Intn(len(oddStrings))]}
		}
		return resp
	}
}

// RandAttempts is 0-4 attempts (nil or empty slice for 0) with typed responses and errors wrapped to depth 3.
func RandAttempts(r *core.Rand, plugin string) []*workflow.Attempt {
	n := r.Intn(5)
	if n == 0 {
		if r.Chance(0.5) {
			return nil
		}
		return []*workflow.Attempt{}
	}
	out := make([]*workflow.Attempt, n)
	for i := range out {
		at := &workflow.Attempt{Start: RandTime(r), End: RandTime(r)}
		if r.Chance(0.5) {
			at.Err = randErr(r, 3)
			if r.Chance(0.3) {
				at.Resp = RandResp(r, plugin)
			}
		} else {
			at.Resp = RandResp(r, plugin)
		}
		out[i] = at
	}
	return out
}

func randInt(r *core.Rand) int {
	switch r.Intn(6) {
	case 0:
		return 0
	case 1:
		return -1 - r.Intn(5)
	case 2:
		return 1 << 40
	case 3:
		return -(1 << 40)
	default:
		return r.Intn(8)
	}
}

func randDur(r *core.Rand) time.Duration {
	switch r.Intn(5) {
	case 0:
		return 0
	case 1:
		return -time.Duration(r.Intn(1000)) * time.Millisecond
	case 2:
		return time.Duration(1<<50) + time.Duration(r.Intn(1000))
	default:
		return time.Duration(r.Intn(1_000_000_000)) * time.Nanosecond * time.Duration(1+r.Intn(100))
	}
}

// MatOpts selects what Materialize randomises.
type MatOpts struct {
	AnyP    float64 // probability that an action is switched to the Any plugin of its kind
	NilReqP float64 // probability of a nil request
	Plain   bool    // keep plangen's definition fields (names, delays, ...) as generated
}

type matter struct {
	r  *core.Rand
	o  MatOpts
	n  int
	id uuid.UUID
}

func (m *matter) action(a *workflow.Action, check bool) {
	r := m.r
	a.ID = plangen.V7(r)
	a.SetPlanID(m.id)
	if r.Chance(m.o.AnyP) {
		if check {
			a.Plugin = AnyCheckName
		} else {
			a.Plugin = AnyActionName
		}
		a.Req = AnyReq{Nonce: "n", Path: fmt.Sprint("any", r.Intn(100)), X: randAnyValue(r)}
	}
	if r.Chance(m.o.NilReqP) {
		a.Req = nil
	}
	if !m.o.Plain {
		a.Name = randString(r, "action", &m.n)
		a.Descr = randString(r, "adescr", &m.n)
		a.Timeout = randDur(r)
		a.Retries = randInt(r)
		if r.Chance(0.3) {
			a.Key = plangen.V7(r)
		}
	}
	a.State = RandState(r)
	a.Attempts = RandAttempts(r, a.Plugin)
}

func (m *matter) checks(c *workflow.Checks) {
	if c == nil {
		return
	}
	r := m.r
	c.ID = plangen.V7(r)
	c.SetPlanID(m.id)
	if !m.o.Plain {
		c.Delay = randDur(r)
		if r.Chance(0.3) {
			c.Key = plangen.V7(r)
		}
	}
	c.State = RandState(r)
	for _, a := range c.Actions {
		m.action(a, true)
	}
}

// Materialize turns a fresh plan (plangen) into one a vault can store: ids, plan ids, states,
// attempts, reason, submit time; and (unless Plain) re-randomises definition fields beyond what a
// valid fresh plan may carry (odd strings, negative and huge numbers, keys).
func Materialize(r *core.Rand, p *workflow.Plan, o MatOpts) {
	m := &matter{r: r, o: o}
	p.ID = plangen.V7(r)
	m.id = p.ID
	if !o.Plain {
		p.Name = randString(r, "plan", &m.n)
		p.Descr = randString(r, "pdescr", &m.n)
		switch r.Intn(4) {
		case 0:
			p.GroupID = uuid.Nil
		case 1:
			p.GroupID = plangen.V4(r)
		default:
			p.GroupID = plangen.V7(r)
		}
		switch r.Intn(4) {
		case 0:
			p.Meta = nil
		case 1:
			p.Meta = []byte{}
		case 2:
			p.Meta = []byte{0, 255, 1, 34, 39}
		default:
			p.Meta = []byte(randString(r, "meta", &m.n) + "m")
		}
	}
	p.State = RandState(r)
	p.Reason = RandReason(r)
	p.SubmitTime = RandTime(r)
	for _, c := range []*workflow.Checks{p.BypassChecks, p.PreChecks, p.ContChecks, p.PostChecks, p.DeferredChecks} {
		m.checks(c)
	}
	for _, b := range p.Blocks {
		b.ID = plangen.V7(r)
		b.SetPlanID(p.ID)
		if !o.Plain {
			b.Name = randString(r, "block", &m.n)
			b.Descr = randString(r, "bdescr", &m.n)
			b.EntranceDelay = randDur(r)
			b.ExitDelay = randDur(r)
			b.Concurrency = randInt(r)
			b.ToleratedFailures = randInt(r)
			if r.Chance(0.3) {
				b.Key = plangen.V7(r)
			}
		}
		b.State = RandState(r)
		for _, c := range []*workflow.Checks{b.BypassChecks, b.PreChecks, b.ContChecks, b.PostChecks, b.DeferredChecks} {
			m.checks(c)
		}
		for _, s := range b.Sequences {
			s.ID = plangen.V7(r)
			s.SetPlanID(p.ID)
			if !o.Plain {
				s.Name = randString(r, "seq", &m.n)
				s.Descr = randString(r, "sdescr", &m.n)
				if r.Chance(0.3) {
					s.Key = plangen.V7(r)
				}
			}
			s.State = RandState(r)
			for _, a := range s.Actions {
				m.action(a, false)
			}
		}
	}
}

// ActionRef locates an action of a plan.
type ActionRef struct {
	A     *workflow.Action
	Check bool
	Path  string
}

// Actions lists every action of p in the order the sqlite creator commits them.
func Actions(p *workflow.Plan) []ActionRef {
	var out []ActionRef
	grp := func(path string, cs ...*workflow.Checks) {
		names := []string{"bypass", "pre", "post", "cont", "deferred"}
		for gi, c := range cs {
			if c == nil {
				continue
			}
			for i, a := range c.Actions {
				out = append(out, ActionRef{A: a, Check: true, Path: fmt.Sprintf("%s/%s/%d", path, names[gi], i)})
			}
		}
	}
	grp("plan", p.BypassChecks, p.PreChecks, p.PostChecks, p.ContChecks, p.DeferredChecks)
	for bi, b := range p.Blocks {
		grp(fmt.Sprintf("block%d", bi), b.BypassChecks, b.PreChecks, b.PostChecks, b.ContChecks, b.DeferredChecks)
		for si, s := range b.Sequences {
			for ai, a := range s.Actions {
				out = append(out, ActionRef{A: a, Path: fmt.Sprintf("block%d/seq%d/%d", bi, si, ai)})
			}
		}
	}
	return out
}

// Objects of a plan by kind, for picking update targets.
type Objects struct {
	Checks  []*workflow.Checks
	Blocks  []*workflow.Block
	Seqs    []*workflow.Sequence
	Actions []*workflow.Action
}

func ObjectsOf(p *workflow.Plan) Objects {
	var o Objects
	addActs := func(as []*workflow.Action) {
		for _, a := range as {
			if a != nil { // a vault may hand back nil elements (that is a finding, not a crash of the harness)
				o.Actions = append(o.Actions, a)
			}
		}
	}
	grp := func(cs ...*workflow.Checks) {
		for _, c := range cs {
			if c != nil {
				o.Checks = append(o.Checks, c)
				addActs(c.Actions)
			}
		}
	}
	grp(p.BypassChecks, p.PreChecks, p.PostChecks, p.ContChecks, p.DeferredChecks)
	for _, b := range p.Blocks {
		o.Blocks = append(o.Blocks, b)
		grp(b.BypassChecks, b.PreChecks, b.PostChecks, b.ContChecks, b.DeferredChecks)
		for _, s := range b.Sequences {
			o.Seqs = append(o.Seqs, s)
			addActs(s.Actions)
		}
	}
	return o
}

// SetPlanIDs stamps p.ID on every object below p (after the plan id was changed).
func SetPlanIDs(p *workflow.Plan) {
	o := ObjectsOf(p)
	for _, x := range o.Checks {
		x.SetPlanID(p.ID)
	}
	for _, x := range o.Blocks {
		x.SetPlanID(p.ID)
	}
	for _, x := range o.Seqs {
		x.SetPlanID(p.ID)
	}
	for _, x := range o.Actions {
		x.SetPlanID(p.ID)
	}
}

// BigPlan is a stored-form plan with at least 4 blocks x 6 sequences x 4 actions (more than 120 objects,
// so that its items do not fit into one hundred), every action on a registered plugin.
func BigPlan(r *core.Rand) *workflow.Plan {
	g := plangen.New(r, plangen.Opts{GroupP: 0.3, MaxBlocks: 4, MaxSeqs: 6, MaxActions: 5, MaxCheckActions: 3, KeyP: 0.1, AltP: 0.3})
	p := g.Plan()
	for len(p.Blocks) < 4 {
		p.Blocks = append(p.Blocks, g.Block(fmt.Sprintf("b%d", len(p.Blocks))))
	}
	for bi, b := range p.Blocks {
		for len(b.Sequences) < 6 {
			b.Sequences = append(b.Sequences, g.Sequence(fmt.Sprintf("b%d/s%d", bi, len(b.Sequences))))
		}
		for si, s := range b.Sequences {
			for len(s.Actions) < 4 {
				s.Actions = append(s.Actions, g.Action(false, fmt.Sprintf("b%d/s%d/%d", bi, si, len(s.Actions))))
			}
		}
	}
	Materialize(r, p, MatOpts{AnyP: 0.05})
	return p
}

// ManyActions is a stored-form plan whose sequences and check groups have 4-6 actions each.
func ManyActions(r *core.Rand) *workflow.Plan {
	g := plangen.New(r, plangen.Opts{GroupP: 0.5, MaxBlocks: 2, MaxSeqs: 2, MaxActions: 6, MaxCheckActions: 6, KeyP: 0.2, AltP: 0.3})
	p := g.Plan()
	grow := func(c *workflow.Checks, path string) {
		for c != nil && len(c.Actions) < 4 {
			c.Actions = append(c.Actions, g.Action(true, fmt.Sprintf("%s/%d", path, len(c.Actions))))
		}
	}
	grow(p.PreChecks, "p/pre")
	grow(p.ContChecks, "p/cont")
	grow(p.DeferredChecks, "p/deferred")
	for bi, b := range p.Blocks {
		grow(b.PreChecks, fmt.Sprintf("b%d/pre", bi))
		grow(b.PostChecks, fmt.Sprintf("b%d/post", bi))
		for si, s := range b.Sequences {
			for len(s.Actions) < 4 {
				s.Actions = append(s.Actions, g.Action(false, fmt.Sprintf("b%d/s%d/%d", bi, si, len(s.Actions))))
			}
		}
	}
	Materialize(r, p, MatOpts{AnyP: 0.1})
	return p
}
