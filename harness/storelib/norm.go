package storelib

import (
	"errors"
	"reflect"
	"sort"
	"unicode/utf8"

	"github.com/element-of-surprise/coercion/workflow"
	"github.com/google/uuid"
)

// NormValue returns a copy of a request / response value in which every nil map and nil slice is an
// empty one. go-json-experiment writes nil maps and slices as {} / [] and therefore reads them back
// empty; C13 pins nil == empty INSIDE request and response values (DESIGN section 11). Types are kept.
func NormValue(v any) any {
	if v == nil {
		return nil
	}
	if hasInvalidUTF8(reflect.ValueOf(v)) {
		// go-json-experiment refuses Go strings that are not valid UTF-8 (encoding/json, which the
		// abstraction uses, silently replaces them): mark the value as one the codec cannot encode
		return NotUTF8{T: reflect.TypeOf(v).String()}
	}
	return normRV(reflect.ValueOf(v)).Interface()
}

// NotUTF8 stands, in the harness's record, for a value that holds a string that is not valid UTF-8.
type NotUTF8 struct{ T string }

func (NotUTF8) MarshalJSON() ([]byte, error) { return nil, errors.New("string is not valid UTF-8") }

func hasInvalidUTF8(v reflect.Value) bool {
	switch v.Kind() {
	case reflect.String:
		return !utf8.ValidString(v.String())
	case reflect.Pointer, reflect.Interface:
		return !v.IsNil() && hasInvalidUTF8(v.Elem())
	case reflect.Struct:
		for i := 0; i < v.NumField(); i++ {
			if hasInvalidUTF8(v.Field(i)) {
				return true
			}
		}
	case reflect.Slice, reflect.Array:
		for i := 0; i < v.Len(); i++ {
			if hasInvalidUTF8(v.Index(i)) {
				return true
			}
		}
	case reflect.Map:
		it := v.MapRange()
		for it.Next() {
			if hasInvalidUTF8(it.Key()) || hasInvalidUTF8(it.Value()) {
				return true
			}
		}
	}
	return false
}

func normRV(v reflect.Value) reflect.Value {
	switch v.Kind() {
	case reflect.Pointer:
		if v.IsNil() {
			return v
		}
		n := reflect.New(v.Type().Elem())
		n.Elem().Set(normRV(v.Elem()))
		return n
	case reflect.Interface:
		if v.IsNil() {
			return v
		}
		n := reflect.New(v.Type()).Elem()
		n.Set(normRV(v.Elem()))
		return n
	case reflect.Struct:
		n := reflect.New(v.Type()).Elem()
		n.Set(v)
		for i := 0; i < v.NumField(); i++ {
			if n.Field(i).CanSet() {
				n.Field(i).Set(normRV(v.Field(i)))
			}
		}
		return n
	case reflect.Slice:
		n := reflect.MakeSlice(v.Type(), v.Len(), v.Len())
		for i := 0; i < v.Len(); i++ {
			n.Index(i).Set(normRV(v.Index(i)))
		}
		return n
	case reflect.Map:
		n := reflect.MakeMapWithSize(v.Type(), v.Len())
		it := v.MapRange()
		for it.Next() {
			n.SetMapIndex(it.Key(), normRV(it.Value()))
		}
		return n
	}
	return v
}

// NormPlan normalises, in place, every request and response value of p (see NormValue).
func NormPlan(p *workflow.Plan) {
	if p == nil {
		return
	}
	for _, a := range ObjectsOf(p).Actions {
		if a == nil {
			continue
		}
		a.Req = NormValue(a.Req)
		for _, at := range a.Attempts {
			if at != nil {
				at.Resp = NormValue(at.Resp)
			}
		}
	}
}

// OrderActionsLike reorders, in place, every action slice of got so that actions appear in the
// order their ids have in the corresponding created plan want (ids unknown to want go last, in the
// order read). Used only for reads through the cosmosdb fake client, which ignores ORDER BY and
// returns items in an order of its own; order is tied separately (VerifPlanItems).
func OrderActionsLike(got *workflow.Plan, want *workflow.Plan) {
	if got == nil || want == nil {
		return
	}
	rank := map[uuid.UUID]int{}
	for _, a := range ObjectsOf(want).Actions {
		if a != nil {
			rank[a.ID] = len(rank)
		}
	}
	fix := func(as []*workflow.Action) {
		for _, a := range as {
			if a == nil {
				return // a nil element: left as it is, the comparison reports it
			}
		}
		sort.SliceStable(as, func(i, j int) bool {
			ri, oki := rank[as[i].ID]
			rj, okj := rank[as[j].ID]
			if oki && okj {
				return ri < rj
			}
			return oki && !okj
		})
	}
	o := ObjectsOf(got)
	for _, c := range o.Checks {
		fix(c.Actions)
	}
	for _, s := range o.Seqs {
		fix(s.Actions)
	}
}
