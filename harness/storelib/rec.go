package storelib

import (
	"context"
	"fmt"
	"regexp"
	"runtime/debug"
	"sort"
	"strings"
	"time"
	"unicode/utf8"

	"verifharness/core"
	"verifharness/plancoq"

	"github.com/element-of-surprise/coercion/plugins"
	"github.com/element-of-surprise/coercion/workflow"
	"github.com/element-of-surprise/coercion/workflow/storage/cosmosdb"
	"github.com/google/uuid"
)

// Rec performs operations on a real vault and records, per operation, the Coq term of the operation
// and of what was observed afterwards (Coercion.Store.StoreCheck.case).
type Rec struct {
	B   *Backend
	Cx  *plancoq.Ctx
	Ctx context.Context

	IDs     []uuid.UUID                  // ids Read after every operation
	Created map[uuid.UUID]*workflow.Plan // the harness's record of what it created (latest per id)

	badStrs map[string]bool // strings seen in inputs that are not valid UTF-8
	table   []string
	tableIx map[string]int
	steps   []string
	items   []string

	Log    []map[string]any // human-readable trace for replays
	Notes  []string         // panics
	OpHist map[string]int
	Reads  int
	NoObs  bool // suppress the automatic observation (the caller observes)
	Dead   bool // a call into the vault never returned: nothing more is done on this vault
	// KeepOrder: compare actions read through the cosmos fake in the order Read returned them. Only for
	// patch-free cases: before any patch the fake hands items out in insertion order (= emission order).
	KeepOrder bool
}

func NewRec(ctx context.Context, b *Backend, set *Set) *Rec {
	return &Rec{B: b, Cx: plancoq.NewCtx(set.Lookup), Ctx: ctx, Created: map[uuid.UUID]*workflow.Plan{},
		tableIx: map[string]int{}, OpHist: map[string]int{}, badStrs: map[string]bool{}}
}

// Hangs counts, over the whole process, the vault calls that did not return within CallDeadline.
var Hangs int

// CallDeadline bounds every call into a vault (they take milliseconds; the cosmosdb reader retries
// some errors for ever on a context it detached from the caller's).
var CallDeadline = 4 * time.Second

// guard runs one call into the vault (or into the abstraction of its result): a panic or a call that
// does not return is recorded as an observation; after a hang the vault is not used any more (its lock
// may be held by the call that never returned).
func (r *Rec) guard(what string, f func()) {
	if r.Dead {
		return
	}
	done := make(chan string, 1)
	go func() {
		defer func() {
			if p := recover(); p != nil {
				done <- fmt.Sprintf("panic in %s: %v\n%s", what, p, debug.Stack())
				return
			}
			done <- ""
		}()
		f()
	}()
	select {
	case note := <-done:
		if note != "" {
			r.Notes = append(r.Notes, note)
		}
	case <-time.After(CallDeadline):
		r.Dead = true
		Hangs++
		r.Notes = append(r.Notes, fmt.Sprintf("hang: %s did not return within %v (the case stops here)", what, CallDeadline))
	}
}

func (r *Rec) intern(term string) int {
	if k, ok := r.tableIx[term]; ok {
		return k
	}
	k := len(r.table)
	r.table = append(r.table, term)
	r.tableIx[term] = k
	return k
}

func stateTerm(s *workflow.State) string {
	return core.App("Build_state", plancoq.Status(s.Status), plancoq.Time(s.Start), plancoq.Time(s.End))
}

// observe reads every id of the pool and (file-backed sqlite) counts rows per plan id.
func (r *Rec) observe(ok string) (string, map[string]any) {
	var reads, counts, exists, search []string
	human := map[string]any{}
	for _, id := range r.IDs {
		var ex bool
		var err error
		r.guard("Exists", func() { ex, err = r.B.Vault.Exists(r.Ctx, id) })
		if r.Dead {
			break
		}
		if err != nil {
			r.Notes = append(r.Notes, "panic-class: Exists returned an error: "+errText(err))
			continue
		}
		exists = append(exists, core.Pair(r.Cx.Uid(id), core.B(ex)))
		human["exists "+id.String()] = ex
		if r.B.Cosmos != nil {
			raw, err := r.B.Cosmos.SearchItemRaw(r.Ctx, id.String())
			if err != nil {
				r.Notes = append(r.Notes, "panic-class: SearchItemRaw failed: "+errText(err))
				continue
			}
			search = append(search, core.Pair(r.Cx.Uid(id), core.B(len(raw) > 0)))
			human["search entry "+id.String()] = len(raw) > 0
		}
	}
	for _, id := range r.IDs {
		var got *workflow.Plan
		var err error
		r.guard("Read", func() { got, err = r.B.Vault.Read(r.Ctx, id) })
		r.Reads++
		if r.Dead {
			break
		}
		switch {
		case err != nil || got == nil:
			reads = append(reads, core.Pair(r.Cx.Uid(id), "None"))
			if err == nil {
				human[id.String()] = "nil plan, nil error"
				r.Notes = append(r.Notes, "panic-class: Read returned nil plan and nil error for "+id.String())
			} else {
				human[id.String()] = "error"
			}
		default:
			term := ""
			r.guard("abstraction of a read plan", func() {
				NormPlan(got)
				if r.B.Kind == 1 && !r.KeepOrder {
					OrderActionsLike(got, r.Created[id])
				}
				term = r.Cx.Plan(got)
			})
			k := r.intern(term)
			reads = append(reads, core.Pair(r.Cx.Uid(id), core.Some(core.Nat(k))))
			if got.State == nil {
				human[id.String()] = fmt.Sprintf("plan #%d (nil State, id %v, %d blocks)", k, got.ID, len(got.Blocks))
			} else {
				human[id.String()] = fmt.Sprintf("plan #%d (status %v, reason %v, %d blocks)", k, got.State.Status, got.Reason, len(got.Blocks))
			}
		}
	}
	if r.B.HasCounts() && !r.Dead {
		for _, id := range r.IDs {
			ns, err := r.B.Counts(id)
			if err != nil {
				r.Notes = append(r.Notes, "panic-class: direct SQL count failed: "+err.Error())
				continue
			}
			xs := make([]string, len(ns))
			for i, n := range ns {
				xs[i] = core.Nat(n)
			}
			counts = append(counts, core.Pair(r.Cx.Uid(id), core.List(xs)))
			human["rows "+id.String()] = ns
		}
	}
	return core.App("Build_obs", ok, core.List(reads), core.List(counts), core.List(exists), core.List(search)), human
}

func okTerm(err error) string {
	return core.Some(core.B(err == nil))
}

func errText(err error) string {
	if err == nil {
		return ""
	}
	s := err.Error()
	if len(s) > 160 {
		s = s[:160]
	}
	return strings.ReplaceAll(s, "\n", " ")
}

func (r *Rec) push(opTerm, kind string, err error, okT string, extra map[string]any) {
	r.OpHist[kind]++
	obs, human := "(Build_obs None [] [] [] [])", map[string]any{}
	if !r.NoObs {
		obs, human = r.observe(okT)
	}
	r.steps = append(r.steps, core.Pair(opTerm, obs))
	e := map[string]any{"op": kind, "err": errText(err), "after": human}
	for k, v := range extra {
		e[k] = v
	}
	r.Log = append(r.Log, e)
}

// Create calls Vault.Create(give) and records the operation with ref, the harness's own structurally
// equal copy (the cosmosdb creator overwrites its argument). ref is normalised in place.
func (r *Rec) Create(give, ref *workflow.Plan, what string) error {
	if r.Dead {
		return fmt.Errorf("vault abandoned after a hang")
	}
	var err error
	r.guard("Create", func() { err = r.B.Vault.Create(r.Ctx, give) })
	return r.Created_(ref, err, what, "CCreate")
}

// CallCancelled runs f with a context that is cancelled d after the call started (busy-waited, so that
// sub-millisecond instants are hit). A panic is recorded as an observation.
func (r *Rec) CallCancelled(what string, d time.Duration, f func(ctx context.Context) error) error {
	var err error
	cctx, cancel := context.WithCancel(r.Ctx)
	defer cancel()
	r.guard(what, func() {
		start := time.Now()
		go func() {
			for time.Since(start) < d {
			}
			cancel()
		}()
		err = f(cctx)
	})
	return err
}

// Created_ records a create that the caller performed itself (Submit, killed child).
func (r *Rec) Created_(ref *workflow.Plan, err error, what, ctor string) error {
	if r.Dead {
		return fmt.Errorf("vault abandoned after a hang")
	}
	NormPlan(ref)
	r.notePlan(ref)
	if _, dup := r.Created[ref.ID]; !dup {
		r.Created[ref.ID] = ref // used only to order actions read through the cosmos fake
	}
	okT := okTerm(err)
	if ctor == "CKilledCreate" {
		okT = "None"
	}
	term := ""
	r.guard("abstraction of a created plan", func() { term = r.Cx.Plan(ref) })
	r.push(core.App(ctor, term), what, err, okT, map[string]any{"plan": ref.ID.String()})
	return err
}

func (r *Rec) Delete(id uuid.UUID) error {
	if r.Dead {
		return fmt.Errorf("vault abandoned after a hang")
	}
	var err error
	r.guard("Delete", func() { err = r.B.Vault.Delete(r.Ctx, id) })
	return r.Deleted_(id, err, "delete", "CDelete")
}

// Deleted_ records a delete that the caller performed itself (fault injection).
func (r *Rec) Deleted_(id uuid.UUID, err error, what, ctor string) error {
	if r.Dead {
		return fmt.Errorf("vault abandoned after a hang")
	}
	if err == nil {
		delete(r.Created, id)
	}
	r.push(core.App(ctor, r.Cx.Uid(id)), what, err, okTerm(err), map[string]any{"plan": id.String()})
	return err
}

// The Update* calls hand the vault a fresh object that carries the id, the plan id, the new state
// (reason, attempts) and deliberately DIFFERENT definition fields: an updater must not persist those.

func (r *Rec) UpdatePlan(id uuid.UUID, reason workflow.FailureReason, st *workflow.State, submit time.Time) error {
	if r.Dead {
		return fmt.Errorf("vault abandoned after a hang")
	}
	p := &workflow.Plan{ID: id, Name: "mutated-by-update", Descr: "mutated", GroupID: uuid.Nil, Meta: []byte("mutated"),
		Reason: reason, State: st, SubmitTime: submit}
	var err error
	r.guard("UpdatePlan", func() { err = r.B.Vault.UpdatePlan(r.Ctx, p) })
	r.push(core.App("CUpdatePlan", r.Cx.Uid(id), plancoq.Reason(reason), stateTerm(st), plancoq.Time(submit)), "update-plan", err, okTerm(err), map[string]any{"id": id.String()})
	return err
}

// UpdatedPlan_ records an UpdatePlan that the caller performed itself (fault injection).
func (r *Rec) UpdatedPlan_(id uuid.UUID, reason workflow.FailureReason, st *workflow.State, submit time.Time, err error, what, ctor string) error {
	if r.Dead {
		return fmt.Errorf("vault abandoned after a hang")
	}
	r.push(core.App(ctor, r.Cx.Uid(id), plancoq.Reason(reason), stateTerm(st), plancoq.Time(submit)), what, err, okTerm(err), map[string]any{"id": id.String()})
	return err
}

func (r *Rec) UpdateBlock(planID, id uuid.UUID, st *workflow.State) error {
	if r.Dead {
		return fmt.Errorf("vault abandoned after a hang")
	}
	b := &workflow.Block{ID: id, Name: "mutated-by-update", Descr: "mutated", Concurrency: 77, ToleratedFailures: 77, State: st}
	b.SetPlanID(planID)
	var err error
	r.guard("UpdateBlock", func() { err = r.B.Vault.UpdateBlock(r.Ctx, b) })
	r.push(core.App("CUpdateBlock", r.Cx.Uid(planID), r.Cx.Uid(id), stateTerm(st)), "update-block", err, okTerm(err), map[string]any{"id": id.String()})
	return err
}

func (r *Rec) UpdateChecks(planID, id uuid.UUID, st *workflow.State) error {
	if r.Dead {
		return fmt.Errorf("vault abandoned after a hang")
	}
	c := &workflow.Checks{ID: id, Delay: 77, State: st}
	c.SetPlanID(planID)
	var err error
	r.guard("UpdateChecks", func() { err = r.B.Vault.UpdateChecks(r.Ctx, c) })
	r.push(core.App("CUpdateChecks", r.Cx.Uid(planID), r.Cx.Uid(id), stateTerm(st)), "update-checks", err, okTerm(err), map[string]any{"id": id.String()})
	return err
}

func (r *Rec) UpdateSequence(planID, id uuid.UUID, st *workflow.State) error {
	if r.Dead {
		return fmt.Errorf("vault abandoned after a hang")
	}
	s := &workflow.Sequence{ID: id, Name: "mutated-by-update", Descr: "mutated", State: st}
	s.SetPlanID(planID)
	var err error
	r.guard("UpdateSequence", func() { err = r.B.Vault.UpdateSequence(r.Ctx, s) })
	r.push(core.App("CUpdateSequence", r.Cx.Uid(planID), r.Cx.Uid(id), stateTerm(st)), "update-sequence", err, okTerm(err), map[string]any{"id": id.String()})
	return err
}

// UpdateAction: atts goes to the vault, refAtts (structurally equal, the harness's own) is recorded.
func (r *Rec) UpdateAction(planID, id uuid.UUID, plugin string, st *workflow.State, atts, refAtts []*workflow.Attempt) error {
	if r.Dead {
		return fmt.Errorf("vault abandoned after a hang")
	}
	a := &workflow.Action{ID: id, Name: "mutated-by-update", Descr: "mutated", Plugin: plugin, Timeout: 77, Retries: 77,
		Req: nil, Attempts: atts, State: st}
	a.SetPlanID(planID)
	var err error
	r.guard("UpdateAction", func() { err = r.B.Vault.UpdateAction(r.Ctx, a) })
	xs := make([]string, len(refAtts))
	for i, at := range refAtts {
		r.noteErr(at.Err)
		at.Resp = NormValue(at.Resp)
		xs[i] = r.Cx.Attempt(at)
	}
	r.push(core.App("CUpdateAction", r.Cx.Uid(planID), r.Cx.Uid(id), stateTerm(st), core.List(xs)), "update-action", err, okTerm(err),
		map[string]any{"id": id.String(), "attempts": len(refAtts)})
	return err
}

// Items records what cosmosdb's planToItems emits for give (VerifPlanItems), next to ref, the
// harness's structurally equal copy. It returns the number of items.
func (r *Rec) Items(give, ref *workflow.Plan) int {
	var raw [][]byte
	var err error
	r.guard("VerifPlanItems", func() { raw, _, err = cosmosdb.VerifPlanItems(give) })
	NormPlan(ref)
	r.notePlan(ref)
	if err != nil {
		// the implementation refuses the plan: recorded as "no items"; the model must refuse it too
		r.guard("abstraction of items", func() { r.items = append(r.items, core.Pair(r.Cx.Plan(ref), "[]")) })
		return 0
	}
	var xs []string
	r.guard("abstraction of items", func() {
		for _, it := range raw {
			t, err := ItemTerm(r.Cx, it)
			if err != nil {
				panic(err)
			}
			xs = append(xs, t)
		}
		r.items = append(r.items, core.Pair(r.Cx.Plan(ref), core.List(xs)))
	})
	return len(raw)
}

var blobTy = regexp.MustCompile(`^\(Build_blob \w+ \w+ (\d+)%N `)

// SetBadType records that from now on the registry's plugins declare another response type: attempts
// whose response has the Go type of sample cannot be decoded any more (sample == nil: as before).
// The caller has switched the registry (and possibly reopened the store); the reads follow.
func (r *Rec) SetBadType(sample any, what string) {
	if r.Dead {
		return
	}
	ty := "0"
	if sample != nil {
		m := blobTy.FindStringSubmatch(r.Cx.Blob(sample))
		if m == nil {
			panic("cannot find the type index of " + fmt.Sprintf("%T", sample))
		}
		ty = m[1]
	}
	r.push(core.App("CSetBadType", ty+"%N"), what, nil, "None", map[string]any{"type": fmt.Sprintf("%T", sample)})
}

func (r *Rec) noteStr(s string) {
	if !utf8.ValidString(s) {
		r.badStrs[s] = true
	}
}

func (r *Rec) noteErr(e *plugins.Error) {
	for ; e != nil; e = e.Wrapped {
		r.noteStr(e.Message)
	}
}

// notePlan remembers the strings of an input plan that are not valid UTF-8 (names, descriptions,
// plugin names, error messages of attempts).
func (r *Rec) notePlan(p *workflow.Plan) {
	r.noteStr(p.Name)
	r.noteStr(p.Descr)
	for _, b := range p.Blocks {
		r.noteStr(b.Name)
		r.noteStr(b.Descr)
		for _, s := range b.Sequences {
			r.noteStr(s.Name)
			r.noteStr(s.Descr)
		}
	}
	for _, a := range ObjectsOf(p).Actions {
		r.noteStr(a.Name)
		r.noteStr(a.Descr)
		r.noteStr(a.Plugin)
		for _, at := range a.Attempts {
			r.noteErr(at.Err)
		}
	}
}

var tokIx = regexp.MustCompile(`(\d+)%N\)$`)

// CaseTerm is the Coq term of the recorded case.
func (r *Rec) CaseTerm() string {
	var bad []string
	keys := make([]string, 0, len(r.badStrs))
	for s := range r.badStrs {
		keys = append(keys, s)
	}
	sort.Strings(keys)
	for _, s := range keys {
		if m := tokIx.FindStringSubmatch(r.Cx.Tok(s)); m != nil {
			bad = append(bad, m[1]+"%N")
		}
	}
	return core.App("Build_case", core.Nat(r.B.Kind), core.List(r.table), core.List(r.steps), core.List(r.items), core.List(bad))
}

func (r *Rec) Steps() int     { return len(r.steps) }
func (r *Rec) TableSize() int { return len(r.table) }

// Note joins the panic notes ("" if none).
func (r *Rec) Note() string {
	if len(r.Notes) == 0 {
		return ""
	}
	return "panic: " + strings.Join(r.Notes, "\n---\n")
}
