package storelib

import (
	"bytes"
	"encoding/base64"
	"encoding/json"
	"fmt"
	"time"

	"verifharness/core"
	"verifharness/plancoq"

	"github.com/element-of-surprise/coercion/workflow"
	"github.com/google/uuid"
)

// ItemTerm abstracts one JSON item emitted by cosmosdb's planToItems into a term of
// Coercion.Store.Rows.row. Request and attempt payloads are blanked (only the number of attempts is
// kept): they are compared through Read. Parsing uses encoding/json and the field names of
// cosmosdb/schema.go; an unknown "type" is an error.
func ItemTerm(cx *plancoq.Ctx, raw []byte) (string, error) {
	dec := json.NewDecoder(bytes.NewReader(raw))
	dec.UseNumber()
	m := map[string]any{}
	if err := dec.Decode(&m); err != nil {
		return "", err
	}
	str := func(k string) string {
		s, _ := m[k].(string)
		return s
	}
	num := func(k string) int64 {
		n, ok := m[k].(json.Number)
		if !ok {
			return 0
		}
		v, err := n.Int64()
		if err != nil {
			panic(fmt.Sprintf("item field %s: %v", k, err))
		}
		return v
	}
	dur := func(k string) int64 {
		if s, ok := m[k].(string); ok {
			d, err := time.ParseDuration(s)
			if err != nil {
				panic(fmt.Sprintf("item field %s: %v", k, err))
			}
			return int64(d)
		}
		return num(k)
	}
	uid := func(k string) uuid.UUID {
		s := str(k)
		if s == "" {
			return uuid.Nil
		}
		return uuid.MustParse(s)
	}
	ouid := func(k string) string {
		u := uid(k)
		if u == uuid.Nil {
			return "None"
		}
		return core.Some(cx.Uid(u))
	}
	uids := func(k string) string {
		l, _ := m[k].([]any)
		xs := make([]string, len(l))
		for i, x := range l {
			xs[i] = cx.Uid(uuid.MustParse(x.(string)))
		}
		return core.List(xs)
	}
	tm := func(k string) string {
		s := str(k)
		if s == "" {
			return "0%Z"
		}
		t, err := time.Parse(time.RFC3339Nano, s)
		if err != nil {
			panic(fmt.Sprintf("item field %s: %v", k, err))
		}
		return plancoq.Time(t)
	}
	b64 := func(k string) []byte {
		s := str(k)
		if s == "" {
			return nil
		}
		b, err := base64.StdEncoding.DecodeString(s)
		if err != nil {
			panic(fmt.Sprintf("item field %s: %v", k, err))
		}
		return b
	}
	status := plancoq.Status(workflow.Status(num("stateStatus")))
	const blank = "(CReq (Build_blob true true 0%N 0%N))"
	switch workflow.ObjectType(num("type")) {
	case workflow.OTPlan:
		return core.App("RPlan", core.App("Build_plan_row", cx.Uid(uid("id")), cx.Uid(uid("groupID")), cx.Tok(str("name")), cx.Tok(str("descr")),
			cx.Bytes(b64("meta")), ouid("bypassChecks"), ouid("preChecks"), ouid("postChecks"), ouid("contChecks"), ouid("deferredChecks"),
			uids("blocks"), status, tm("stateStart"), tm("stateEnd"), tm("submitTime"), plancoq.Reason(workflow.FailureReason(num("reason"))))), nil
	case workflow.OTBlock:
		return core.App("RBlock", core.App("Build_block_row", cx.Uid(uid("id")), cx.Uid(uid("key")), cx.Uid(uid("planID")), cx.Tok(str("name")),
			cx.Tok(str("descr")), core.Nat(int(num("pos"))), core.Z(dur("entranceDelay")), core.Z(dur("exitDelay")),
			ouid("bypassChecks"), ouid("preChecks"), ouid("postChecks"), ouid("contChecks"), ouid("deferredChecks"),
			uids("sequences"), core.Z(num("concurrency")), core.Z(num("toleratedFailures")), status, tm("stateStart"), tm("stateEnd"))), nil
	case workflow.OTCheck:
		return core.App("RChecks", core.App("Build_checks_row", cx.Uid(uid("id")), cx.Uid(uid("key")), cx.Uid(uid("planID")), uids("actions"),
			core.Z(dur("delay")), status, tm("stateStart"), tm("stateEnd"))), nil
	case workflow.OTSequence:
		return core.App("RSeq", core.App("Build_seq_row", cx.Uid(uid("id")), cx.Uid(uid("key")), cx.Uid(uid("planID")), cx.Tok(str("name")),
			cx.Tok(str("descr")), core.Nat(int(num("pos"))), uids("actions"), status, tm("stateStart"), tm("stateEnd"))), nil
	case workflow.OTAction:
		var atts []string
		if b := b64("attempts"); len(b) > 0 {
			var l []json.RawMessage
			if err := json.Unmarshal(b, &l); err != nil {
				return "", fmt.Errorf("attempts: %w", err)
			}
			for range l {
				atts = append(atts, blank)
			}
		}
		return core.App("RAction", core.App("Build_action_row", cx.Uid(uid("id")), cx.Uid(uid("key")), cx.Uid(uid("planID")), cx.Tok(str("name")),
			cx.Tok(str("descr")), core.Nat(int(num("pos"))), cx.Tok(str("plugin")), core.Z(dur("timeout")), core.Z(num("retries")),
			blank, core.List(atts), status, tm("stateStart"), tm("stateEnd"))), nil
	}
	return "", fmt.Errorf("item of unknown type %v", m["type"])
}
