// Package storelib holds what the C13 / C14 harness binaries share: plugins, plan materialisation,
// value normalisation, vault back ends, direct SQL row counting and the Coq case printer.
package storelib

import (
	"fmt"
	"sync"
	"time"

	"verifharness/hplug"

	"github.com/element-of-surprise/coercion/plugins"
	"github.com/element-of-surprise/coercion/plugins/registry"
	"github.com/element-of-surprise/coercion/workflow/context"
	"github.com/gostdlib/base/retry/exponential"
)

const (
	AnyActionName = "verif/anyaction"
	AnyCheckName  = "verif/anycheck"
)

// AnyReq is a request type with a field of interface type: ValidateReq accepts whatever sits in X,
// so a value the JSON codec refuses (a channel, a func) passes Submit's validation and reaches Create.
type AnyReq struct {
	Nonce string
	Path  string
	X     any
}

// AnyResp is the response type of the Any plugins.
type AnyResp struct {
	Path string
	V    any
}

// Unencodable is refused by go-json-experiment ("cannot marshal from Go chan").
type Unencodable struct {
	C chan int
}

// AnyPlugin accepts every AnyReq. OnRequest, if set, is called whenever a vault asks for the
// plugin's request prototype, i.e. while it decodes an action row (used to flip the cosmos fake's
// error toggles between the two batches of a Create).
type AnyPlugin struct {
	name    string
	isCheck bool

	mu        sync.Mutex
	onRequest func()
}

func (p *AnyPlugin) SetOnRequest(f func()) { p.mu.Lock(); p.onRequest = f; p.mu.Unlock() }

func (p *AnyPlugin) Name() string { return p.name }

func (p *AnyPlugin) Execute(ctx context.Context, req any) (any, *plugins.Error) {
	r, _ := req.(AnyReq)
	return AnyResp{Path: r.Path}, nil
}

func (p *AnyPlugin) ValidateReq(req any) error {
	if _, ok := req.(AnyReq); !ok {
		return fmt.Errorf("want AnyReq, got %T", req)
	}
	return nil
}

func (p *AnyPlugin) Request() any {
	p.mu.Lock()
	f := p.onRequest
	p.mu.Unlock()
	if f != nil {
		f()
	}
	return AnyReq{}
}

func (p *AnyPlugin) Response() any { return AnyResp{} }
func (p *AnyPlugin) IsCheck() bool { return p.isCheck }
func (p *AnyPlugin) Init() error   { return nil }

func (p *AnyPlugin) RetryPolicy() exponential.Policy {
	return exponential.Policy{
		InitialInterval:     100 * time.Microsecond,
		Multiplier:          1.1,
		RandomizationFactor: 0,
		MaxInterval:         time.Millisecond,
	}
}

// Set is the registry of the store harness: the three hplug plugins plus the two Any plugins.
type Set struct {
	*hplug.Set
	AnyAction *AnyPlugin
	AnyCheck  *AnyPlugin
}

func NewSet() *Set {
	s := &Set{Set: hplug.NewSet(), AnyAction: &AnyPlugin{name: AnyActionName}, AnyCheck: &AnyPlugin{name: AnyCheckName, isCheck: true}}
	s.Reg.MustRegister(s.AnyAction)
	s.Reg.MustRegister(s.AnyCheck)
	return s
}

func (s *Set) Registry() *registry.Register { return s.Reg }

// Lookup says, from the harness's own knowledge, how a plugin name is registered and whether it accepts req.
func (s *Set) Lookup(name string, req any) (registered, isCheck, accepts bool) {
	switch name {
	case AnyActionName:
		return true, false, s.AnyAction.ValidateReq(req) == nil
	case AnyCheckName:
		return true, true, s.AnyCheck.ValidateReq(req) == nil
	}
	return s.Set.Lookup(name, req)
}

// RespChanged is what a later build of the Action / Check plugin declares as its response: the fields
// of hplug.Resp with other types, so that a stored hplug.Resp cannot be decoded into it.
type RespChanged struct {
	Path  int64
	Value string
	Items int
}

// SwitchPlugin behaves like hplug's Action / Check plugin (request hplug.Req, response hplug.Resp) until
// Changed is set; from then on Response() is RespChanged - a restart with a changed build.
type SwitchPlugin struct {
	name    string
	isCheck bool
	mu      sync.Mutex
	changed bool
}

func (p *SwitchPlugin) SetChanged(b bool) { p.mu.Lock(); p.changed = b; p.mu.Unlock() }
func (p *SwitchPlugin) Name() string      { return p.name }
func (p *SwitchPlugin) IsCheck() bool     { return p.isCheck }
func (p *SwitchPlugin) Init() error       { return nil }
func (p *SwitchPlugin) Request() any      { return hplug.Req{} }
func (p *SwitchPlugin) Response() any {
	p.mu.Lock()
	defer p.mu.Unlock()
	if p.changed {
		return RespChanged{}
	}
	return hplug.Resp{}
}
func (p *SwitchPlugin) Execute(ctx context.Context, req any) (any, *plugins.Error) {
	r, _ := req.(hplug.Req)
	return hplug.Resp{Path: r.Path, Value: r.Arg}, nil
}
func (p *SwitchPlugin) ValidateReq(req any) error {
	r, ok := req.(hplug.Req)
	if !ok {
		return fmt.Errorf("want Req, got %T", req)
	}
	if r.Bad {
		return fmt.Errorf("request marked bad")
	}
	return nil
}
func (p *SwitchPlugin) RetryPolicy() exponential.Policy {
	return exponential.Policy{InitialInterval: 100 * time.Microsecond, Multiplier: 1.1, RandomizationFactor: 0, MaxInterval: time.Millisecond}
}

// NewSwitchSet is NewSet with the Action and Check plugins replaced by SwitchPlugins (same names, same
// request and - until switched - response types). The returned function switches both.
func NewSwitchSet() (*Set, func(changed bool)) {
	reg := registry.New()
	act, chk := &SwitchPlugin{name: hplug.ActionName}, &SwitchPlugin{name: hplug.CheckName, isCheck: true}
	alt := hplug.NewAlt()
	reg.MustRegister(act)
	reg.MustRegister(chk)
	reg.MustRegister(alt)
	// hplug.Set's Action / Check are used only by Lookup (what ValidateReq accepts): unregistered twins
	h := &hplug.Set{Reg: reg, Action: hplug.NewAction(), Check: hplug.NewCheck(), Alt: alt}
	s := &Set{Set: h, AnyAction: &AnyPlugin{name: AnyActionName}, AnyCheck: &AnyPlugin{name: AnyCheckName, isCheck: true}}
	reg.MustRegister(s.AnyAction)
	reg.MustRegister(s.AnyCheck)
	return s, func(changed bool) { act.SetChanged(changed); chk.SetChanged(changed) }
}
