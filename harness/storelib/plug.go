// Package storelib holds what the C13 / C14 harness binaries share: plugins, plan materialisation,
// value normalisation, vault back ends, direct SQL row counting and the Coq case printer.
package storelib

import (
	"fmt"
	"sync"
	"time"

	"verifharness/hplug"

	"github.com/element-of-surprise/coercion/plugins"
	"github.com/element-of-surprise/coercion/plugins/registry"
	"github.com/element-of-surprise/coercion/workflow/context"
	"github.com/gostdlib/base/retry/exponential"
)

const (
	AnyActionName = "verif/anyaction"
	AnyCheckName  = "verif/anycheck"
)

// AnyReq is a request type with a field of interface type: ValidateReq accepts whatever sits in X,
// so a value the JSON codec refuses (a channel, a func) passes Submit's validation and reaches Create.
type AnyReq struct {
	Nonce string
	Path  string
	X     any
}

// AnyResp is the response type of the Any plugins.
type AnyResp struct {
	Path string
	V    any
}

// Unencodable is refused by go-json-experiment ("cannot marshal from Go chan").
type Unencodable struct {
	C chan int
}

// AnyPlugin accepts every AnyReq. OnRequest, if set, is called whenever a vault asks for the
// plugin's request prototype, i.e. while it decodes an action row (used to flip the cosmos fake's
// error toggles between the two batches of a Create).
type AnyPlugin struct {
	name    string
	isCheck bool

	mu        sync.Mutex
	onRequest func()
}

func (p *AnyPlugin) SetOnRequest(f func()) { p.mu.Lock(); p.onRequest = f; p.mu.Unlock() }

func (p *AnyPlugin) Name() string { return p.name }

func (p *AnyPlugin) Execute(ctx context.Context, req any) (any, *plugins.Error) {
	r, _ := req.(AnyReq)
	return AnyResp{Path: r.Path}, nil
}

func (p *AnyPlugin) ValidateReq(req any) error {
	if _, ok := req.(AnyReq); !ok {
		return fmt.Errorf("want AnyReq, got %T", req)
	}
	return nil
}

func (p *AnyPlugin) Request() any {
	p.mu.Lock()
	f := p.onRequest
	p.mu.Unlock()
	if f != nil {
		f()
	}
	return AnyReq{}
}

func (p *AnyPlugin) Response() any { return AnyResp{} }
func (p *AnyPlugin) IsCheck() bool { return p.isCheck }
func (p *AnyPlugin) Init() error   { return nil }

func (p *AnyPlugin) RetryPolicy() exponential.Policy {
	return exponential.Policy{
		InitialInterval:     100 * time.Microsecond,
		Multiplier:          1.1,
		RandomizationFactor: 0,
		MaxInterval:         time.Millisecond,
	}
}

// Set is the registry of the store harness: the three hplug plugins plus the two Any plugins.
type Set struct {
	*hplug.Set
	AnyAction *AnyPlugin
	AnyCheck  *AnyPlugin
}

func NewSet() *Set {
	s := &Set{Set: hplug.NewSet(), AnyAction: &AnyPlugin{name: AnyActionName}, AnyCheck: &AnyPlugin{name: AnyCheckName, isCheck: true}}
	s.Reg.MustRegister(s.AnyAction)
	s.Reg.MustRegister(s.AnyCheck)
	return s
}

func (s *Set) Registry() *registry.Register { return s.Reg }

// Lookup says, from the harness's own knowledge, how a plugin name is registered and whether it accepts req.
func (s *Set) Lookup(name string, req any) (registered, isCheck, accepts bool) {
	switch name {
	case AnyActionName:
		return true, false, s.AnyAction.ValidateReq(req) == nil
	case AnyCheckName:
		return true, true, s.AnyCheck.ValidateReq(req) == nil
	}
	return s.Set.Lookup(name, req)
}
