package main

import (
	"context"
	"fmt"
	"time"

	"verifharness/hplug"

	"github.com/element-of-surprise/coercion/plugins"
	"github.com/element-of-surprise/coercion/workflow"
	"github.com/element-of-surprise/coercion/workflow/storage/cosmosdb"
	"github.com/element-of-surprise/coercion/workflow/storage/sqlite"
	"github.com/google/uuid"
)

func st() *workflow.State { return &workflow.State{} }

func mk(req any, atts []*workflow.Attempt) *workflow.Plan {
	id := func() uuid.UUID { u, _ := uuid.NewV7(); return u }
	a := &workflow.Action{ID: id(), Name: "a", Descr: "d", Plugin: hplug.ActionName, Req: req, Attempts: atts, State: st()}
	a2 := &workflow.Action{ID: id(), Name: "a2", Descr: "d", Plugin: hplug.AltName, Req: hplug.AltReq{Nonce: "x", N: 3}, State: st(),
		Attempts: []*workflow.Attempt{{Resp: &hplug.AltResp{Echo: "e", M: map[string]int{"a": 1}}, Start: time.Unix(5, 7), End: time.Unix(6, 0)}, {Resp: nil, Err: &plugins.Error{Code: 3, Message: "m", Permanent: true, Wrapped: &plugins.Error{Code: 4, Message: "w"}}}}}
	s := &workflow.Sequence{ID: id(), Name: "s", Descr: "d", Actions: []*workflow.Action{a, a2}, State: st()}
	b := &workflow.Block{ID: id(), Name: "b", Descr: "d", Sequences: []*workflow.Sequence{s}, State: st(), Concurrency: -3}
	return &workflow.Plan{ID: id(), Name: "p", Descr: "d", Blocks: []*workflow.Block{b}, State: st(), Reason: workflow.FRBlock, Meta: []byte{}}
}

func show(p *workflow.Plan, err error) {
	if err != nil {
		fmt.Println("  read err:", err)
		return
	}
	fmt.Printf("  plan meta=%#v reason=%v submit=%v state=%+v blocks=%d\n", p.Meta, p.Reason, p.SubmitTime, *p.State, len(p.Blocks))
	for _, b := range p.Blocks {
		for _, s := range b.Sequences {
			fmt.Printf("  seq actions nil=%v\n", s.Actions == nil)
			for _, a := range s.Actions {
				fmt.Printf("   action req=%#v attempts nil=%v n=%d\n", a.Req, a.Attempts == nil, len(a.Attempts))
				for _, at := range a.Attempts {
					fmt.Printf("     att resp=%#v err=%+v start=%v end=%v\n", at.Resp, at.Err, at.Start, at.End)
					if at.Err != nil && at.Err.Wrapped != nil {
						fmt.Printf("       wrapped=%+v\n", at.Err.Wrapped)
					}
				}
			}
		}
	}
}

type bad struct{ C chan int }

func main() {
	ctx := context.Background()
	set := hplug.NewSet()
	sq, err := sqlite.New(ctx, "", set.Reg, sqlite.WithInMemory())
	if err != nil {
		panic(err)
	}
	cz, _ := cosmosdb.NewFakeVault(set.Reg)
	type V interface {
		Create(context.Context, *workflow.Plan) error
		Read(context.Context, uuid.UUID) (*workflow.Plan, error)
		Delete(context.Context, uuid.UUID) error
	}
	for name, v := range map[string]V{"sqlite": sq, "cosmos": cz} {
		fmt.Println("==", name)
		cases := map[string]*workflow.Plan{
			"nilreq":    mk(nil, nil),
			"req":       mk(hplug.Req{Nonce: "n", Arg: 4}, []*workflow.Attempt{{Resp: hplug.Resp{Path: "x", Value: 2}, Start: time.Unix(0, 1), End: time.Unix(0, 0)}}),
			"emptyatt":  mk(hplug.Req{Nonce: "n", Tags: []string{}}, []*workflow.Attempt{}),
			"badreq":    mk(bad{}, nil),
			"badresp":   mk(hplug.Req{}, []*workflow.Attempt{{Resp: bad{}}}),
			"wrongtype": mk(hplug.AltReq{N: 3}, nil),
		}
		nb := mk(hplug.Req{}, nil)
		nb.Blocks = nil
		cases["nilblocks"] = nb
		ns := mk(hplug.Req{}, nil)
		ns.Blocks[0].Sequences = nil
		cases["nilseqs"] = ns
		na := mk(hplug.Req{}, nil)
		na.Blocks[0].Sequences[0].Actions = nil
		cases["nilactions"] = na
		ea := mk(hplug.Req{}, nil)
		ea.Blocks[0].Sequences[0].Actions = []*workflow.Action{}
		cases["emptyactions"] = ea
		pt := mk(hplug.Req{}, nil)
		pt.SubmitTime = time.Unix(0, 0)
		pt.State.Start = time.Unix(-5, 0)
		pt.State.End = time.Date(2024, 1, 1, 0, 0, 0, 5, time.FixedZone("x", 3600))
		cases["times"] = pt
		for _, n := range []string{"nilreq", "req", "emptyatt", "badreq", "badresp", "wrongtype", "nilblocks", "nilseqs", "nilactions", "emptyactions", "times"} {
			p := cases[n]
			id := p.ID
			func() {
				defer func() {
					if r := recover(); r != nil {
						fmt.Println(n, "PANIC", r)
					}
				}()
				err := v.Create(ctx, p)
				fmt.Println(n, "create err:", err)
				show(v.Read(ctx, id))
				if n == "req" {
					fmt.Println(" dup create:", v.Create(ctx, p))
					fmt.Println(" delete:", v.Delete(ctx, id))
					show(v.Read(ctx, id))
					fmt.Println(" delete again:", v.Delete(ctx, id))
				}
			}()
		}
	}
}
