// Package c18x holds what the C18 harness needs beyond the shared packages: a plugin whose request and
// response carry `coerce:"secure"` fields at several depths (with the harness's own, independent scrub),
// labelled Coq terms (every pointer / slice / map node with its interned address), reflect walkers
// (address ranges, deep dump, mutate-everything) and the crafting of execution states.
package c18x

import (
	"fmt"
	"time"

	"verifharness/hplug"

	"github.com/element-of-surprise/coercion/plugins"
	"github.com/element-of-surprise/coercion/workflow/context"
	"github.com/gostdlib/base/retry/exponential"
)

const (
	SecName   = "verif/c18sec"
	SecHidden = "[secret hidden]" // what clone.Secure writes into a secure string (written out here on purpose)
)

type SecInner struct {
	Pin  int `coerce:"secure"`
	Note string
	Hops []string
}

type SecItem struct {
	Label  string
	Secret string `coerce:"secure"`
}

// SecReq is the request type of SecName: secure fields directly, behind a pointer, in slice elements
// and in map elements, next to plain nested slices and maps.
type SecReq struct {
	Nonce  string
	Path   string
	Token  string   `coerce:"secure"`
	Keys   []string `coerce:"secure"`
	Inner  *SecInner
	Items  []SecItem
	ByName map[string]*SecInner
	Tags   []string
	KV     map[string]string
	// Strict makes ValidateReq reject a request whose Token is not the one the plugin issued
	// (so a scrubbed request is rejected).
	Strict bool
}

// SecResp is the response type of SecName, returned as a pointer.
type SecResp struct {
	Out      string
	Password string `coerce:"secure"`
	Inner    *SecInner
	Rows     []SecItem
	M        map[string]int
}

func scrubInner(i *SecInner) *SecInner {
	if i == nil {
		return nil
	}
	n := &SecInner{Pin: 0, Note: i.Note}
	if i.Hops != nil {
		n.Hops = append([]string{}, i.Hops...)
	}
	return n
}

func scrubItems(xs []SecItem) []SecItem {
	if xs == nil {
		return nil
	}
	out := make([]SecItem, len(xs))
	for i, x := range xs {
		out[i] = SecItem{Label: x.Label, Secret: SecHidden}
	}
	return out
}

// Scrub is the harness's own statement of what scrubbing does to the values it generates: secure strings
// become SecHidden, other secure fields their zero value, everything else is kept. It never calls the
// code under test. Values of the shared hplug types have no secure field.
func Scrub(v any) any {
	switch x := v.(type) {
	case SecReq:
		n := SecReq{Nonce: x.Nonce, Path: x.Path, Token: SecHidden, Keys: nil, Inner: scrubInner(x.Inner), Items: scrubItems(x.Items), Strict: x.Strict}
		if x.ByName != nil {
			n.ByName = map[string]*SecInner{}
			for k, i := range x.ByName {
				n.ByName[k] = scrubInner(i)
			}
		}
		if x.Tags != nil {
			n.Tags = append([]string{}, x.Tags...)
		}
		if x.KV != nil {
			n.KV = map[string]string{}
			for k, s := range x.KV {
				n.KV[k] = s
			}
		}
		return n
	case *SecResp:
		if x == nil {
			return x
		}
		n := &SecResp{Out: x.Out, Password: SecHidden, Inner: scrubInner(x.Inner), Rows: scrubItems(x.Rows)}
		if x.M != nil {
			n.M = map[string]int{}
			for k, i := range x.M {
				n.M[k] = i
			}
		}
		return n
	}
	return v
}

// HasSecure says whether Scrub can change v.
func HasSecure(v any) bool {
	switch v.(type) {
	case SecReq, *SecResp:
		return true
	}
	return false
}

const IssuedToken = "tok-issued"

type SecPlugin struct{}

func (SecPlugin) Name() string { return SecName }
func (SecPlugin) Execute(ctx context.Context, req any) (any, *plugins.Error) {
	return &SecResp{Out: "ok"}, nil
}
func (SecPlugin) ValidateReq(req any) error {
	r, ok := req.(SecReq)
	if !ok {
		return fmt.Errorf("want SecReq, got %T", req)
	}
	if r.Strict && r.Token != IssuedToken {
		return fmt.Errorf("token not recognised")
	}
	return nil
}
func (SecPlugin) Request() any  { return SecReq{} }
func (SecPlugin) Response() any { return &SecResp{} }
func (SecPlugin) IsCheck() bool { return false }
func (SecPlugin) RetryPolicy() exponential.Policy {
	return exponential.Policy{InitialInterval: 100 * time.Microsecond, Multiplier: 1.1, RandomizationFactor: 0, MaxInterval: time.Millisecond}
}
func (SecPlugin) Init() error { return nil }

// Lookup extends hplug.Set.Lookup with SecName, from the harness's own knowledge.
func Lookup(set *hplug.Set) func(name string, req any) (registered, isCheck, accepts bool) {
	sp := SecPlugin{}
	return func(name string, req any) (bool, bool, bool) {
		if name == SecName {
			return true, false, sp.ValidateReq(req) == nil
		}
		return set.Lookup(name, req)
	}
}
