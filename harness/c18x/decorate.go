package c18x

import (
	"fmt"
	"time"

	"verifharness/core"
	"verifharness/hplug"
	"verifharness/plangen"

	"github.com/element-of-surprise/coercion/plugins"
	"github.com/element-of-surprise/coercion/plugins/registry"
	"github.com/element-of-surprise/coercion/workflow"
	"github.com/google/uuid"
)

// Execution states a plan is crafted into (as the engine would leave it at that point).
var Modes = []string{"fresh", "submitted", "running", "completed", "failed"}

type deco struct {
	r    *core.Rand
	reg  *registry.Register
	pid  uuid.UUID
	tick int64
	n    int
}

func (d *deco) now() time.Time {
	d.tick += int64(d.r.Range(1, 5_000_000))
	return time.Unix(0, 1_750_000_000_000_000_000+d.tick).UTC()
}

func (d *deco) state(st workflow.Status) *workflow.State {
	s := &workflow.State{Status: st}
	if st != workflow.NotStarted {
		s.Start = d.now()
	}
	if st == workflow.Completed || st == workflow.Failed || st == workflow.Stopped {
		s.End = d.now()
	}
	if d.r.Chance(0.3) {
		s.ETag = fmt.Sprintf("etag-%d", d.r.Intn(1000))
	}
	return s
}

func (d *deco) perr(depth int) *plugins.Error {
	d.n++
	e := &plugins.Error{Code: plugins.ErrCode(d.r.Intn(6)), Message: fmt.Sprintf("failure %d", d.n), Permanent: d.r.Chance(0.3)}
	if depth > 0 && d.r.Chance(0.6) {
		e.Wrapped = d.perr(depth - 1)
	}
	return e
}

func (d *deco) resp(a *workflow.Action) any {
	d.n++
	switch a.Plugin {
	case hplug.AltName:
		r := &hplug.AltResp{Echo: fmt.Sprintf("echo %d", d.n)}
		if d.r.Chance(0.7) {
			r.M = map[string]int{"a": d.r.Intn(9), fmt.Sprintf("k%d", d.n): 2}
		}
		return r
	case SecName:
		r := &SecResp{Out: fmt.Sprintf("out %d", d.n), Password: fmt.Sprintf("pw-%d", d.n)}
		if d.r.Chance(0.6) {
			r.Inner = &SecInner{Pin: 1000 + d.r.Intn(9000), Note: "n", Hops: []string{"h1", "h2"}}
		}
		if d.r.Chance(0.6) {
			r.Rows = []SecItem{{Label: "r0", Secret: fmt.Sprintf("s-%d", d.n)}, {Label: "r1", Secret: "s"}}
		}
		if d.r.Chance(0.5) {
			r.M = map[string]int{"m": d.n}
		}
		return r
	}
	r := hplug.Resp{Path: fmt.Sprintf("resp %d", d.n), Value: int64(d.r.Intn(100))}
	r.Items = StringsShape(d.r.Intn(6), fmt.Sprintf("i%d", d.n), "j")
	return r
}

// attempts crafts nfail failed attempts followed, if ok, by a successful one.
func (d *deco) attempts(a *workflow.Action, nfail int, ok, open bool) {
	a.Attempts = nil
	for i := 0; i < nfail; i++ {
		at := &workflow.Attempt{Err: d.perr(3), Start: d.now()}
		at.End = d.now()
		if d.r.Chance(0.2) {
			at.Resp = d.resp(a) // an error with a partial response
		}
		a.Attempts = append(a.Attempts, at)
	}
	if ok {
		at := &workflow.Attempt{Resp: d.resp(a), Start: d.now()}
		at.End = d.now()
		a.Attempts = append(a.Attempts, at)
	}
	if open {
		// an attempt in flight: started, nothing else yet
		a.Attempts = append(a.Attempts, &workflow.Attempt{Start: d.now()})
	}
	switch d.r.Intn(3) {
	case 0: // exact capacity
		if len(a.Attempts) > 0 {
			x := make([]*workflow.Attempt, len(a.Attempts))
			copy(x, a.Attempts)
			a.Attempts = x
		}
	case 1: // spare capacity
		x := make([]*workflow.Attempt, len(a.Attempts), len(a.Attempts)+3)
		copy(x, a.Attempts)
		if len(x) > 0 {
			a.Attempts = x
		}
	}
}

func (d *deco) action(a *workflow.Action, st workflow.Status) {
	if a == nil {
		return
	}
	a.ID = plangen.V7(d.r)
	a.SetPlanID(d.pid)
	a.SetRegister(d.reg)
	a.State = d.state(st)
	max := a.Retries
	if max < 0 {
		max = 0
	}
	switch st {
	case workflow.Completed:
		d.attempts(a, d.r.Intn(max+1), true, false)
	case workflow.Failed:
		d.attempts(a, 1+d.r.Intn(max+1), false, false)
	case workflow.Running, workflow.Stopped:
		d.attempts(a, d.r.Intn(max+1), false, st == workflow.Running && d.r.Chance(0.5))
	}
}

func (d *deco) checks(c *workflow.Checks, st workflow.Status) {
	if c == nil {
		return
	}
	c.ID = plangen.V7(d.r)
	c.SetPlanID(d.pid)
	c.State = d.state(st)
	failed := false
	for _, a := range c.Actions {
		ast := st
		if st == workflow.Failed {
			// at least one action failed, the others completed
			if !failed || d.r.Chance(0.3) {
				ast, failed = workflow.Failed, true
			} else {
				ast = workflow.Completed
			}
		}
		if st == workflow.Running && d.r.Chance(0.4) {
			ast = workflow.Completed
		}
		d.action(a, ast)
	}
}

func (d *deco) sequence(s *workflow.Sequence, st workflow.Status) {
	if s == nil {
		return
	}
	s.ID = plangen.V7(d.r)
	s.SetPlanID(d.pid)
	s.State = d.state(st)
	cur := 0
	if len(s.Actions) > 0 {
		cur = d.r.Intn(len(s.Actions))
	}
	for i, a := range s.Actions {
		ast := st
		switch st {
		case workflow.Running, workflow.Failed, workflow.Stopped:
			switch {
			case i < cur:
				ast = workflow.Completed
			case i > cur:
				ast = workflow.NotStarted
			}
		}
		d.action(a, ast)
	}
}

func (d *deco) block(b *workflow.Block, st workflow.Status, why workflow.FailureReason) {
	if b == nil {
		return
	}
	b.ID = plangen.V7(d.r)
	b.SetPlanID(d.pid)
	b.State = d.state(st)
	done, idle := workflow.Completed, workflow.NotStarted
	switch st {
	case workflow.NotStarted, workflow.Completed:
		for _, c := range []*workflow.Checks{b.BypassChecks, b.PreChecks, b.ContChecks, b.PostChecks, b.DeferredChecks} {
			d.checks(c, st)
		}
		for _, s := range b.Sequences {
			d.sequence(s, st)
		}
	default:
		// in the middle of the sequences (or stopped / failed there)
		d.checks(b.BypassChecks, workflow.Failed) // a bypass that did not let the block through
		d.checks(b.PreChecks, done)
		cont := workflow.Running
		if st != workflow.Running {
			cont = done
		}
		if st == workflow.Failed && why == workflow.FRContCheck {
			cont = workflow.Failed
		}
		d.checks(b.ContChecks, cont)
		d.checks(b.PostChecks, idle)
		if st == workflow.Running {
			d.checks(b.DeferredChecks, idle)
		} else {
			d.checks(b.DeferredChecks, done)
		}
		hit := false
		for i, s := range b.Sequences {
			sst := []workflow.Status{done, st, idle}[d.r.Intn(3)]
			if i == len(b.Sequences)-1 && !hit {
				sst = st
			}
			if sst == st {
				hit = true
			}
			d.sequence(s, sst)
		}
	}
}

// Decorate fills ids, states, times, attempts, reason, submit time, plan ids and plugin registry pointers
// of a fresh plan the way the engine would have at the given point. "fresh" leaves the plan untouched.
func Decorate(r *core.Rand, p *workflow.Plan, mode string, reg *registry.Register) {
	if mode == "fresh" {
		return
	}
	d := &deco{r: r, reg: reg}
	p.ID = plangen.V7(r)
	d.pid = p.ID
	p.SubmitTime = d.now()
	var st workflow.Status
	why := workflow.FRUnknown
	switch mode {
	case "submitted":
		st = workflow.NotStarted
	case "running":
		st = workflow.Running
	case "completed":
		st = workflow.Completed
	case "failed":
		st = workflow.Failed
		why = []workflow.FailureReason{workflow.FRPreCheck, workflow.FRBlock, workflow.FRPostCheck, workflow.FRContCheck,
			workflow.FRDeferredCheck, workflow.FRStopped, workflow.FRExceedRecovery}[r.Intn(7)]
		if why == workflow.FRStopped {
			st = workflow.Stopped
		}
	}
	p.State = d.state(st)
	p.Reason = why
	done, idle := workflow.Completed, workflow.NotStarted
	groups := []*workflow.Checks{p.BypassChecks, p.PreChecks, p.ContChecks, p.PostChecks, p.DeferredChecks}
	switch {
	case st == workflow.NotStarted || st == workflow.Completed:
		for _, c := range groups {
			d.checks(c, st)
		}
		for _, b := range p.Blocks {
			d.block(b, st, why)
		}
	case why == workflow.FRPreCheck:
		d.checks(p.BypassChecks, workflow.Failed)
		d.checks(p.PreChecks, workflow.Failed)
		d.checks(p.ContChecks, idle)
		d.checks(p.PostChecks, idle)
		d.checks(p.DeferredChecks, done)
		for _, b := range p.Blocks {
			d.block(b, idle, why)
		}
	default:
		d.checks(p.BypassChecks, workflow.Failed)
		d.checks(p.PreChecks, done)
		cont := workflow.Running
		if st != workflow.Running {
			cont = done
		}
		if why == workflow.FRContCheck {
			cont = workflow.Failed
		}
		d.checks(p.ContChecks, cont)
		post := idle
		if why == workflow.FRPostCheck {
			post = workflow.Failed
		}
		d.checks(p.PostChecks, post)
		switch {
		case st == workflow.Running:
			d.checks(p.DeferredChecks, idle)
		case why == workflow.FRDeferredCheck:
			d.checks(p.DeferredChecks, workflow.Failed)
		default:
			d.checks(p.DeferredChecks, done)
		}
		cur := 0
		if len(p.Blocks) > 0 {
			cur = r.Intn(len(p.Blocks))
		}
		if why == workflow.FRPostCheck || why == workflow.FRDeferredCheck {
			cur = len(p.Blocks) // every block completed
		}
		for i, b := range p.Blocks {
			switch {
			case i < cur:
				d.block(b, done, why)
			case i == cur:
				d.block(b, st, why)
			default:
				d.block(b, idle, why)
			}
		}
	}
}

// AddSecure replaces the requests of some sequence actions by SecReq values (plugin SecName). strictP is the
// probability that such a request is of the kind the plugin rejects once it is scrubbed.
func AddSecure(r *core.Rand, p *workflow.Plan, prob, strictP float64, nonce string) int {
	n := 0
	for bi, b := range p.Blocks {
		if b == nil {
			continue
		}
		for si, s := range b.Sequences {
			if s == nil {
				continue
			}
			for ai, a := range s.Actions {
				if a == nil || !r.Chance(prob) {
					continue
				}
				n++
				q := SecReq{Nonce: nonce, Path: fmt.Sprintf("b%d/s%d/%d", bi, si, ai), Token: IssuedToken, Strict: r.Chance(strictP)}
				if r.Chance(0.6) {
					q.Keys = []string{fmt.Sprintf("key-%d", n), "k2"}
				}
				if r.Chance(0.6) {
					q.Inner = &SecInner{Pin: 1000 + r.Intn(9000), Note: fmt.Sprintf("note %d", n), Hops: []string{"a", "b"}}
				}
				if r.Chance(0.5) {
					q.Items = []SecItem{{Label: "l0", Secret: fmt.Sprintf("sec-%d", n)}, {Label: "l1", Secret: "x"}}
				}
				if r.Chance(0.5) {
					q.ByName = map[string]*SecInner{"one": {Pin: 7, Note: "one"}, "nil": nil}
				}
				if r.Chance(0.5) {
					q.Tags = []string{"t", fmt.Sprintf("t%d", n)}
				}
				if r.Chance(0.5) {
					q.KV = map[string]string{"k": fmt.Sprintf("v%d", n)}
				}
				a.Plugin = SecName
				a.Req = q
			}
		}
	}
	return n
}

// Irregular applies 1-3 shape / validity irregularities to a plan: nil and empty slices, nil elements,
// a sequence without actions, an empty (non-nil) attempts slice, blank names, a short timeout, an unknown
// plugin, a request its plugin rejects, a nil request, negative retries. It returns what it did.
func Irregular(r *core.Rand, p *workflow.Plan, first int) []string {
	var did []string
	pickBlock := func() *workflow.Block {
		if len(p.Blocks) == 0 {
			return nil
		}
		return p.Blocks[r.Intn(len(p.Blocks))]
	}
	pickSeq := func() *workflow.Sequence {
		b := pickBlock()
		if b == nil || len(b.Sequences) == 0 {
			return nil
		}
		return b.Sequences[r.Intn(len(b.Sequences))]
	}
	pickChecks := func() *workflow.Checks {
		var all []*workflow.Checks
		add := func(cs ...*workflow.Checks) {
			for _, c := range cs {
				if c != nil {
					all = append(all, c)
				}
			}
		}
		add(p.BypassChecks, p.PreChecks, p.ContChecks, p.PostChecks, p.DeferredChecks)
		for _, b := range p.Blocks {
			if b != nil {
				add(b.BypassChecks, b.PreChecks, b.ContChecks, b.PostChecks, b.DeferredChecks)
			}
		}
		if len(all) == 0 {
			// no group anywhere: give the plan one
			p.PreChecks = &workflow.Checks{Actions: []*workflow.Action{
				{Name: "added check", Descr: "added", Plugin: hplug.CheckName, Req: hplug.Req{Nonce: "added", Path: "p/pre/0"}},
				{Name: "added check 2", Descr: "added", Plugin: hplug.CheckName, Req: hplug.Req{Nonce: "added", Path: "p/pre/1", Tags: []string{"t"}}},
			}}
			return p.PreChecks
		}
		return all[r.Intn(len(all))]
	}
	pickAction := func() *workflow.Action {
		var as []*workflow.Action
		if r.Chance(0.3) {
			if c := pickChecks(); c != nil {
				as = c.Actions
			}
		} else if s := pickSeq(); s != nil {
			as = s.Actions
		}
		if len(as) == 0 {
			return nil
		}
		return as[r.Intn(len(as))]
	}
	k := r.Range(1, 3)
	for i := 0; i < k; i++ {
		what := r.Intn(20)
		if i == 0 {
			what = first % 20
		}
		switch what {
		case 0:
			p.Blocks = nil
			did = append(did, "plan.Blocks=nil")
		case 1:
			p.Blocks = []*workflow.Block{}
			if r.Chance(0.5) && len(p.Blocks) == 0 {
				p.Blocks = make([]*workflow.Block, 0, 3)
			}
			did = append(did, "plan.Blocks=empty")
		case 2:
			if len(p.Blocks) > 0 {
				j := r.Intn(len(p.Blocks) + 1)
				p.Blocks = append(p.Blocks[:j:j], append([]*workflow.Block{nil}, p.Blocks[j:]...)...)
				did = append(did, "nil block")
			}
		case 3:
			if b := pickBlock(); b != nil {
				b.Sequences = nil
				did = append(did, "block.Sequences=nil")
			}
		case 4:
			if b := pickBlock(); b != nil {
				b.Sequences = []*workflow.Sequence{}
				if r.Chance(0.5) {
					b.Sequences = make([]*workflow.Sequence, 0, 3)
				}
				did = append(did, "block.Sequences=empty")
			}
		case 5:
			if b := pickBlock(); b != nil && len(b.Sequences) > 0 {
				j := r.Intn(len(b.Sequences) + 1)
				b.Sequences = append(b.Sequences[:j:j], append([]*workflow.Sequence{nil}, b.Sequences[j:]...)...)
				did = append(did, "nil sequence")
			}
		case 6:
			if s := pickSeq(); s != nil {
				s.Actions = nil
				did = append(did, "seq.Actions=nil")
			}
		case 7:
			if s := pickSeq(); s != nil {
				s.Actions = []*workflow.Action{}
				if r.Chance(0.5) {
					s.Actions = s.Actions[:0:0]
					s.Actions = make([]*workflow.Action, 0, 3)
				}
				did = append(did, "seq.Actions=empty")
			}
		case 8:
			if s := pickSeq(); s != nil && len(s.Actions) > 0 {
				j := r.Intn(len(s.Actions) + 1)
				s.Actions = append(s.Actions[:j:j], append([]*workflow.Action{nil}, s.Actions[j:]...)...)
				did = append(did, "nil seq action")
			}
		case 9:
			if c := pickChecks(); c != nil {
				if r.Chance(0.5) {
					c.Actions = nil
					did = append(did, "checks.Actions=nil")
				} else {
					c.Actions = make([]*workflow.Action, 0, r.Intn(2)*3)
					did = append(did, "checks.Actions=empty")
				}
			}
		case 10:
			if c := pickChecks(); c != nil && len(c.Actions) > 0 {
				j := r.Intn(len(c.Actions) + 1)
				c.Actions = append(c.Actions[:j:j], append([]*workflow.Action{nil}, c.Actions[j:]...)...)
				did = append(did, "nil check action")
			}
		case 11:
			if a := pickAction(); a != nil {
				a.Attempts = make([]*workflow.Attempt, 0, r.Intn(2)*4)
				did = append(did, "attempts=empty")
			}
		case 12:
			switch r.Intn(4) {
			case 0:
				p.Name = " \t"
			case 1:
				p.Descr = ""
			case 2:
				if b := pickBlock(); b != nil {
					b.Name = ""
				}
			case 3:
				if s := pickSeq(); s != nil {
					s.Descr = "  "
				}
			}
			did = append(did, "blank name")
		case 13:
			if a := pickAction(); a != nil {
				a.Name = []string{"", " ", "\n"}[r.Intn(3)]
				did = append(did, "blank action name")
			}
		case 14:
			if a := pickAction(); a != nil {
				a.Timeout = []time.Duration{time.Nanosecond, 4999 * time.Millisecond, -time.Second}[r.Intn(3)]
				did = append(did, "short timeout")
			}
		case 15:
			if a := pickAction(); a != nil {
				a.Plugin = "verif/unknown"
				did = append(did, "unknown plugin")
			}
		case 16:
			if a := pickAction(); a != nil {
				if q, ok := a.Req.(hplug.Req); ok {
					q.Bad = true
					a.Req = q
					did = append(did, "rejected request")
				}
			}
		case 17:
			if a := pickAction(); a != nil {
				a.Req = nil
				did = append(did, "nil request")
			}
		case 18:
			if a := pickAction(); a != nil {
				a.Retries = -r.Range(1, 5)
				did = append(did, "negative retries")
			}
		case 19:
			if b := pickBlock(); b != nil {
				b.Concurrency = -r.Range(0, 3)
				did = append(did, "concurrency<1")
			}
		}
	}
	return did
}

// ---- slice shapes: nil, empty without capacity, empty with capacity, the [:0] of a filled buffer,
// non-empty with spare capacity, non-empty exact. A slice with capacity has a backing array that a careless
// copy can share even when its length is 0.

var ShapeNames = []string{"nil", "empty", "empty-cap", "buf[:0]", "spare-cap", "exact"}

func BytesShape(k int, content string) []byte {
	switch k % 6 {
	case 0:
		return nil
	case 1:
		return []byte{}
	case 2:
		return make([]byte, 0, 16)
	case 3:
		buf := []byte(content + " (stale buffer content)")
		return buf[:0]
	case 4:
		b := make([]byte, len(content), len(content)+8)
		copy(b, content)
		return b
	}
	b := make([]byte, len(content))
	copy(b, content)
	return b
}

func StringsShape(k int, items ...string) []string {
	switch k % 6 {
	case 0:
		return nil
	case 1:
		return []string{}
	case 2:
		return make([]string, 0, 4)
	case 3:
		buf := append([]string{"stale"}, items...)
		return buf[:0]
	case 4:
		b := make([]string, len(items), len(items)+3)
		copy(b, items)
		return b
	}
	b := make([]string, len(items))
	copy(b, items)
	return b
}

func mapShape(k int, key, val string) map[string]string {
	switch k % 3 {
	case 0:
		return nil
	case 1:
		return map[string]string{}
	}
	return map[string]string{key: val, "k": "v"}
}

// Reshape redraws Plan.Meta and the nested slices / maps of every request from the shapes above.
// It returns the name of the Meta shape.
func Reshape(r *core.Rand, p *workflow.Plan) string {
	mk := r.Intn(6)
	p.Meta = BytesShape(mk, fmt.Sprintf("meta %d", r.Intn(1000)))
	n := 0
	each := func(a *workflow.Action) {
		if a == nil {
			return
		}
		n++
		switch q := a.Req.(type) {
		case hplug.Req:
			q.Tags = StringsShape(r.Intn(6), fmt.Sprintf("tag %d", n), "t")
			q.KV = mapShape(r.Intn(3), fmt.Sprintf("key %d", n), "val")
			a.Req = q
		case SecReq:
			q.Tags = StringsShape(r.Intn(6), fmt.Sprintf("tag %d", n))
			q.Keys = StringsShape(r.Intn(6), fmt.Sprintf("key-%d", n), "k2")
			q.KV = mapShape(r.Intn(3), "k", fmt.Sprintf("v%d", n))
			a.Req = q
		}
	}
	groups := func(cs ...*workflow.Checks) {
		for _, c := range cs {
			if c != nil {
				for _, a := range c.Actions {
					each(a)
				}
			}
		}
	}
	groups(p.BypassChecks, p.PreChecks, p.ContChecks, p.PostChecks, p.DeferredChecks)
	for _, b := range p.Blocks {
		if b == nil {
			continue
		}
		groups(b.BypassChecks, b.PreChecks, b.ContChecks, b.PostChecks, b.DeferredChecks)
		for _, q := range b.Sequences {
			if q != nil {
				for _, a := range q.Actions {
					each(a)
				}
			}
		}
	}
	return ShapeNames[mk]
}
