package c18x

import (
	"fmt"
	"reflect"
	"sort"
	"strings"
	"time"

	"github.com/element-of-surprise/coercion/plugins/registry"
)

var (
	timeType     = reflect.TypeOf(time.Time{})
	registerType = reflect.TypeOf((*registry.Register)(nil))
)

// Region is the memory a pointer, a slice backing array or a map designates.
type Region struct {
	Start, Size uintptr
	Kind        string // "ptr", "slice", "map"
	Path        string
}

// Regions collects every non-nil pointer target, slice backing array (capacity > 0, element size > 0) and
// map reachable from v, through exported and unexported fields. Not counted: zero-size targets and
// zero-capacity slices (the runtime may give them one shared address), the immutable payload of strings,
// time.Time (its *Location is a shared immutable global) and the plugin registry pointer of an action.
func Regions(v reflect.Value, path string, out *[]Region) {
	regions(v, path, out, map[uintptr]bool{})
}

func regions(v reflect.Value, path string, out *[]Region, seen map[uintptr]bool) {
	if !v.IsValid() {
		return
	}
	t := v.Type()
	if t == timeType || t == registerType {
		return
	}
	switch v.Kind() {
	case reflect.Ptr:
		if v.IsNil() {
			return
		}
		p := v.Pointer()
		if sz := t.Elem().Size(); sz > 0 {
			*out = append(*out, Region{p, sz, "ptr", path})
		}
		if seen[p] {
			return
		}
		seen[p] = true
		regions(v.Elem(), path+".*", out, seen)
	case reflect.Interface:
		if v.IsNil() {
			return
		}
		regions(v.Elem(), path+".(any)", out, seen)
	case reflect.Struct:
		for i := 0; i < v.NumField(); i++ {
			regions(v.Field(i), path+"."+t.Field(i).Name, out, seen)
		}
	case reflect.Slice:
		if v.IsNil() {
			return
		}
		if es := t.Elem().Size(); v.Cap() > 0 && es > 0 {
			*out = append(*out, Region{v.Pointer(), uintptr(v.Cap()) * es, "slice", path})
		}
		for i := 0; i < v.Len(); i++ {
			regions(v.Index(i), fmt.Sprintf("%s[%d]", path, i), out, seen)
		}
	case reflect.Array:
		for i := 0; i < v.Len(); i++ {
			regions(v.Index(i), fmt.Sprintf("%s[%d]", path, i), out, seen)
		}
	case reflect.Map:
		if v.IsNil() {
			return
		}
		*out = append(*out, Region{v.Pointer(), 1, "map", path})
		for _, k := range sortedKeys(v) {
			regions(k, path+".key", out, seen)
			regions(v.MapIndex(k), fmt.Sprintf("%s[%s]", path, keyString(k)), out, seen)
		}
	}
}

func keyString(k reflect.Value) string {
	var sb strings.Builder
	dump(k, "", &sb, true)
	return strings.TrimSpace(sb.String())
}

func sortedKeys(m reflect.Value) []reflect.Value {
	ks := m.MapKeys()
	sort.Slice(ks, func(i, j int) bool { return keyString(ks[i]) < keyString(ks[j]) })
	return ks
}

// Overlap returns a description of the first pair of overlapping regions of a and b ("" if none).
func Overlap(a, b []Region) string {
	bs := append([]Region(nil), b...)
	sort.Slice(bs, func(i, j int) bool { return bs[i].Start < bs[j].Start })
	for _, x := range a {
		// few regions: a linear scan with early exit is fine
		for _, y := range bs {
			if y.Start >= x.Start+x.Size {
				break
			}
			if x.Start < y.Start+y.Size && y.Start < x.Start+x.Size {
				return fmt.Sprintf("%s %s and %s %s share memory", x.Kind, x.Path, y.Kind, y.Path)
			}
		}
	}
	return ""
}

// Dump renders everything reachable from v as path = value lines (addresses never appear), so that two
// dumps are equal exactly when nothing observable changed.
func Dump(v any) string {
	var sb strings.Builder
	dump(reflect.ValueOf(v), "$", &sb, false)
	return sb.String()
}

func dump(v reflect.Value, path string, sb *strings.Builder, inline bool) {
	line := func(s string) {
		if inline {
			sb.WriteString(s + " ")
		} else {
			sb.WriteString(path + " = " + s + "\n")
		}
	}
	if !v.IsValid() {
		line("invalid")
		return
	}
	t := v.Type()
	if t == registerType {
		line(fmt.Sprintf("register nil=%v", v.IsNil()))
		return
	}
	if t == timeType && v.CanInterface() {
		tm := v.Interface().(time.Time)
		line(fmt.Sprintf("time zero=%v unixnano=%d", tm.IsZero(), tm.UnixNano()))
		return
	}
	switch v.Kind() {
	case reflect.Ptr:
		if v.IsNil() {
			line("nil ptr")
			return
		}
		line("ptr")
		dump(v.Elem(), path+".*", sb, inline)
	case reflect.Interface:
		if v.IsNil() {
			line("nil iface")
			return
		}
		line("iface " + v.Elem().Type().String())
		dump(v.Elem(), path+".(any)", sb, inline)
	case reflect.Struct:
		for i := 0; i < v.NumField(); i++ {
			f := t.Field(i)
			if t == timeType && f.Name == "loc" {
				continue
			}
			dump(v.Field(i), path+"."+f.Name, sb, inline)
		}
	case reflect.Slice:
		if v.IsNil() {
			line("nil slice")
			return
		}
		line(fmt.Sprintf("slice len=%d", v.Len()))
		for i := 0; i < v.Len(); i++ {
			dump(v.Index(i), fmt.Sprintf("%s[%d]", path, i), sb, inline)
		}
		// the rest of the backing array: what an append within capacity by somebody sharing it would write
		if v.Cap() > v.Len() && !inline {
			full := v.Slice(0, v.Cap())
			for i := v.Len(); i < v.Cap(); i++ {
				dump(full.Index(i), fmt.Sprintf("%s[spare %d]", path, i), sb, inline)
			}
		}
	case reflect.Array:
		for i := 0; i < v.Len(); i++ {
			dump(v.Index(i), fmt.Sprintf("%s[%d]", path, i), sb, inline)
		}
	case reflect.Map:
		if v.IsNil() {
			line("nil map")
			return
		}
		line(fmt.Sprintf("map len=%d", v.Len()))
		for _, k := range sortedKeys(v) {
			dump(v.MapIndex(k), fmt.Sprintf("%s[%s]", path, keyString(k)), sb, inline)
		}
	case reflect.String:
		line(fmt.Sprintf("%q", v.String()))
	case reflect.Bool:
		line(fmt.Sprint(v.Bool()))
	case reflect.Int, reflect.Int8, reflect.Int16, reflect.Int32, reflect.Int64:
		line(fmt.Sprint(v.Int()))
	case reflect.Uint, reflect.Uint8, reflect.Uint16, reflect.Uint32, reflect.Uint64, reflect.Uintptr:
		line(fmt.Sprint(v.Uint()))
	case reflect.Float32, reflect.Float64:
		line(fmt.Sprint(v.Float()))
	default:
		line("kind " + v.Kind().String())
	}
}

// FirstDiff returns the first line on which two dumps differ ("" if equal).
func FirstDiff(a, b string) string {
	if a == b {
		return ""
	}
	la, lb := strings.Split(a, "\n"), strings.Split(b, "\n")
	for i := 0; i < len(la) && i < len(lb); i++ {
		if la[i] != lb[i] {
			return fmt.Sprintf("was %q now %q", la[i], lb[i])
		}
	}
	return fmt.Sprintf("dump length changed: %d lines, now %d", len(la), len(lb))
}

// MutateAll changes every piece of mutable memory reachable from v: every settable scalar, every
// element of every slice (scalars changed, pointers / interfaces / slices / maps overwritten with nil after
// what they designate has been changed), every slot of a backing array between len and cap (what an append
// within capacity writes), every map (values changed, one entry added). It returns how many
// writes it made. Whatever shares memory with v sees at least one of these writes.
func MutateAll(v any) int {
	n := 0
	mutate(reflect.ValueOf(v), &n, map[uintptr]bool{})
	return n
}

func mutated(v reflect.Value) (reflect.Value, bool) {
	t := v.Type()
	if t == timeType && v.CanInterface() {
		return reflect.ValueOf(v.Interface().(time.Time).Add(time.Hour)), true
	}
	n := reflect.New(t).Elem()
	switch v.Kind() {
	case reflect.String:
		n.SetString(v.String() + "~")
	case reflect.Bool:
		n.SetBool(!v.Bool())
	case reflect.Int, reflect.Int8, reflect.Int16, reflect.Int32, reflect.Int64:
		n.SetInt(v.Int() + 1)
	case reflect.Uint, reflect.Uint8, reflect.Uint16, reflect.Uint32, reflect.Uint64, reflect.Uintptr:
		n.SetUint(v.Uint() + 1)
	case reflect.Float32, reflect.Float64:
		n.SetFloat(v.Float() + 1)
	default:
		return n, false
	}
	return n, true
}

func mutate(v reflect.Value, n *int, seen map[uintptr]bool) {
	if !v.IsValid() {
		return
	}
	t := v.Type()
	if t == registerType {
		return
	}
	if t == timeType {
		if v.CanSet() {
			m, _ := mutated(v)
			v.Set(m)
			*n++
		}
		return
	}
	switch v.Kind() {
	case reflect.Ptr:
		if v.IsNil() || seen[v.Pointer()] {
			return
		}
		seen[v.Pointer()] = true
		mutate(v.Elem(), n, seen)
	case reflect.Interface:
		if v.IsNil() {
			return
		}
		mutate(v.Elem(), n, seen)
	case reflect.Struct:
		for i := 0; i < v.NumField(); i++ {
			mutate(v.Field(i), n, seen)
		}
	case reflect.Array:
		for i := 0; i < v.Len(); i++ {
			mutate(v.Index(i), n, seen)
		}
	case reflect.Slice:
		for i := 0; i < v.Len(); i++ {
			e := v.Index(i)
			mutate(e, n, seen)
			switch e.Kind() {
			case reflect.Ptr, reflect.Interface, reflect.Slice, reflect.Map:
				if e.CanSet() && !e.IsNil() {
					e.Set(reflect.Zero(e.Type()))
					*n++
				}
			}
		}
		// append within capacity: write every slot of the backing array beyond len
		if v.Cap() > v.Len() {
			full := v.Slice(0, v.Cap())
			for i := v.Len(); i < v.Cap(); i++ {
				e := full.Index(i)
				if !e.CanSet() {
					continue
				}
				if m, ok := mutated(e); ok {
					e.Set(m)
					*n++
					continue
				}
				switch e.Kind() {
				case reflect.Ptr:
					e.Set(reflect.New(e.Type().Elem()))
					*n++
				case reflect.Slice:
					e.Set(reflect.MakeSlice(e.Type(), 1, 1))
					*n++
				case reflect.Map:
					e.Set(reflect.MakeMap(e.Type()))
					*n++
				case reflect.Interface:
					if x := reflect.ValueOf("~appended"); x.Type().AssignableTo(e.Type()) {
						e.Set(x)
						*n++
					}
				case reflect.Struct:
					mutate(e, n, seen)
				}
			}
		}
	case reflect.Map:
		if v.IsNil() {
			return
		}
		ro := false
		func() {
			defer func() {
				if recover() != nil {
					ro = true
				}
			}()
			for _, k := range sortedKeys(v) {
				e := v.MapIndex(k)
				mutate(e, n, seen)
				if m, ok := mutated(e); ok {
					v.SetMapIndex(k, m)
					*n++
				}
			}
			if t.Key().Kind() == reflect.String {
				k := reflect.New(t.Key()).Elem()
				k.SetString("~added")
				v.SetMapIndex(k, reflect.Zero(t.Elem()))
				*n++
			}
		}()
		_ = ro
	default:
		if v.CanSet() {
			if m, ok := mutated(v); ok {
				v.Set(m)
				*n++
			}
		}
	}
}
