package c18x

import (
	"reflect"
	"unsafe"

	"verifharness/core"
	"verifharness/plancoq"

	"github.com/element-of-surprise/coercion/plugins"
	"github.com/element-of-surprise/coercion/workflow"
)

// Labels interns addresses of one case: equal label <-> equal address. Allocations that occupy no memory
// (zero-capacity slices) get a label of their own.
type Labels struct {
	m    map[uintptr]int
	next int
}

func NewLabels() *Labels { return &Labels{m: map[uintptr]int{}, next: 1} }

func (l *Labels) Of(p uintptr) string {
	if v, ok := l.m[p]; ok {
		return core.Nat(v)
	}
	v := l.next
	l.next++
	l.m[p] = v
	return core.Nat(v)
}

func (l *Labels) Fake() string {
	v := l.next
	l.next++
	return core.Nat(v)
}

func (l *Labels) Count() int { return l.next - 1 }

// LP prints labelled terms of Coercion.Clone.CloneLoc. The leaves are abstracted by plancoq.
type LP struct {
	Cx   *plancoq.Ctx
	Lab  *Labels
	msgs map[string]uint64
	// Addrs collects every address that went into a term since the last Reset (for the cross-check
	// against the generic reflect walk).
	Addrs map[uintptr]bool
}

func NewLP(cx *plancoq.Ctx, lab *Labels) *LP {
	return &LP{Cx: cx, Lab: lab, msgs: map[string]uint64{}, Addrs: map[uintptr]bool{}}
}

func (p *LP) Reset() { p.Addrs = map[uintptr]bool{} }

func (p *LP) at(a uintptr) string {
	p.Addrs[a] = true
	return p.Lab.Of(a)
}

func (p *LP) ptr(x unsafe.Pointer) string { return p.at(uintptr(x)) }

// LBlob: an `any` value with the labels of every pointer / slice / map node inside it.
func (p *LP) LBlob(v any) string {
	var rs []Region
	if v != nil {
		Regions(reflect.ValueOf(v), "", &rs)
	}
	ls := make([]string, len(rs))
	for i, r := range rs {
		ls[i] = p.at(r.Start)
	}
	return core.App("Build_lblob", p.Cx.Blob(v), core.List(ls))
}

// LMeta abstracts Plan.Meta exactly as to nil-ness: nil is (true,true,0,0), the empty non-nil slice
// (false,true,0,0), a non-empty one plancoq's Bytes (index >= 1). The label is that of the backing array,
// which exists whenever the capacity is positive - also for an empty slice such as buf[:0].
func (p *LP) LMeta(b []byte) string {
	var ls []string
	if cap(b) > 0 {
		ls = append(ls, p.ptr(unsafe.Pointer(unsafe.SliceData(b))))
	}
	v := p.Cx.Bytes(b)
	switch {
	case b == nil:
		v = "(Build_blob true true 0%N 0%N)"
	case len(b) == 0:
		v = "(Build_blob false true 0%N 0%N)"
	}
	return core.App("Build_lblob", v, core.List(ls))
}

func (p *LP) LState(s *workflow.State) string {
	if s == nil {
		return "None"
	}
	st := core.App("Build_state", plancoq.Status(s.Status), plancoq.Time(s.Start), plancoq.Time(s.End))
	return core.Some(core.App("Build_lstate", p.ptr(unsafe.Pointer(s)), st))
}

func (p *LP) lerr(e *plugins.Error) string {
	w := "None"
	if e.Wrapped != nil {
		w = core.Some(p.lerr(e.Wrapped))
	}
	m, ok := p.msgs[e.Message]
	if !ok {
		m = uint64(len(p.msgs) + 1)
		p.msgs[e.Message] = m
	}
	return core.App("LPErr", p.ptr(unsafe.Pointer(e)), core.N(uint64(e.Code)), core.N(m), core.B(e.Permanent), w)
}

func (p *LP) LAttempt(a *workflow.Attempt) string {
	e := "None"
	if a.Err != nil {
		e = core.Some(p.lerr(a.Err))
	}
	return core.App("Build_lattempt", p.ptr(unsafe.Pointer(a)), p.LBlob(a.Resp), e, plancoq.Time(a.Start), plancoq.Time(a.End))
}

// slice prints an lslice: None for nil, Some (label, elements) otherwise.
func slice[T any](p *LP, xs []T, elem func(T) string) string {
	if xs == nil {
		return "None"
	}
	var l string
	if cap(xs) > 0 {
		l = p.ptr(unsafe.Pointer(unsafe.SliceData(xs)))
	} else {
		l = p.Lab.Fake()
	}
	es := make([]string, len(xs))
	for i, x := range xs {
		es[i] = elem(x)
	}
	return core.Some(core.Pair(l, core.List(es)))
}

func (p *LP) LAction(a *workflow.Action) string {
	reg := "None"
	if p.Cx.Look != nil {
		if r, chk, acc := p.Cx.Look(a.Plugin, a.Req); r {
			reg = core.Some(core.Pair(core.B(chk), core.B(acc)))
		}
	}
	return core.App("Build_laction", p.ptr(unsafe.Pointer(a)),
		p.Cx.Uid(a.ID), p.Cx.Uid(a.Key), p.Cx.Tok(a.Name), p.Cx.Tok(a.Descr), p.Cx.Tok(a.Plugin),
		core.Z(int64(a.Timeout)), core.Z(int64(a.Retries)), p.LBlob(a.Req),
		slice(p, a.Attempts, p.LAttempt), p.LState(a.State), reg)
}

func (p *LP) optAction(a *workflow.Action) string {
	if a == nil {
		return "None"
	}
	return core.Some(p.LAction(a))
}

func (p *LP) LChecks(c *workflow.Checks) string {
	return core.App("Build_lchecks", p.ptr(unsafe.Pointer(c)), p.Cx.Uid(c.ID), p.Cx.Uid(c.Key), core.Z(int64(c.Delay)),
		slice(p, c.Actions, p.optAction), p.LState(c.State))
}

func (p *LP) optChecks(c *workflow.Checks) string {
	if c == nil {
		return "None"
	}
	return core.Some(p.LChecks(c))
}

func (p *LP) LSequence(s *workflow.Sequence) string {
	return core.App("Build_lsequence", p.ptr(unsafe.Pointer(s)), p.Cx.Uid(s.ID), p.Cx.Uid(s.Key), p.Cx.Tok(s.Name), p.Cx.Tok(s.Descr),
		slice(p, s.Actions, p.optAction), p.LState(s.State))
}

func (p *LP) optSequence(s *workflow.Sequence) string {
	if s == nil {
		return "None"
	}
	return core.Some(p.LSequence(s))
}

func (p *LP) LBlock(b *workflow.Block) string {
	return core.App("Build_lblock", p.ptr(unsafe.Pointer(b)), p.Cx.Uid(b.ID), p.Cx.Uid(b.Key), p.Cx.Tok(b.Name), p.Cx.Tok(b.Descr),
		core.Z(int64(b.EntranceDelay)), core.Z(int64(b.ExitDelay)),
		p.optChecks(b.BypassChecks), p.optChecks(b.PreChecks), p.optChecks(b.ContChecks), p.optChecks(b.PostChecks), p.optChecks(b.DeferredChecks),
		slice(p, b.Sequences, p.optSequence), core.Z(int64(b.Concurrency)), core.Z(int64(b.ToleratedFailures)), p.LState(b.State))
}

func (p *LP) optBlock(b *workflow.Block) string {
	if b == nil {
		return "None"
	}
	return core.Some(p.LBlock(b))
}

func (p *LP) LPlan(x *workflow.Plan) string {
	return core.App("Build_lplan", p.ptr(unsafe.Pointer(x)), p.Cx.Uid(x.ID), p.Cx.Uid(x.GroupID), p.Cx.Tok(x.Name), p.Cx.Tok(x.Descr), p.LMeta(x.Meta),
		p.optChecks(x.BypassChecks), p.optChecks(x.PreChecks), p.optChecks(x.ContChecks), p.optChecks(x.PostChecks), p.optChecks(x.DeferredChecks),
		slice(p, x.Blocks, p.optBlock), p.LState(x.State), plancoq.Time(x.SubmitTime), plancoq.Reason(x.Reason))
}

// LObj prints the lobj term of a workflow object (nil pointers of any kind give "").
func (p *LP) LObj(o workflow.Object) string {
	switch x := o.(type) {
	case *workflow.Plan:
		if x != nil {
			return core.App("LPlan", p.LPlan(x))
		}
	case *workflow.Block:
		if x != nil {
			return core.App("LBlock", p.LBlock(x))
		}
	case *workflow.Sequence:
		if x != nil {
			return core.App("LSeq", p.LSequence(x))
		}
	case *workflow.Checks:
		if x != nil {
			return core.App("LChecks", p.LChecks(x))
		}
	case *workflow.Action:
		if x != nil {
			return core.App("LAction", p.LAction(x))
		}
	}
	return ""
}
