// Package hplug holds the plugins the harness registers. They are the harness's own code
// (independent of the code under test): what they accept and return is known by construction.
package hplug

import (
	"fmt"
	"sync"
	"time"

	"github.com/element-of-surprise/coercion/plugins"
	"github.com/element-of-surprise/coercion/plugins/registry"
	"github.com/element-of-surprise/coercion/workflow/context"
	"github.com/gostdlib/base/retry/exponential"
)

const (
	ActionName = "verif/action"
	CheckName  = "verif/check"
	AltName    = "verif/alt" // second action plugin with value-typed request/response
)

// Req is the request type of ActionName and CheckName.
type Req struct {
	Nonce string            // plan nonce: attributes plugin events to a case
	Path  string            // tree path of the action
	Arg   int64
	Tags  []string
	KV    map[string]string
	// Bad makes ValidateReq reject the request.
	Bad bool
}

// Resp is the response type of ActionName and CheckName (returned as a pointer? no: as a value).
type Resp struct {
	Path  string
	Value int64
	Items []string
}

// AltReq / AltResp are the types of AltName; responses are pointers there.
type AltReq struct {
	Nonce string
	Path  string
	N     int
}
type AltResp struct {
	Echo string
	M    map[string]int
}

// Behaviour lets an engine harness script what Execute does. nil = succeed at once.
type Behaviour func(ctx context.Context, p *Plugin, req any) (any, *plugins.Error)

type Plugin struct {
	name    string
	isCheck bool
	kind    int // 0 = Req/Resp, 1 = AltReq/*AltResp

	mu sync.Mutex
	be Behaviour
}

func NewAction() *Plugin { return &Plugin{name: ActionName} }
func NewCheck() *Plugin  { return &Plugin{name: CheckName, isCheck: true} }
func NewAlt() *Plugin    { return &Plugin{name: AltName, kind: 1} }

func (p *Plugin) SetBehaviour(b Behaviour) { p.mu.Lock(); p.be = b; p.mu.Unlock() }

func (p *Plugin) Name() string { return p.name }

func (p *Plugin) Execute(ctx context.Context, req any) (any, *plugins.Error) {
	p.mu.Lock()
	b := p.be
	p.mu.Unlock()
	if b != nil {
		return b(ctx, p, req)
	}
	return p.OKResp(req), nil
}

// OKResp is a well-typed response for req.
func (p *Plugin) OKResp(req any) any {
	if p.kind == 1 {
		r, _ := req.(AltReq)
		return &AltResp{Echo: r.Path}
	}
	r, _ := req.(Req)
	return Resp{Path: r.Path, Value: r.Arg}
}

func (p *Plugin) ValidateReq(req any) error {
	if p.kind == 1 {
		if _, ok := req.(AltReq); !ok {
			return fmt.Errorf("want AltReq, got %T", req)
		}
		return nil
	}
	r, ok := req.(Req)
	if !ok {
		return fmt.Errorf("want Req, got %T", req)
	}
	if r.Bad {
		return fmt.Errorf("request marked bad")
	}
	return nil
}

func (p *Plugin) Request() any {
	if p.kind == 1 {
		return AltReq{}
	}
	return Req{}
}

func (p *Plugin) Response() any {
	if p.kind == 1 {
		return &AltResp{}
	}
	return Resp{}
}

func (p *Plugin) IsCheck() bool { return p.isCheck }

func (p *Plugin) RetryPolicy() exponential.Policy {
	return exponential.Policy{
		InitialInterval:     100 * time.Microsecond,
		Multiplier:          1.1,
		RandomizationFactor: 0,
		MaxInterval:         time.Millisecond,
	}
}

func (p *Plugin) Init() error { return nil }

// Set is the standard registry of the harness.
type Set struct {
	Reg    *registry.Register
	Action *Plugin
	Check  *Plugin
	Alt    *Plugin
}

func NewSet() *Set {
	s := &Set{Reg: registry.New(), Action: NewAction(), Check: NewCheck(), Alt: NewAlt()}
	s.Reg.MustRegister(s.Action)
	s.Reg.MustRegister(s.Check)
	s.Reg.MustRegister(s.Alt)
	return s
}

// Accepts says, from the harness's own knowledge (not through the code under test), whether the plugin
// registered under name exists, is a check plugin, and accepts req.
func (s *Set) Lookup(name string, req any) (registered, isCheck, accepts bool) {
	var p *Plugin
	switch name {
	case ActionName:
		p = s.Action
	case CheckName:
		p = s.Check
	case AltName:
		p = s.Alt
	default:
		return false, false, false
	}
	return true, p.isCheck, p.ValidateReq(req) == nil
}
