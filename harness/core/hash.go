package core

import (
	"crypto/sha256"
	"encoding/hex"
)

func Hash(parts ...string) string {
	h := sha256.New()
	for _, p := range parts {
		h.Write([]byte(p))
		h.Write([]byte{0})
	}
	return hex.EncodeToString(h.Sum(nil))[:16]
}
