package core

import (
	"fmt"
	"strconv"
	"strings"
)

// Coq term printing helpers. Terms are constructor applications with small numerals
// (measured: the fastest encoding for vm_compute).

func B(b bool) string {
	if b {
		return "true"
	}
	return "false"
}

// Nat prints a nat numeral (keep them small: indices, counts).
func Nat(n int) string { return strconv.Itoa(n) }

// N prints a binary natural with scope.
func N(n uint64) string { return strconv.FormatUint(n, 10) + "%N" }

// Z prints an integer with scope.
func Z(n int64) string { return "(" + strconv.FormatInt(n, 10) + ")%Z" }

func List(xs []string) string { return "[" + strings.Join(xs, "; ") + "]" }

func Some(x string) string { return "(Some " + x + ")" }

func Opt(present bool, x string) string {
	if !present {
		return "None"
	}
	return Some(x)
}

func Pair(a, b string) string { return "(" + a + ", " + b + ")" }

// App prints (f a b c).
func App(f string, args ...string) string {
	if len(args) == 0 {
		return f
	}
	return "(" + f + " " + strings.Join(args, " ") + ")"
}

// Rec prints a record with the Build_ constructor (positional; callers keep field order).
func Rec(ctor string, fields ...string) string { return App(ctor, fields...) }

func Sprintf(f string, a ...any) string { return fmt.Sprintf(f, a...) }
