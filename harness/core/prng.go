// Package core holds what every harness binary shares: the PRNG every random
// choice derives from, the Coq term printer, the JSONL case writer.
package core

import (
	"os"
	"strconv"
)

// Rand is SplitMix64. Every random choice of a harness run derives from one
// state seeded by VERIF_SEED, so that a case index + seed replays exactly.
type Rand struct{ s uint64 }

func NewRand(seed uint64) *Rand { return &Rand{s: seed} }

// Seed returns VERIF_SEED (default 1).
func Seed() uint64 {
	if v := os.Getenv("VERIF_SEED"); v != "" {
		if n, err := strconv.ParseUint(v, 10, 64); err == nil {
			return n
		}
		if n, err := strconv.ParseInt(v, 10, 64); err == nil {
			return uint64(n)
		}
	}
	return 1
}

func (r *Rand) Uint64() uint64 {
	r.s += 0x9e3779b97f4a7c15
	z := r.s
	z = (z ^ (z >> 30)) * 0xbf58476d1ce4e5b9
	z = (z ^ (z >> 27)) * 0x94d049bb133111eb
	return z ^ (z >> 31)
}

// Fork derives an independent generator (for case i) without disturbing the stream order of others.
func (r *Rand) Fork(i uint64) *Rand {
	return &Rand{s: r.s ^ (0xd1342543de82ef95 * (i + 1))}
}

// Intn returns a value in [0,n).
func (r *Rand) Intn(n int) int {
	if n <= 0 {
		return 0
	}
	return int(r.Uint64() % uint64(n))
}

// Range returns a value in [lo,hi].
func (r *Rand) Range(lo, hi int) int { return lo + r.Intn(hi-lo+1) }

// Chance is true with probability p.
func (r *Rand) Chance(p float64) bool { return float64(r.Uint64()>>11)/float64(1<<53) < p }

// Pick returns a uniformly chosen index weighted by w.
func (r *Rand) Weighted(w []int) int {
	t := 0
	for _, x := range w {
		t += x
	}
	k := r.Intn(t)
	for i, x := range w {
		if k < x {
			return i
		}
		k -= x
	}
	return len(w) - 1
}
