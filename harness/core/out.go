package core

import (
	"bufio"
	"encoding/json"
	"os"
	"sync"
)

// Case is one line of harness output. Coq is the term that cases.v will contain for it
// (input and projected observation); everything else is for evidence, replay and triage.
type Case struct {
	ID         string         `json:"id"`                   // stable within (seed, tier): "<kind>-<index>"
	Kind       string         `json:"kind"`                 // generator family
	Coq        string         `json:"coq"`                  // Coq term of the model-side case type
	Nontrivial bool           `json:"nontrivial"`           // by the property's stated rule
	Hash       string         `json:"hash"`                 // hash of (input, projected observation) for distinct counting
	Dist       map[string]any `json:"dist,omitempty"`       // input-distribution facts (sizes, kinds)
	Input      any            `json:"input,omitempty"`      // human-readable input (replay)
	Observed   any            `json:"observed,omitempty"`   // human-readable observation
	Note       string         `json:"note,omitempty"`
}

type Writer struct {
	mu sync.Mutex
	w  *bufio.Writer
	f  *os.File
}

func NewWriter(path string) (*Writer, error) {
	if path == "" || path == "-" {
		return &Writer{w: bufio.NewWriterSize(os.Stdout, 1<<20)}, nil
	}
	f, err := os.Create(path)
	if err != nil {
		return nil, err
	}
	return &Writer{w: bufio.NewWriterSize(f, 1<<20), f: f}, nil
}

func (w *Writer) Put(c Case) {
	b, err := json.Marshal(c)
	if err != nil {
		panic(err)
	}
	w.mu.Lock()
	w.w.Write(b)
	w.w.WriteByte('\n')
	w.mu.Unlock()
}

func (w *Writer) Close() {
	w.mu.Lock()
	defer w.mu.Unlock()
	w.w.Flush()
	if w.f != nil {
		w.f.Close()
	}
}
